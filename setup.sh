#!/bin/sh
# MANIFEST.setup_cmd — build the framework from files on disk only (offline).
set -e
cd "$(dirname "$0")"
export GOFLAGS=-mod=mod GOPROXY=off GOSUMDB=off GOTOOLCHAIN=local CGO_ENABLED=0
mkdir -p build evidence/replay
# 1. regenerate facts from the source tree so that the Lean project is complete
(cd translator && go build -o ../build/translator-setup . )
./build/translator-setup -repo "${VERIF_REPO:-/repo}" -out lean/ComposeVerif/Gen
# 2. Lean: every model, spec, lemma and property theorem, plus the line-protocol driver
MODS=$(cd lean && ls ComposeVerif/Props/*.lean ComposeVerif/Neg/*.lean 2>/dev/null | sed 's/\.lean$//; s|/|.|g')
(cd lean && lake build ComposeVerif driver ComposeVerif.Lemmas.AuditCmd $MODS)
# 3. harness against the tree as it is now (checks rebuild it on every run anyway)
cp "${VERIF_REPO:-/repo}/go.sum" harness/go.sum
(cd harness && go build -tags verif -o ../build/harness-setup . )
echo setup ok
