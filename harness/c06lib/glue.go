package c06lib

// Round-5 runners: the glue around include.go — dotenv.GetEnvFromFile on a temporary tree and Options.clone().

import (
	"os"
	"reflect"
	"sort"

	"github.com/compose-spec/compose-go/v2/dotenv"
	interp "github.com/compose-spec/compose-go/v2/interpolation"
	"github.com/compose-spec/compose-go/v2/loader"
)

// EnvFileArgs is one call of dotenv.GetEnvFromFile(cur, names) on a directory tree.
type EnvFileArgs struct {
	Files map[string]string     `json:"files"`          // path relative to the root → text
	Dirs  []string              `json:"dirs,omitempty"` // extra (empty) directories
	Envs  map[string][][]string `json:"envs"`           // "/ROOT/…" → dotenv entries, file order — what the model reads
	Docs  map[string][]any      `json:"docs,omitempty"` // always empty (the model's tree wants the key)
	Cur   map[string]string     `json:"cur"`
	Names []string              `json:"names"` // "/ROOT/…" or relative (to the process working directory: never exists)
}

// RealEnvFromFile runs dotenv.GetEnvFromFile.
func RealEnvFromFile(a EnvFileArgs) any {
	root, err := MaterializeTree(a.Files, a.Dirs)
	defer os.RemoveAll(root)
	if err != nil {
		return map[string]any{"bad": err.Error()}
	}
	cur := map[string]string{}
	for k, v := range a.Cur {
		cur[k] = v
	}
	var names []string
	for _, n := range a.Names {
		names = append(names, subst(n, Root, root))
	}
	before := len(cur)
	m, err := dotenv.GetEnvFromFile(cur, names)
	if err != nil {
		return map[string]any{"err": ErrClass(err)}
	}
	if len(cur) != before {
		return map[string]any{"bad": "GetEnvFromFile changed the current environment"}
	}
	out := map[string]any{}
	for k, v := range m {
		out[k] = subst(v, root, Root)
	}
	return map[string]any{"ok": out}
}

// OptionFlags are the boolean fields of loader.Options by Go name; the three unexported fields go through the hook.
var OptionFlags = []string{"SkipValidation", "SkipInterpolation", "SkipNormalization", "ResolvePaths", "ConvertWindowsPaths",
	"SkipConsistencyCheck", "SkipExtends", "SkipInclude", "SkipResolveEnvironment", "SkipDefaultValues", "discardEnvFiles", "projectNameImperativelySet"}

// CloneArgs is one option set handed to Options.clone().
type CloneArgs struct {
	Flags       map[string]bool `json:"flags"`
	ProjectName string          `json:"project_name"`
	Profiles    []string        `json:"profiles"`
}

// RealClone builds the options, clones them and reads every field of the clone back.
func RealClone(a CloneArgs) any {
	o := &loader.Options{Interpolate: &interp.Options{}, KnownExtensions: map[string]any{"x-k": 1},
		Listeners: []loader.Listener{func(string, map[string]any) {}}}
	ov := reflect.ValueOf(o).Elem()
	seen := map[string]bool{}
	for _, n := range OptionFlags {
		seen[n] = true
		if f := ov.FieldByName(n); f.IsValid() && f.CanSet() && f.Kind() == reflect.Bool {
			f.SetBool(a.Flags[n])
		}
	}
	loader.VerifC06SetUnexported(o, a.Flags["discardEnvFiles"], a.ProjectName, a.Flags["projectNameImperativelySet"])
	o.Profiles = a.Profiles
	c := loader.VerifC06Clone(o)
	cv := reflect.ValueOf(c).Elem()
	flags := map[string]any{}
	for _, n := range OptionFlags {
		if f := cv.FieldByName(n); f.IsValid() && f.CanInterface() && f.Kind() == reflect.Bool {
			flags[n] = f.Bool()
		}
	}
	d, pn, imp := loader.VerifC06Unexported(c)
	flags["discardEnvFiles"], flags["projectNameImperativelySet"] = d, imp
	profiles := []any{}
	for _, p := range c.Profiles {
		profiles = append(profiles, p)
	}
	// the four reference fields: the clone must hold the same objects
	refs := map[string]any{
		"Interpolate":     c.Interpolate == o.Interpolate,
		"KnownExtensions": reflect.ValueOf(c.KnownExtensions).Pointer() == reflect.ValueOf(o.KnownExtensions).Pointer(),
		"Listeners":       len(c.Listeners) == len(o.Listeners) && len(c.Listeners) > 0 && &c.Listeners[0] == &o.Listeners[0],
		"ResourceLoaders": len(c.ResourceLoaders) == len(o.ResourceLoaders),
	}
	// every field of the struct must be one this runner knows (a new field must be added to the model)
	var unknown []string
	t := ov.Type()
	for i := 0; i < t.NumField(); i++ {
		n := t.Field(i).Name
		if !seen[n] && n != "projectName" && n != "Profiles" && refs[n] == nil {
			unknown = append(unknown, n)
		}
	}
	sort.Strings(unknown)
	res := map[string]any{"flags": flags, "project_name": pn, "profiles": profiles, "refs": refs}
	if len(unknown) > 0 {
		res["unknown_fields"] = unknown
	}
	return res
}
