// Package c06lib holds the real-code runners of property C06 (include ≡ paste):
// thin drivers around loader.ApplyInclude and whole loads on temporary directory trees.
// All absolute paths travel on the wire with the symbolic root "/ROOT"; the runners
// substitute the temporary directory on the way in and put "/ROOT" back on the way out.
package c06lib

import (
	"bytes"
	"context"
	"errors"
	"io"
	"os"
	"reflect"
	"regexp"
	"sort"
	"strings"

	"github.com/compose-spec/compose-go/v2/loader"
	"github.com/compose-spec/compose-go/v2/types"
	"gopkg.in/yaml.v3"

	"verifharness/core"
)

const Root = "/ROOT"

// ApplyArgs is one call of loader.ApplyInclude on a directory tree.
type ApplyArgs struct {
	Files map[string]string     `json:"files"`          // path relative to the root → text
	Dirs  []string              `json:"dirs,omitempty"` // extra (empty) directories
	Docs  map[string][]any      `json:"docs"`           // "/ROOT/…" → YAML documents (tagged trees) — what the model reads
	Envs  map[string][][]string `json:"envs,omitempty"` // "/ROOT/…" → dotenv entries, file order — what the model reads
	WD    string                `json:"wd"`             // workingDir argument (absolute "/ROOT/…" or relative, as in nested includes)
	LWD   string                `json:"lwd"`            // WorkingDir of the local resource loader in the options
	Env   map[string]string     `json:"env"`
	Model any                   `json:"model"` // tagged tree of the including document (after interpolation)
	Chain []string              `json:"chain"` // `included`
	// SkipValidation loads without schema validation: an included file may then hand a non-mapping section to importResources
	SkipValidation bool `json:"skip_validation,omitempty"`
}

func subst(s, from, to string) string { return strings.ReplaceAll(s, from, to) }

// SubstTree replaces from by to in every string (keys included) of a YAML tree.
func SubstTree(v any, from, to string) any {
	switch x := v.(type) {
	case string:
		return subst(x, from, to)
	case []any:
		l := make([]any, len(x))
		for i, e := range x {
			l[i] = SubstTree(e, from, to)
		}
		return l
	case map[string]any:
		m := make(map[string]any, len(x))
		for k, e := range x {
			m[subst(k, from, to)] = SubstTree(e, from, to)
		}
		return m
	}
	return v
}

// MaterializeTree writes files (with "/ROOT" replaced by the new temporary root) and directories.
func MaterializeTree(files map[string]string, dirs []string) (string, error) {
	root, err := core.Materialize(map[string]string{})
	if err != nil {
		return root, err
	}
	real := make(map[string]string, len(files))
	for k, v := range files {
		real[k] = subst(v, Root, root)
	}
	names := make([]string, 0, len(real))
	for n := range real {
		names = append(names, n)
	}
	sort.Strings(names)
	for _, d := range dirs {
		if err := os.MkdirAll(root+"/"+d, 0o755); err != nil {
			return root, err
		}
	}
	for _, n := range names {
		p := root + "/" + n
		if i := strings.LastIndexByte(p, '/'); i >= 0 {
			if err := os.MkdirAll(p[:i], 0o755); err != nil {
				return root, err
			}
		}
		if err := os.WriteFile(p, []byte(real[n]), 0o644); err != nil {
			return root, err
		}
	}
	return root, nil
}

var errClasses = []struct {
	re    *regexp.Regexp
	class string
}{
	{regexp.MustCompile(`include cycle detected`), "cycle"},
	{regexp.MustCompile(`conflicts with imported resource`), "conflict"},
	{regexp.MustCompile("`include` must be a list"), "notList"},
	{regexp.MustCompile(`^(services|volumes|networks|secrets|configs) must be a mapping$`), "notMapping"},
	{regexp.MustCompile(`failed to read .*env`), "envParse"},
	{regexp.MustCompile(`is not a file`), "notFile"},
	{regexp.MustCompile(`Couldn't find env file`), "envNotFound"},
	{regexp.MustCompile(`is a directory`), "isDir"},
	{regexp.MustCompile(`^stat .*no such file or directory`), "statNotFound"},
	{regexp.MustCompile(`^open .*no such file or directory`), "openNotFound"},
	{regexp.MustCompile(`not a directory`), "notDir"},
	{regexp.MustCompile(`required variable|invalid interpolation format|Invalid template`), "interp"},
	{regexp.MustCompile(`Top-level object must be a mapping`), "topLevel"},
	{regexp.MustCompile(`unexpected type|invalid mount config`), "pathType"},
	{regexp.MustCompile(`yaml:`), "yaml"},
	{regexp.MustCompile(`validating |Additional property|must be a |does not match any of the regexes`), "schema"},
	{regexp.MustCompile(`cannot parse|expected a map|expected type|unconvertible type|decoding|invalid type`), "decode"},
}

// ErrClass maps a loader error text to a small class (most specific first).
func ErrClass(err error) string {
	s := err.Error()
	for _, c := range errClasses {
		if c.re.MatchString(s) {
			return c.class
		}
	}
	return "other"
}

// CheckDocs decodes every YAML file named in docs with yaml.v3 and compares with the tagged trees
// (the harness' own renderings are checked, not assumed).  Returns "" when they agree.
func CheckDocs(root string, docs map[string][]any) string {
	for name, want := range docs {
		b, err := os.ReadFile(subst(name, Root, root))
		if err != nil {
			return "docs: " + name + " not readable"
		}
		dec := yaml.NewDecoder(bytes.NewReader(b))
		var got []any
		for {
			var v any
			err := dec.Decode(&v)
			if errors.Is(err, io.EOF) {
				break
			}
			if err != nil {
				return "docs: " + name + ": " + err.Error()
			}
			got = append(got, SubstTree(v, root, Root))
		}
		if len(got) != len(want) {
			return "docs: " + name + ": document count"
		}
		for i := range got {
			if !reflect.DeepEqual(core.EncodeVal(got[i]), core.EncodeVal(core.DecodeVal(want[i]))) {
				return "docs: " + name + ": yaml.v3 decodes the rendering to a different tree"
			}
		}
	}
	return ""
}

// RealApply runs loader.ApplyInclude.
func RealApply(a ApplyArgs) any {
	root, err := MaterializeTree(a.Files, a.Dirs)
	defer os.RemoveAll(root)
	if err != nil {
		return map[string]any{"bad": err.Error()}
	}
	if why := CheckDocs(root, a.Docs); why != "" {
		return map[string]any{"bad": why}
	}
	env := types.Mapping{}
	for k, v := range a.Env {
		env[k] = subst(v, Root, root)
	}
	model, _ := SubstTree(core.DecodeVal(a.Model), Root, root).(map[string]any)
	if model == nil {
		return map[string]any{"bad": "model is not a mapping"}
	}
	details := types.ConfigDetails{WorkingDir: subst(a.LWD, Root, root), Environment: env}
	opts := loader.VerifToOptions(&details, []func(*loader.Options){func(o *loader.Options) {
		o.SetProjectName("p", true)
		o.SkipValidation = a.SkipValidation
	}})
	var chain []string
	for _, c := range a.Chain {
		chain = append(chain, subst(c, Root, root))
	}
	envBefore := env.Clone()
	chainBefore := append([]string{}, chain...)
	err = loader.ApplyInclude(context.Background(), subst(a.WD, Root, root), env, model, opts, chain)
	// aliasing on the real heap: the caller's environment and include chain belong to the caller (the next include
	// entry, the next document and ResolveEnvironment read them again)
	if !reflect.DeepEqual(env, envBefore) {
		return map[string]any{"bad": "ApplyInclude changed the caller's environment"}
	}
	if len(chain) != len(chainBefore) || (len(chain) > 0 && !reflect.DeepEqual(chain, chainBefore)) {
		return map[string]any{"bad": "ApplyInclude changed the caller's include chain"}
	}
	if err != nil {
		return map[string]any{"err": ErrClass(err), "text": core.ScrubErr(err, root)}
	}
	return map[string]any{"ok": core.EncodeVal(Unroot(model, root))}
}

// Unroot maps the temporary root back to "/ROOT" and its parent directory (reached by paths that climb out of
// the tree with "..") to "/", which is where the same path lands in the model.
func Unroot(v any, root string) any {
	parent := root[:strings.LastIndexByte(root, '/')]
	switch x := v.(type) {
	case string:
		x = subst(x, root, Root)
		if x == parent {
			return "/"
		}
		if strings.HasPrefix(x, parent+"/") {
			return x[len(parent):]
		}
		return x
	case []any:
		l := make([]any, len(x))
		for i, e := range x {
			l[i] = Unroot(e, root)
		}
		return l
	case map[string]any:
		m := make(map[string]any, len(x))
		for k, e := range x {
			m[k] = Unroot(e, root)
		}
		return m
	}
	return v
}
