package c06lib

// The direct oracle of C06 on the real loader: a metamorphic pair of real executions.
//
//	A = Load(main file with its `include:` section)
//	B = Load(single file = main's own content + the services/networks/volumes/secrets/configs of every
//	    included project *as loaded on its own*), where "on its own" is decided by the property text, not by
//	    include.go: working directory = the included project directory, environment = parent environment plus,
//	    for variables it does not define, the included project's .env / declared env_file.
//
// The property holds on the input iff A and B are the same project (or both are errors, for the
// conflict / cycle / missing-file classes the generator announces in Expect).

import (
	"context"
	"encoding/json"
	"fmt"
	"os"
	"path/filepath"
	"reflect"
	"sort"
	"strings"

	"github.com/compose-spec/compose-go/v2/dotenv"
	"github.com/compose-spec/compose-go/v2/loader"
	"github.com/compose-spec/compose-go/v2/types"

	"verifharness/core"
)

// Entry is the *meaning* of one element of main's `include:` list, as the generator intends it
// (all paths relative to the root of the tree).
type Entry struct {
	Paths    []string `json:"paths"`               // included file and its overrides
	ProjDir  string   `json:"proj_dir"`            // included project directory
	EnvFiles []string `json:"env_files,omitempty"` // declared env_file(s); empty = <ProjDir>/.env if it exists
}

type PasteArgs struct {
	Files   map[string]string `json:"files"`
	Dirs    []string          `json:"dirs,omitempty"`
	Main    string            `json:"main"` // root-relative main file (single document)
	Env     map[string]string `json:"env"`
	Entries []Entry           `json:"entries"`
	// Expect: "paste" (A must equal B), "error" (A must be an error: conflict / cycle / missing file),
	// "accept" (A must load: identical redefinition through two routes)
	Expect string `json:"expect"`
	Class  string `json:"class"` // input class, part of the failure key
	// Opts: loader options set on every load of the pair (the load with include, every included project on its own,
	// the pasted single file).  The cloned options of the included load must behave like the caller's.
	Opts *PasteOpts `json:"opts,omitempty"`
	// Links: symbolic links of the tree, root-relative name -> target text (relative targets are relative to the link's
	// directory, "$ROOT/…" targets are absolute).  Created after the files and directories.
	Links map[string]string `json:"links,omitempty"`
}

// PasteOpts are the loader options the paste oracle varies.
type PasteOpts struct {
	SkipInterpolation      bool     `json:"skip_interpolation,omitempty"`
	SkipValidation         bool     `json:"skip_validation,omitempty"`
	SkipNormalization      bool     `json:"skip_normalization,omitempty"`
	SkipConsistencyCheck   bool     `json:"skip_consistency_check,omitempty"`
	SkipExtends            bool     `json:"skip_extends,omitempty"`
	SkipResolveEnvironment bool     `json:"skip_resolve_environment,omitempty"`
	SkipDefaultValues      bool     `json:"skip_default_values,omitempty"`
	Profiles               []string `json:"profiles,omitempty"`
}

// Name is a stable label of the option set (distribution histogram, failure keys).
func (o *PasteOpts) Name() string {
	if o == nil {
		return "default"
	}
	var n []string
	for _, f := range []struct {
		on bool
		s  string
	}{{o.SkipInterpolation, "SkipInterpolation"}, {o.SkipValidation, "SkipValidation"}, {o.SkipNormalization, "SkipNormalization"},
		{o.SkipConsistencyCheck, "SkipConsistencyCheck"}, {o.SkipExtends, "SkipExtends"}, {o.SkipResolveEnvironment, "SkipResolveEnvironment"},
		{o.SkipDefaultValues, "SkipDefaultValues"}, {len(o.Profiles) > 0, "Profiles"}} {
		if f.on {
			n = append(n, f.s)
		}
	}
	if len(n) == 0 {
		return "default"
	}
	return strings.Join(n, "+")
}

const projectName = "p"

func loadProject(root, wd string, files []string, env map[string]string, o *PasteOpts) (*types.Project, error) {
	req := core.LoadReq{ConfigFiles: files, WorkingDir: wd, Env: env, ProjectName: projectName}
	if o != nil {
		req.SkipInterpolation, req.SkipValidation, req.SkipNormalization = o.SkipInterpolation, o.SkipValidation, o.SkipNormalization
		req.SkipConsistencyCheck, req.SkipExtends, req.SkipResolveEnvironment = o.SkipConsistencyCheck, o.SkipExtends, o.SkipResolveEnvironment
		req.SkipDefaultValues, req.Profiles = o.SkipDefaultValues, o.Profiles
	}
	return req.LoadIn(root)
}

// includedOnItsOwn loads one included project by itself and returns its model (the yaml dictionary).
func includedOnItsOwn(root string, e Entry, parentEnv map[string]string, po *PasteOpts) (map[string]any, error) {
	env := types.Mapping{}
	for k, v := range parentEnv {
		env[k] = v
	}
	env["COMPOSE_PROJECT_NAME"] = projectName
	var envFiles []string
	if len(e.EnvFiles) == 0 {
		f := filepath.Join(root, e.ProjDir, ".env")
		if st, err := os.Stat(f); err == nil && !st.IsDir() {
			envFiles = []string{f}
		}
	} else {
		for _, f := range e.EnvFiles {
			envFiles = append(envFiles, filepath.Join(root, f))
		}
	}
	fromFile, err := dotenv.GetEnvFromFile(env, envFiles)
	if err != nil {
		return nil, err
	}
	for k, v := range fromFile {
		if _, set := env[k]; !set { // the parent environment wins
			env[k] = v
		}
	}
	var cfs []types.ConfigFile
	for _, p := range e.Paths {
		cfs = append(cfs, types.ConfigFile{Filename: filepath.Join(root, p)})
	}
	details := types.ConfigDetails{WorkingDir: filepath.Join(root, e.ProjDir), ConfigFiles: cfs, Environment: env}
	return loader.LoadModelWithContext(context.Background(), details, func(o *loader.Options) {
		o.SetProjectName(projectName, true)
		if po != nil { // "loaded on its own" under the caller's options
			o.SkipInterpolation, o.SkipValidation, o.SkipExtends = po.SkipInterpolation, po.SkipValidation, po.SkipExtends
			o.SkipResolveEnvironment, o.SkipDefaultValues, o.Profiles = po.SkipResolveEnvironment, po.SkipDefaultValues, po.Profiles
		}
		o.SkipNormalization = true
		o.SkipConsistencyCheck = true
		o.ResolvePaths = true
	})
}

// escapeDollar protects an already interpolated value from the interpolation of the pasted file.
func escapeDollar(v any) any {
	switch x := v.(type) {
	case string:
		return strings.ReplaceAll(x, "$", "$$")
	case []any:
		l := make([]any, len(x))
		for i, e := range x {
			l[i] = escapeDollar(e)
		}
		return l
	case map[string]any:
		m := make(map[string]any, len(x))
		for k, e := range x {
			m[k] = escapeDollar(e)
		}
		return m
	}
	return v
}

func outcome(p *types.Project, err error, root string) map[string]any {
	if err != nil {
		return map[string]any{"err": core.ScrubErr(err, root), "class": ErrClass(err)}
	}
	v, jerr := core.ProjectJSON(p, root)
	if jerr != nil {
		return map[string]any{"err": "marshal: " + jerr.Error(), "class": "marshal"}
	}
	// the marshaller hides the value of a secret / config whose source is a variable: read it from the project
	if m, _ := v.(map[string]any); m != nil {
		put := func(section, name, content string) {
			if content == "" {
				return
			}
			if sec, _ := m[section].(map[string]any); sec != nil {
				if e, _ := sec[name].(map[string]any); e != nil {
					e["#content"] = content
				}
			}
		}
		for name, s := range p.Secrets {
			put("secrets", name, s.Content)
		}
		for name, c := range p.Configs {
			put("configs", name, c.Content)
		}
	}
	return map[string]any{"ok": v}
}

// firstDiff names the first path at which two JSON trees differ.
func firstDiff(a, b any, path string) string {
	switch x := a.(type) {
	case map[string]any:
		y, ok := b.(map[string]any)
		if !ok {
			return path
		}
		keys := map[string]bool{}
		for k := range x {
			keys[k] = true
		}
		for k := range y {
			keys[k] = true
		}
		ks := make([]string, 0, len(keys))
		for k := range keys {
			ks = append(ks, k)
		}
		sort.Strings(ks)
		for _, k := range ks {
			xv, xo := x[k]
			yv, yo := y[k]
			if xo != yo {
				return path + "." + k
			}
			if d := firstDiff(xv, yv, path+"."+k); d != "" {
				return d
			}
		}
		return ""
	case []any:
		y, ok := b.([]any)
		if !ok || len(x) != len(y) {
			return path
		}
		for i := range x {
			if d := firstDiff(x[i], y[i], fmt.Sprintf("%s[%d]", path, i)); d != "" {
				return d
			}
		}
		return ""
	}
	if !reflect.DeepEqual(a, b) {
		return path
	}
	return ""
}

// attrOf reduces a difference path to its attribute shape (resource names and indexes dropped) for the key.
func attrOf(path string) string {
	parts := strings.Split(strings.TrimPrefix(path, "."), ".")
	if len(parts) >= 2 {
		parts[1] = "*"
	}
	s := strings.Join(parts, ".")
	for {
		i := strings.IndexByte(s, '[')
		if i < 0 {
			break
		}
		j := strings.IndexByte(s[i:], ']')
		s = s[:i] + "#" + s[i+j+1:]
	}
	return s
}

// RealPaste runs the pair of loads and reports how they compare.
func RealPaste(a PasteArgs) any {
	root, err := MaterializeTree(a.Files, a.Dirs)
	defer os.RemoveAll(root)
	if err != nil {
		return map[string]any{"bad": err.Error()}
	}
	for _, l := range SortedKeys(a.Links) {
		if err := os.MkdirAll(filepath.Dir(filepath.Join(root, l)), 0o755); err != nil {
			return map[string]any{"bad": err.Error()}
		}
		if err := os.Symlink(subst(a.Links[l], Root, root), filepath.Join(root, l)); err != nil {
			return map[string]any{"bad": err.Error()}
		}
	}
	wd := filepath.Dir(a.Main)
	pa, errA := loadProject(root, wd, []string{a.Main}, a.Env, a.Opts)
	outA := outcome(pa, errA, root)
	res := map[string]any{"a": outA}
	if a.Expect != "paste" {
		return res
	}
	// main's own document
	raw, err := os.ReadFile(filepath.Join(root, a.Main))
	if err != nil {
		return map[string]any{"bad": err.Error()}
	}
	var own map[string]any
	if err := json.Unmarshal(raw, &own); err != nil {
		return map[string]any{"bad": "main file of a paste case must be JSON-flow YAML: " + err.Error()}
	}
	delete(own, "include")
	esc := escapeDollar
	if a.Opts != nil && a.Opts.SkipInterpolation {
		esc = func(v any) any { return v } // nothing is interpolated: the pasted text is the value
	}
	// A config whose source is a variable carries, loaded on its own, `environment` and the value as `content`.  A single
	// file cannot say that (two sources are a validation error): the pasted file keeps `environment`, and the value the
	// included project gave it is put back on the loaded project  (secrets travel as the extension `x-#value`).
	cfgContent := map[string]any{}
	for i, e := range a.Entries {
		dict, err := includedOnItsOwn(root, e, a.Env, a.Opts)
		if err != nil {
			res["b"] = map[string]any{"err": core.ScrubErr(err, root), "class": ErrClass(err), "entry": i}
			return res
		}
		for _, kind := range Kinds5 {
			from, _ := dict[kind].(map[string]any)
			if len(from) == 0 {
				continue
			}
			to, _ := own[kind].(map[string]any)
			if to == nil {
				to = map[string]any{}
			}
			for name, def := range from {
				if m, ok := def.(map[string]any); ok && kind == "configs" {
					if _, byVar := m["environment"]; byVar {
						if c, has := m["content"]; has {
							cp := map[string]any{}
							for k, v := range m {
								if k != "content" {
									cp[k] = v
								}
							}
							if prev, seen := cfgContent[name]; seen && !reflect.DeepEqual(prev, c) {
								res["b"] = map[string]any{"err": "configs." + name + " has different values on two sides", "class": "conflict", "entry": i}
								return res
							}
							def, cfgContent[name] = cp, c
						}
					}
				}
				if prev, dup := to[name]; dup {
					if !reflect.DeepEqual(prev, esc(def)) {
						res["b"] = map[string]any{"err": kind + "." + name + " defined differently on two sides", "class": "conflict", "entry": i}
						return res
					}
					continue
				}
				to[name] = esc(def)
			}
			own[kind] = to
		}
	}
	pasted, _ := json.Marshal(own)
	pastedName := filepath.Join(wd, "pasted-single-file.yaml")
	if err := os.WriteFile(filepath.Join(root, pastedName), pasted, 0o644); err != nil {
		return map[string]any{"bad": err.Error()}
	}
	pb, errB := loadProject(root, wd, []string{pastedName}, a.Env, a.Opts)
	outB := outcome(pb, errB, root)
	if ok, _ := outB["ok"].(map[string]any); ok != nil {
		if cfgs, _ := ok["configs"].(map[string]any); cfgs != nil {
			for name, c := range cfgContent {
				if m, _ := cfgs[name].(map[string]any); m != nil {
					if _, resolvedByParent := m["#content"]; !resolvedByParent {
						m["#content"] = c
					}
				}
			}
		}
	}
	res["b"] = outB
	if errA == nil && errB == nil {
		if d := firstDiff(outA["ok"], outB["ok"], ""); d != "" {
			res["diff"] = attrOf(d)
			res["diff_path"] = d
		} else {
			res["same"] = true
			// the comparison is what matters; drop the bulky projects
			res["a"] = map[string]any{"ok": "…"}
			res["b"] = map[string]any{"ok": "…"}
		}
	}
	return res
}
