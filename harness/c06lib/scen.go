package c06lib

import (
	"encoding/json"
	"math/rand"
	"path"
	"sort"
	"strings"

	"gopkg.in/yaml.v3"

	"verifharness/core"
)

// Scen is a directory tree under construction, kept in the two forms the two sides read:
// text files for the real loader, parsed documents / dotenv entries for the model.
type Scen struct {
	Files map[string]string
	Docs  map[string][]any      // "/ROOT/rel" → tagged trees
	Envs  map[string][][]string // "/ROOT/rel" → entries
	Dirs  []string
	Plain map[string][]map[string]any // rel → documents as plain Go trees
}

func NewScen() *Scen {
	return &Scen{Files: map[string]string{}, Docs: map[string][]any{}, Envs: map[string][][]string{}, Plain: map[string][]map[string]any{}}
}

// RenderYAML renders one document: JSON flow style (style 0) or yaml.v3 block style (style 1).
func RenderYAML(doc any, style int) string {
	if style == 0 {
		b, _ := json.Marshal(doc)
		return string(b) + "\n"
	}
	b, err := yaml.Marshal(doc)
	if err != nil {
		panic(err)
	}
	return string(b)
}

// AddYAML adds a compose file made of the given documents.
func (s *Scen) AddYAML(rel string, style int, docs ...map[string]any) {
	var parts []string
	var tagged []any
	for _, d := range docs {
		parts = append(parts, RenderYAML(d, style))
		tagged = append(tagged, core.EncodeVal(d))
	}
	s.Files[rel] = strings.Join(parts, "---\n")
	s.Docs[Root+"/"+rel] = tagged
	s.Plain[rel] = docs
}

// AddEnv adds a dotenv file of KEY=value lines.
func (s *Scen) AddEnv(rel string, entries [][]string) {
	var b strings.Builder
	for _, e := range entries {
		b.WriteString(e[0] + "=" + e[1] + "\n")
	}
	s.Files[rel] = b.String()
	s.Envs[Root+"/"+rel] = entries
}

func (s *Scen) AddDir(rel string) { s.Dirs = append(s.Dirs, rel) }

// ---------------------------------------------------------------- the include fragment

var varNames = []string{"V", "W", "X", "NOPE"}

// Tmpl returns a string value with 0..2 variable references.
func Tmpl(r *rand.Rand, base string) string {
	switch r.Intn(8) {
	case 0:
		return base + "-${V}"
	case 1:
		return base + "-${W:-dw}"
	case 2:
		return "$X" + "-" + base
	case 3:
		return base + "-${NOPE:-${V}}"
	case 4:
		return base + "-$$V"
	case 5:
		return base + "-${V}-${X-dx}"
	default:
		return base
	}
}

var relPaths = []string{"./data", "data", "d/e", "../up", ".", "./a/../b", "f.txt"}

// oddPaths are values a resolution stage could misread: home-relative, remote-looking, Windows-looking.
var oddPaths = []string{"~/h", "~u/x", "./~", "github.com/o/r", "./github.com/o", "https://e.x/y", "git@h:o/r", "C:\\d", "c:/d/e", "\\\\srv\\sh\\x", "./C:/d"}

func RelPath(r *rand.Rand) string {
	if r.Intn(12) == 0 {
		return Root + "/abs/x"
	}
	if r.Intn(8) == 0 {
		return oddPaths[r.Intn(len(oddPaths))]
	}
	return relPaths[r.Intn(len(relPaths))]
}

// Service returns a service definition of the fragment.
func Service(r *rand.Rand, name string) map[string]any {
	s := map[string]any{"image": Tmpl(r, "img-"+name)}
	if r.Intn(3) == 0 {
		s["labels"] = map[string]any{"k": Tmpl(r, "l"), "n": name}
	}
	if r.Intn(3) == 0 {
		s["build"] = map[string]any{"context": RelPath(r)}
	}
	if r.Intn(4) == 0 {
		s["label_file"] = []any{RelPath(r)}
	}
	if r.Intn(4) == 0 {
		s["env_file"] = []any{map[string]any{"path": RelPath(r), "required": r.Intn(2) == 0}}
	}
	if r.Intn(4) == 0 {
		s["volumes"] = []any{map[string]any{"type": "bind", "source": RelPath(r), "target": "/t"},
			map[string]any{"type": "volume", "source": "vol", "target": "/v"}}
	}
	return s
}

// Resource returns a definition for the given top-level section.
func Resource(r *rand.Rand, kind, name string) any {
	switch kind {
	case "services":
		return Service(r, name)
	case "volumes", "networks":
		switch r.Intn(5) {
		case 0:
			return nil
		case 1:
			return map[string]any{}
		case 2:
			return map[string]any{"name": Tmpl(r, name)}
		case 3:
			return map[string]any{"driver": "local", "labels": map[string]any{"o": Tmpl(r, "x")}}
		default:
			return map[string]any{"labels": map[string]any{"o": name}}
		}
	case "secrets":
		if r.Intn(3) == 0 {
			return map[string]any{"environment": "SECRET_" + name}
		}
		return map[string]any{"file": RelPath(r)}
	default: // configs
		if r.Intn(3) == 0 {
			return map[string]any{"content": Tmpl(r, "c")}
		}
		return map[string]any{"file": RelPath(r)}
	}
}

var Kinds5 = []string{"services", "volumes", "networks", "secrets", "configs"}

// EnvEntries returns dotenv entries over the variable pool.
func EnvEntries(r *rand.Rand, tag string) [][]string {
	var out [][]string
	for _, v := range []string{"V", "W", "X"} {
		switch r.Intn(4) {
		case 0:
			out = append(out, []string{v, tag + "-" + strings.ToLower(v)})
		case 1:
			out = append(out, []string{v, tag + "_${V}"})
		case 2:
			out = append(out, []string{v, "${X:-" + tag + "}"})
		}
	}
	return out
}

func SortedKeys[T any](m map[string]T) []string {
	ks := make([]string, 0, len(m))
	for k := range m {
		ks = append(ks, k)
	}
	sort.Strings(ks)
	return ks
}

// RelTo returns target (root-relative) relative to the root-relative directory base, "../" style.
func RelTo(base, target string) string {
	b := strings.Split(path.Clean(base), "/")
	if path.Clean(base) == "." {
		b = nil
	}
	t := strings.Split(path.Clean(target), "/")
	i := 0
	for i < len(b) && i < len(t) && b[i] == t[i] {
		i++
	}
	var out []string
	for range b[i:] {
		out = append(out, "..")
	}
	out = append(out, t[i:]...)
	return strings.Join(out, "/")
}
