// Command harness runs the correspondence and oracle streams of one property against /repo.
package main

import (
	"flag"
	"os"
	"runtime"

	"verifharness/core"
)

func main() {
	var o core.Options
	serve := flag.Bool("serve", false, "child mode: execute real-code phases read from stdin")
	flag.StringVar(&o.Prop, "prop", "", "property id")
	flag.StringVar(&o.Tier, "tier", "quick", "quick|thorough")
	flag.Int64Var(&o.Seed, "seed", 1, "PRNG seed")
	flag.StringVar(&o.Driver, "driver", "/verif/lean/.lake/build/bin/driver", "Lean driver executable")
	flag.StringVar(&o.Out, "out", "", "result file (default stdout)")
	flag.StringVar(&o.Replay, "replay", "", "replay file")
	flag.StringVar(&o.RepoDir, "repo", "/repo", "compose-go source tree")
	flag.StringVar(&o.Corpus, "corpus", "", "corpus directory")
	flag.IntVar(&o.Lanes, "lanes", runtime.NumCPU(), "parallel lanes")
	flag.Parse()
	if *serve {
		core.Serve()
		return
	}
	os.Exit(core.Run(o))
}
