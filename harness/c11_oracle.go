package main

import "verifharness/core"

func c11Oracle(ctx *core.Ctx) {}
