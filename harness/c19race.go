package main

import "verifharness/core"

func runC19Race(ctx *core.Ctx) {}
