package core

// Tagged JSON encoding of untyped YAML trees (DESIGN.md §3.3), shared with Model/Val.lean:
//   null, {"b":true}, {"i":"42"}, {"f":"1.5"}, {"s":"…"}, {"l":[…]}, {"m":[["k",v],…]}
// Map entries are emitted sorted by key, so Go's map order never reaches the wire.

import (
	"encoding/json"
	"fmt"
	"math/rand"
	"sort"
	"strconv"
)

type T = any // a tagged tree as it travels on the wire

func EncodeVal(v any) T {
	switch x := v.(type) {
	case nil:
		return nil
	case bool:
		return map[string]any{"b": x}
	case int:
		return map[string]any{"i": strconv.Itoa(x)}
	case int64:
		return map[string]any{"i": strconv.FormatInt(x, 10)}
	case int32:
		return map[string]any{"i": strconv.FormatInt(int64(x), 10)}
	case uint64:
		return map[string]any{"i": strconv.FormatUint(x, 10)}
	case uint32:
		return map[string]any{"i": strconv.FormatUint(uint64(x), 10)}
	case uint:
		return map[string]any{"i": strconv.FormatUint(uint64(x), 10)}
	case float64:
		return map[string]any{"f": strconv.FormatFloat(x, 'g', -1, 64)}
	case float32:
		return map[string]any{"f": strconv.FormatFloat(float64(x), 'g', -1, 32)}
	case string:
		return map[string]any{"s": x}
	case []any:
		l := make([]any, len(x))
		for i, e := range x {
			l[i] = EncodeVal(e)
		}
		return map[string]any{"l": l}
	case []string:
		l := make([]any, len(x))
		for i, e := range x {
			l[i] = EncodeVal(e)
		}
		return map[string]any{"l": l}
	case map[string]any:
		ks := make([]string, 0, len(x))
		for k := range x {
			ks = append(ks, k)
		}
		sort.Strings(ks)
		l := make([]any, len(ks))
		for i, k := range ks {
			l[i] = []any{k, EncodeVal(x[k])}
		}
		return map[string]any{"m": l}
	case map[string]string:
		m := map[string]any{}
		for k, e := range x {
			m[k] = e
		}
		return EncodeVal(m)
	default:
		return map[string]any{"s": fmt.Sprintf("<<%T:%v>>", v, v)}
	}
}

// DecodeVal turns a tagged tree (already JSON-decoded into any) back into a Go YAML tree.
func DecodeVal(t any) any {
	if t == nil {
		return nil
	}
	m, ok := t.(map[string]any)
	if !ok {
		panic(fmt.Sprintf("DecodeVal: bad node %v", t))
	}
	for k, v := range m {
		switch k {
		case "b":
			return v.(bool)
		case "i":
			n, err := strconv.ParseInt(v.(string), 10, 64)
			if err != nil {
				panic(err)
			}
			return int(n)
		case "f":
			f, err := strconv.ParseFloat(v.(string), 64)
			if err != nil {
				panic(err)
			}
			return f
		case "s":
			return v.(string)
		case "l":
			if v == nil {
				return []any{}
			}
			l := v.([]any)
			out := make([]any, len(l))
			for i, e := range l {
				out[i] = DecodeVal(e)
			}
			return out
		case "m":
			out := map[string]any{}
			if v == nil {
				return out
			}
			for _, e := range v.([]any) {
				kv := e.([]any)
				out[kv[0].(string)] = DecodeVal(kv[1])
			}
			return out
		}
	}
	panic(fmt.Sprintf("DecodeVal: bad node %v", t))
}

// DecodeValRaw decodes a tagged tree from raw JSON.
func DecodeValRaw(raw json.RawMessage) any {
	var t any
	if err := json.Unmarshal(raw, &t); err != nil {
		panic(err)
	}
	return DecodeVal(t)
}

// DeepCopyVal copies a YAML tree (the real functions mutate their arguments).
func DeepCopyVal(v any) any {
	switch x := v.(type) {
	case map[string]any:
		m := make(map[string]any, len(x))
		for k, e := range x {
			m[k] = DeepCopyVal(e)
		}
		return m
	case []any:
		l := make([]any, len(x))
		for i, e := range x {
			l[i] = DeepCopyVal(e)
		}
		return l
	}
	return v
}

// Kinds are the ten YAML node kinds of property C01.
var Kinds = []string{"null", "bool", "int", "float", "string", "emptyList", "list", "listOfMaps", "emptyMap", "map"}

// KindValue returns a representative value of the given node kind.
func KindValue(kind string, r *rand.Rand) any {
	switch kind {
	case "null":
		return nil
	case "bool":
		return r.Intn(2) == 0
	case "int":
		return []int{0, 1, -1, 42, 65536}[r.Intn(5)]
	case "float":
		return []float64{0.5, 1.5, -2.25}[r.Intn(3)]
	case "string":
		return []string{"", "x", "a=b", "1", "true", "./p", "a:b:c", "${V}"}[r.Intn(8)]
	case "emptyList":
		return []any{}
	case "list":
		return []any{"a", "b=c", 1}
	case "listOfMaps":
		return []any{map[string]any{"k": "v"}, map[string]any{"target": "/t", "source": "s"}}
	case "emptyMap":
		return map[string]any{}
	case "map":
		return map[string]any{"k": "v", "n": 1}
	}
	panic("unknown kind " + kind)
}
