package core

// Schema-directed generation of compose documents (DESIGN.md §3.2): walk schema/compose-spec.json and, at every
// node, build a conforming value; optionally mutate one position into another YAML node kind.

import (
	"encoding/json"
	"math/rand"
	"os"
	"path/filepath"
	"sort"
	"strings"
)

type SchemaGen struct {
	Root map[string]any
	Defs map[string]any
	R    *rand.Rand
	// Paths visited by the last Gen call (attribute paths with * for pattern keys and [] for items)
	Visited map[string]int
}

func NewSchemaGen(repo string, r *rand.Rand) *SchemaGen {
	raw, err := os.ReadFile(filepath.Join(repo, "schema", "compose-spec.json"))
	if err != nil {
		panic(err)
	}
	var root map[string]any
	if err := json.Unmarshal(raw, &root); err != nil {
		panic(err)
	}
	defs, _ := root["definitions"].(map[string]any)
	return &SchemaGen{Root: root, Defs: defs, R: r, Visited: map[string]int{}}
}

func (g *SchemaGen) resolve(n map[string]any) map[string]any {
	for {
		ref, ok := n["$ref"].(string)
		if !ok {
			return n
		}
		d, ok := g.Defs[strings.TrimPrefix(ref, "#/definitions/")].(map[string]any)
		if !ok {
			return map[string]any{}
		}
		n = d
	}
}

var patternKeyPool = map[string][]string{
	"^x-":                {"x-a", "x-foo.bar"},
	"^[a-zA-Z0-9._-]+$": {"web", "db", "a.b", "n_1", "c-2"},
	"^.+$":               {"key", "k 2", "com.example.l"},
	".+":                 {"key", "other key"},
	"^[a-z]+$":           {"nofile", "nproc"},
}

var stringPool = []string{"x", "alpine", "1", "true", "10s", "1m30s", "./dir", "/abs", "a=b", "80:80", "tcp", "0.5", "65536", "host", "", "${V}", "service:web", "on", "512m"}

func schemaTypes(n map[string]any) []string {
	switch t := n["type"].(type) {
	case string:
		return []string{t}
	case []any:
		var l []string
		for _, e := range t {
			l = append(l, e.(string))
		}
		return l
	}
	return nil
}

// Gen builds a value conforming (best effort) to node n; density ∈ (0,1] is the probability of including an optional property.
func (g *SchemaGen) Gen(n map[string]any, path string, depth int, density float64) any {
	n = g.resolve(n)
	g.Visited[path]++
	if alts, ok := n["oneOf"].([]any); ok && len(alts) > 0 {
		return g.Gen(alts[g.R.Intn(len(alts))].(map[string]any), path, depth, density)
	}
	if alts, ok := n["anyOf"].([]any); ok && len(alts) > 0 {
		return g.Gen(alts[g.R.Intn(len(alts))].(map[string]any), path, depth, density)
	}
	if en, ok := n["enum"].([]any); ok && len(en) > 0 {
		return en[g.R.Intn(len(en))]
	}
	ts := schemaTypes(n)
	t := "string"
	if len(ts) > 0 {
		t = ts[g.R.Intn(len(ts))]
	} else if _, ok := n["properties"]; ok {
		t = "object"
	}
	switch t {
	case "null":
		return nil
	case "boolean":
		return g.R.Intn(2) == 0
	case "integer":
		lo, hi := 0, 70000
		if m, ok := n["minimum"].(float64); ok {
			lo = int(m)
		}
		if m, ok := n["maximum"].(float64); ok {
			hi = int(m)
		}
		return lo + g.R.Intn(hi-lo+1)
	case "number":
		if g.R.Intn(2) == 0 {
			return float64(g.R.Intn(200)) / 4
		}
		return g.R.Intn(100)
	case "string":
		return stringPool[g.R.Intn(len(stringPool))]
	case "array":
		var l []any
		k := g.R.Intn(3)
		if depth <= 0 {
			k = 0
		}
		it, _ := n["items"].(map[string]any)
		uniq, _ := n["uniqueItems"].(bool)
		seen := map[string]bool{}
		for i := 0; i < k; i++ {
			var v any = "item"
			if it != nil {
				v = g.Gen(it, path+".[]", depth-1, density)
			}
			if uniq {
				b, _ := json.Marshal(v)
				if seen[string(b)] {
					continue
				}
				seen[string(b)] = true
			}
			l = append(l, v)
		}
		if l == nil {
			l = []any{}
		}
		return l
	case "object":
		m := map[string]any{}
		props, _ := n["properties"].(map[string]any)
		req := map[string]bool{}
		if rl, ok := n["required"].([]any); ok {
			for _, r := range rl {
				req[r.(string)] = true
			}
		}
		names := make([]string, 0, len(props))
		for k := range props {
			names = append(names, k)
		}
		sort.Strings(names)
		for _, k := range names {
			if req[k] || (depth > 0 && g.R.Float64() < density) {
				m[k] = g.Gen(props[k].(map[string]any), path+"."+k, depth-1, density)
			}
		}
		pp, _ := n["patternProperties"].(map[string]any)
		pats := make([]string, 0, len(pp))
		for k := range pp {
			pats = append(pats, k)
		}
		sort.Strings(pats)
		for _, p := range pats {
			pool := patternKeyPool[p]
			if len(pool) == 0 || depth <= 0 {
				continue
			}
			cnt := g.R.Intn(3)
			if p == "^x-" {
				cnt = g.R.Intn(2) * g.R.Intn(2)
			}
			for i := 0; i < cnt; i++ {
				k := pool[g.R.Intn(len(pool))]
				if _, dup := m[k]; dup {
					continue
				}
				if _, isProp := props[k]; isProp {
					continue
				}
				m[k] = g.Gen(pp[p].(map[string]any), path+".*", depth-1, density)
			}
		}
		return m
	}
	return "x"
}

// Document generates a whole compose document.
func (g *SchemaGen) Document(depth int, density float64) map[string]any {
	v := g.Gen(g.Root, "", depth, density)
	m, _ := v.(map[string]any)
	if m == nil {
		m = map[string]any{}
	}
	return m
}

// Positions lists every position of a tree as a path of keys / indices.
func Positions(v any) [][]any {
	var out [][]any
	var walk func(x any, p []any)
	walk = func(x any, p []any) {
		out = append(out, append([]any(nil), p...))
		switch t := x.(type) {
		case map[string]any:
			ks := make([]string, 0, len(t))
			for k := range t {
				ks = append(ks, k)
			}
			sort.Strings(ks)
			for _, k := range ks {
				walk(t[k], append(p, k))
			}
		case []any:
			for i, e := range t {
				walk(e, append(p, i))
			}
		}
	}
	walk(v, nil)
	return out
}

// ReplaceAt returns a deep copy of root with the value at pos replaced by nv (pos non-empty).
func ReplaceAt(root any, pos []any, nv any) any {
	if len(pos) == 0 {
		return nv
	}
	switch t := root.(type) {
	case map[string]any:
		m := make(map[string]any, len(t))
		for k, e := range t {
			if k == pos[0] {
				m[k] = ReplaceAt(e, pos[1:], nv)
			} else {
				m[k] = DeepCopyVal(e)
			}
		}
		return m
	case []any:
		l := make([]any, len(t))
		for i, e := range t {
			if i == pos[0] {
				l[i] = ReplaceAt(e, pos[1:], nv)
			} else {
				l[i] = DeepCopyVal(e)
			}
		}
		return l
	}
	return root
}
