// Package core is the correspondence / oracle engine shared by all property harnesses.
//
// A *check* (registered by name) has up to three phases, run per case:
//
//  1. Real:   the real compose-go code, executed in a child "serve" process so that
//     panics, fatal errors, stack exhaustion and hangs are outcomes, not crashes;
//  2. Driver: the Lean model / spec, executed by the `driver` executable over the
//     JSON line protocol (DESIGN.md §3.3);
//  3. Judge:  compares the two (default: equality = correspondence) or decides the
//     property on the real outcome (direct oracle).
//
// Generators run in the parent and push cases; lanes (child + driver pairs) run them
// in parallel.  Every random choice comes from the one PRNG in Ctx.
package core

import (
	"bufio"
	"bytes"
	"encoding/json"
	"fmt"
	"io"
	"math/rand"
	"os"
	"os/exec"
	"reflect"
	"runtime"
	"sort"
	"strings"
	"sync"
	"sync/atomic"
	"time"
)

// ---------------------------------------------------------------- registry

type Verdict struct {
	Kind string `json:"kind"` // "disagree" (model ≠ real), "fail" (property violated by real code), "skip"
	Key  string `json:"key"`  // stable identifier of what fails (call site / input class) – matched against known_findings.txt
	What string `json:"what"` // human readable
}

func Disagree(what string) *Verdict  { return &Verdict{Kind: "disagree", What: what} }
func Fail(key, what string) *Verdict { return &Verdict{Kind: "fail", Key: key, What: what} }
func Skip(what string) *Verdict      { return &Verdict{Kind: "skip", What: what} }

type CheckDef struct {
	// Real runs the real code on args (in a child process). nil = no real phase.
	Real func(args json.RawMessage) any
	// DriverOp is the Lean driver op; "" = no driver phase.
	DriverOp string
	// DriverArgs derives the driver arguments (default: args unchanged).
	DriverArgs func(args, real json.RawMessage) any
	// Judge decides; nil = equality of real and driver outcomes (a disagreement).
	Judge func(args, real, drv json.RawMessage) *Verdict
	// Timeout for the real phase of one case (default 10s).
	Timeout time.Duration
}

var checks = map[string]*CheckDef{}

func Register(name string, d *CheckDef) {
	if _, dup := checks[name]; dup {
		panic("duplicate check " + name)
	}
	checks[name] = d
}

type PropFn func(ctx *Ctx)

var props = map[string]PropFn{}

func RegisterProp(id string, f PropFn) { props[id] = f }

// RegisterPropExtra adds a stream that runs after the property's own generators (cross-property streams such as the
// composed pipeline); several may be registered per property, they run in registration order.
var propExtras = map[string][]PropFn{}

func RegisterPropExtra(id string, f PropFn) { propExtras[id] = append(propExtras[id], f) }
func Prop(id string) PropFn                 { return props[id] }
func PropIDs() []string {
	var l []string
	for k := range props {
		l = append(l, k)
	}
	sort.Strings(l)
	return l
}

// ---------------------------------------------------------------- result

type Case struct {
	Check string          `json:"check"`
	Args  json.RawMessage `json:"args"`
}

type Finding struct {
	Verdict
	Case   Case            `json:"case"`
	Real   json.RawMessage `json:"real,omitempty"`
	Driver json.RawMessage `json:"driver,omitempty"`
}

type Result struct {
	Property      string         `json:"property"`
	Tier          string         `json:"tier"`
	Seed          int64          `json:"seed"`
	Cases         int            `json:"cases"`
	ByCheck       map[string]int `json:"by_check"`
	Skipped       int            `json:"skipped"`
	Distribution  map[string]int `json:"distribution"`
	RealClasses   map[string]int `json:"real_classes"`
	Disagreements []Finding      `json:"disagreements"`
	NDisagree     int            `json:"n_disagree"`
	Failures      []Finding      `json:"failures"`
	NFail         int            `json:"n_fail"`
	FailKeys      map[string]int `json:"fail_keys"`
	Samples       []Case         `json:"samples"`
	Notes         []string       `json:"notes"`
	Exhaustive    bool           `json:"exhaustive"`
	WallS         float64        `json:"wall_s"`
	distinct      map[uint64]struct{}
	Distinct      int `json:"distinct"`
}

// ---------------------------------------------------------------- context

type Ctx struct {
	Prop    string
	Tier    string
	Seed    int64
	Rng     *rand.Rand
	Res     *Result
	Lanes   int
	Self    string // path of this executable (for child servers)
	Driver  string // path of the Lean driver executable
	RepoDir string
	Corpus  string // /verif/corpus/<prop>
	Scratch string // per-run scratch directory (removed at exit)

	// crash storm guard: when the real code hangs or dies on very many cases (typically a change that makes a
	// whole class of inputs loop), waiting out every watchdog would take hours; after CrashLimit such outcomes
	// the remaining generated cases are dropped and the run reports what it has.
	crashes    int64
	CrashLimit int64
	dropped    int64

	mu      sync.Mutex
	queue   chan Case
	wg      sync.WaitGroup
	started bool
	maxKeep int
}

func (c *Ctx) Thorough() bool { return c.Tier == "thorough" }

// Pick returns q in the quick tier and t in the thorough tier.
func (c *Ctx) Pick(q, t int) int {
	if c.Thorough() {
		return t
	}
	return q
}

func (c *Ctx) Count(kind string) {
	c.mu.Lock()
	c.Res.Distribution[kind]++
	c.mu.Unlock()
}

func (c *Ctx) Note(format string, a ...any) {
	c.mu.Lock()
	c.Res.Notes = append(c.Res.Notes, fmt.Sprintf(format, a...))
	c.mu.Unlock()
}

// Add enqueues one case for the named check.
func (c *Ctx) Add(check string, args any) {
	if _, ok := checks[check]; !ok {
		panic("unknown check " + check)
	}
	if c.CrashLimit > 0 && atomic.LoadInt64(&c.crashes) >= c.CrashLimit {
		atomic.AddInt64(&c.dropped, 1)
		return
	}
	raw, err := json.Marshal(args)
	if err != nil {
		panic(err)
	}
	c.start()
	c.queue <- Case{Check: check, Args: raw}
}

// AddRaw enqueues a case whose args are already JSON (corpus / replay).
func (c *Ctx) AddRaw(cs Case) {
	if _, ok := checks[cs.Check]; !ok {
		panic("unknown check " + cs.Check)
	}
	c.start()
	c.queue <- cs
}

// Wait blocks until every enqueued case has been judged (the queue can be reused afterwards).
func (c *Ctx) Wait() {
	if !c.started {
		return
	}
	close(c.queue)
	c.wg.Wait()
	c.started = false
}

func (c *Ctx) start() {
	if c.started {
		return
	}
	c.started = true
	c.queue = make(chan Case, 4096)
	for i := 0; i < c.Lanes; i++ {
		c.wg.Add(1)
		go c.lane(i)
	}
}

// RunCorpus replays the minimised past failures / Neg witnesses first.
func (c *Ctx) RunCorpus() {
	ents, err := os.ReadDir(c.Corpus)
	if err != nil {
		return
	}
	for _, e := range ents {
		if !strings.HasSuffix(e.Name(), ".json") {
			continue
		}
		b, err := os.ReadFile(c.Corpus + "/" + e.Name())
		if err != nil {
			continue
		}
		var cs Case
		if json.Unmarshal(b, &cs) == nil && cs.Check != "" {
			if _, ok := checks[cs.Check]; ok {
				c.Count("corpus")
				c.AddRaw(cs)
			}
		}
	}
}

// ---------------------------------------------------------------- lanes

const batchSize = 256

type proc struct {
	cmd    *exec.Cmd
	in     io.WriteCloser
	out    *bufio.Reader
	stderr *tailBuf
	lines  chan []byte
}

type tailBuf struct {
	mu sync.Mutex
	b  []byte
}

func (t *tailBuf) Write(p []byte) (int, error) {
	t.mu.Lock()
	t.b = append(t.b, p...)
	if len(t.b) > 8192 {
		t.b = t.b[len(t.b)-8192:]
	}
	t.mu.Unlock()
	return len(p), nil
}
func (t *tailBuf) String() string { t.mu.Lock(); defer t.mu.Unlock(); return string(t.b) }

func startProc(env []string, name string, args ...string) (*proc, error) {
	cmd := exec.Command(name, args...)
	cmd.Env = append(os.Environ(), env...)
	in, err := cmd.StdinPipe()
	if err != nil {
		return nil, err
	}
	out, err := cmd.StdoutPipe()
	if err != nil {
		return nil, err
	}
	tb := &tailBuf{}
	cmd.Stderr = tb
	if err := cmd.Start(); err != nil {
		return nil, err
	}
	p := &proc{cmd: cmd, in: in, out: bufio.NewReaderSize(out, 1<<20), stderr: tb, lines: make(chan []byte, 1024)}
	go func() {
		for {
			line, err := p.out.ReadBytes('\n')
			if len(line) > 0 {
				p.lines <- bytes.TrimRight(line, "\n")
			}
			if err != nil {
				close(p.lines)
				return
			}
		}
	}()
	return p, nil
}

func (p *proc) kill() {
	if p == nil {
		return
	}
	p.in.Close()
	if p.cmd.Process != nil {
		p.cmd.Process.Kill()
	}
	go func() {
		for range p.lines {
		}
	}()
	p.cmd.Wait()
}

// read one line with a deadline; ok=false, dead=true when the process ended; ok=false, dead=false on timeout
func (p *proc) read(d time.Duration) (line []byte, ok bool, dead bool) {
	select {
	case l, more := <-p.lines:
		if !more {
			return nil, false, true
		}
		return l, true, false
	case <-time.After(d):
		return nil, false, false
	}
}

type wire struct {
	ID   int             `json:"id"`
	Op   string          `json:"op"`
	Args json.RawMessage `json:"args"`
}
type wireOut struct {
	ID  int             `json:"id"`
	Out json.RawMessage `json:"out"`
}

func (c *Ctx) childEnv() []string {
	return []string{"GOMEMLIMIT=2GiB", "GOMAXPROCS=2", "VERIF_SCRATCH=" + c.Scratch, "VERIF_REPO=" + c.RepoDir}
}

func (c *Ctx) lane(idx int) {
	defer c.wg.Done()
	var child, drv *proc
	defer func() { child.kill(); drv.kill() }()
	batch := make([]Case, 0, batchSize)
	flush := func() {
		if len(batch) == 0 {
			return
		}
		reals := make([]json.RawMessage, len(batch))
		// ---- phase 1: real
		i := 0
		for i < len(batch) {
			// find the run [i, j) of cases that have a real phase
			if checks[batch[i].Check].Real == nil {
				i++
				continue
			}
			if child == nil {
				var err error
				child, err = startProc(c.childEnv(), c.Self, "-serve")
				if err != nil {
					panic(err)
				}
			}
			j := i
			var buf bytes.Buffer
			for j < len(batch) && checks[batch[j].Check].Real != nil {
				b, _ := json.Marshal(wire{ID: j, Op: batch[j].Check, Args: batch[j].Args})
				buf.Write(b)
				buf.WriteByte('\n')
				j++
			}
			// asynchronous: a batch larger than the pipe buffer must not block the lane while the child hangs on a case
			// (the watchdog below could never fire)
			go func(w io.Writer, b []byte) { w.Write(b) }(child.in, append([]byte(nil), buf.Bytes()...))
			k := i
			for k < j {
				to := checks[batch[k].Check].Timeout
				if to == 0 {
					to = 10 * time.Second
				}
				line, ok, dead := child.read(to)
				if ok {
					var w wireOut
					if err := json.Unmarshal(line, &w); err != nil || w.ID != k {
						// stray output from the real code on stdout: ignore the line
						continue
					}
					reals[k] = w.Out
					k++
					continue
				}
				// the child died or hangs on case k
				var out any
				if dead {
					out = map[string]any{"fatal": fatalClass(child.stderr.String())}
				} else {
					out = map[string]any{"hang": fmt.Sprintf(">%s", to)}
				}
				child.kill()
				child = nil
				b, _ := json.Marshal(out)
				reals[k] = b
				k++
				break
			}
			i = k // re-send the remainder (if any) to a fresh child
		}
		// ---- phase 2: driver
		drvs := make([]json.RawMessage, len(batch))
		var buf bytes.Buffer
		n := 0
		for k, cs := range batch {
			d := checks[cs.Check]
			if d.DriverOp == "" {
				continue
			}
			args := cs.Args
			if d.DriverArgs != nil {
				b, err := json.Marshal(d.DriverArgs(cs.Args, reals[k]))
				if err != nil {
					panic(err)
				}
				args = b
			}
			b, _ := json.Marshal(wire{ID: k, Op: d.DriverOp, Args: args})
			buf.Write(b)
			buf.WriteByte('\n')
			n++
		}
		if n > 0 {
			if drv == nil {
				var err error
				drv, err = startProc(nil, c.Driver)
				if err != nil {
					panic(err)
				}
			}
			buf.WriteByte('\n') // empty line = flush request
			go drv.in.Write(buf.Bytes())
			for got := 0; got < n; {
				line, ok, dead := drv.read(120 * time.Second)
				if !ok {
					// the model itself crashed or hangs: report every unanswered case as a disagreement
					why := "driver hang"
					if dead {
						why = "driver died: " + lastLine(drv.stderr.String())
					}
					drv.kill()
					drv = nil
					for k, cs := range batch {
						if checks[cs.Check].DriverOp != "" && drvs[k] == nil {
							b, _ := json.Marshal(map[string]any{"driverError": why})
							drvs[k] = b
						}
					}
					break
				}
				var w wireOut
				if err := json.Unmarshal(line, &w); err != nil || w.ID < 0 || w.ID >= len(batch) {
					continue
				}
				drvs[w.ID] = w.Out
				got++
			}
		}
		// ---- phase 3: judge
		for k, cs := range batch {
			c.judge(cs, reals[k], drvs[k])
		}
		batch = batch[:0]
	}
	for cs := range c.queue {
		batch = append(batch, cs)
		if len(batch) == batchSize {
			flush()
		}
	}
	flush()
}

func lastLine(s string) string {
	s = strings.TrimSpace(s)
	if i := strings.LastIndexByte(s, '\n'); i >= 0 {
		s = s[i+1:]
	}
	if len(s) > 300 {
		s = s[:300]
	}
	return s
}

// fatalClass maps the stderr of a dead child to a short stable class.
func fatalClass(stderr string) string {
	for _, l := range strings.Split(stderr, "\n") {
		switch {
		case strings.Contains(l, "stack overflow"), strings.Contains(l, "goroutine stack exceeds"):
			return "stack-overflow"
		case strings.Contains(l, "concurrent map"):
			return "concurrent-map-access"
		case strings.Contains(l, "out of memory"), strings.Contains(l, "cannot allocate memory"):
			return "out-of-memory"
		case strings.HasPrefix(l, "fatal error:"):
			return strings.TrimSpace(strings.TrimPrefix(l, "fatal error:"))
		case strings.Contains(l, "all goroutines are asleep"):
			return "deadlock"
		}
	}
	return "died: " + lastLine(stderr)
}

func canonEqual(a, b json.RawMessage) bool {
	var x, y any
	if json.Unmarshal(a, &x) != nil || json.Unmarshal(b, &y) != nil {
		return bytes.Equal(a, b)
	}
	// the panic message is informational; the site is what is compared
	for _, v := range []any{x, y} {
		if m, ok := v.(map[string]any); ok {
			if _, isPanic := m["panic"]; isPanic {
				delete(m, "msg")
			}
		}
	}
	return reflect.DeepEqual(x, y)
}

// CanonEqual compares two JSON outcomes structurally (panic messages ignored).
func CanonEqual(a, b json.RawMessage) bool { return canonEqual(a, b) }

// Class returns "ok", "err", "panic", "fatal", "hang" or "value" for a real outcome.
func Class(real json.RawMessage) string { return classOf(real) }

// CrashVerdict turns a panic / fatal / hang outcome of the real code into a property failure keyed by its site.
func CrashVerdict(real json.RawMessage) *Verdict {
	var m map[string]any
	if json.Unmarshal(real, &m) != nil {
		return nil
	}
	if s, ok := m["panic"]; ok {
		return Fail(fmt.Sprintf("panic@%v", s), fmt.Sprintf("real code panics in %v: %v", s, m["msg"]))
	}
	if s, ok := m["fatal"]; ok {
		return Fail(fmt.Sprintf("fatal:%v", s), fmt.Sprintf("real code dies: %v", s))
	}
	if s, ok := m["hang"]; ok {
		return Fail("hang", fmt.Sprintf("real code does not return within %v", s))
	}
	return nil
}

func classOf(real json.RawMessage) string {
	var m map[string]json.RawMessage
	if json.Unmarshal(real, &m) != nil {
		return "value"
	}
	for _, k := range []string{"panic", "fatal", "hang", "err", "ok"} {
		if _, ok := m[k]; ok {
			return k
		}
	}
	return "value"
}

func fnv(b []byte) uint64 {
	h := uint64(14695981039346656037)
	for _, c := range b {
		h ^= uint64(c)
		h *= 1099511628211
	}
	return h
}

func (c *Ctx) judge(cs Case, real, drv json.RawMessage) {
	d := checks[cs.Check]
	var v *Verdict
	if d.Judge != nil {
		v = d.Judge(cs.Args, real, drv)
	} else if d.Real != nil && d.DriverOp != "" {
		if !canonEqual(real, drv) {
			v = Disagree("model and implementation differ")
		}
	}
	c.mu.Lock()
	defer c.mu.Unlock()
	r := c.Res
	r.Cases++
	r.ByCheck[cs.Check]++
	if real != nil {
		cl := classOf(real)
		r.RealClasses[cs.Check+":"+cl]++
		if cl == "hang" || cl == "fatal" {
			atomic.AddInt64(&c.crashes, 1)
		}
	}
	h := fnv(append([]byte(cs.Check), cs.Args...))
	if _, seen := r.distinct[h]; !seen {
		r.distinct[h] = struct{}{}
	}
	if len(r.Samples) < 6 && (r.Cases == 1 || r.Cases%997 == 0) {
		r.Samples = append(r.Samples, cs)
	}
	if v == nil {
		return
	}
	f := Finding{Verdict: *v, Case: cs, Real: real, Driver: drv}
	switch v.Kind {
	case "skip":
		r.Skipped++
	case "disagree":
		r.NDisagree++
		if len(r.Disagreements) < c.maxKeep {
			r.Disagreements = append(r.Disagreements, f)
		}
	case "fail":
		r.NFail++
		r.FailKeys[v.Key]++
		if r.FailKeys[v.Key] <= 3 && len(r.Failures) < 10*c.maxKeep {
			r.Failures = append(r.Failures, f)
		}
	}
}

// ---------------------------------------------------------------- child server

// Serve is the child-process loop: run the Real phase of each received case.
func Serve() {
	in := bufio.NewReaderSize(os.Stdin, 1<<20)
	out := bufio.NewWriter(os.Stdout)
	for {
		line, err := in.ReadBytes('\n')
		if len(bytes.TrimSpace(line)) > 0 {
			var w wire
			if json.Unmarshal(line, &w) == nil {
				d := checks[w.Op]
				var res any
				if d == nil || d.Real == nil {
					res = map[string]any{"bad": "no real phase for " + w.Op}
				} else {
					res = SafeCall(func() any { return d.Real(w.Args) })
				}
				b, mErr := json.Marshal(wireOut{ID: w.ID, Out: mustJSON(res)})
				if mErr != nil {
					b, _ = json.Marshal(wireOut{ID: w.ID, Out: mustJSON(map[string]any{"bad": mErr.Error()})})
				}
				out.Write(b)
				out.WriteByte('\n')
				out.Flush()
			}
		}
		if err != nil {
			return
		}
	}
}

func mustJSON(v any) json.RawMessage {
	b, err := json.Marshal(v)
	if err != nil {
		b, _ = json.Marshal(map[string]any{"bad": err.Error()})
	}
	return b
}

// SafeCall runs f and turns a Go panic into the outcome {"panic": "<pkg.func of the panicking compose-go frame>"}.
func SafeCall(f func() any) (res any) {
	defer func() {
		if r := recover(); r != nil {
			res = map[string]any{"panic": PanicSite(), "msg": fmt.Sprint(r)}
		}
	}()
	return f()
}

const modPrefix = "github.com/compose-spec/compose-go/v2/"

// PanicSite names the innermost compose-go function on the stack of the current panic.
func PanicSite() string {
	pcs := make([]uintptr, 64)
	n := runtime.Callers(3, pcs)
	frames := runtime.CallersFrames(pcs[:n])
	for {
		fr, more := frames.Next()
		if strings.HasPrefix(fr.Function, modPrefix) {
			fn := strings.TrimPrefix(fr.Function, modPrefix)
			// strip closures: pkg.Func.func1 → pkg.Func
			parts := strings.Split(fn, ".")
			for len(parts) > 2 && (strings.HasPrefix(parts[len(parts)-1], "func") || isDigits(parts[len(parts)-1])) {
				parts = parts[:len(parts)-1]
			}
			return strings.Join(parts, ".")
		}
		if !more {
			break
		}
	}
	return "outside-compose-go"
}

func isDigits(s string) bool {
	for _, c := range s {
		if c < '0' || c > '9' {
			return false
		}
	}
	return s != ""
}

// ---------------------------------------------------------------- entry

type Options struct {
	Prop, Tier, Driver, Out, Replay, RepoDir, Corpus string
	Seed                                             int64
	Lanes                                            int
}

func Run(o Options) int {
	f := Prop(o.Prop)
	if f == nil {
		fmt.Fprintf(os.Stderr, "no harness for property %s (have %v)\n", o.Prop, PropIDs())
		return 2
	}
	self, _ := os.Executable()
	scratch, err := os.MkdirTemp("", "verif-"+o.Prop+"-")
	if err != nil {
		panic(err)
	}
	defer os.RemoveAll(scratch)
	res := &Result{Property: o.Prop, Tier: o.Tier, Seed: o.Seed, ByCheck: map[string]int{}, Distribution: map[string]int{},
		RealClasses: map[string]int{}, FailKeys: map[string]int{}, distinct: map[uint64]struct{}{},
		Disagreements: []Finding{}, Failures: []Finding{}, Samples: []Case{}, Notes: []string{}}
	ctx := &Ctx{Prop: o.Prop, Tier: o.Tier, Seed: o.Seed, Rng: rand.New(rand.NewSource(o.Seed)), Res: res, Lanes: o.Lanes,
		Self: self, Driver: o.Driver, RepoDir: o.RepoDir, Corpus: o.Corpus, Scratch: scratch, maxKeep: 20, CrashLimit: 60}
	t0 := time.Now()
	if o.Replay != "" {
		b, err := os.ReadFile(o.Replay)
		if err != nil {
			fmt.Fprintln(os.Stderr, err)
			return 2
		}
		var rp struct {
			Case Case `json:"case"`
		}
		if err := json.Unmarshal(b, &rp); err != nil || rp.Case.Check == "" {
			fmt.Fprintln(os.Stderr, "replay file has no case (it names a broken theorem / op rather than an input)")
			return 2
		}
		ctx.AddRaw(rp.Case)
		ctx.Wait()
	} else {
		ctx.RunCorpus()
		ctx.Wait()
		f(ctx)
		ctx.Wait()
		for _, x := range propExtras[o.Prop] {
			x(ctx)
			ctx.Wait()
		}
	}
	if d := atomic.LoadInt64(&ctx.dropped); d > 0 {
		res.Notes = append(res.Notes, fmt.Sprintf("crash storm: %d hang/fatal outcomes of the real code; %d further generated cases were dropped", atomic.LoadInt64(&ctx.crashes), d))
	}
	res.Distinct = len(res.distinct)
	res.WallS = time.Since(t0).Seconds()
	b, _ := json.MarshalIndent(res, "", " ")
	if o.Out != "" {
		os.WriteFile(o.Out, b, 0o644)
	} else {
		os.Stdout.Write(b)
	}
	return 0
}
