package core

// Shared helper: load a compose project from an in-memory directory tree with the real loader.

import (
	"context"
	"encoding/json"
	"fmt"
	"os"
	"path/filepath"
	"regexp"
	"sort"
	"strings"

	"github.com/compose-spec/compose-go/v2/loader"
	"github.com/compose-spec/compose-go/v2/types"
)

// LoadReq describes one load.  Files are written under a fresh temporary root; every path is relative to it.
type LoadReq struct {
	Files       map[string]string `json:"files"`                 // relative path → content
	ConfigFiles []string          `json:"config_files"`          // compose files in order (relative)
	WorkingDir  string            `json:"working_dir,omitempty"` // relative, default "."
	Env         map[string]string `json:"env,omitempty"`
	ProjectName string            `json:"project_name,omitempty"` // "" = let the loader decide; set imperatively otherwise
	Profiles    []string          `json:"profiles,omitempty"`

	SkipValidation         bool `json:"skip_validation,omitempty"`
	SkipInterpolation      bool `json:"skip_interpolation,omitempty"`
	SkipNormalization      bool `json:"skip_normalization,omitempty"`
	NoResolvePaths         bool `json:"no_resolve_paths,omitempty"`
	SkipConsistencyCheck   bool `json:"skip_consistency_check,omitempty"`
	SkipExtends            bool `json:"skip_extends,omitempty"`
	SkipInclude            bool `json:"skip_include,omitempty"`
	SkipResolveEnvironment bool `json:"skip_resolve_environment,omitempty"`
	SkipDefaultValues      bool `json:"skip_default_values,omitempty"`
	DiscardEnvFiles        bool `json:"discard_env_files,omitempty"`
}

// Materialize writes the files of req under a new temporary directory and returns it.
func Materialize(files map[string]string) (string, error) {
	base := os.Getenv("VERIF_SCRATCH")
	root, err := os.MkdirTemp(base, "tree-")
	if err != nil {
		return "", err
	}
	// resolve symlinks so that the loader's absolute paths can be mapped back to $ROOT
	if r, err := filepath.EvalSymlinks(root); err == nil {
		root = r
	}
	names := make([]string, 0, len(files))
	for n := range files {
		names = append(names, n)
	}
	sort.Strings(names)
	for _, n := range names {
		p := filepath.Join(root, n)
		if err := os.MkdirAll(filepath.Dir(p), 0o755); err != nil {
			return root, err
		}
		if err := os.WriteFile(p, []byte(files[n]), 0o644); err != nil {
			return root, err
		}
	}
	return root, nil
}

func (r LoadReq) options(o *loader.Options) {
	o.SkipValidation = r.SkipValidation
	o.SkipInterpolation = r.SkipInterpolation
	o.SkipNormalization = r.SkipNormalization
	o.ResolvePaths = !r.NoResolvePaths
	o.SkipConsistencyCheck = r.SkipConsistencyCheck
	o.SkipExtends = r.SkipExtends
	o.SkipInclude = r.SkipInclude
	o.SkipResolveEnvironment = r.SkipResolveEnvironment
	o.SkipDefaultValues = r.SkipDefaultValues
	o.Profiles = r.Profiles
	if r.ProjectName != "" {
		o.SetProjectName(r.ProjectName, true)
	}
	if r.DiscardEnvFiles {
		loader.WithDiscardEnvFiles(o)
	}
}

// Details builds the loader input for an already materialised tree.
func (r LoadReq) Details(root string) types.ConfigDetails {
	wd := filepath.Join(root, r.WorkingDir)
	var cfs []types.ConfigFile
	for _, f := range r.ConfigFiles {
		cfs = append(cfs, types.ConfigFile{Filename: filepath.Join(root, f)})
	}
	env := map[string]string{}
	for k, v := range r.Env {
		env[k] = v
	}
	return types.ConfigDetails{WorkingDir: wd, ConfigFiles: cfs, Environment: env}
}

// LoadIn loads req from an already materialised root.
func (r LoadReq) LoadIn(root string) (*types.Project, error) {
	return loader.LoadWithContext(context.Background(), r.Details(root), r.options)
}

// Load materialises and loads; the caller removes root.
func (r LoadReq) Load() (p *types.Project, root string, err error) {
	root, err = Materialize(r.Files)
	if err != nil {
		return nil, root, err
	}
	p, err = r.LoadIn(root)
	return p, root, err
}

// ProjectJSON renders a project through its own JSON marshaller, with the temporary root replaced by $ROOT,
// decoded to a generic tree (so comparisons are structural).
func ProjectJSON(p *types.Project, root string) (any, error) {
	b, err := p.MarshalJSON()
	if err != nil {
		return nil, err
	}
	s := strings.ReplaceAll(string(b), root, "$ROOT")
	var v any
	if err := json.Unmarshal([]byte(s), &v); err != nil {
		return nil, err
	}
	return v, nil
}

var tmpRootRe = regexp.MustCompile(`/[^\s"':]*tree-[0-9]+`)

// ScrubErr removes temporary directory names from an error text.
func ScrubErr(err error, root string) string {
	s := err.Error()
	if root != "" {
		s = strings.ReplaceAll(s, root, "$ROOT")
	}
	return tmpRootRe.ReplaceAllString(s, "$$ROOT")
}

// LoadOutcome = {"ok": project-as-JSON} | {"err": text}; panics propagate to SafeCall.
func LoadOutcome(r LoadReq) any {
	p, root, err := r.Load()
	defer os.RemoveAll(root)
	if err != nil {
		if p != nil {
			return map[string]any{"err": ScrubErr(err, root), "also_project": true}
		}
		return map[string]any{"err": ScrubErr(err, root)}
	}
	if p == nil {
		return map[string]any{"bad": "nil project and nil error"}
	}
	v, err := ProjectJSON(p, root)
	if err != nil {
		return map[string]any{"marshal_err": fmt.Sprint(err)}
	}
	return map[string]any{"ok": v}
}
