package main

import "verifharness/core"

func genOracles(ctx *core.Ctx) {}
