package c11

// C11 — the three defaulting stages in loader order: transform.Canonical ; transform.SetDefaultValues ;
// loader.Normalize  vs  C11.pipeline (lean/ComposeVerif/Model/C11Pipeline.lean).
//
// Direct part (real code only): the result — the model with every default written out — is run through the three
// stages once more and must come back unchanged (Props/C11Stages.lean proves it per service on the model).

import (
	"encoding/json"
	"reflect"

	"github.com/compose-spec/compose-go/v2/loader"
	"github.com/compose-spec/compose-go/v2/transform"
	"github.com/compose-spec/compose-go/v2/tree"

	"verifharness/core"
)

func c11Stages(d map[string]any, env map[string]string) (map[string]any, string, error) {
	d, err := transform.Canonical(d, false)
	if err != nil {
		return nil, "Canonical", err
	}
	d, err = transform.SetDefaultValues(d)
	if err != nil {
		return nil, "SetDefaultValues", err
	}
	d, err = loader.Normalize(d, env)
	if err != nil {
		return nil, "Normalize", err
	}
	return d, "", nil
}

func init() {
	core.Register("c11.pipeline", &core.CheckDef{
		Real: func(raw json.RawMessage) any {
			d, env := c11Dict(raw)
			res, _, err := c11Stages(d, env)
			if err != nil {
				return map[string]any{"err": "err"}
			}
			out := map[string]any{"ok": core.EncodeVal(res), "again": "same"}
			// once more, stage by stage, on a copy of the explicit model
			cur := core.DeepCopyVal(res).(map[string]any)
			steps := []struct {
				name string
				f    func(map[string]any) (map[string]any, error)
			}{
				{"Canonical", func(x map[string]any) (map[string]any, error) { return transform.Canonical(x, false) }},
				{"SetDefaultValues", transform.SetDefaultValues},
				{"Normalize", func(x map[string]any) (map[string]any, error) { return loader.Normalize(x, env) }},
			}
			for _, st := range steps {
				next, err := st.f(cur)
				if err != nil {
					out["again"] = "err"
					out["stage"] = st.name
					break
				}
				if !reflect.DeepEqual(next, res) {
					out["again"] = "differs"
					out["stage"] = st.name
					out["at"] = c11FirstDiff(jsonRound(res), jsonRound(next), "")
					break
				}
				cur = next
			}
			return out
		},
		DriverOp: "c11.pipeline",
		Judge: func(args, real, drv json.RawMessage) *core.Verdict {
			if v := core.CrashVerdict(real); v != nil {
				return v
			}
			var r struct {
				Ok    json.RawMessage `json:"ok"`
				Err   string          `json:"err"`
				Again string          `json:"again"`
				Stage string          `json:"stage"`
				At    string          `json:"at"`
			}
			if err := json.Unmarshal(real, &r); err != nil {
				return core.Disagree("malformed outcome: " + string(real))
			}
			if r.Err == "" && r.Again != "same" {
				return core.Fail("explicit-model-not-fixed:"+r.Stage, "the model with every default written out (result of Canonical ; SetDefaultValues ; Normalize) is changed again by "+r.Stage+" ("+r.Again+" "+r.At+"): the explicit spelling does not load to what the implicit one loads to")
			}
			var a, b any
			json.Unmarshal(real, &a)
			json.Unmarshal(drv, &b)
			if am, ok := a.(map[string]any); ok {
				delete(am, "stage")
				delete(am, "at")
			}
			ab, _ := json.Marshal(a)
			bb, _ := json.Marshal(b)
			if !core.CanonEqual(ab, bb) {
				return core.Disagree("C11.pipeline ≠ Canonical ; SetDefaultValues ; Normalize")
			}
			return nil
		},
	})
}

func init() {
	core.Register("c11.next", &core.CheckDef{
		Real: func(raw json.RawMessage) any {
			var a struct {
				P []string `json:"p"`
				K string   `json:"k"`
			}
			if err := json.Unmarshal(raw, &a); err != nil {
				panic(err)
			}
			return map[string]any{"ok": tree.NewPath(a.P...).Next(a.K).Parts()}
		},
		DriverOp: "c11.next",
	})
}

func jsonRound(v any) any {
	b, _ := json.Marshal(v)
	var out any
	json.Unmarshal(b, &out)
	return out
}

var (
	optPBuild   = []any{absent, m{}, m{"context": "./ctx"}, m{"dockerfile": "D"}, m{"dockerfile_inline": "FROM x"}, m{"context": nil, "dockerfile": nil}, m{"args": m{"FOO": nil, "X": "y"}}, m{"context": ".", "args": l{"FOO", "X=1", "Z"}}}
	optPPorts   = []any{absent, l{m{"target": 80}}, l{m{"target": 80, "protocol": "udp", "mode": "host"}, m{"target": 81, "protocol": "tcp"}}, l{m{"target": 80, "mode": "ingress"}}}
	optPSecrets = []any{absent, l{m{"source": "sec"}}, l{m{"source": "sec", "target": "/t"}, m{"source": "s2"}}}
	optPGpus    = []any{absent, l{m{"driver": "nvidia"}}, l{m{"count": 2}}, l{m{"device_ids": l{"0"}}, m{"capabilities": l{"gpu"}}}}
	optPDeploy  = []any{absent, m{"resources": m{"reservations": m{"devices": l{m{"capabilities": l{"gpu"}}, m{"count": "all"}}}}}, m{"replicas": 2}}
	optPSvcNets = []any{absent, m{}, m{"default": nil}, m{"other": nil}, m{"default": m{"aliases": l{"x"}}, "other": nil}}
	optPNetMode = []any{absent, absent, "host", "service:b"}
	optPPull    = []any{absent, "if_not_present", "always", "missing"}
	optPEnv     = []any{absent, m{"FOO": nil, "X": "y", "Z": nil}, l{"FOO", "X=1", "Z"}}
	optPVolumes = []any{absent, l{m{"type": "volume", "source": "v", "target": "/a/../b//c/."}}, l{m{"type": "bind", "source": "/s", "target": "/data"}, m{"type": "tmpfs", "target": "x/./y/"}}}
	optPDeps    = []any{absent, l{"b"}, l{"b", "c"}, m{"b": m{"condition": "service_healthy"}}, m{"b": m{"condition": "service_started", "required": false}, "c": m{"restart": true}}, m{"c": m{}}}
	optPEnvFile = []any{absent, "e.env", l{"e.env", "f.env"}, l{m{"path": "e.env"}, m{"path": "f.env", "required": false}}, l{m{"path": "e.env", "format": "raw"}, "g.env"}}
	optPLinks   = []any{absent, l{"b"}, l{"c:alias"}, l{"b", "d:x"}}
	optPVolFrom = []any{absent, l{"b"}, l{"c:ro", "container:ext"}}
	optPTopNets = []any{absent, m{"default": nil}, m{"other": m{"name": "x"}}, m{"default": m{"name": "custom"}, "other": nil}}
	optPTopVols = []any{absent, m{"v": nil}, m{"v": m{"external": true}, "w": m{"name": "named"}}}
)

func c11PipelineDoc(ctx *core.Ctx) (map[string]any, string) {
	r := ctx.Rng
	svc := func() map[string]any {
		s := m{"image": "i"}
		put(s, "build", pick(r, optPBuild))
		put(s, "ports", pick(r, optPPorts))
		put(s, "secrets", pick(r, optPSecrets))
		put(s, "gpus", pick(r, optPGpus))
		put(s, "deploy", pick(r, optPDeploy))
		put(s, "networks", pick(r, optPSvcNets))
		put(s, "network_mode", pick(r, optPNetMode))
		put(s, "ipc", pick(r, optPNetMode))
		put(s, "pull_policy", pick(r, optPPull))
		put(s, "environment", pick(r, optPEnv))
		put(s, "volumes", pick(r, optPVolumes))
		put(s, "depends_on", pick(r, optPDeps))
		put(s, "env_file", pick(r, optPEnvFile))
		put(s, "links", pick(r, optPLinks))
		put(s, "volumes_from", pick(r, optPVolFrom))
		return s
	}
	d := m{"name": "proj", "services": m{"a": svc(), "b": svc(), "x.y": svc()}}
	if r.Intn(2) == 0 {
		// a service whose key looks like an extension is a service: every stage treats it like `a`
		d["services"].(map[string]any)["x-ray"] = svc()
		ctx.Count("pipeline:x-service")
	}
	put(d, "networks", pick(r, optPTopNets))
	put(d, "volumes", pick(r, optPTopVols))
	kind := "pipeline:valid-shapes"
	if r.Intn(6) == 0 {
		// one position of the wrong shape: some stage reports an error (which one depends on the position)
		a := d["services"].(map[string]any)["a"].(map[string]any)
		switch r.Intn(5) {
		case 0:
			a["depends_on"] = m{"b": nil}
		case 1:
			a["env_file"] = 7
		case 2:
			a["secrets"] = l{"sec", 5}
		case 3:
			a["links"] = l{3}
		case 4:
			a["gpus"] = l{"all"}
		}
		kind = "pipeline:one-bad-shape"
	}
	return d, kind
}

func c11PipelineStream(ctx *core.Ctx) {
	// the escape facts of Props/C11Stages.lean (EscFacts) and their neighbours, on both sides
	for _, p := range [][]string{{"services", "a"}, {"services", "x👻y"}, {"services", "a", "depends_on"}, {"networks"}} {
		for _, k := range []string{"build", "networks", "depends_on", "pull_policy", "environment", "volumes", "env_file", "x.y", "a.b.c", ".", "", "[]"} {
			ctx.Count("path-next")
			ctx.Add("c11.next", map[string]any{"p": p, "k": k})
		}
	}
	// at the root `Next` does not escape: it splits (Props/C11Lift.lean: RootFacts — root.Next(k) = [k] for the five section names)
	for _, k := range []string{"services", "networks", "volumes", "configs", "secrets", "x-ext", "services.a", "a.b.c", ".", ""} {
		ctx.Count("path-next:root")
		ctx.Add("c11.next", map[string]any{"p": []string{""}, "k": k})
	}
	envs := []map[string]string{{}, {"FOO": "bar", "EMPTY": ""}, {"FOO": "a=b", "X": "1"}}
	for i := 0; i < ctx.Pick(2500, 60000); i++ {
		d, kind := c11PipelineDoc(ctx)
		c11Add(ctx, "c11.pipeline", kind, d, envs[ctx.Rng.Intn(len(envs))])
	}
}
