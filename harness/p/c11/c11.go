package c11

// C11 — implicit defaults are made explicit exactly as the specification defines them.
//
// Correspondence (real compose-go vs Lean model, lean/ComposeVerif/Model/C11*.lean):
//
//	c11.normalize    loader.Normalize            vs  C11.normalize pathClean
//	c11.setDefaults  transform.SetDefaultValues  vs  C11.setDefaultValues Gen.defaultValues
//	c11.canonical    transform.Canonical         vs  C11.canonicalLite   (depends_on / env_file halves)
//	c11.clean        path.Clean                  vs  C11.pathClean
//
// The direct oracle (metamorphic whole loads) lives in c11_oracle.go.

import (
	"encoding/json"
	"fmt"
	"math/rand"
	"path"
	"reflect"
	"sort"
	"strings"

	"github.com/compose-spec/compose-go/v2/loader"
	"github.com/compose-spec/compose-go/v2/transform"

	"verifharness/core"
)

type c11TreeArgs struct {
	Dict core.T            `json:"dict"`
	Env  map[string]string `json:"env,omitempty"`
}

func c11Dict(raw json.RawMessage) (map[string]any, map[string]string) {
	var a struct {
		Dict json.RawMessage   `json:"dict"`
		Env  map[string]string `json:"env"`
	}
	if err := json.Unmarshal(raw, &a); err != nil {
		panic(err)
	}
	d, ok := core.DecodeValRaw(a.Dict).(map[string]any)
	if !ok {
		panic("c11: dict is not a mapping")
	}
	if a.Env == nil {
		a.Env = map[string]string{}
	}
	return d, a.Env
}

func c11Outcome(res map[string]any, err error) any {
	if err != nil {
		return map[string]any{"err": "err"}
	}
	out := map[string]any{"ok": core.EncodeVal(res)}
	if at := c11Shared(res); at != "" {
		out["shared"] = at
	}
	return out
}

// c11Shared reports the path of a mapping / sequence that is reachable twice in a result tree.  The inputs are
// freshly decoded trees, so any sharing was introduced by the function under test: a default value that is one
// map instance stored under several keys is overwritten for all of them by the next in-place merge.
func c11Shared(v any) string {
	seen := map[uintptr]string{}
	var walk func(v any, at string) string
	walk = func(v any, at string) string {
		switch x := v.(type) {
		case map[string]any:
			if x == nil {
				return ""
			}
			p := reflect.ValueOf(x).Pointer()
			if prev, dup := seen[p]; dup {
				return prev + " = " + at
			}
			seen[p] = at
			ks := make([]string, 0, len(x))
			for k := range x {
				ks = append(ks, k)
			}
			sort.Strings(ks)
			for _, k := range ks {
				if r := walk(x[k], at+"."+k); r != "" {
					return r
				}
			}
		case []any:
			if len(x) == 0 {
				return ""
			}
			p := reflect.ValueOf(x).Pointer()
			if prev, dup := seen[p]; dup {
				return prev + " = " + at
			}
			seen[p] = at
			for i, e := range x {
				if r := walk(e, fmt.Sprintf("%s[%d]", at, i)); r != "" {
					return r
				}
			}
		}
		return ""
	}
	return walk(v, "")
}

func c11Judge(what string) func(args, real, drv json.RawMessage) *core.Verdict {
	return func(args, real, drv json.RawMessage) *core.Verdict {
		switch core.Class(real) {
		case "fatal", "hang":
			return core.CrashVerdict(real)
		}
		var r struct {
			Ok     json.RawMessage `json:"ok"`
			Shared string          `json:"shared"`
		}
		if json.Unmarshal(real, &r) == nil && r.Shared != "" {
			// the result is not a tree any more: a value written by the function is one instance under two positions
			b, _ := json.Marshal(map[string]any{"ok": r.Ok})
			real = b
			if core.CanonEqual(real, drv) {
				return core.Fail("shared-default-instance:"+strings.SplitN(what, " ", 2)[0], "the result shares one mapping/sequence instance between "+r.Shared+": a later in-place change of one overwrites the other")
			}
		}
		// a panic is an outcome the model must predict (site included; Normalize has none left); it is the business of C01 to
		// call it a defect, here it only has to be the same on both sides
		if !core.CanonEqual(real, drv) {
			return core.Disagree(what)
		}
		return nil
	}
}

func init() {
	core.Register("c11.normalize", &core.CheckDef{
		Real: func(raw json.RawMessage) any {
			d, env := c11Dict(raw)
			return c11Outcome(loader.Normalize(d, env))
		},
		DriverOp: "c11.normalize",
		Judge:    c11Judge("C11.normalize ≠ loader.Normalize"),
	})
	core.Register("c11.setDefaults", &core.CheckDef{
		Real: func(raw json.RawMessage) any {
			d, _ := c11Dict(raw)
			return c11Outcome(transform.SetDefaultValues(d))
		},
		DriverOp: "c11.setDefaults",
		Judge:    c11Judge("C11.setDefaultValues ≠ transform.SetDefaultValues"),
	})
	core.Register("c11.canonical", &core.CheckDef{
		Real: func(raw json.RawMessage) any {
			d, _ := c11Dict(raw)
			return c11Outcome(transform.Canonical(d, false))
		},
		DriverOp: "c11.canonical",
		Judge:    c11Judge("C11.canonicalLite ≠ transform.Canonical"),
	})
	core.Register("c11.clean", &core.CheckDef{
		Real: func(raw json.RawMessage) any {
			var a struct {
				S string `json:"s"`
			}
			json.Unmarshal(raw, &a)
			return map[string]any{"ok": path.Clean(a.S)}
		},
		DriverOp: "c11.clean",
		Judge:    c11Judge("C11.pathClean ≠ path.Clean"),
	})
	core.RegisterProp("C11", runC11)
}

// ---------------------------------------------------------------- small helpers

type m = map[string]any
type l = []any

func c11Add(ctx *core.Ctx, check, kind string, dict map[string]any, env map[string]string) {
	ctx.Count(kind)
	ctx.Add(check, c11TreeArgs{Dict: core.EncodeVal(dict), Env: env})
}

// absent marks "leave the key out" in option lists.
type absentT struct{}

var absent = absentT{}

func put(mp map[string]any, k string, v any) {
	if _, no := v.(absentT); no {
		return
	}
	mp[k] = core.DeepCopyVal(v)
}

func pick(r *rand.Rand, opts []any) any { return opts[r.Intn(len(opts))] }

var c11Envs = []map[string]string{
	{},
	{"FOO": "bar", "EMPTY": ""},
	{"FOO": "a=b", "X": "1", "": "anon"},
}

// ---------------------------------------------------------------- option tables (Normalize)

var (
	optSvcNetworks = []any{absent, m{}, m{"default": nil}, m{"other": nil}, m{"default": m{"aliases": l{"x"}}, "other": m{}}, m{"front": nil, "back": nil}}
	optNetworkMode = []any{absent, "host", "service:b", "none", "service:", "container:x"}
	optTopNetworks = []any{absent, m{}, m{"default": nil}, m{"default": m{"name": "custom"}}, m{"other": nil}, m{"other": m{"external": true}}, m{"default": m{"external": true}, "other": m{"name": nil}}}
	optPullPolicy  = []any{absent, "if_not_present", "missing", "always", "IF_NOT_PRESENT", "", nil, 3, l{"if_not_present"}, m{"if_not_present": 1}}
	optContext     = []any{absent, nil, ".", "./ctx", "", 7}
	optDockerfile  = []any{absent, nil, "Dockerfile", "Other.Dockerfile", ""}
	optInline      = []any{absent, nil, "FROM x"}
	optArgs        = []any{absent, nil, m{}, m{"FOO": nil, "X": "y", "Z": nil}, m{"EMPTY": nil, "N": 1}, l{"FOO", "X=1", "Z", ""}, l{"FOO", 1, nil, l{"FOO", "Q"}, m{"FOO": nil}}, "FOO", "Z", "A=B", 5}
	optEnvironment = []any{absent, nil, m{}, m{"FOO": nil, "X": "y", "Z": nil}, l{"FOO", "X=1", "Z", "", "EMPTY"}, l{"Z", true, l{}}, "FOO", "Z", 1.5}
	optDependsOn   = []any{absent, m{}, m{"b": m{"condition": "service_healthy", "required": false}}, m{"b": m{"condition": "service_started", "restart": true, "required": true}, "c": m{"condition": "service_completed_successfully"}}, m{"b": nil}, m{"x": 1}}
	optLinks       = []any{absent, l{}, l{"b"}, l{"b:alias"}, l{"b:alias:extra", "c", "b"}, l{"", ":", "c:"}, l{"é:x", "b"}}
	optNsValue     = []any{absent, "service:b", "service:c", "host", "service:", "container:b", "", "SERVICE:b", "service:b:c"}
	optVolumesFrom = []any{absent, l{}, l{"b"}, l{"b:ro"}, l{"container:ext", "c:rw", "b"}, l{"container:", "", ":ro"}}
	optVolumes     = []any{absent, l{}, l{m{"type": "volume", "source": "v", "target": "/data"}}, l{m{"type": "bind", "target": "/a/../b//c/."}, m{"target": ""}, m{"target": "rel/../../x", "read_only": true}}, l{m{"target": "/.."}, m{"target": "a/./b/"}}}
	optResource    = []any{nil, m{}, m{"name": nil}, m{"name": "custom"}, m{"name": ""}, m{"external": true}, m{"external": false}, m{"external": "true"}, m{"external": "T"}, m{"external": "yes"}, m{"external": 1}, m{"external": 0}, m{"external": 1.0}, m{"external": nil}, m{"external": true, "name": "custom"}, m{"external": true, "name": nil}, m{"external": m{"name": "legacy"}}, m{"external": l{"1"}}, m{"driver": "d", "labels": m{"a": "b"}}}
	optProjName    = []any{"proj", "p-1_x", "", absent, nil, 5, true}
	namespaceKeys  = []string{"network_mode", "ipc", "pid", "uts", "cgroup"}
	sectionKeys    = []string{"networks", "volumes", "configs", "secrets"}
)

func c11NormalizeExhaustive(ctx *core.Ctx) {
	// (1) normalizeNetworks: two services × declared networks
	for _, na := range optSvcNetworks {
		for _, ma := range optNetworkMode[:3] {
			for _, nb := range optSvcNetworks {
				for _, mb := range optNetworkMode[:2] {
					for _, top := range optTopNetworks {
						a, b := m{"image": "i"}, m{"image": "j"}
						put(a, "networks", na)
						put(a, "network_mode", ma)
						put(b, "networks", nb)
						put(b, "network_mode", mb)
						d := m{"name": "proj", "services": m{"a": a, "b": b}}
						put(d, "networks", top)
						c11Add(ctx, "c11.normalize", "nz-exh-networks", d, nil)
					}
				}
			}
		}
	}
	// (2) build defaults × pull policy
	for _, c := range optContext {
		for _, df := range optDockerfile {
			for _, in := range optInline {
				for ai, ar := range optArgs {
					b := m{}
					put(b, "context", c)
					put(b, "dockerfile", df)
					put(b, "dockerfile_inline", in)
					put(b, "args", ar)
					s := m{"build": b}
					put(s, "pull_policy", optPullPolicy[ai%len(optPullPolicy)])
					d := m{"name": "proj", "services": m{"a": s}}
					c11Add(ctx, "c11.normalize", "nz-exh-build", d, c11Envs[(ai+len(b))%len(c11Envs)])
				}
			}
		}
	}
	for _, pp := range optPullPolicy {
		for _, e := range optEnvironment {
			for _, env := range c11Envs {
				s := m{}
				put(s, "pull_policy", pp)
				put(s, "environment", e)
				c11Add(ctx, "c11.normalize", "nz-exh-env", m{"name": "proj", "services": m{"a": s}}, env)
			}
		}
	}
	// (3) implied depends_on: links × depends_on × one namespace × volumes_from
	for _, lk := range optLinks {
		for _, dep := range optDependsOn[:4] {
			for ni, nsv := range optNsValue {
				for _, vf := range optVolumesFrom {
					s := m{"image": "i"}
					put(s, "links", lk)
					put(s, "depends_on", dep)
					put(s, namespaceKeys[ni%len(namespaceKeys)], nsv)
					put(s, "volumes_from", vf)
					c11Add(ctx, "c11.normalize", "nz-exh-deps", m{"name": "proj", "services": m{"a": s, "b": m{}, "c": m{"network_mode": "none"}}}, nil)
				}
			}
		}
	}
	// every namespace key × every value, and all five at once
	for _, k := range namespaceKeys {
		for _, nsv := range optNsValue {
			s := m{}
			put(s, k, nsv)
			c11Add(ctx, "c11.normalize", "nz-exh-namespace", m{"name": "proj", "services": m{"a": s}}, nil)
		}
	}
	c11Add(ctx, "c11.normalize", "nz-exh-namespace", m{"name": "proj", "services": m{"a": m{"network_mode": "service:n", "ipc": "service:i", "pid": "service:p", "uts": "service:u", "cgroup": "service:c", "depends_on": m{"p": m{"condition": "service_healthy"}}}}}, nil)
	for _, v := range optVolumes {
		s := m{}
		put(s, "volumes", v)
		c11Add(ctx, "c11.normalize", "nz-exh-volumes", m{"name": "proj", "services": m{"a": s}}, nil)
	}
	// (4) setNameFromKey: section × resource shape × project name
	for _, sec := range sectionKeys {
		for _, r := range optResource {
			for _, pn := range optProjName {
				d := m{sec: m{"res": core.DeepCopyVal(r), "o.ther": nil}}
				put(d, "name", pn)
				c11Add(ctx, "c11.normalize", "nz-exh-names", d, nil)
			}
		}
	}
	// (5) malformed: every asserted position × the ten node kinds
	type pos struct {
		name string
		set  func(v any) map[string]any
	}
	svc := func(k string) func(v any) map[string]any {
		return func(v any) map[string]any {
			return m{"name": "proj", "services": m{"a": m{"image": "i", k: v}, "b": m{}}}
		}
	}
	positions := []pos{
		{"networks", func(v any) map[string]any { return m{"name": "proj", "services": m{"a": m{}}, "networks": v} }},
		{"services", func(v any) map[string]any { return m{"name": "proj", "services": v} }},
		{"service", func(v any) map[string]any { return m{"name": "proj", "services": m{"a": v, "b": m{}}} }},
		{"service.networks", svc("networks")},
		{"service.networks+mode", func(v any) map[string]any {
			return m{"name": "proj", "services": m{"a": m{"network_mode": "host", "networks": v}}}
		}},
		{"build", svc("build")},
		{"build.context", func(v any) map[string]any { return svc("build")(m{"context": v}) }},
		{"build.dockerfile", func(v any) map[string]any { return svc("build")(m{"dockerfile": v}) }},
		{"build.dockerfile_inline", func(v any) map[string]any { return svc("build")(m{"dockerfile_inline": v}) }},
		{"build.args", func(v any) map[string]any { return svc("build")(m{"args": v}) }},
		{"environment", svc("environment")},
		{"depends_on", svc("depends_on")},
		{"depends_on.entry", func(v any) map[string]any { return svc("depends_on")(m{"b": v}) }},
		{"links", svc("links")},
		{"links.item", func(v any) map[string]any { return svc("links")(l{"b", v}) }},
		{"network_mode", svc("network_mode")},
		{"ipc", svc("ipc")},
		{"pid", svc("pid")},
		{"uts", svc("uts")},
		{"cgroup", svc("cgroup")},
		{"volumes", svc("volumes")},
		{"volumes.item", func(v any) map[string]any { return svc("volumes")(l{m{"target": "/x"}, v}) }},
		{"volumes.target", func(v any) map[string]any { return svc("volumes")(l{m{"target": v}}) }},
		{"volumes_from", svc("volumes_from")},
		{"volumes_from.item", func(v any) map[string]any { return svc("volumes_from")(l{v, "b"}) }},
		{"pull_policy", svc("pull_policy")},
		{"top.volumes", func(v any) map[string]any { return m{"name": "proj", "volumes": v} }},
		{"top.secrets", func(v any) map[string]any { return m{"name": "proj", "secrets": v} }},
		{"top.configs", func(v any) map[string]any { return m{"name": "proj", "configs": v} }},
		{"top.volumes.entry", func(v any) map[string]any { return m{"name": "proj", "volumes": m{"v": v}} }},
		{"top.networks.entry", func(v any) map[string]any { return m{"name": "proj", "networks": m{"n": v}} }},
		{"resource.name", func(v any) map[string]any { return m{"name": "proj", "configs": m{"c": m{"name": v}}} }},
		{"resource.external", func(v any) map[string]any { return m{"name": "proj", "secrets": m{"s": m{"external": v}}} }},
	}
	for _, p := range positions {
		for _, k := range core.Kinds {
			for rep := 0; rep < 3; rep++ {
				ctx.Count("nz-malformed-kind:" + k)
				c11Add(ctx, "c11.normalize", "nz-malformed-pos:"+p.name, p.set(core.KindValue(k, ctx.Rng)), c11Envs[rep])
			}
		}
	}
	// DESIGN §10 #2 (repaired in /repo): an empty `pid:` passes the schema; it must normalise without a panic
	c11Add(ctx, "c11.normalize", "nz-null-pid", m{"name": "proj", "services": m{"a": m{"image": "i", "pid": nil}}}, nil)
}

// c11RandomService builds one service from the option tables (mostly valid shapes).
func c11RandomService(r *rand.Rand, malformed bool) map[string]any {
	s := m{}
	maybe := func(k string, opts []any, p int) {
		if r.Intn(100) < p {
			put(s, k, pick(r, opts))
		}
	}
	if r.Intn(2) == 0 {
		s["image"] = "img"
	}
	maybe("networks", optSvcNetworks, 50)
	maybe("pull_policy", optPullPolicy[:6], 30)
	if r.Intn(100) < 40 {
		b := m{}
		put(b, "context", pick(r, optContext[:5]))
		put(b, "dockerfile", pick(r, optDockerfile))
		put(b, "dockerfile_inline", pick(r, optInline))
		put(b, "args", pick(r, optArgs))
		s["build"] = b
	}
	maybe("environment", optEnvironment, 40)
	maybe("depends_on", optDependsOn[:4], 40)
	maybe("links", optLinks, 40)
	for _, k := range namespaceKeys {
		maybe(k, optNsValue, 20)
	}
	maybe("volumes", optVolumes, 30)
	maybe("volumes_from", optVolumesFrom, 30)
	if malformed {
		keys := []string{"networks", "build", "environment", "depends_on", "links", "network_mode", "ipc", "pid", "uts", "cgroup", "volumes", "volumes_from", "pull_policy"}
		s[keys[r.Intn(len(keys))]] = core.KindValue(core.Kinds[r.Intn(len(core.Kinds))], r)
	}
	return s
}

func c11RandomDoc(r *rand.Rand, malformed bool) map[string]any {
	d := m{}
	put(d, "name", pick(r, optProjName[:4]))
	names := []string{"a", "b", "c", "web.1"}
	n := r.Intn(4)
	if n > 0 || r.Intn(2) == 0 {
		svcs := m{}
		bad := -1
		if malformed {
			bad = r.Intn(n + 1)
		}
		for i := 0; i < n; i++ {
			svcs[names[i]] = c11RandomService(r, i == bad)
		}
		d["services"] = svcs
	}
	if r.Intn(100) < 60 {
		put(d, "networks", pick(r, optTopNetworks))
	}
	for _, sec := range sectionKeys[1:] {
		if r.Intn(100) < 35 {
			sm := m{}
			for i, k := range []string{"r1", "r2", "x.y"} {
				if r.Intn(3) >= i {
					sm[k] = core.DeepCopyVal(pick(r, optResource))
				}
			}
			d[sec] = sm
		}
	}
	if malformed && r.Intn(3) == 0 {
		d[sectionKeys[r.Intn(4)]] = core.KindValue(core.Kinds[r.Intn(len(core.Kinds))], r)
	}
	return d
}

// ---------------------------------------------------------------- SetDefaultValues

var (
	optSDBuild  = []any{absent, m{}, m{"context": "."}, m{"context": "./x", "dockerfile": "D"}, m{"context": nil}, m{"dockerfile": "D", "args": m{"context": "inner"}}, "./short", nil, l{}, 4}
	optSDSecret = []any{m{"source": "s"}, m{"source": "s", "target": "/t"}, m{"source": "s", "target": nil}, m{"target": "only"}, m{}, m{"source": 5}, m{"source": nil}, m{"source": true, "uid": "1"}, "short", nil, 3, l{}}
	optSDPort   = []any{m{"target": 80}, m{"target": 80, "protocol": "udp"}, m{"target": 80, "mode": "host"}, m{"target": 80, "protocol": "tcp", "mode": "ingress"}, m{"protocol": nil, "mode": nil}, m{}, "8080:80", 80, nil, l{m{"target": 1}}}
	optSDDevice = []any{m{"capabilities": l{"gpu"}}, m{"capabilities": l{"gpu"}, "count": 2}, m{"count": "all"}, m{"device_ids": l{"0"}}, m{"device_ids": l{"0"}, "count": 1}, m{"count": nil}, m{"device_ids": nil}, m{}, "all", nil, 7, l{}}
)

// service keys of the random SetDefaultValues documents (user defined: extension-like, dotted, upper case)
var c11SDNames = []string{"b", "b", "x-ray", "x-", "x.y", "X-b"}

func c11SDService(r *rand.Rand, full bool) map[string]any {
	s := m{"image": "i"}
	list := func(opts []any) []any {
		n := r.Intn(3)
		if full {
			n = 1 + r.Intn(3)
		}
		out := l{}
		for i := 0; i < n; i++ {
			out = append(out, core.DeepCopyVal(pick(r, opts)))
		}
		return out
	}
	if r.Intn(2) == 0 || full {
		put(s, "build", pick(r, optSDBuild))
	}
	if r.Intn(2) == 0 || full {
		s["secrets"] = list(optSDSecret[:5])
	}
	if r.Intn(2) == 0 || full {
		s["ports"] = list(optSDPort[:6])
	}
	if r.Intn(2) == 0 || full {
		s["deploy"] = m{"resources": m{"reservations": m{"devices": list(optSDDevice[:8])}, "limits": m{"devices": list(optSDDevice[:3])}}}
	}
	if r.Intn(3) == 0 || full {
		s["gpus"] = list(optSDDevice[:8])
	}
	return s
}

func c11SetDefaultsExhaustive(ctx *core.Ctx) {
	add := func(kind string, svc map[string]any) {
		c11Add(ctx, "c11.setDefaults", kind, m{"services": m{"a": svc, "b": m{"image": "j"}}}, nil)
		// the same attributes under user-defined keys that look like extensions (`x-…`), at the service level and
		// one level up: only the path decides (services.* matches `x-ray`; `x-services` is not `services`)
		c11Add(ctx, "c11.setDefaults", kind+":x-key", m{"services": m{"x-ray": svc, "x-": core.DeepCopyVal(svc)}, "x-services": m{"a": core.DeepCopyVal(svc)}}, nil)
	}
	for _, b := range optSDBuild {
		s := m{"image": "i"}
		put(s, "build", b)
		add("sd-exh-build", s)
	}
	for _, x := range optSDSecret {
		for _, y := range optSDSecret[:3] {
			add("sd-exh-secret", m{"secrets": l{core.DeepCopyVal(y), core.DeepCopyVal(x)}})
		}
		add("sd-exh-secret", m{"secrets": m{"k": core.DeepCopyVal(x)}}) // `*` also matches mapping keys
	}
	for _, x := range optSDPort {
		for _, y := range optSDPort[:3] {
			add("sd-exh-port", m{"ports": l{core.DeepCopyVal(x), core.DeepCopyVal(y)}})
		}
	}
	for _, x := range optSDDevice {
		add("sd-exh-device", m{"deploy": m{"resources": m{"reservations": m{"devices": l{core.DeepCopyVal(x)}}}}})
		add("sd-exh-gpus", m{"gpus": l{m{"driver": "nvidia"}, core.DeepCopyVal(x)}})
		add("sd-exh-device-elsewhere", m{"deploy": m{"resources": m{"limits": m{"devices": l{core.DeepCopyVal(x)}}}}, "devices": l{core.DeepCopyVal(x)}})
	}
	// node kinds at the container positions
	for _, k := range core.Kinds {
		for _, key := range []string{"build", "secrets", "ports", "gpus", "deploy"} {
			ctx.Count("sd-malformed-kind:" + k)
			add("sd-malformed-pos:"+key, m{key: core.KindValue(k, ctx.Rng)})
		}
		c11Add(ctx, "c11.setDefaults", "sd-malformed-pos:services", m{"services": core.KindValue(k, ctx.Rng)}, nil)
		c11Add(ctx, "c11.setDefaults", "sd-malformed-pos:service", m{"services": m{"a": core.KindValue(k, ctx.Rng)}}, nil)
		add("sd-malformed-pos:devices", m{"deploy": m{"resources": m{"reservations": m{"devices": core.KindValue(k, ctx.Rng)}}}})
	}
	// quirks of tree.Path: a top-level key with dots is split into several parts; elsewhere dots are escaped
	c11Add(ctx, "c11.setDefaults", "sd-path-quirk", m{"services.a.build": m{"dockerfile": "D"}}, nil)
	c11Add(ctx, "c11.setDefaults", "sd-path-quirk", m{"services.a": m{"build": m{"dockerfile": "D"}, "ports": l{m{"target": 1}}}}, nil)
	c11Add(ctx, "c11.setDefaults", "sd-path-quirk", m{"services": m{"a.b": m{"build": m{}, "ports.x": l{m{"target": 1}}}, "*": m{"build": m{}}}}, nil)
	c11Add(ctx, "c11.setDefaults", "sd-path-quirk", m{"services": m{"a": m{"build.x": m{}, "secrets": l{l{m{"source": "s"}}}}}, "x-services": m{"a": m{"build": m{}}}}, nil)
	c11Add(ctx, "c11.setDefaults", "sd-path-quirk", m{"": m{"build": m{}}, "services": m{"": m{"build": m{}}}}, nil)
	c11Add(ctx, "c11.setDefaults", "sd-empty", m{}, nil)
}

// ---------------------------------------------------------------- Canonical (depends_on / env_file)

var (
	optCDep   = []any{m{}, m{"condition": "service_healthy"}, m{"required": false}, m{"condition": "service_started", "required": true, "restart": true}, m{"condition": nil, "required": nil}, m{"restart": false}}
	optCDepKO = []any{nil, "x", 1, l{}, true}
	optCEnvIt = []any{"a.env", "", m{"path": "p.env"}, m{"path": "p.env", "required": false}, m{"path": "p.env", "required": true, "format": "c11raw"}, m{"path": "q.env", "format": "c11raw"}, m{"required": nil}, m{}}
	optCEnvKO = []any{nil, 1, true, l{"x"}, 2.5}
)

func c11CanonicalExhaustive(ctx *core.Ctx) {
	add := func(kind string, svc map[string]any) {
		svc["image"] = "i"
		svc["command"] = "echo"
		c11Add(ctx, "c11.canonical", kind, m{"services": m{"a": svc, "b": m{"image": "j"}}, "x-ext": m{"depends_on": l{1}}}, nil)
	}
	for _, x := range optCDep {
		for _, y := range optCDep {
			add("cn-exh-dep-map", m{"depends_on": m{"b": core.DeepCopyVal(x), "c": core.DeepCopyVal(y)}})
		}
	}
	for _, x := range optCDepKO {
		add("cn-malformed-dep-entry", m{"depends_on": m{"b": m{"condition": "service_healthy"}, "c": x}})
	}
	for _, lst := range []any{l{}, l{"b"}, l{"b", "c"}, l{"b", "b"}, l{"", "b"}} {
		add("cn-exh-dep-list", m{"depends_on": lst})
	}
	for _, x := range []any{1, nil, true, m{"k": "v"}, l{"z"}, 1.5} {
		add("cn-malformed-dep-item", m{"depends_on": l{"b", x}})
	}
	for _, x := range optCEnvIt {
		for _, y := range optCEnvIt {
			add("cn-exh-env-list", m{"env_file": l{core.DeepCopyVal(x), core.DeepCopyVal(y)}})
		}
		add("cn-exh-env-list", m{"env_file": l{core.DeepCopyVal(x)}})
	}
	for _, x := range optCEnvKO {
		add("cn-malformed-env-item", m{"env_file": l{"a.env", x}})
	}
	add("cn-exh-env-str", m{"env_file": "one.env"})
	add("cn-exh-env-str", m{"env_file": ""})
	add("cn-exh-env-list", m{"env_file": l{}})
	for _, k := range core.Kinds {
		ctx.Count("cn-malformed-kind:" + k)
		add("cn-malformed-pos:depends_on", m{"depends_on": core.KindValue(k, ctx.Rng)})
		add("cn-malformed-pos:env_file", m{"env_file": core.KindValue(k, ctx.Rng)})
		add("cn-both", m{"env_file": core.KindValue(k, ctx.Rng), "depends_on": l{"b"}})
	}
}

// ---------------------------------------------------------------- path.Clean

func c11CleanStream(ctx *core.Ctx) {
	alpha := []string{"/", ".", "a", "é"}
	var rec func(prefix string, n int)
	rec = func(prefix string, n int) {
		ctx.Count(fmt.Sprintf("clean-exh-len-%d", len([]rune(prefix))))
		ctx.Add("c11.clean", map[string]string{"s": prefix})
		if n == 0 {
			return
		}
		for _, a := range alpha {
			rec(prefix+a, n-1)
		}
	}
	rec("", ctx.Pick(6, 8))
	parts := []string{"/", "//", ".", "..", "a", "bc", "...", "é", " ", "a.b", ".a", "..a"}
	for i := 0; i < ctx.Pick(5000, 200000); i++ {
		s := ""
		for j, n := 0, 1+ctx.Rng.Intn(9); j < n; j++ {
			s += parts[ctx.Rng.Intn(len(parts))]
			if ctx.Rng.Intn(2) == 0 {
				s += "/"
			}
		}
		ctx.Count("clean-random")
		ctx.Add("c11.clean", map[string]string{"s": s})
	}
}

// ---------------------------------------------------------------- the property run

func runC11(ctx *core.Ctx) {
	// exhaustive small scope
	c11NormalizeExhaustive(ctx)
	c11SetDefaultsExhaustive(ctx)
	c11CanonicalExhaustive(ctx)
	c11CleanStream(ctx)
	ctx.Res.Exhaustive = true

	// seeded random: mostly valid, plus a malformed stream (one broken position per document)
	for i := 0; i < ctx.Pick(12000, 300000); i++ {
		malformed := i%5 == 4
		kind := "nz-random-valid"
		if malformed {
			kind = "nz-random-malformed"
		}
		c11Add(ctx, "c11.normalize", kind, c11RandomDoc(ctx.Rng, malformed), c11Envs[ctx.Rng.Intn(len(c11Envs))])
	}
	for i := 0; i < ctx.Pick(6000, 150000); i++ {
		d := m{"services": m{"a": c11SDService(ctx.Rng, i%2 == 0), c11SDNames[ctx.Rng.Intn(len(c11SDNames))]: c11SDService(ctx.Rng, false)}}
		if ctx.Rng.Intn(4) == 0 {
			// extension-like keys below a service: the walker descends through them like through any other key
			d["services"].(map[string]any)["a"].(map[string]any)["x-deploy"] = m{"ports": l{m{"target": 1}}}
			d["x-top"] = m{"services": m{"a": c11SDService(ctx.Rng, true)}}
			ctx.Count("sd-random:x-keys-below")
		}
		kind := "sd-random-valid"
		if i%6 == 5 {
			// one malformed entry somewhere (a single error site, so that the reported class does not depend on map order)
			kind = "sd-random-malformed"
			s := d["services"].(map[string]any)["a"].(map[string]any)
			switch ctx.Rng.Intn(4) {
			case 0:
				s["secrets"] = l{m{"source": "s"}, pick(ctx.Rng, optSDSecret[8:])}
			case 1:
				s["gpus"] = l{pick(ctx.Rng, optSDDevice[8:])}
			case 2:
				s["ports"] = l{pick(ctx.Rng, optSDPort[6:])}
			case 3:
				s["build"] = pick(ctx.Rng, optSDBuild[6:])
			}
		}
		c11Add(ctx, "c11.setDefaults", kind, d, nil)
	}
	for i := 0; i < ctx.Pick(4000, 100000); i++ {
		r := ctx.Rng
		svc := func(allowBad bool) map[string]any {
			s := m{"image": "i"}
			if r.Intn(3) > 0 {
				if r.Intn(2) == 0 {
					dm := m{}
					for _, k := range []string{"b", "c", "d"}[:1+r.Intn(3)] {
						dm[k] = core.DeepCopyVal(pick(r, optCDep))
					}
					if allowBad && r.Intn(4) == 0 {
						dm["z"] = pick(r, optCDepKO)
					}
					s["depends_on"] = dm
				} else {
					s["depends_on"] = l{"b", "c", "b"}[:r.Intn(4)]
				}
			}
			if r.Intn(3) > 0 {
				el := l{}
				for j, n := 0, r.Intn(4); j < n; j++ {
					el = append(el, core.DeepCopyVal(pick(r, optCEnvIt)))
				}
				if r.Intn(5) == 0 {
					el = append(el, pick(r, optCEnvKO))
				}
				s["env_file"] = el
			}
			return s
		}
		c11Add(ctx, "c11.canonical", "cn-random", m{"services": m{"a": svc(true), "b": svc(false)}}, nil)
	}

	// the defaults inside the unicity keys (c11_keys.go)
	c11KeysStreams(ctx)

	// the three stages composed (c11_pipeline.go)
	c11PipelineStream(ctx)

	// direct oracle on whole loads
	c11Oracle(ctx)

	// the project name from several sources at once × every default that embeds it (c11_names.go)
	c11NamesOracle(ctx)

	// the defaulting glue of load / loadYamlModel inside the composed model (c11_loadtail.go)
	c11LoadTailStream(ctx)
}
