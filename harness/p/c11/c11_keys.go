package c11

// C11 — the defaults inside the unicity keys of override.EnforceUnicity (override/uncity.go), model
// lean/ComposeVerif/Model/C11Keys.lean.
//
//	c11.indexKey   the indexer registered for services.a.<list> on one entry, and on the entry after the real
//	               SetDefaultValues / Canonical wrote its defaults out      vs  C11.portKey / mountKey / envFileKey
//	c11.unicity    override.EnforceUnicity on services.a.<list>             vs  C11.enforceSeq
//
// Direct part (real code only): the key of an entry must not change when its defaults are written out, and a list
// that states one entry twice — once with the defaults implicit, once written out — must de-duplicate to one entry.

import (
	"encoding/json"
	"fmt"
	"reflect"

	"github.com/compose-spec/compose-go/v2/override"
	"github.com/compose-spec/compose-go/v2/transform"

	"verifharness/core"
)

type c11KeyArgs struct {
	List string `json:"list"`
	V    core.T `json:"v"`
}

type c11SeqArgs struct {
	List string `json:"list"`
	Xs   core.T `json:"xs"`
}

func c11KeyOut(list string, v any) any {
	k, found, err := override.VerifC11IndexKey(list, v)
	if !found {
		return map[string]any{"none": true}
	}
	if err != nil {
		return map[string]any{"err": "err"}
	}
	return map[string]any{"ok": k}
}

// c11RealDefaults runs the real stage that writes the defaults of one entry of services.a.<list> out.
func c11RealDefaults(list string, v any) (any, error) {
	d := map[string]any{"services": map[string]any{"a": map[string]any{list: []any{core.DeepCopyVal(v)}}}}
	var (
		r   map[string]any
		err error
	)
	switch list {
	case "ports", "secrets":
		r, err = transform.SetDefaultValues(d)
	case "env_file":
		r, err = transform.Canonical(d, false)
	default:
		return v, nil
	}
	if err != nil {
		return nil, err
	}
	return r["services"].(map[string]any)["a"].(map[string]any)[list].([]any)[0], nil
}

func init() {
	core.Register("c11.indexKey", &core.CheckDef{
		Real: func(raw json.RawMessage) any {
			var a struct {
				List string          `json:"list"`
				V    json.RawMessage `json:"v"`
			}
			if err := json.Unmarshal(raw, &a); err != nil {
				panic(err)
			}
			v := core.DecodeValRaw(a.V)
			out := map[string]any{"key": c11KeyOut(a.List, core.DeepCopyVal(v))}
			if dv, err := c11RealDefaults(a.List, v); err != nil {
				out["dkey"] = map[string]any{"err": "err"}
			} else {
				out["dkey"] = c11KeyOut(a.List, dv)
			}
			return out
		},
		DriverOp: "c11.indexKey",
		Judge: func(args, real, drv json.RawMessage) *core.Verdict {
			if v := core.CrashVerdict(real); v != nil {
				return v
			}
			var a c11KeyArgs
			json.Unmarshal(args, &a)
			var r struct {
				Key, Dkey struct {
					Ok  *string `json:"ok"`
					Err string  `json:"err"`
				}
			}
			if err := json.Unmarshal(real, &r); err != nil {
				return core.Disagree("malformed outcome: " + string(real))
			}
			if r.Key.Ok != nil && r.Dkey.Ok != nil && *r.Key.Ok != *r.Dkey.Ok {
				return core.Fail("unicity-key-changes-with-defaults:"+a.List,
					fmt.Sprintf("services.a.%s: the entry is recognised across files by the key %q, the same entry with its defaults written out by %q: stated both ways in two files it becomes two entries", a.List, *r.Key.Ok, *r.Dkey.Ok))
			}
			if !core.CanonEqual(real, drv) {
				return core.Disagree("C11 unicity key model ≠ override indexer for " + a.List)
			}
			return nil
		},
	})
	core.Register("c11.unicity", &core.CheckDef{
		Real: func(raw json.RawMessage) any {
			var a struct {
				List string          `json:"list"`
				Xs   json.RawMessage `json:"xs"`
			}
			if err := json.Unmarshal(raw, &a); err != nil {
				panic(err)
			}
			xs := core.DecodeValRaw(a.Xs).([]any)
			r, err := override.EnforceUnicity(map[string]any{"services": map[string]any{"a": map[string]any{a.List: xs}}})
			if err != nil {
				return map[string]any{"err": "err"}
			}
			return map[string]any{"ok": core.EncodeVal(r["services"].(map[string]any)["a"].(map[string]any)[a.List])}
		},
		DriverOp: "c11.unicity",
		Judge: func(args, real, drv json.RawMessage) *core.Verdict {
			if v := core.CrashVerdict(real); v != nil {
				return v
			}
			if !core.CanonEqual(real, drv) {
				return core.Disagree("C11.enforceSeq ≠ override.EnforceUnicity")
			}
			return nil
		},
	})
	// direct: one entry stated twice, implicitly and with the defaults the real code writes out, in both orders
	core.Register("c11.restated", &core.CheckDef{
		Real: func(raw json.RawMessage) any {
			var a struct {
				List string          `json:"list"`
				V    json.RawMessage `json:"v"`
			}
			if err := json.Unmarshal(raw, &a); err != nil {
				panic(err)
			}
			v := core.DecodeValRaw(a.V)
			dv, err := c11RealDefaults(a.List, v)
			if err != nil {
				return map[string]any{"skip": "the defaults stage rejects the entry"}
			}
			if _, _, err := override.VerifC11IndexKey(a.List, core.DeepCopyVal(v)); err != nil {
				return map[string]any{"skip": "the entry has no key"}
			}
			lens := []int{}
			for _, pair := range [][]any{{v, dv}, {dv, v}} {
				xs := core.DeepCopyVal(pair).([]any)
				r, err := override.EnforceUnicity(map[string]any{"services": map[string]any{"a": map[string]any{a.List: xs}}})
				if err != nil {
					return map[string]any{"err": err.Error()}
				}
				out := r["services"].(map[string]any)["a"].(map[string]any)[a.List].([]any)
				if len(out) == 1 && !reflect.DeepEqual(out[0], pair[1]) {
					return map[string]any{"err": "the surviving entry is not the later one"}
				}
				lens = append(lens, len(out))
			}
			return map[string]any{"lens": lens}
		},
		Judge: func(args, real, _ json.RawMessage) *core.Verdict {
			if v := core.CrashVerdict(real); v != nil {
				return v
			}
			var a c11KeyArgs
			json.Unmarshal(args, &a)
			var r struct {
				Skip string `json:"skip"`
				Err  string `json:"err"`
				Lens []int  `json:"lens"`
			}
			json.Unmarshal(real, &r)
			switch {
			case r.Skip != "":
				return core.Skip(r.Skip)
			case r.Err != "":
				return core.Fail("restated-entry:"+a.List, r.Err)
			case len(r.Lens) != 2 || r.Lens[0] != 1 || r.Lens[1] != 1:
				return core.Fail("restated-entry-kept-twice:"+a.List,
					fmt.Sprintf("services.a.%s: an entry followed by the same entry with its defaults written out (and the reverse) de-duplicates to %v entries instead of 1 and 1", a.List, r.Lens))
			}
			return nil
		},
	})
}

var (
	optKTarget    = []any{absent, 80, "80", nil}
	optKPublished = []any{absent, "8080", 8080, nil}
	optKHost      = []any{absent, "0.0.0.0", "127.0.0.1", nil, 5}
	optKProtocol  = []any{absent, "tcp", "udp", nil, 7, true}
	optKMode      = []any{absent, "ingress", "host"}
	optKOther     = []any{nil, true, 8080, "8080:80", "80/udp", "", l{}, l{"x"}, m{}, 1.5}
	optKSource    = []any{absent, "sec", "", nil, 3, true}
	optKMTarget   = []any{absent, "/run/secrets/sec", "/sec", "/custom", "", nil, 4}
	optKPath      = []any{absent, "e.env", "./e.env", "", nil, 2}
	optKRequired  = []any{absent, true, false, nil}
)

// c11SpellOut is the generator's way of writing the documented defaults of one entry out (input construction only)
func c11SpellOut(list string, v any) any {
	e, ok := core.DeepCopyVal(v).(map[string]any)
	if !ok {
		return core.DeepCopyVal(v)
	}
	set := func(k string, d any) {
		if _, has := e[k]; !has {
			e[k] = d
		}
	}
	switch list {
	case "ports":
		set("protocol", "tcp")
		set("mode", "ingress")
		set("host_ip", "0.0.0.0")
	case "secrets":
		if s, ok := e["source"].(string); ok {
			set("target", "/run/secrets/"+s)
		}
	case "env_file":
		set("required", true)
	}
	return e
}

func c11KeysStreams(ctx *core.Ctx) {
	add := func(kind, list string, v any) {
		ctx.Count(kind)
		ctx.Add("c11.indexKey", c11KeyArgs{List: list, V: core.EncodeVal(v)})
		ctx.Count("restated:" + list)
		ctx.Add("c11.restated", c11KeyArgs{List: list, V: core.EncodeVal(v)})
	}
	var ports, mounts, envs []any
	// ports: every combination of the attributes the key is made of, each absent / default / other / null / wrong kind
	for _, t := range optKTarget {
		for _, pu := range optKPublished {
			for _, h := range optKHost {
				for _, pr := range optKProtocol {
					for _, mo := range optKMode {
						p := m{}
						put(p, "target", t)
						put(p, "published", pu)
						put(p, "host_ip", h)
						put(p, "protocol", pr)
						put(p, "mode", mo)
						kind := "key-port:protocol-explicit"
						if _, no := pr.(absentT); no {
							kind = "key-port:protocol-implicit"
						}
						if _, no := t.(absentT); no {
							kind = "key-port:no-target"
						}
						add(kind, "ports", p)
						ports = append(ports, p)
					}
				}
			}
		}
	}
	for _, o := range optKOther {
		add("key-port:not-a-mapping", "ports", o)
		add("key-mount:other-kind", "secrets", o)
		add("key-mount:other-kind", "configs", o)
		add("key-envfile:other-kind", "env_file", o)
		ports, mounts, envs = append(ports, o), append(mounts, o), append(envs, o)
	}
	for _, list := range []string{"secrets", "configs"} {
		for _, s := range optKSource {
			for _, t := range optKMTarget {
				e := m{}
				put(e, "source", s)
				put(e, "target", t)
				kind := "key-mount:target-explicit"
				if _, no := t.(absentT); no {
					kind = "key-mount:target-implicit"
				}
				add(kind, list, e)
				if list == "secrets" {
					mounts = append(mounts, e)
				}
			}
		}
		for _, s := range []string{"sec", "", "a/b"} {
			add("key-mount:short", list, s)
			mounts = append(mounts, s)
		}
	}
	for _, pa := range optKPath {
		for _, rq := range optKRequired {
			for _, f := range []any{absent, "c11raw"} {
				e := m{}
				put(e, "path", pa)
				put(e, "required", rq)
				put(e, "format", f)
				kind := "key-envfile:required-explicit"
				if _, no := rq.(absentT); no {
					kind = "key-envfile:required-implicit"
				}
				add(kind, "env_file", e)
				envs = append(envs, e)
			}
		}
	}
	for _, s := range []string{"e.env", "./e.env", ""} {
		add("key-envfile:short", "env_file", s)
		envs = append(envs, s)
	}
	// EnforceUnicity on lists: random lists over the pools above (keys collide often: few distinct key components),
	// half of them followed by copies of their own entries with the documented defaults spelled out
	pools := map[string][]any{"ports": ports, "secrets": mounts, "configs": mounts, "env_file": envs}
	lists := []string{"ports", "secrets", "configs", "env_file"}
	for i := 0; i < ctx.Pick(3000, 60000); i++ {
		r := ctx.Rng
		list := lists[r.Intn(len(lists))]
		pool := pools[list]
		n := r.Intn(5)
		xs := make([]any, 0, 2*n)
		for j := 0; j < n; j++ {
			xs = append(xs, core.DeepCopyVal(pool[r.Intn(len(pool))]))
		}
		kind := "unicity:" + list
		if r.Intn(2) == 0 {
			for j := 0; j < n; j++ {
				xs = append(xs, c11SpellOut(list, xs[r.Intn(n)]))
			}
			kind += "+restated-with-defaults"
		}
		ctx.Count(kind)
		ctx.Add("c11.unicity", c11SeqArgs{List: list, Xs: core.EncodeVal(xs)})
	}
}
