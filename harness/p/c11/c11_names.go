package c11

// C11 direct oracle, second part — the project name given by several sources at once × every default that embeds it.
//
// "every network, volume, secret and config gets the name <project>_<key> unless it is external or named":
// <project> is the ONE resolved project name — `-p` / cli.WithName / Options.SetProjectName(n, true) before
// COMPOSE_PROJECT_NAME before the top-level `name:` of the compose files (the last file that has one; interpolated)
// before the name guessed from the working directory.  The model that reaches Normalize still carries the `name:`
// the files wrote; loader.load overwrites it with the resolved one (`dict["name"] = opts.projectName`) — that line is
// what this stream watches from outside: whatever combination of sources is present,
//
//	(1) project(EXP) == project(IMP)           EXP spells `name: <resolved>_<key>` out (literally, or as
//	                                           `${COMPOSE_PROJECT_NAME}_<key>`), IMP leaves every name implicit
//	(2) project.name == the resolved name      by the documented precedence
//	(3) every unnamed, non external resource — the implicit `default` network included — is `<project.name>_<key>`;
//	    external ones are `<key>`; a name written with another value survives
//
// through both entry points: cli.ProjectOptions.LoadProject (WithName, COMPOSE_PROJECT_NAME, working directory) and
// loader.LoadWithContext (SetProjectName imperative / guessed).
// Failure keys: `<kind>:<section>@<sources>` with sources like `file+imp`.

import (
	"context"
	"encoding/json"
	"fmt"
	"os"
	"path/filepath"
	"sort"
	"strings"
	"time"

	"github.com/compose-spec/compose-go/v2/cli"
	"github.com/compose-spec/compose-go/v2/loader"
	"github.com/compose-spec/compose-go/v2/types"

	"verifharness/core"
)

type c11NameScenario struct {
	// File: 0 no `name:`; 1 `name: fromfile` in the first file; 2 only in the override file (`fromover`);
	// 3 in both (the last one wins); 4 `name: ${PN}` with PN=fromvar in the environment
	File int  `json:"file"`
	Imp  bool `json:"imp"` // -p / WithName("cli") / SetProjectName("cli", true)
	Env  bool `json:"env"` // COMPOSE_PROJECT_NAME=envname in the environment
	// Entry: 0 cli.ProjectOptions.LoadProject, 1 loader.LoadWithContext (there the environment variable is not a
	// source: the caller resolves it; a name that is not imperative is SetProjectName("guess", false))
	Entry  int    `json:"entry"`
	Origin string `json:"origin"` // where the resources are declared: main, override, include
	// Spell: per section (networks, volumes, secrets, configs, default) how the name is written in EXP:
	// 0 implicit, 1 `<resolved>_<key>`, 2 another value, 4 `${COMPOSE_PROJECT_NAME}_<key>`
	Spell map[string]int `json:"spell"`
	// DeclareDefault: `networks.default` is declared (without attributes when its spelling is implicit)
	DeclareDefault bool `json:"declare_default"`
	NullRes        bool `json:"null_res"` // resources without attributes are written `key:` instead of `key: {}`
	// IncName (origin include): the included file has a `name:` of its own (`incname`) — not a source of the
	// project name: the resources it declares are still named after the including project
	IncName bool `json:"inc_name,omitempty"`
}

const (
	nmI   = 0
	nmD   = 1
	nmO   = 2
	nmVar = 4
)

var c11NameSections = []string{"networks", "volumes", "secrets", "configs", "default"}
var c11NameKey = map[string]string{"networks": "n1", "volumes": "v1", "secrets": "s1", "configs": "c1", "default": "default"}

func (sc c11NameScenario) twoFiles() bool {
	return sc.Origin == "override" || sc.File == 2 || sc.File == 3
}

// sources names the combination for the failure key
func (sc c11NameScenario) sources() string {
	var p []string
	if sc.File != 0 {
		p = append(p, []string{"", "file", "file-override", "file-both", "file-interpolated"}[sc.File])
	}
	if sc.Imp {
		p = append(p, "imp")
	}
	if sc.Env {
		p = append(p, "env")
	}
	if len(p) == 0 {
		p = append(p, "dir")
	}
	return strings.Join(p, "+") + []string{"/cli", "/loader"}[sc.Entry&1]
}

// resolved: the documented precedence, written down independently of loader.projectName / cli.withNamePrecedenceLoad
func (sc c11NameScenario) resolved() string {
	if sc.Imp {
		return "cli"
	}
	if sc.Env && sc.Entry == 0 {
		return "envname"
	}
	switch sc.File {
	case 1:
		return "fromfile"
	case 2, 3:
		return "fromover"
	case 4:
		return "fromvar"
	}
	if sc.Entry == 0 {
		return "wd-name"
	}
	return "guess"
}

func c11NameBuild(sc c11NameScenario, implicit bool) (files map[string]string, configFiles []string) {
	name := sc.resolved()
	res := func(sec string, base map[string]any) any {
		r := map[string]any{}
		for k, v := range base {
			r[k] = v
		}
		sp := sc.Spell[sec]
		if implicit && (sp == nmD || sp == nmVar) {
			sp = nmI
		}
		switch sp {
		case nmD:
			r["name"] = name + "_" + c11NameKey[sec]
		case nmVar:
			r["name"] = "${COMPOSE_PROJECT_NAME}_" + c11NameKey[sec]
		case nmO:
			r["name"] = "custom_" + c11NameKey[sec]
		}
		if len(r) == 0 {
			if sc.NullRes {
				return nil
			}
			return map[string]any{}
		}
		return r
	}
	nets := map[string]any{"n1": res("networks", nil)}
	spd := sc.Spell["default"]
	if implicit && (spd == nmD || spd == nmVar) {
		spd = nmI
	}
	if sc.DeclareDefault || spd != nmI {
		// declaring `default` is only "the default written out" because service `a` uses it
		nets["default"] = res("default", nil)
	}
	resources := map[string]any{
		"networks": nets,
		"volumes":  map[string]any{"v1": res("volumes", nil), "ext": map[string]any{"external": true}},
		"secrets":  map[string]any{"s1": res("secrets", map[string]any{"file": "./s.txt"})},
		"configs":  map[string]any{"c1": res("configs", map[string]any{"content": "hello"})},
	}
	svcA := map[string]any{"image": "i", "networks": []any{"default", "n1"}, "volumes": []any{"v1:/data"}, "secrets": []any{"s1"}, "configs": []any{"c1"}}
	svcB := map[string]any{"image": "i"}
	main := map[string]any{}
	over := map[string]any{}
	files = map[string]string{"wd-name/s.txt": "secret\n"}
	switch sc.File {
	case 1:
		main["name"] = "fromfile"
	case 2:
		over["name"] = "fromover"
	case 3:
		main["name"] = "fromfile"
		over["name"] = "fromover"
	case 4:
		main["name"] = "${PN}"
	}
	switch sc.Origin {
	case "main":
		main["services"] = map[string]any{"a": svcA, "b": svcB}
		for k, v := range resources {
			main[k] = v
		}
		over["services"] = map[string]any{"b": map[string]any{"labels": map[string]any{"l": "v"}}}
	case "override":
		main["services"] = map[string]any{"a": map[string]any{"image": "i"}, "b": svcB}
		over["services"] = map[string]any{"a": svcA}
		for k, v := range resources {
			over[k] = v
		}
	case "include":
		inc := map[string]any{"services": map[string]any{"a": svcA}}
		for k, v := range resources {
			inc[k] = v
		}
		if sc.IncName {
			inc["name"] = "incname"
		}
		files["wd-name/inc.yaml"] = c11YAML(inc)
		main["include"] = []any{"inc.yaml"}
		main["services"] = map[string]any{"b": svcB}
		over["services"] = map[string]any{"b": map[string]any{"labels": map[string]any{"l": "v"}}}
	}
	files["wd-name/compose.yaml"] = c11YAML(main)
	configFiles = []string{"wd-name/compose.yaml"}
	if sc.twoFiles() {
		files["wd-name/override.yaml"] = c11YAML(over)
		configFiles = append(configFiles, "wd-name/override.yaml")
	}
	return files, configFiles
}

func c11NameLoad(sc c11NameScenario, implicit bool) (map[string]any, string) {
	files, cfs := c11NameBuild(sc, implicit)
	root, err := core.Materialize(files)
	defer os.RemoveAll(root)
	if err != nil {
		panic(err)
	}
	wd := filepath.Join(root, "wd-name")
	var paths []string
	for _, f := range cfs {
		paths = append(paths, filepath.Join(root, f))
	}
	env := map[string]string{"PN": "fromvar"}
	if sc.Env {
		env["COMPOSE_PROJECT_NAME"] = "envname"
	}
	var p *types.Project
	if sc.Entry == 0 {
		var envList []string
		for k, v := range env {
			envList = append(envList, k+"="+v)
		}
		sort.Strings(envList)
		fns := []cli.ProjectOptionsFn{cli.WithWorkingDirectory(wd), cli.WithEnv(envList)}
		if sc.Imp {
			fns = append(fns, cli.WithName("cli"))
		}
		po, err := cli.NewProjectOptions(paths, fns...)
		if err != nil {
			return nil, core.ScrubErr(err, root)
		}
		p, err = po.LoadProject(context.Background())
		if err != nil {
			return nil, core.ScrubErr(err, root)
		}
	} else {
		var cf []types.ConfigFile
		for _, f := range paths {
			cf = append(cf, types.ConfigFile{Filename: f})
		}
		p, err = loader.LoadWithContext(context.Background(), types.ConfigDetails{WorkingDir: wd, ConfigFiles: cf, Environment: env}, func(o *loader.Options) {
			if sc.Imp {
				o.SetProjectName("cli", true)
			} else {
				o.SetProjectName("guess", false)
			}
		})
		if err != nil {
			return nil, core.ScrubErr(err, root)
		}
	}
	p.ComposeFiles = nil
	v, err := core.ProjectJSON(p, root)
	if err != nil {
		return nil, "marshal: " + err.Error()
	}
	mp, _ := v.(map[string]any)
	return mp, ""
}

func c11RealNames(raw json.RawMessage) any {
	var sc c11NameScenario
	if err := json.Unmarshal(raw, &sc); err != nil {
		panic(err)
	}
	exp, expErr := c11NameLoad(sc, false)
	imp, impErr := c11NameLoad(sc, true)
	res := c11MetaOut{Exp: "ok", Imp: "ok"}
	if exp == nil {
		res.Exp = "err"
	}
	if imp == nil {
		res.Imp = "err"
	}
	if exp == nil && imp == nil {
		res.Bad = "both spellings are rejected: " + expErr
		return res
	}
	src := sc.sources()
	if exp == nil || imp == nil {
		res.Failed = append(res.Failed, c11Check{"project-name-load-outcome-differs", src, fmt.Sprintf("explicit spelling: %q, implicit spelling: %q", expErr, impErr)})
		return res
	}
	want := sc.resolved()
	// (2) the project is named by the documented precedence
	for which, p := range map[string]map[string]any{"exp": exp, "imp": imp} {
		if got, _ := p["name"].(string); got != want {
			res.Failed = append(res.Failed, c11Check{"project-name", src, fmt.Sprintf("the project (%s) is named %q; by precedence (imperative, COMPOSE_PROJECT_NAME, `name:` of the last file, directory) it is %q", which, got, want)})
			return res
		}
	}
	// (3) every default that embeds the name embeds THE project name
	for _, which := range []string{"imp", "exp"} {
		p := map[string]map[string]any{"exp": exp, "imp": imp}[which]
		pname, _ := p["name"].(string)
		for _, sec := range []string{"networks", "volumes", "secrets", "configs"} {
			rs, _ := p[sec].(map[string]any)
			keys := make([]string, 0, len(rs))
			for k := range rs {
				keys = append(keys, k)
			}
			sort.Strings(keys)
			for _, key := range keys {
				rm, _ := rs[key].(map[string]any)
				name, _ := rm["name"].(string)
				expect := pname + "_" + key
				if ext, _ := rm["external"].(bool); ext {
					expect = key
				}
				site := sec
				if key == "default" {
					site = "default"
				}
				if c11NameKey[site] == key && sc.Spell[site] == nmO {
					expect = "custom_" + key
				}
				if name != expect {
					res.Failed = append(res.Failed, c11Check{"resource-name-sources", sec + "@" + src, fmt.Sprintf("project %q (%s spelling): %s.%s is named %q, expected %q", pname, which, sec, key, name, expect)})
					return res
				}
			}
		}
		if _, ok := c11Get(p, []any{"networks", "default"}); !ok {
			res.Failed = append(res.Failed, c11Check{"default-network-iff", src, "service a is attached to `default`, the project has no such network"})
			return res
		}
	}
	// (1) implicit ≡ explicit
	if d := c11FirstDiff(exp, imp, ""); d != "" {
		x, _ := c11Get2(exp, d)
		y, _ := c11Get2(imp, d)
		res.Failed = append(res.Failed, c11Check{"implicit-vs-explicit", strings.TrimPrefix(d, ".") + "@" + src,
			fmt.Sprintf("at %s the model with the names written out loads to %v, the one that leaves them implicit to %v", d, x, y)})
	}
	return res
}

func c11MetaJudge(_, real, _ json.RawMessage) *core.Verdict {
	if v := core.CrashVerdict(real); v != nil {
		return v
	}
	var out c11MetaOut
	if err := json.Unmarshal(real, &out); err != nil {
		return core.Disagree("malformed oracle outcome: " + string(real))
	}
	if out.Bad != "" {
		return core.Disagree("oracle generator: " + out.Bad)
	}
	if len(out.Failed) > 0 {
		f := out.Failed[0]
		return core.Fail(f.Kind+":"+f.Key, f.What)
	}
	return nil
}

func init() {
	core.Register("c11.names", &core.CheckDef{Real: c11RealNames, Timeout: 30 * time.Second, Judge: c11MetaJudge})
}

func c11NamesOracle(ctx *core.Ctx) {
	add := func(sc c11NameScenario) {
		ctx.Count("names:" + sc.sources())
		ctx.Count("names-origin:" + sc.Origin)
		ctx.Add("c11.names", sc)
	}
	// exhaustive: every combination of sources × entry point × origin of the resources × {all names implicit-vs-
	// written, written through ${COMPOSE_PROJECT_NAME}, each section alone with another value}
	for file := 0; file <= 4; file++ {
		for _, imp := range []bool{false, true} {
			for _, env := range []bool{false, true} {
				for entry := 0; entry < 2; entry++ {
					for _, origin := range []string{"main", "override", "include"} {
						base := c11NameScenario{File: file, Imp: imp, Env: env, Entry: entry, Origin: origin}
						for _, spell := range []int{nmD, nmVar} {
							sc := base
							sc.Spell = map[string]int{}
							for _, s := range c11NameSections {
								sc.Spell[s] = spell
							}
							sc.NullRes = spell == nmVar
							add(sc)
						}
						for i, s := range c11NameSections {
							sc := base
							sc.Spell = map[string]int{s: nmO, c11NameSections[(i+1)%len(c11NameSections)]: nmD}
							sc.DeclareDefault = i%2 == 0
							add(sc)
						}
					}
				}
			}
		}
	}
	// an included file with a `name:` of its own, under every combination of real sources
	for file := 0; file <= 4; file++ {
		for _, imp := range []bool{false, true} {
			for _, env := range []bool{false, true} {
				for entry := 0; entry < 2; entry++ {
					sc := c11NameScenario{File: file, Imp: imp, Env: env, Entry: entry, Origin: "include", IncName: true, Spell: map[string]int{}}
					for _, s := range c11NameSections {
						sc.Spell[s] = nmD
					}
					ctx.Count("names:included-file-has-name")
					add(sc)
				}
			}
		}
	}
	ctx.Res.Exhaustive = true
	for i := 0; i < ctx.Pick(300, 8000); i++ {
		r := ctx.Rng
		sc := c11NameScenario{File: r.Intn(5), Imp: r.Intn(2) == 0, Env: r.Intn(2) == 0, Entry: r.Intn(2), Origin: []string{"main", "override", "include"}[r.Intn(3)],
			Spell: map[string]int{}, DeclareDefault: r.Intn(2) == 0, NullRes: r.Intn(2) == 0, IncName: r.Intn(3) == 0}
		for _, s := range c11NameSections {
			sc.Spell[s] = []int{nmI, nmD, nmO, nmVar}[r.Intn(4)]
		}
		add(sc)
	}
}
