package c11

// C11 — the defaulting glue of loader.load / loadYamlModel inside the composed model: `Pipeline.load`
// (lean/ComposeVerif/Model/Pipeline.lean: `defaultsStage`, `finishLoad` = `dict["name"] = opts.projectName; Normalize`)
// vs the real loader.LoadModelWithContext, through the shared check `pipeline.load` (harness/p/pipeline) — on inputs
// made for this property: one to three documents that do / do not carry a top-level `name:` (equal to or different
// from the imperative project name, different from each other), resource sections whose names are implicit, written
// out, other, external, services that use / do not use `default`, and the option flags that switch the two defaulting
// stages off.  Props/C11Whole.lean states the clauses of the property about exactly this function.

import (
	"fmt"

	"verifharness/core"
)

type c11LoadOpts struct {
	SkipInterpolation bool `json:"skipInterpolation"`
	SkipValidation    bool `json:"skipValidation"`
	SkipDefaultValues bool `json:"skipDefaultValues"`
	ResolvePaths      bool `json:"resolvePaths"`
	SkipNormalization bool `json:"skipNormalization"`
	Extends           bool `json:"extends"`
}

type c11LoadArgs struct {
	Docs []core.T          `json:"docs"`
	Opts c11LoadOpts       `json:"opts"`
	Env  map[string]string `json:"env"`
	Name string            `json:"name"`
	Wd   string            `json:"wd"`
	Home string            `json:"home"`
	Main string            `json:"mainFile"`
}

var (
	optLTName    = []any{absent, "fromfile", "cli", "other-name"}
	optLTRes     = []any{absent, nil, m{}, m{"name": "custom"}, m{"name": "cli_r"}, m{"name": "fromfile_r"}, m{"external": true}, m{"external": true, "name": "outside"}, m{"driver": "d"}}
	optLTSvcNets = []any{absent, absent, m{"default": nil}, m{"n1": nil}, l{"default"}, l{"n1"}}
	optLTNetMode = []any{absent, absent, absent, "host", "none"}
	optLTPorts   = []any{absent, l{m{"target": 80}}, l{m{"target": 80, "protocol": "udp"}}, l{"8080:80"}}
	optLTBuild   = []any{absent, m{}, m{"context": "./ctx"}, m{"dockerfile": "D"}}
	optLTDeps    = []any{absent, l{"b"}, m{"b": m{"condition": "service_healthy"}}}
	optLTLinks   = []any{absent, l{"b"}, l{"b:alias"}}
)

func c11LoadTailDoc(ctx *core.Ctx, first bool) map[string]any {
	r := ctx.Rng
	d := m{}
	put(d, "name", pick(r, optLTName))
	svc := func() map[string]any {
		s := m{"image": "i"}
		put(s, "networks", pick(r, optLTSvcNets))
		put(s, "network_mode", pick(r, optLTNetMode))
		if _, has := s["network_mode"]; has {
			delete(s, "networks") // the validation stage rejects both together: not this stream's business
		}
		put(s, "ports", pick(r, optLTPorts))
		put(s, "build", pick(r, optLTBuild))
		put(s, "depends_on", pick(r, optLTDeps))
		put(s, "links", pick(r, optLTLinks))
		return s
	}
	svcs := m{}
	if first || r.Intn(2) == 0 {
		svcs["a"] = svc()
	}
	if first || r.Intn(3) == 0 {
		svcs["b"] = m{"image": "j"}
	}
	if r.Intn(4) == 0 {
		svcs["x-ray"] = svc()
	}
	if len(svcs) > 0 {
		d["services"] = svcs
	}
	nets := m{}
	if first || r.Intn(2) == 0 {
		nets["n1"] = core.DeepCopyVal(pick(r, optLTRes[1:]))
	}
	if r.Intn(3) == 0 {
		nets["default"] = core.DeepCopyVal(pick(r, optLTRes[1:]))
	}
	if len(nets) > 0 {
		d["networks"] = nets
	}
	for _, sec := range []string{"volumes", "secrets", "configs"} {
		if r.Intn(2) == 0 {
			res := core.DeepCopyVal(pick(r, optLTRes[1:]))
			if sec != "volumes" {
				// secrets / configs need a source to be valid; external ones must not have one
				rm, _ := res.(map[string]any)
				if rm == nil {
					rm = m{}
				}
				delete(rm, "driver")
				if ext, _ := rm["external"].(bool); !ext {
					rm["environment"] = "SRC"
				}
				res = rm
			}
			d[sec] = m{"r": res}
		}
	}
	return d
}

func c11LoadTailStream(ctx *core.Ctx) {
	add := func(kind string, docs []map[string]any, o c11LoadOpts, name string) {
		enc := make([]core.T, len(docs))
		for i, d := range docs {
			enc[i] = core.EncodeVal(d)
		}
		ctx.Count("loadtail:" + kind)
		ctx.Count(fmt.Sprintf("loadtail:docs=%d", len(docs)))
		ctx.Add("pipeline.load", c11LoadArgs{Docs: enc, Opts: o, Env: map[string]string{"SRC": "v"}, Name: name, Wd: "/w", Home: "/home/u", Main: "/w/f0.yaml"})
	}
	full := c11LoadOpts{ResolvePaths: true}
	// exhaustive: `name:` of the first document × of a second document × the imperative name × resource spelling
	for _, n0 := range optLTName {
		for _, n1 := range append([]any{"no second document"}, optLTName...) {
			for _, res := range optLTRes[1:] {
				d0 := m{"services": m{"a": m{"image": "i"}}, "volumes": m{"r": core.DeepCopyVal(res)}, "networks": m{"n1": core.DeepCopyVal(res)}}
				put(d0, "name", n0)
				docs := []map[string]any{d0}
				if s, ok := n1.(string); !ok || s != "no second document" {
					d1 := m{"services": m{"a": m{"labels": m{"k": "v"}}}}
					put(d1, "name", n1)
					docs = append(docs, d1)
				}
				for _, name := range []string{"cli", "fromfile"} {
					add("exh-name-sources", docs, full, name)
				}
			}
		}
	}
	// the flags around the two defaulting stages, and the two error exits of the tail (empty model, empty name)
	for _, o := range []c11LoadOpts{{ResolvePaths: true, SkipNormalization: true}, {ResolvePaths: true, SkipDefaultValues: true}, {SkipValidation: true}, {SkipValidation: true, SkipNormalization: true, SkipDefaultValues: true}} {
		for _, name := range []string{"cli", ""} {
			add("exh-flags", []map[string]any{{"name": "fromfile", "services": m{"a": m{"image": "i", "ports": l{m{"target": 80}}}}, "volumes": m{"r": nil}}}, o, name)
			add("exh-flags", []map[string]any{{}}, o, name)
			add("exh-flags", []map[string]any{{"name": "fromfile"}}, o, name)
		}
	}
	for i := 0; i < ctx.Pick(500, 15000); i++ {
		r := ctx.Rng
		n := 1 + r.Intn(3)
		docs := []map[string]any{}
		for j := 0; j < n; j++ {
			docs = append(docs, c11LoadTailDoc(ctx, j == 0))
		}
		o := full
		kind := "random"
		if r.Intn(4) == 0 {
			o = c11LoadOpts{SkipInterpolation: r.Intn(2) == 0, SkipValidation: r.Intn(2) == 0, SkipDefaultValues: r.Intn(2) == 0, ResolvePaths: r.Intn(2) == 0, SkipNormalization: r.Intn(3) == 0}
			kind = "random-flags"
		}
		add(kind, docs, o, []string{"cli", "cli", "fromfile", "other-name"}[r.Intn(4)])
	}
}
