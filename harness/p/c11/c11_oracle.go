package c11

// C11 direct oracle — metamorphic whole loads on the real loader.
//
// A scenario fixes, for every default-able attribute ("site") of a generated model, one spelling:
//
//	I  left implicit
//	D  written out with the documented default value
//	O  written out with a different value
//
// and an origin for the attributes of service `a`: the main file, an override file, an extended base
// (same file / other file) or an included file.  The oracle loads the scenario as written (EXP) and the
// same scenario with every D turned into I (IMP) and demands
//
//	(1) project(EXP) == project(IMP)                      implicit ≡ explicit
//	(2) every O value is found unchanged in project(EXP)   explicit values are never overwritten
//	(3) networks.default ∈ project  ⇔  declared ∨ some service is attached to it
//	(4) every resource is named <project>_<key> unless external (then <key>) or named
//
// Failure keys are `<kind>:<site or json path>@<origin>`.

import (
	"encoding/json"
	"fmt"
	"io"
	"math/rand"
	"reflect"
	"sort"
	"strings"
	"time"

	"github.com/compose-spec/compose-go/v2/dotenv"
	"gopkg.in/yaml.v3"

	"verifharness/core"
)

const (
	spI = 0
	spD = 1
	spO = 2
	spN = 3 // written as an explicit null (`key:`): Go reads it like an absent key; needs SkipValidation
)

// sites where an explicit null can be written and reaches Normalize (the schema rejects it: SkipValidation loads only)
var c11Nullable = map[string]bool{"build.dockerfile": true, "network.name": true, "volume.name": true, "secret.name": true, "config.name": true, "external.name": true}

// where / how the *default* shows in the project JSON when it differs from Path / Dflt
var c11DefaultView = map[string]struct {
	Path []any
	Want any
}{
	"build.context":     {nil, "$ROOT"},
	"devices.count":     {nil, float64(-1)},
	"gpus.count":        {nil, float64(-1)},
	"env_file.required": {[]any{"services", "a", "env_file", 0}, "$ROOT/e.env"},
}

// c11Eff is the spelling that is actually written for a site in the scenario as given (EXP)
func c11Eff(sc c11Scenario, id string) int {
	s := sc.Spell[id]
	if id == "default.network" && s == spD && (sc.NoDefUse || (sc.OthersOff && sc.Spell["service.networks"] == spO)) {
		return spI // a declared but unused network stays: writing it out is only "the default" when some service uses `default`
	}
	if s == spN && !(c11Nullable[id] && sc.Skips&1 != 0) {
		return spI
	}
	if id == "build.dockerfile" && sc.Inline && (s == spD || s == spO) {
		return spI // dockerfile and dockerfile_inline exclude each other
	}
	return s
}

type c11SiteDef struct {
	ID   string
	Dflt any   // the documented default, as written in YAML
	Oth  any   // a different value
	Path []any // where the value shows in the project JSON
	Want any   // what project JSON shows for Oth (nil = same as Oth)
}

var c11Sites = []c11SiteDef{
	{ID: "build.context", Dflt: ".", Oth: "./ctx", Path: []any{"services", "a", "build", "context"}, Want: "$ROOT/ctx"},
	{ID: "build.dockerfile", Dflt: "Dockerfile", Oth: "Other.Dockerfile", Path: []any{"services", "a", "build", "dockerfile"}},
	{ID: "ports.protocol", Dflt: "tcp", Oth: "udp", Path: []any{"services", "a", "ports", 0, "protocol"}},
	{ID: "ports.mode", Dflt: "ingress", Oth: "host", Path: []any{"services", "a", "ports", 0, "mode"}},
	{ID: "secrets.target", Dflt: "/run/secrets/sec", Oth: "/custom/t", Path: []any{"services", "a", "secrets", 0, "target"}},
	{ID: "depends_on.condition", Dflt: "service_started", Oth: "service_healthy", Path: []any{"services", "a", "depends_on", "b", "condition"}},
	{ID: "depends_on.required", Dflt: true, Oth: false, Path: []any{"services", "a", "depends_on", "b", "required"}},
	{ID: "env_file.required", Dflt: true, Oth: false, Path: []any{"services", "a", "env_file", 0, "required"}},
	{ID: "devices.count", Dflt: "all", Oth: 2, Path: []any{"services", "a", "deploy", "resources", "reservations", "devices", 0, "count"}, Want: float64(2)},
	{ID: "gpus.count", Dflt: "all", Oth: 1, Path: []any{"services", "a", "gpus", 0, "count"}, Want: float64(1)},
	{ID: "pull_policy", Dflt: "missing", Oth: "always", Path: []any{"services", "a", "pull_policy"}},
	{ID: "service.networks", Dflt: map[string]any{"default": nil}, Oth: map[string]any{"other": nil}, Path: []any{"services", "a", "networks"}},
	{ID: "links.depends_on", Dflt: map[string]any{"condition": "service_started", "restart": true, "required": true}, Oth: map[string]any{"condition": "service_healthy", "required": false}, Path: []any{"services", "a", "depends_on", "c"}},
	{ID: "ipc.depends_on", Dflt: map[string]any{"condition": "service_started", "restart": true, "required": true}, Oth: map[string]any{"condition": "service_completed_successfully", "required": true}, Path: []any{"services", "a", "depends_on", "d"}},
	{ID: "volumes_from.depends_on", Dflt: map[string]any{"condition": "service_started", "required": true}, Oth: map[string]any{"condition": "service_healthy", "restart": true, "required": true}, Path: []any{"services", "a", "depends_on", "e"}},
	{ID: "network.name", Dflt: "proj_n1", Oth: "custom_n1", Path: []any{"networks", "n1", "name"}},
	{ID: "volume.name", Dflt: "proj_v1", Oth: "custom_v1", Path: []any{"volumes", "v1", "name"}},
	{ID: "secret.name", Dflt: "proj_sec", Oth: "custom_sec", Path: []any{"secrets", "sec", "name"}},
	{ID: "config.name", Dflt: "proj_cfg", Oth: "custom_cfg", Path: []any{"configs", "cfg", "name"}},
	{ID: "external.name", Dflt: "ext", Oth: "other_ext", Path: []any{"volumes", "ext", "name"}},
	{ID: "default.network", Dflt: map[string]any{"name": "proj_default"}, Oth: map[string]any{"name": "custom_default"}, Path: []any{"networks", "default", "name"}, Want: "custom_default"},
}

var c11Origins = []string{"main", "override", "override3", "extends", "extends-file", "include"}

// c11Refiner says in which layer a scenario with Dep2 == 2 refines `b2` (-1: this origin has a single layer).
// The list `[b, b2, b3]` then lives in the other layer: for the override origins the refinement comes in the LATER
// file; for extends the list is in the BASE and the extending service refines.
func c11Refiner(origin string) int {
	switch origin {
	case "override", "override3":
		return 1
	case "extends", "extends-file":
		return 0
	}
	return -1
}

type c11Scenario struct {
	Origin    string         `json:"origin"`
	Spell     map[string]int `json:"spell"`      // site → I/D/O
	Layer     map[string]int `json:"layer"`      // unit or leaf → 0 (the file that defines `a`) / 1 (override file or extended base)
	Absent    []string       `json:"absent"`     // units left out of service `a` altogether
	ListDeps  bool           `json:"list_deps"`  // write `depends_on: [b]` when both of its sites are implicit
	NetForm   int            `json:"net_form"`   // the D spelling of service networks: 0 `{default: null}`, 1 `[default]`, 2 `{}` (declared but empty)
	OthersOff bool           `json:"others_off"` // every other service is attached to `other` only, so that `a` alone decides about `default`
	NullRes   bool           `json:"null_res"`   // write a resource without attributes as `key:` (null) instead of `{}`
	NoDefUse  bool           `json:"no_def_use"` // no service is attached to `default` (all use `other` / network_mode)
	Dep2      int            `json:"dep2"`       // 1: a second dependency `b2` is written with defaults next to `b`; 2: and (override origin) the later file re-specifies its condition
	Skips     int            `json:"skips"`      // bit 0: SkipValidation, bit 1: SkipInterpolation (both loads)
	Inline    bool           `json:"inline"`     // the build section has dockerfile_inline (no dockerfile default then)
	// Restate: list units (ports / secrets / env_file) whose ONE entry is written in BOTH layers (origins with two
	// layers only): 1 = long form in the other layer too, 2 = short form there (`"8080:80"`, `sec`, `e.env`) when the
	// entry has no other-valued attribute.  The merge must recognise the two spellings as the same entry (the
	// indexers of override.EnforceUnicity apply the documented defaults to build the key), so the project still has
	// one entry.  RSpell is the spelling (I / D) of each default-able site in the restated copy; sites written with
	// another value (O) are repeated as they are, so both copies always describe the same entry.
	//
	// Round 7 — the implicit-vs-explicit oracle ACROSS layers.  3 = bare restatement: the other layer states the same
	// parent (the build section, the one port / secret / env_file entry) in its SHORT spelling (`build: <dir>`,
	// `"8080:80"`, `sec`, `e.env`) and so mentions none of the default-able attributes, whatever the defining layer
	// wrote for them (I, D or another value — nothing is repeated); IMP has the LONG spelling of the same bare parent
	// (`build: {context: <dir>}` / `build: {}`, `{target: 80, published: "8080"}`, `{source: sec}`, `{path: e.env}`).
	// A short spelling leaves every default implicit: a merge that completes it with a default too early (at merge
	// time instead of in Canonical / SetDefaultValues / Normalize) overwrites what the other layer wrote, the long
	// spelling does not, and the two projects differ (check 1); for a mapping parent (build) the value written by the
	// defining layer must moreover survive (check 2).  Unit `build` also takes form 1 (long restatement with RSpell).
	Restate map[string]int `json:"restate,omitempty"`
	RSpell  map[string]int `json:"rspell,omitempty"`
	// Svc: the name of the service that carries the default-able attributes ("" = `a`).  Service keys are user
	// defined; a key that looks like an extension (`x-a`) or needs escaping in a tree.Path (`a.b`) is still a service.
	Svc string `json:"svc,omitempty"`
}

func (sc c11Scenario) svc() string {
	if sc.Svc == "" {
		return "a"
	}
	return sc.Svc
}

// path: a site path written for service `a`, for the service of this scenario
func (sc c11Scenario) path(p []any) []any {
	if len(p) >= 2 && p[0] == "services" && p[1] == "a" && sc.Svc != "" {
		q := append([]any{}, p...)
		q[1] = sc.Svc
		return q
	}
	return p
}

var c11SvcNames = []string{"", "x-a", "x-", "a.b"}

// c11SvcFor: override.mergeMappings REPLACES (does not merge) every mapping key that starts with `x-`, wherever it
// is — also a service `x-a` stated in two config files: the later file's service wins as a whole and the image, the
// ports … of the earlier one are gone (loader.processExtensions is careful about user-defined keys, the merge is
// not).  That is a rule of the merge (override/, C04's model), not of the defaults: it is handed over to C04 (see
// design/C11.md, side findings) and the scenarios whose two layers are two config FILES use the dotted key instead.
func c11SvcFor(origin, name string) string {
	if (origin == "override" || origin == "override3") && strings.HasPrefix(name, "x-") {
		return "a.b"
	}
	return name
}

// c11TwoLayers: origins in which service `a` is assembled from two files / services
func c11TwoLayers(origin string) bool {
	switch origin {
	case "override", "override3", "extends", "extends-file":
		return true
	}
	return false
}

var c11RestateUnits = []string{"ports", "secrets", "env_file"}

// c11Build renders the files of a scenario; implicit=true turns every D into I.
func c11Build(sc c11Scenario, implicit bool) (files map[string]string, configFiles []string, declaresDefault bool) {
	{
		// placements the loader would reject for reasons that have nothing to do with defaults
		l2 := map[string]int{}
		for _, k := range c11LayerKeys {
			l2[k] = sc.Layer[k] & 1
		}
		switch sc.Origin {
		case "main", "include":
			// one file: there is only one layer
			for k := range l2 {
				l2[k] = 0
			}
		case "extends":
			// the base is itself a service of the project and the carrier of `a`'s networks: it cannot be kept off `default`
			sc.OthersOff = false
			// the base is a service of the same (validated) file: its depends_on entry must be complete on its own
			if sc.Dep2 == 2 {
				l2["depends_on.condition"] = 1 // the base lists b, b2, b3; the extending service re-specifies b2
			}
			l2["depends_on.required"] = l2["depends_on.condition"]
			if sc.NoDefUse || sc.OthersOff {
				l2["service.networks"] = 1
			}
		case "extends-file":
			if sc.Dep2 == 2 {
				l2["depends_on.condition"] = 1
				l2["depends_on.required"] = 1
			}
		case "override", "override3":
			if sc.Dep2 == 2 {
				l2["depends_on.condition"] = 0 // the earlier file lists b, b2, b3; the later one re-specifies b2
			}
			// every file is validated once merged: the first one cannot hold `required` without `condition`
			if l2["depends_on.condition"] == 1 {
				l2["depends_on.required"] = 1
			}
		}
		if c11TwoLayers(sc.Origin) && sc.Restate["depends_on"] == 3 && sc.Dep2 != 2 {
			// everything that is said about depends_on is said in ONE layer, so that the other layer holds nothing but
			// the bare restatement — in both spellings (a D leaf that IMP drops must not decide whether it is written)
			for _, k := range []string{"depends_on.required", "links.depends_on", "ipc.depends_on", "volumes_from.depends_on"} {
				l2[k] = l2["depends_on.condition"]
			}
		}
		if c11TwoLayers(sc.Origin) && sc.Restate["build"] != 0 {
			// the build section is defined in ONE layer (the one of its dockerfile) and restated in the other
			l2["build.base"], l2["build.context"] = l2["build.dockerfile"], l2["build.dockerfile"]
		}
		sc.Layer = l2
	}
	sp := func(id string) int {
		s := c11Eff(sc, id)
		if implicit && (s == spD || s == spN) {
			return spI
		}
		return s
	}
	site := func(id string) c11SiteDef {
		for _, s := range c11Sites {
			if s.ID == id {
				return s
			}
		}
		panic("unknown site " + id)
	}
	// val writes site id into mp[key] according to its spelling
	val := func(mp map[string]any, key, id string) {
		switch sp(id) {
		case spD:
			mp[key] = core.DeepCopyVal(site(id).Dflt)
		case spO:
			mp[key] = core.DeepCopyVal(site(id).Oth)
		case spN:
			mp[key] = nil
		}
	}
	// valR writes site id into the restated copy of an entry: another value is repeated, a default is written
	// out or left implicit as RSpell says (always implicit in IMP)
	valR := func(mp map[string]any, key, id string) {
		switch {
		case sp(id) == spO:
			mp[key] = core.DeepCopyVal(site(id).Oth)
		case !implicit && sc.RSpell[id] == spD:
			mp[key] = core.DeepCopyVal(site(id).Dflt)
		}
	}
	restate := func(unit string) int {
		if !c11TwoLayers(sc.Origin) {
			return 0
		}
		return sc.Restate[unit]
	}
	absent := map[string]bool{}
	for _, u := range sc.Absent {
		absent[u] = true
	}
	layers := [2]map[string]any{{}, {}}
	other := func(unit string) map[string]any { return layers[1-sc.Layer[unit]&1] }
	at := func(unit string) map[string]any { return layers[sc.Layer[unit]&1] }
	sub := func(mp map[string]any, k string) map[string]any {
		if x, ok := mp[k].(map[string]any); ok {
			return x
		}
		x := map[string]any{}
		mp[k] = x
		return x
	}

	if !absent["build"] {
		sub(at("build.base"), "build")["target"] = "t"
		if sc.Inline {
			sub(at("build.base"), "build")["dockerfile_inline"] = "FROM x"
		}
		if sp("build.context") != spI {
			val(sub(at("build.context"), "build"), "context", "build.context")
			if sc.Origin == "extends-file-subdir" && sc.Layer["build.context"]&1 == 1 && sp("build.context") == spD {
				// the documented default is the *project* directory (pinned by compose-go's own TestLoadExtendsSameFile /
				// TestLoadExtendsMultipleFiles); seen from a base file in sub/ that directory is spelled `..`
				sub(at("build.context"), "build")["context"] = ".."
			}
		}
		if sp("build.dockerfile") != spI {
			val(sub(at("build.dockerfile"), "build"), "dockerfile", "build.dockerfile")
		}
	}
	if f := restate("build"); f != 0 && !absent["build"] {
		dir := "."
		if sp("build.context") == spO {
			dir = site("build.context").Oth.(string) // both layers speak about the same directory
		}
		o := other("build.dockerfile")
		switch {
		case f == 3 && !implicit:
			o["build"] = dir // short syntax: everything but the context is left implicit
		case f == 3:
			b := map[string]any{}
			if sp("build.context") == spO {
				b["context"] = dir
			}
			o["build"] = b
		default:
			b := map[string]any{}
			valR(b, "context", "build.context")
			if !sc.Inline {
				valR(b, "dockerfile", "build.dockerfile")
			}
			o["build"] = b
		}
	}
	if !absent["ports"] {
		p := map[string]any{"target": 80, "published": "8080"}
		val(p, "protocol", "ports.protocol")
		val(p, "mode", "ports.mode")
		at("ports")["ports"] = []any{p}
		if f := restate("ports"); f != 0 {
			if f == 3 && implicit {
				other("ports")["ports"] = []any{map[string]any{"target": 80, "published": "8080"}}
			} else if f == 3 || f == 2 && !implicit && sp("ports.protocol") != spO && sp("ports.mode") != spO {
				other("ports")["ports"] = []any{"8080:80"} // Canonical expands it to protocol tcp, mode ingress
			} else {
				p2 := map[string]any{"target": 80, "published": "8080"}
				valR(p2, "protocol", "ports.protocol")
				valR(p2, "mode", "ports.mode")
				other("ports")["ports"] = []any{p2}
			}
		}
	}
	if !absent["secrets"] {
		s := map[string]any{"source": "sec"}
		val(s, "target", "secrets.target")
		at("secrets")["secrets"] = []any{s}
		if f := restate("secrets"); f != 0 {
			if f == 3 && implicit {
				other("secrets")["secrets"] = []any{map[string]any{"source": "sec"}}
			} else if f == 3 || f == 2 && !implicit && sp("secrets.target") != spO {
				other("secrets")["secrets"] = []any{"sec"}
			} else {
				s2 := map[string]any{"source": "sec"}
				valR(s2, "target", "secrets.target")
				other("secrets")["secrets"] = []any{s2}
			}
		}
	}
	if !absent["env_file"] {
		// both spellings must carry the same sibling attributes: the short string form cannot hold `format`, so it is
		// only used when the scenario has none
		if sp("env_file.required") == spI && sc.ListDeps && !sc.NullRes {
			at("env_file")["env_file"] = []any{"e.env"}
		} else {
			e := map[string]any{"path": "e.env"}
			if sc.NullRes {
				e["format"] = "c11raw" // a sibling attribute of the defaulted one
			}
			val(e, "required", "env_file.required")
			at("env_file")["env_file"] = []any{e}
		}
		if f := restate("env_file"); f != 0 {
			if f == 3 && (implicit || sc.NullRes) {
				e2 := map[string]any{"path": "e.env"}
				if sc.NullRes {
					e2["format"] = "c11raw" // the short form cannot hold the sibling: long and bare in both spellings
				}
				other("env_file")["env_file"] = []any{e2}
			} else if f == 3 || f == 2 && !implicit && sp("env_file.required") != spO && !sc.NullRes {
				other("env_file")["env_file"] = []any{"e.env"}
			} else {
				e2 := map[string]any{"path": "e.env"}
				if sc.NullRes {
					e2["format"] = "c11raw"
				}
				valR(e2, "required", "env_file.required")
				other("env_file")["env_file"] = []any{e2}
			}
		}
	}
	if !absent["devices"] {
		d := map[string]any{"capabilities": []any{"gpu"}}
		val(d, "count", "devices.count")
		at("devices")["deploy"] = map[string]any{"resources": map[string]any{"reservations": map[string]any{"devices": []any{d}}}}
	}
	if !absent["gpus"] {
		g := map[string]any{"driver": "nvidia"}
		val(g, "count", "gpus.count")
		at("gpus")["gpus"] = []any{g}
	}
	if !absent["pull_policy"] {
		switch sp("pull_policy") {
		case spI:
			at("pull_policy")["pull_policy"] = "if_not_present" // the alias
		default:
			val(at("pull_policy"), "pull_policy", "pull_policy")
		}
	}
	switch sp("service.networks") {
	case spD:
		switch sc.NetForm % 3 {
		case 1:
			at("service.networks")["networks"] = []any{"default"}
		case 2:
			at("service.networks")["networks"] = map[string]any{}
		default:
			at("service.networks")["networks"] = map[string]any{"default": nil}
		}
	case spO:
		at("service.networks")["networks"] = []any{"other"}
	default:
		if sc.NoDefUse {
			at("service.networks")["network_mode"] = "none"
		}
	}
	// depends_on: entry b (own sites), entries c/d/e implied by links / ipc / volumes_from
	type depLeaf struct {
		layer int
		entry string
		key   string
		v     any
	}
	var leaves []depLeaf
	listForm := -1
	if !absent["depends_on"] {
		c, r := sp("depends_on.condition"), sp("depends_on.required")
		if c == spI && r == spI && sc.ListDeps {
			listForm = sc.Layer["depends_on.condition"] & 1
		} else {
			cv := site("depends_on.condition").Dflt
			if c == spO {
				cv = site("depends_on.condition").Oth
			}
			// the schema requires `condition` in the long form: an implicit condition can only be written with the list form
			leaves = append(leaves, depLeaf{sc.Layer["depends_on.condition"] & 1, "b", "condition", cv})
			if r != spI {
				rv := site("depends_on.required").Dflt
				if r == spO {
					rv = site("depends_on.required").Oth
				}
				leaves = append(leaves, depLeaf{sc.Layer["depends_on.required"] & 1, "b", "required", rv})
			}
			if sc.Dep2 > 0 {
				leaves = append(leaves, depLeaf{sc.Layer["depends_on.condition"] & 1, "b2", "condition", "service_started"})
				leaves = append(leaves, depLeaf{sc.Layer["depends_on.condition"] & 1, "b3", "condition", "service_started"})
			}
		}
		if r := c11Refiner(sc.Origin); sc.Dep2 == 2 && r >= 0 {
			leaves = append(leaves, depLeaf{r, "b2", "condition", "service_healthy"})
			leaves = append(leaves, depLeaf{r, "b2", "required", false})
		}
	}
	implied := []struct{ unit, id, entry string }{{"links", "links.depends_on", "c"}, {"ipc", "ipc.depends_on", "d"}, {"volumes_from", "volumes_from.depends_on", "e"}}
	for _, im := range implied {
		if absent[im.unit] {
			continue
		}
		switch im.unit {
		case "links":
			at("links")["links"] = []any{"c:alias"}
		case "ipc":
			at("ipc")["ipc"] = "service:d"
		case "volumes_from":
			at("volumes_from")["volumes_from"] = []any{"e:ro"}
		}
		if s := sp(im.id); s != spI {
			var e map[string]any
			if s == spD {
				e = site(im.id).Dflt.(map[string]any)
			} else {
				e = site(im.id).Oth.(map[string]any)
			}
			for k, v := range e {
				leaves = append(leaves, depLeaf{sc.Layer[im.id] & 1, im.entry, k, v})
			}
		}
	}
	for _, lf := range leaves {
		sub(sub(layers[lf.layer], "depends_on"), lf.entry)[lf.key] = lf.v
	}
	if listForm >= 0 {
		if dm, ok := layers[listForm]["depends_on"].(map[string]any); ok {
			// the same layer also spells other entries: the long form is the only way to write both
			sub(dm, "b")["condition"] = "service_started"
			if sc.Dep2 > 0 {
				for _, n := range []string{"b2", "b3"} {
					if _, has := dm[n]; !has {
						sub(dm, n)["condition"] = "service_started"
					}
				}
			}
		} else if sc.Dep2 > 0 {
			layers[listForm]["depends_on"] = []any{"b", "b2", "b3"}
		} else {
			layers[listForm]["depends_on"] = []any{"b"}
		}
	}

	if restate("depends_on") == 3 && !absent["depends_on"] && sc.Dep2 != 2 {
		// bare restatement of the dependency on `b` in the other layer, when that layer says nothing else about
		// depends_on: the list `[b]` (EXP) vs the long entry the specification gives for it (IMP).  The short syntax
		// of depends_on is DEFINED as `{condition: service_started, required: true}` by both expansion sites
		// (transformDependsOn, override.convertIntoMapping; C03's mergeDependsOn_short_eq_long), so IMP writes both —
		// see design/C11.md, round 7, for what the minimal long entry `{condition: service_started}` does instead.
		o := layers[1-sc.Layer["depends_on.condition"]&1]
		if _, has := o["depends_on"]; !has {
			if implicit {
				o["depends_on"] = map[string]any{"b": map[string]any{"condition": "service_started", "required": true}}
			} else {
				o["depends_on"] = []any{"b"}
			}
		}
	}

	// ---- top level resources
	emptyRes := func() any {
		if sc.NullRes {
			return nil
		}
		return map[string]any{}
	}
	named := func(base map[string]any, id string) any {
		r := map[string]any{}
		for k, v := range base {
			r[k] = v
		}
		val(r, "name", id)
		if len(r) == 0 {
			return emptyRes()
		}
		return r
	}
	resA := map[string]any{ // what service `a` needs: travels with `a` into an included file
		"secrets": map[string]any{"sec": named(map[string]any{"file": "./s.txt"}, "secret.name")},
	}
	resMain := map[string]any{
		"networks": map[string]any{"n1": named(nil, "network.name"), "other": emptyRes()},
		"volumes":  map[string]any{"v1": named(nil, "volume.name"), "ext": named(map[string]any{"external": true}, "external.name"), "ext2": map[string]any{"external": "true"}},
		"configs":  map[string]any{"cfg": named(map[string]any{"content": "hello"}, "config.name")},
	}
	if s := sp("default.network"); s != spI {
		declaresDefault = true
		dn := map[string]any{}
		if s == spO {
			dn["name"] = "custom_default"
		} else if !sc.NullRes {
			dn["name"] = "proj_default"
		}
		if len(dn) == 0 {
			resMain["networks"].(map[string]any)["default"] = emptyRes()
		} else {
			resMain["networks"].(map[string]any)["default"] = dn
		}
	}

	others := map[string]any{}
	for _, n := range []string{"b", "b2", "b3", "c", "d", "e"} {
		o := map[string]any{"image": "i"}
		if sc.NoDefUse || sc.OthersOff {
			o["networks"] = []any{"other"}
		}
		others[n] = o
	}

	a0, a1 := layers[0], layers[1]
	files = map[string]string{"e.env": "K=v\n", "s.txt": "secret\n"}
	main := map[string]any{}
	merge := func(dst map[string]any, src map[string]any) {
		for k, v := range src {
			if dm, ok := dst[k].(map[string]any); ok {
				for k2, v2 := range v.(map[string]any) {
					dm[k2] = v2
				}
			} else {
				dst[k] = v
			}
		}
	}
	switch sc.Origin {
	case "main":
		// a single file: both layers are the same mapping (leaves never collide)
		a := c11MergeTrees(a0, a1).(map[string]any)
		a["image"] = "i"
		others[sc.svc()] = a
		main["services"] = others
		merge(main, resA)
		merge(main, resMain)
		configFiles = []string{"compose.yaml"}
	case "override", "override3":
		a0["image"] = "i"
		others[sc.svc()] = a0
		main["services"] = others
		merge(main, resA)
		over := map[string]any{"services": map[string]any{sc.svc(): a1}}
		// resources: the named ones move to the override file
		merge(over, resMain)
		main["networks"] = map[string]any{"other": emptyRes()}
		a1["labels"] = map[string]any{"l": "v"}
		files["override.yaml"] = c11YAML(over)
		configFiles = []string{"compose.yaml", "override.yaml"}
		if sc.Origin == "override3" {
			// three layers: a first file in which `a` already has a depends_on, so that everything the two later
			// files say about depends_on goes through the merge of an override onto an existing mapping
			files["override1.yaml"] = c11YAML(main)
			c0 := map[string]any{"image": "i"}
			if sc.NoDefUse || sc.OthersOff {
				c0["networks"] = []any{"other"}
			}
			main = map[string]any{"services": map[string]any{sc.svc(): map[string]any{"image": "i", "depends_on": []any{"c0"}}, "c0": c0}}
			if sc.NoDefUse || sc.OthersOff {
				main["networks"] = map[string]any{"other": emptyRes()}
			}
			configFiles = []string{"compose.yaml", "override1.yaml", "override.yaml"}
		}
	case "extends", "extends-file", "extends-file-subdir":
		a1["image"] = "i"
		if sc.Origin == "extends" {
			a0["extends"] = map[string]any{"service": "base0"}
			others["base0"] = a1
			if sc.NoDefUse || sc.OthersOff {
				if _, has := a1["networks"]; !has {
					if _, has := a1["network_mode"]; !has {
						a1["network_mode"] = "none"
					}
				}
			}
		} else if sc.Origin == "extends-file-subdir" {
			a0["extends"] = map[string]any{"service": "base0", "file": "sub/base.yaml"}
			files["sub/base.yaml"] = c11YAML(map[string]any{"services": map[string]any{"base0": a1}})
		} else {
			a0["extends"] = map[string]any{"service": "base0", "file": "base.yaml"}
			files["base.yaml"] = c11YAML(map[string]any{"services": map[string]any{"base0": a1}})
		}
		others[sc.svc()] = a0
		main["services"] = others
		merge(main, resA)
		merge(main, resMain)
		configFiles = []string{"compose.yaml"}
	case "include":
		a := c11MergeTrees(a0, a1).(map[string]any)
		a["image"] = "i"
		others[sc.svc()] = a
		inc := map[string]any{"services": others}
		merge(inc, resA)
		inc["networks"] = map[string]any{"other": emptyRes()}
		files["inc.yaml"] = c11YAML(inc)
		z := map[string]any{"image": "i"}
		if sc.NoDefUse || sc.OthersOff {
			z["network_mode"] = "host"
		}
		main["include"] = []any{"inc.yaml"}
		main["services"] = map[string]any{"z": z}
		delete(resMain["networks"].(map[string]any), "other")
		merge(main, resMain)
		configFiles = []string{"compose.yaml"}
	}
	files["compose.yaml"] = c11YAML(main)
	return files, configFiles, declaresDefault
}

// c11MergeTrees overlays b on a (mappings recursively; anything else: b wins).
func c11MergeTrees(a, b any) any {
	am, ok1 := a.(map[string]any)
	bm, ok2 := b.(map[string]any)
	if !ok1 || !ok2 {
		return core.DeepCopyVal(b)
	}
	out := core.DeepCopyVal(am).(map[string]any)
	for k, v := range bm {
		if cur, ok := out[k]; ok {
			out[k] = c11MergeTrees(cur, v)
		} else {
			out[k] = core.DeepCopyVal(v)
		}
	}
	return out
}

func c11YAML(v any) string {
	b, err := yaml.Marshal(v)
	if err != nil {
		panic(err)
	}
	// the emitter is checked, not assumed: the text must decode back to the tree it was made from
	var back any
	if err := yaml.Unmarshal(b, &back); err != nil {
		panic(err)
	}
	want, _ := json.Marshal(v)
	got, _ := json.Marshal(back)
	if string(want) != string(got) {
		panic(fmt.Sprintf("yaml round trip changed the model: %s vs %s", want, got))
	}
	return string(b)
}

func c11Get(v any, path []any) (any, bool) {
	for _, p := range path {
		switch k := p.(type) {
		case string:
			mp, ok := v.(map[string]any)
			if !ok {
				return nil, false
			}
			v, ok = mp[k]
			if !ok {
				return nil, false
			}
		case int:
			sl, ok := v.([]any)
			if !ok || k >= len(sl) {
				return nil, false
			}
			v = sl[k]
		case float64:
			sl, ok := v.([]any)
			if !ok || int(k) >= len(sl) {
				return nil, false
			}
			v = sl[int(k)]
		}
	}
	return v, true
}

// c11FirstDiff returns the json path of the first difference between two decoded JSON values.
func c11FirstDiff(a, b any, at string) string {
	if reflect.DeepEqual(a, b) {
		return ""
	}
	am, ok1 := a.(map[string]any)
	bm, ok2 := b.(map[string]any)
	if ok1 && ok2 {
		keys := map[string]bool{}
		for k := range am {
			keys[k] = true
		}
		for k := range bm {
			keys[k] = true
		}
		var ks []string
		for k := range keys {
			ks = append(ks, k)
		}
		sort.Strings(ks)
		for _, k := range ks {
			x, okx := am[k]
			y, oky := bm[k]
			if !okx || !oky {
				return at + "." + k
			}
			if d := c11FirstDiff(x, y, at+"."+k); d != "" {
				return d
			}
		}
		return at
	}
	al, ok1 := a.([]any)
	bl, ok2 := b.([]any)
	if ok1 && ok2 && len(al) == len(bl) {
		for i := range al {
			if d := c11FirstDiff(al[i], bl[i], fmt.Sprintf("%s[%d]", at, i)); d != "" {
				return d
			}
		}
	}
	return at
}

type c11Check struct {
	Kind string `json:"kind"`
	Key  string `json:"key"`
	What string `json:"what"`
}

type c11MetaOut struct {
	Exp    any        `json:"exp_class"`
	Imp    any        `json:"imp_class"`
	Failed []c11Check `json:"failed"`
	Bad    string     `json:"bad,omitempty"` // the generator produced something the loader rejects in both spellings
}

func c11RealMeta(raw json.RawMessage) any {
	var sc c11Scenario
	if err := json.Unmarshal(raw, &sc); err != nil {
		panic(err)
	}
	load := func(implicit bool) (map[string]any, string, bool) {
		files, cfs, declares := c11Build(sc, implicit)
		out := core.LoadOutcome(core.LoadReq{Files: files, ConfigFiles: cfs, ProjectName: "proj", SkipValidation: sc.Skips&1 != 0, SkipInterpolation: sc.Skips&2 != 0})
		b, _ := json.Marshal(out)
		var o struct {
			Ok  map[string]any `json:"ok"`
			Err string         `json:"err"`
		}
		json.Unmarshal(b, &o)
		return o.Ok, o.Err, declares
	}
	exp, expErr, declares := load(false)
	imp, impErr, _ := load(true)
	res := c11MetaOut{Exp: "ok", Imp: "ok"}
	if exp == nil {
		res.Exp = "err"
	}
	if imp == nil {
		res.Imp = "err"
	}
	if exp == nil && imp == nil {
		res.Bad = "both spellings are rejected: " + expErr
		return res
	}
	if exp == nil || imp == nil {
		res.Failed = append(res.Failed, c11Check{"load-outcome-differs", sc.Origin, fmt.Sprintf("explicit spelling: %q, implicit spelling: %q", expErr, impErr)})
		return res
	}
	if sc.Origin == "extends" {
		// the base service is only the vehicle of the attributes; what is compared is the service that extends it
		for _, p := range []map[string]any{exp, imp} {
			if svcs, ok := p["services"].(map[string]any); ok {
				delete(svcs, "base0")
			}
		}
	}
	// (1) implicit ≡ explicit
	if d := c11FirstDiff(exp, imp, ""); d != "" {
		x, _ := c11Get2(exp, d)
		y, _ := c11Get2(imp, d)
		res.Failed = append(res.Failed, c11Check{"implicit-vs-explicit", strings.TrimPrefix(d, ".") + "@" + sc.Origin,
			fmt.Sprintf("at %s the model with the defaults written out loads to %v, the one that leaves them implicit to %v", d, x, y)})
	}
	// (2) explicit values survive
	absent := map[string]bool{}
	for _, u := range sc.Absent {
		absent[u] = true
	}
	for _, s := range c11Sites {
		if c11Eff(sc, s.ID) != spO || absent[c11UnitOf(s.ID)] || c11BareReplaced(sc, s.ID) {
			continue
		}
		want := s.Want
		if want == nil {
			b, _ := json.Marshal(s.Oth)
			json.Unmarshal(b, &want)
		}
		got, ok := c11Get(exp, sc.path(s.Path))
		if !ok || !reflect.DeepEqual(got, want) {
			res.Failed = append(res.Failed, c11Check{"clobbered", s.ID + "@" + sc.Origin, fmt.Sprintf("%s was written as %v but the project has %v", s.ID, want, got)})
		}
	}
	// (5) every site that is not written with another value shows the documented default
	{
		for _, s := range c11Sites {
			if c11Eff(sc, s.ID) == spO || absent[c11UnitOf(s.ID)] || s.ID == "default.network" || c11BareReplaced(sc, s.ID) {
				continue
			}
			if s.ID == "service.networks" && sc.NoDefUse {
				continue
			}
			path, want := s.Path, any(nil)
			if v, ok := c11DefaultView[s.ID]; ok {
				if v.Path != nil {
					path = v.Path
				}
				want = v.Want
			}
			if want == nil {
				b, _ := json.Marshal(s.Dflt)
				json.Unmarshal(b, &want)
			}
			if s.ID == "env_file.required" && sc.NullRes {
				// with a `format` the project renders the entry in long form (the short form is path-only)
				want = map[string]any{"path": "$ROOT/e.env", "required": true, "format": "c11raw"}
			}
			got, ok := c11Get(exp, sc.path(path))
			if s.ID == "build.dockerfile" && sc.Inline {
				if ok {
					res.Failed = append(res.Failed, c11Check{"default-value", s.ID + "@" + sc.Origin, fmt.Sprintf("dockerfile_inline is set, yet the project has dockerfile %v", got)})
				}
				continue
			}
			if !ok || !reflect.DeepEqual(got, want) {
				res.Failed = append(res.Failed, c11Check{"default-value", s.ID + "@" + sc.Origin, fmt.Sprintf("%s is not written with another value; the project should show the default %v but has %v", s.ID, want, got)})
			}
		}
		dflt := map[string]any{"condition": "service_started", "required": true}
		if sc.Dep2 > 0 && !absent["depends_on"] {
			want := dflt
			if sc.Dep2 == 2 && c11Refiner(sc.Origin) >= 0 {
				want = map[string]any{"condition": "service_healthy", "required": false}
			}
			got, _ := c11Get(exp, sc.path([]any{"services", "a", "depends_on", "b2"}))
			if !reflect.DeepEqual(got, any(want)) {
				res.Failed = append(res.Failed, c11Check{"clobbered", "depends_on.b2@" + sc.Origin, fmt.Sprintf("depends_on.b2 should be %v but is %v", want, got)})
			}
			// the neighbour that no layer ever refines keeps the defaults
			got, _ = c11Get(exp, sc.path([]any{"services", "a", "depends_on", "b3"}))
			if !reflect.DeepEqual(got, any(dflt)) {
				res.Failed = append(res.Failed, c11Check{"default-value", "depends_on.b3@" + sc.Origin, fmt.Sprintf("depends_on.b3 is written without attributes in every layer: it should be %v but is %v", dflt, got)})
			}
		}
		if sc.Origin == "override3" {
			got, _ := c11Get(exp, sc.path([]any{"services", "a", "depends_on", "c0"}))
			if !reflect.DeepEqual(got, any(dflt)) {
				res.Failed = append(res.Failed, c11Check{"default-value", "depends_on.c0@" + sc.Origin, fmt.Sprintf("depends_on.c0 (short form in the first file) should be %v but is %v", dflt, got)})
			}
		}
	}
	// (3) default network iff
	for which, p := range map[string]map[string]any{"exp": exp, "imp": imp} {
		used := false
		if svcs, ok := p["services"].(map[string]any); ok {
			for _, s := range svcs {
				if nets, ok := s.(map[string]any)["networks"].(map[string]any); ok {
					if _, ok := nets["default"]; ok {
						used = true
					}
				}
			}
		}
		_, has := c11Get(p, []any{"networks", "default"})
		if has != (used || (declares && which == "exp") || (c11Eff(sc, "default.network") == spO)) {
			res.Failed = append(res.Failed, c11Check{"default-network-iff", sc.Origin, fmt.Sprintf("networks.default present=%v, used by a service=%v, declared=%v", has, used, declares)})
		}
		// (4) resource names
		for _, sec := range []string{"networks", "volumes", "secrets", "configs"} {
			rs, _ := p[sec].(map[string]any)
			for key, r := range rs {
				rm, _ := r.(map[string]any)
				name, _ := rm["name"].(string)
				want := "proj_" + key
				if ext, _ := rm["external"].(bool); ext {
					want = key
				}
				explicit := false
				for _, s := range c11Sites {
					if len(s.Path) == 3 && s.Path[0] == sec && s.Path[1] == key && c11Eff(sc, s.ID) == spO {
						explicit = true
					}
				}
				if !explicit && name != want {
					res.Failed = append(res.Failed, c11Check{"resource-name", sec + "@" + sc.Origin, fmt.Sprintf("%s.%s is named %q, expected %q", sec, key, name, want)})
				}
			}
		}
	}
	return res
}

// c11BareReplaced: the site belongs to a LIST entry (port / secret / env_file) that the other layer restates bare
// (Restate 3) while this scenario writes another value somewhere in the entry.  A list entry is not merged
// attribute by attribute: the later copy replaces the earlier one when both have the same unicity key, and is a
// second entry when the key differs (protocol udp, another target) — which of the two the absolute checks (2) and
// (5) would have to look at depends on the direction of the merge; what is demanded of these scenarios is check
// (1): the short and the long spelling of the bare copy load to the same project.
func c11BareReplaced(sc c11Scenario, id string) bool {
	u := c11UnitOf(id)
	if !c11TwoLayers(sc.Origin) || sc.Restate[u] != 3 || u == "build" {
		return false
	}
	for _, s := range c11Sites {
		if c11UnitOf(s.ID) == u && c11Eff(sc, s.ID) == spO {
			return true
		}
	}
	return false
}

// c11Get2 follows a ".a.b[0].c" path.
func c11Get2(v any, path string) (any, bool) {
	var parts []any
	for _, seg := range strings.Split(strings.TrimPrefix(path, "."), ".") {
		for seg != "" {
			if i := strings.IndexByte(seg, '['); i >= 0 {
				if i > 0 {
					parts = append(parts, seg[:i])
				}
				j := strings.IndexByte(seg, ']')
				var n int
				fmt.Sscanf(seg[i+1:j], "%d", &n)
				parts = append(parts, n)
				seg = seg[j+1:]
			} else {
				parts = append(parts, seg)
				seg = ""
			}
		}
	}
	return c11Get(v, parts)
}

func c11UnitOf(site string) string {
	switch site {
	case "build.context", "build.dockerfile":
		return "build"
	case "ports.protocol", "ports.mode":
		return "ports"
	case "secrets.target":
		return "secrets"
	case "depends_on.condition", "depends_on.required":
		return "depends_on"
	case "env_file.required":
		return "env_file"
	case "devices.count":
		return "devices"
	case "gpus.count":
		return "gpus"
	case "links.depends_on":
		return "links"
	case "ipc.depends_on":
		return "ipc"
	case "volumes_from.depends_on":
		return "volumes_from"
	}
	return site
}

var c11Units = []string{"build", "ports", "secrets", "depends_on", "env_file", "devices", "gpus", "pull_policy", "links", "ipc", "volumes_from"}
var c11LayerKeys = []string{"build.base", "build.context", "build.dockerfile", "ports", "secrets", "env_file", "devices", "gpus", "pull_policy", "service.networks",
	"depends_on.condition", "depends_on.required", "links", "ipc", "volumes_from", "links.depends_on", "ipc.depends_on", "volumes_from.depends_on"}

func c11NewScenario(origin string) c11Scenario {
	return c11Scenario{Origin: origin, Spell: map[string]int{}, Layer: map[string]int{}}
}

func c11RandomScenario(r *rand.Rand) c11Scenario {
	sc := c11NewScenario(c11Origins[r.Intn(len(c11Origins))])
	for _, s := range c11Sites {
		sc.Spell[s.ID] = r.Intn(3)
	}
	for _, k := range c11LayerKeys {
		sc.Layer[k] = r.Intn(2)
	}
	for _, u := range c11Units {
		if r.Intn(5) == 0 {
			sc.Absent = append(sc.Absent, u)
		}
	}
	sc.ListDeps = r.Intn(2) == 0
	sc.NetForm = r.Intn(3)
	sc.OthersOff = r.Intn(4) == 0
	sc.Dep2 = r.Intn(3)
	sc.Skips = []int{0, 0, 0, 1, 3}[r.Intn(5)]
	sc.Inline = r.Intn(4) == 0
	if sc.Skips&1 != 0 {
		ids := make([]string, 0, len(c11Nullable))
		for id := range c11Nullable {
			ids = append(ids, id)
		}
		sort.Strings(ids)
		for _, id := range ids {
			if r.Intn(3) == 0 {
				sc.Spell[id] = spN
			}
		}
	}
	sc.NullRes = r.Intn(2) == 0
	if r.Intn(4) == 0 {
		sc.Svc = c11SvcFor(sc.Origin, c11SvcNames[1+r.Intn(len(c11SvcNames)-1)])
	}
	if c11TwoLayers(sc.Origin) {
		for _, u := range c11RestateUnits {
			if r.Intn(3) == 0 {
				if sc.Restate == nil {
					sc.Restate, sc.RSpell = map[string]int{}, map[string]int{}
				}
				sc.Restate[u] = 1 + r.Intn(3)
			}
		}
		if r.Intn(3) == 0 {
			if sc.Restate == nil {
				sc.Restate, sc.RSpell = map[string]int{}, map[string]int{}
			}
			sc.Restate["build"] = []int{1, 3, 3}[r.Intn(3)]
		}
		if r.Intn(4) == 0 {
			if sc.Restate == nil {
				sc.Restate, sc.RSpell = map[string]int{}, map[string]int{}
			}
			sc.Restate["depends_on"] = 3
		}
		if sc.Restate != nil {
			for _, id := range []string{"ports.protocol", "ports.mode", "secrets.target", "env_file.required", "build.context", "build.dockerfile"} {
				sc.RSpell[id] = r.Intn(2)
			}
		}
	}
	if r.Intn(5) == 0 {
		sc.NoDefUse = true
		if sc.Spell["service.networks"] == spD {
			sc.Spell["service.networks"] = spO
		}
	}
	return sc
}

func init() {
	// compose-go ships no env_file format parser; register a trivial one so that `format:` can sit next to `required:`
	dotenv.RegisterFormat("c11raw", func(r io.Reader, _ string, _ func(string) (string, bool)) (map[string]string, error) {
		return map[string]string{"K": "v"}, nil // what the default parser reads from the generated e.env
	})
	core.Register("c11.meta", &core.CheckDef{
		Real:    c11RealMeta,
		Timeout: 30 * time.Second,
		Judge: func(args, real, _ json.RawMessage) *core.Verdict {
			if v := core.CrashVerdict(real); v != nil {
				return v
			}
			var out c11MetaOut
			if err := json.Unmarshal(real, &out); err != nil {
				return core.Disagree("malformed oracle outcome: " + string(real))
			}
			if out.Bad != "" {
				return core.Disagree("oracle generator: " + out.Bad)
			}
			if len(out.Failed) > 0 {
				f := out.Failed[0]
				return core.Fail(f.Kind+":"+f.Key, f.What)
			}
			return nil
		},
	})
}

// ---- option propagation: SkipDefaultValues must mean the same wherever service `a` comes from.
// The scenario is loaded with every default implicit and SkipDefaultValues set, once as given and once with origin
// `main`; at the sites `transform.SetDefaultValues` fills, both projects must agree (the option is the caller's: an
// included / extended / overriding file must not get defaults the main file is denied).
var c11SDVSites = []string{"ports.protocol", "ports.mode", "secrets.target", "devices.count", "gpus.count", "build.context"}

func c11RealSkipDefaults(raw json.RawMessage) any {
	var sc c11Scenario
	if err := json.Unmarshal(raw, &sc); err != nil {
		panic(err)
	}
	load := func(origin string) (map[string]any, string) {
		s2 := sc
		s2.Origin = origin
		files, cfs, _ := c11Build(s2, true)
		out := core.LoadOutcome(core.LoadReq{Files: files, ConfigFiles: cfs, ProjectName: "proj", SkipDefaultValues: true})
		b, _ := json.Marshal(out)
		var o struct {
			Ok  map[string]any `json:"ok"`
			Err string         `json:"err"`
		}
		json.Unmarshal(b, &o)
		return o.Ok, o.Err
	}
	ref, refErr := load("main")
	got, gotErr := load(sc.Origin)
	res := c11MetaOut{Exp: "ok", Imp: "ok"}
	if ref == nil && got == nil {
		res.Bad = "rejected at both origins: " + refErr
		return res
	}
	if ref == nil || got == nil {
		res.Failed = append(res.Failed, c11Check{"skip-default-values-outcome", sc.Origin, fmt.Sprintf("origin main: %q, origin %s: %q", refErr, sc.Origin, gotErr)})
		return res
	}
	absent := map[string]bool{}
	for _, u := range sc.Absent {
		absent[u] = true
	}
	for _, id := range c11SDVSites {
		if absent[c11UnitOf(id)] {
			continue
		}
		var path []any
		for _, s := range c11Sites {
			if s.ID == id {
				path = s.Path
			}
		}
		x, okx := c11Get(ref, sc.path(path))
		y, oky := c11Get(got, sc.path(path))
		if okx != oky || !reflect.DeepEqual(x, y) {
			res.Failed = append(res.Failed, c11Check{"skip-default-values", id + "@" + sc.Origin,
				fmt.Sprintf("loaded with SkipDefaultValues, %s is %v (present=%v) when service a comes from the main file but %v (present=%v) when it comes from origin %s", id, x, okx, y, oky, sc.Origin)})
		}
	}
	return res
}

func init() {
	core.Register("c11.skipDefaults", &core.CheckDef{
		Real:    c11RealSkipDefaults,
		Timeout: 30 * time.Second,
		Judge: func(args, real, _ json.RawMessage) *core.Verdict {
			if v := core.CrashVerdict(real); v != nil {
				return v
			}
			var out c11MetaOut
			if err := json.Unmarshal(real, &out); err != nil {
				return core.Disagree("malformed oracle outcome: " + string(real))
			}
			if out.Bad != "" {
				return core.Disagree("oracle generator: " + out.Bad)
			}
			if len(out.Failed) > 0 {
				f := out.Failed[0]
				return core.Fail(f.Kind+":"+f.Key, f.What)
			}
			return nil
		},
	})
}

func c11Oracle(ctx *core.Ctx) {
	// SkipDefaultValues at every origin, both layer placements, with / without the build section's siblings
	for _, origin := range c11Origins {
		for layer := 0; layer < 2; layer++ {
			for _, list := range []bool{false, true} {
				sc := c11NewScenario(origin)
				for _, k := range c11LayerKeys {
					sc.Layer[k] = layer
				}
				sc.ListDeps, sc.NullRes = list, list
				ctx.Count("skip-default-values:" + origin)
				ctx.Add("c11.skipDefaults", sc)
			}
		}
	}
	// exhaustive: every origin × every site × {D, O}, everything else implicit; both layer placements
	for _, origin := range c11Origins {
		for layer := 0; layer < 2; layer++ {
			base := c11NewScenario(origin)
			for _, k := range c11LayerKeys {
				base.Layer[k] = layer
			}
			ctx.Count("meta-exh-all-implicit")
			ctx.Add("c11.meta", base)
			for _, s := range c11Sites {
				for _, spell := range []int{spD, spO} {
					for variant := 0; variant < 2; variant++ {
						sc := c11NewScenario(origin)
						for _, k := range c11LayerKeys {
							sc.Layer[k] = layer
						}
						// the site under test lives in the other layer than its siblings in the second variant
						if variant == 1 {
							sc.Layer[s.ID] = 1 - layer
							sc.ListDeps, sc.NetForm, sc.NullRes = true, 1, true
						}
						sc.Spell[s.ID] = spell
						ctx.Count(fmt.Sprintf("meta-exh-site:%s", s.ID))
						ctx.Count(fmt.Sprintf("meta-origin:%s", origin))
						ctx.Add("c11.meta", sc)
					}
				}
			}
			// `a` is the only service that can bring `default` in: every way of saying so
			for form := 0; form < 3; form++ {
				for _, spell := range []int{spI, spD} {
					oa := c11NewScenario(origin)
					for _, k := range c11LayerKeys {
						oa.Layer[k] = layer
					}
					oa.OthersOff, oa.NetForm = true, form
					oa.Spell["service.networks"] = spell
					ctx.Count("meta-exh-only-a-uses-default")
					ctx.Add("c11.meta", oa)
				}
			}
			// nobody uses `default`: it must not appear
			nd := c11NewScenario(origin)
			nd.NoDefUse = true
			nd.Spell["service.networks"] = spO
			ctx.Count("meta-exh-no-default-use")
			ctx.Add("c11.meta", nd)
		}
	}
	// explicit nulls (read like an absent key by Normalize), dockerfile_inline, string booleans that only the
	// interpolation cast would turn into bools, and a second dependency next to `b` (optionally re-specified later)
	for _, origin := range c11Origins {
		for layer := 0; layer < 2; layer++ {
			mk := func() c11Scenario {
				sc := c11NewScenario(origin)
				for _, k := range c11LayerKeys {
					sc.Layer[k] = layer
				}
				return sc
			}
			ids := make([]string, 0, len(c11Nullable))
			for id := range c11Nullable {
				ids = append(ids, id)
			}
			sort.Strings(ids)
			for _, id := range ids {
				sc := mk()
				sc.Skips = 1
				sc.Spell[id] = spN
				ctx.Count("meta-exh-explicit-null")
				ctx.Add("c11.meta", sc)
			}
			for _, spell := range []int{spI, spN} {
				for _, skips := range []int{0, 1, 3} {
					sc := mk()
					sc.Inline, sc.Skips = true, skips
					sc.Spell["build.dockerfile"] = spell
					ctx.Count("meta-exh-dockerfile-inline")
					ctx.Add("c11.meta", sc)
				}
			}
			for _, skips := range []int{1, 3} {
				sc := mk()
				sc.Skips = skips
				ctx.Count("meta-exh-skips")
				ctx.Add("c11.meta", sc)
			}
			for dep2 := 1; dep2 <= 2; dep2++ {
				for _, list := range []bool{false, true} {
					for _, spell := range []int{spI, spD} {
						sc := mk()
						sc.Dep2, sc.ListDeps = dep2, list
						sc.Spell["depends_on.condition"] = spell
						ctx.Count("meta-exh-second-dependency")
						ctx.Add("c11.meta", sc)
					}
				}
			}
		}
	}
	// the same list entry written in both layers, every combination of implicit / written-out per layer and both
	// forms of the restated copy: the merge has to recognise them as one entry
	restSites := map[string][]string{"ports": {"ports.protocol", "ports.mode"}, "secrets": {"secrets.target"}, "env_file": {"env_file.required"}}
	for _, origin := range c11Origins {
		if !c11TwoLayers(origin) {
			continue
		}
		for layer := 0; layer < 2; layer++ {
			for _, unit := range c11RestateUnits {
				ids := restSites[unit]
				for form := 1; form <= 2; form++ {
					for mask := 0; mask < 1<<(2*len(ids)); mask++ {
						if form == 2 && mask>>len(ids) != 0 {
							continue // the short form has no per-site spelling
						}
						for _, nullRes := range []bool{false, true} {
							sc := c11NewScenario(origin)
							for _, k := range c11LayerKeys {
								sc.Layer[k] = layer
							}
							sc.Restate, sc.RSpell = map[string]int{unit: form}, map[string]int{}
							for i, id := range ids {
								sc.Spell[id] = mask >> i & 1
								sc.RSpell[id] = mask >> (len(ids) + i) & 1
							}
							sc.NullRes, sc.ListDeps = nullRes, mask&1 == 0
							ctx.Count("meta-exh-restated-entry:" + unit)
							ctx.Add("c11.meta", sc)
						}
					}
				}
			}
		}
	}
	// round 7 — implicit vs explicit ACROSS layers: one layer defines the parent with every combination of I / D /
	// another value for its default-able attributes, the other layer restates the parent bare, short (EXP) vs long
	// (IMP); for the build section also a long restatement with its own I / D spelling per attribute
	bareSites := map[string][]string{"depends_on": {"depends_on.condition", "depends_on.required"}, "build": {"build.context", "build.dockerfile"}, "ports": {"ports.protocol", "ports.mode"}, "secrets": {"secrets.target"}, "env_file": {"env_file.required"}}
	for _, origin := range c11Origins {
		if !c11TwoLayers(origin) {
			continue
		}
		for layer := 0; layer < 2; layer++ {
			for _, unit := range []string{"build", "ports", "secrets", "env_file", "depends_on"} {
				ids := bareSites[unit]
				n := 1
				for range ids {
					n *= 3
				}
				for combo := 0; combo < n; combo++ {
					for variant := 0; variant < 6; variant++ {
						// variants: 0 bare; 1 bare + the sibling switch of the unit (dockerfile_inline / format); 2..5 build only:
						// long restatement, RSpell = variant-2
						if variant >= 2 && unit != "build" || variant == 1 && (unit == "ports" || unit == "secrets" || unit == "depends_on") {
							continue
						}
						sc := c11NewScenario(origin)
						for _, k := range c11LayerKeys {
							sc.Layer[k] = layer
						}
						sc.Restate, sc.RSpell = map[string]int{unit: 3}, map[string]int{}
						c := combo
						for _, id := range ids {
							sc.Spell[id] = c % 3
							c /= 3
						}
						switch {
						case variant == 1 && unit == "build":
							sc.Inline = true
						case variant == 1:
							sc.NullRes = true
						case variant >= 2:
							sc.Restate[unit] = 1
							sc.RSpell["build.context"], sc.RSpell["build.dockerfile"] = (variant-2)&1, (variant-2)>>1
						}
						sc.ListDeps = combo%2 == 0
						ctx.Count(fmt.Sprintf("meta-exh-cross-layer:%s/form%d", unit, sc.Restate[unit]))
						ctx.Count("meta-origin:" + origin)
						ctx.Add("c11.meta", sc)
					}
				}
			}
		}
	}
	// an extended base that lives in another directory: only the build section (the other units carry paths
	// whose anchoring is C12's business)
	for _, site := range []string{"build.context", "build.dockerfile"} {
		for layer := 0; layer < 2; layer++ {
			sc := c11NewScenario("extends-file-subdir")
			for _, k := range c11LayerKeys {
				sc.Layer[k] = layer
			}
			for _, u := range c11Units {
				if u != "build" {
					sc.Absent = append(sc.Absent, u)
				}
			}
			sc.Spell[site] = spD
			ctx.Count("meta-exh-extends-subdir")
			ctx.Add("c11.meta", sc)
		}
	}
	// the carrier of the attributes has a key that looks like an extension (`x-a`, `x-`) or that tree.Path escapes
	// (`a.b`): it is a service like any other, so every default applies; all-implicit vs all-written-out, and each
	// site of the defaults walker alone
	for _, origin := range c11Origins {
		for _, name := range c11SvcNames[1:] {
			for layer := 0; layer < 2; layer++ {
				mk := func() c11Scenario {
					sc := c11NewScenario(origin)
					sc.Svc = c11SvcFor(origin, name)
					for _, k := range c11LayerKeys {
						sc.Layer[k] = layer
					}
					return sc
				}
				all := mk()
				for _, s := range c11Sites {
					all.Spell[s.ID] = spD
				}
				ctx.Count("meta-exh-service-key:" + name)
				ctx.Add("c11.meta", all)
				for _, id := range c11SDVSites {
					sc := mk()
					sc.Spell[id] = spD
					ctx.Count("meta-exh-service-key:" + name)
					ctx.Add("c11.meta", sc)
				}
				sk := mk()
				ctx.Count("skip-default-values:service-key:" + name)
				ctx.Add("c11.skipDefaults", sk)
			}
		}
	}
	// all subsets written explicitly with the default / with another value: seeded random
	for i := 0; i < ctx.Pick(1500, 40000); i++ {
		sc := c11RandomScenario(ctx.Rng)
		ctx.Count("meta-random")
		ctx.Count("meta-service-key:" + sc.svc())
		ctx.Count("meta-origin:" + sc.Origin)
		ctx.Add("c11.meta", sc)
	}
}
