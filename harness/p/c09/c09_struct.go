package c09

// C09 — correspondence of the tag-driven encoding: yaml.v3 / encoding/json applied to reflection-populated values of
// every model type vs `Encode.render` over the regenerated Gen.Types descriptors (Model/Encode.lean).
//
//	c09.struct {type, fmt, v}   v = the typed value (struct = map keyed by Go field names, nil = null)

import (
	"encoding/json"
	"fmt"
	"math/rand"
	"reflect"
	"sort"
	"strconv"

	"github.com/compose-spec/compose-go/v2/types"
	"gopkg.in/yaml.v3"

	"verifharness/core"
)

var typesPkg = reflect.TypeOf(types.Project{}).PkgPath()

// modelStructs: every struct type of package types reachable from Project through rendered fields.
func modelStructs() map[string]reflect.Type {
	out := map[string]reflect.Type{}
	var visit func(t reflect.Type)
	visit = func(t reflect.Type) {
		switch t.Kind() {
		case reflect.Ptr, reflect.Slice, reflect.Map:
			visit(t.Elem())
		case reflect.Struct:
			if t.PkgPath() != typesPkg || out[t.Name()] != nil {
				return
			}
			out[t.Name()] = t
			for i := 0; i < t.NumField(); i++ {
				f := t.Field(i)
				if f.IsExported() && !(f.Tag.Get("yaml") == "-" && f.Tag.Get("json") == "-") {
					visit(f.Type)
				}
			}
		}
	}
	visit(reflect.TypeOf(types.Project{}))
	return out
}

func rendered(f reflect.StructField) bool {
	return f.IsExported() && !(f.Tag.Get("yaml") == "-" && f.Tag.Get("json") == "-")
}

var c09Floats = []float64{0.5, 1.5, 2, 0.1, 0.25, 100, 1e6, -1.5}

// populate builds a random value of type t (every random choice from r).
func populate(r *rand.Rand, t reflect.Type, depth int, pZero float64) reflect.Value {
	v := reflect.New(t).Elem()
	if r.Float64() < pZero {
		return v
	}
	switch t.Kind() {
	case reflect.String:
		v.SetString(c09Words[r.Intn(len(c09Words))])
	case reflect.Bool:
		v.SetBool(r.Intn(2) == 0)
	case reflect.Int, reflect.Int8, reflect.Int16, reflect.Int32, reflect.Int64:
		n := int64(c09Ints[r.Intn(len(c09Ints))])
		if r.Intn(2) == 0 {
			n = int64(r.Intn(2000) - 5)
		}
		if v.OverflowInt(n) {
			n = int64(r.Intn(100))
		}
		v.SetInt(n)
	case reflect.Uint, reflect.Uint8, reflect.Uint16, reflect.Uint32, reflect.Uint64:
		n := uint64(r.Intn(70000))
		if v.OverflowUint(n) {
			n = uint64(r.Intn(200))
		}
		v.SetUint(n)
	case reflect.Float32, reflect.Float64:
		v.SetFloat(c09Floats[r.Intn(len(c09Floats))])
	case reflect.Ptr:
		if depth <= 0 {
			return v
		}
		p := reflect.New(t.Elem())
		p.Elem().Set(populate(r, t.Elem(), depth-1, pZero/2))
		v.Set(p)
	case reflect.Slice:
		if depth <= 0 {
			return v
		}
		n := r.Intn(3)
		s := reflect.MakeSlice(t, n, n)
		for i := 0; i < n; i++ {
			s.Index(i).Set(populate(r, t.Elem(), depth-1, pZero/2))
		}
		v.Set(s)
	case reflect.Map:
		if depth <= 0 {
			return v
		}
		m := reflect.MakeMap(t)
		ext := t.Elem().Kind() == reflect.Interface
		for i, n := 0, r.Intn(3); i < n; i++ {
			k := c09Words[1+r.Intn(len(c09Words)-1)]
			if ext {
				k = "x-" + []string{"a", "b", "c"}[r.Intn(3)]
			}
			m.SetMapIndex(reflect.ValueOf(k).Convert(t.Key()), populate(r, t.Elem(), depth-1, pZero/2))
		}
		v.Set(m)
	case reflect.Interface:
		var x any
		switch r.Intn(6) {
		case 0:
			x = r.Intn(100)
		case 1:
			x = r.Intn(2) == 0
		case 2:
			x = []any{"a", 1}
		case 3:
			x = map[string]any{"k": "v", "n": 2}
		case 4:
			x = 1.5
		default:
			x = c09Words[r.Intn(len(c09Words))]
		}
		v.Set(reflect.ValueOf(x))
	case reflect.Struct:
		for i := 0; i < t.NumField(); i++ {
			if rendered(t.Field(i)) {
				v.Field(i).Set(populate(r, t.Field(i).Type, depth-1, pZero))
			}
		}
	}
	return v
}

func floatVal(f float64, bits int) any {
	s := strconv.FormatFloat(f, 'g', -1, bits)
	g, _ := strconv.ParseFloat(s, 64)
	if g == float64(int64(g)) && g < 1e15 && g > -1e15 {
		return int(g) // the YAML reader resolves "2" to an integer
	}
	return g
}

// typedVal: Go value → generic tree (struct = map keyed by Go field names; nil pointer/slice/map = nil).
func typedVal(v reflect.Value) any {
	switch v.Kind() {
	case reflect.String:
		return v.String()
	case reflect.Bool:
		return v.Bool()
	case reflect.Int, reflect.Int8, reflect.Int16, reflect.Int32, reflect.Int64:
		return int(v.Int())
	case reflect.Uint, reflect.Uint8, reflect.Uint16, reflect.Uint32, reflect.Uint64:
		return int(v.Uint())
	case reflect.Float32:
		return floatVal(v.Float(), 32)
	case reflect.Float64:
		return floatVal(v.Float(), 64)
	case reflect.Ptr:
		if v.IsNil() {
			return nil
		}
		return typedVal(v.Elem())
	case reflect.Interface:
		if v.IsNil() {
			return nil
		}
		return normAny(v.Interface())
	case reflect.Slice:
		if v.IsNil() {
			return nil
		}
		l := make([]any, v.Len())
		for i := range l {
			l[i] = typedVal(v.Index(i))
		}
		return l
	case reflect.Map:
		if v.IsNil() {
			return nil
		}
		m := map[string]any{}
		it := v.MapRange()
		for it.Next() {
			m[it.Key().String()] = typedVal(it.Value())
		}
		return m
	case reflect.Struct:
		m := map[string]any{}
		t := v.Type()
		for i := 0; i < t.NumField(); i++ {
			if rendered(t.Field(i)) {
				m[t.Field(i).Name] = typedVal(v.Field(i))
			}
		}
		return m
	}
	panic("typedVal: " + v.Kind().String())
}

// fillVal: inverse of typedVal.
func fillVal(t reflect.Type, x any) (reflect.Value, error) {
	v := reflect.New(t).Elem()
	bad := func() (reflect.Value, error) { return v, fmt.Errorf("fillVal: %T into %s", x, t) }
	switch t.Kind() {
	case reflect.String:
		s, ok := x.(string)
		if !ok {
			return bad()
		}
		v.SetString(s)
	case reflect.Bool:
		b, ok := x.(bool)
		if !ok {
			return bad()
		}
		v.SetBool(b)
	case reflect.Int, reflect.Int8, reflect.Int16, reflect.Int32, reflect.Int64:
		i, ok := x.(int)
		if !ok {
			return bad()
		}
		v.SetInt(int64(i))
	case reflect.Uint, reflect.Uint8, reflect.Uint16, reflect.Uint32, reflect.Uint64:
		i, ok := x.(int)
		if !ok || i < 0 {
			return bad()
		}
		v.SetUint(uint64(i))
	case reflect.Float32, reflect.Float64:
		switch f := x.(type) {
		case int:
			v.SetFloat(float64(f))
		case float64:
			v.SetFloat(f)
		default:
			return bad()
		}
	case reflect.Ptr:
		if x == nil {
			return v, nil
		}
		e, err := fillVal(t.Elem(), x)
		if err != nil {
			return v, err
		}
		p := reflect.New(t.Elem())
		p.Elem().Set(e)
		v.Set(p)
	case reflect.Interface:
		if x != nil {
			v.Set(reflect.ValueOf(x))
		}
	case reflect.Slice:
		if x == nil {
			return v, nil
		}
		l, ok := x.([]any)
		if !ok {
			return bad()
		}
		s := reflect.MakeSlice(t, len(l), len(l))
		for i, e := range l {
			ev, err := fillVal(t.Elem(), e)
			if err != nil {
				return v, err
			}
			s.Index(i).Set(ev)
		}
		v.Set(s)
	case reflect.Map:
		if x == nil {
			return v, nil
		}
		m, ok := x.(map[string]any)
		if !ok {
			return bad()
		}
		mv := reflect.MakeMap(t)
		for k, e := range m {
			ev, err := fillVal(t.Elem(), e)
			if err != nil {
				return v, err
			}
			mv.SetMapIndex(reflect.ValueOf(k).Convert(t.Key()), ev)
		}
		v.Set(mv)
	case reflect.Struct:
		m, ok := x.(map[string]any)
		if !ok {
			return bad()
		}
		for i := 0; i < t.NumField(); i++ {
			f := t.Field(i)
			if !rendered(f) {
				continue
			}
			e, present := m[f.Name]
			if !present {
				continue
			}
			ev, err := fillVal(f.Type, e)
			if err != nil {
				return v, err
			}
			v.Field(i).Set(ev)
		}
	default:
		return bad()
	}
	return v, nil
}

func realStruct(raw json.RawMessage) any {
	var a corrArgs
	if err := json.Unmarshal(raw, &a); err != nil {
		return map[string]any{"bad": "args"}
	}
	t := modelStructs()[a.Type]
	if t == nil {
		return map[string]any{"bad": "unknown type " + a.Type}
	}
	v, err := fillVal(t, core.DecodeVal(a.V))
	if err != nil {
		return map[string]any{"bad": err.Error()}
	}
	p := reflect.New(t)
	p.Elem().Set(v)
	var b []byte
	switch {
	case a.Type == "Project" && a.Fmt == "json":
		b, err = p.Interface().(*types.Project).MarshalJSON()
	case a.Type == "Project":
		b, err = p.Interface().(*types.Project).MarshalYAML()
	case a.Fmt == "json":
		b, err = json.Marshal(p.Interface())
	default:
		b, err = yaml.Marshal(p.Interface())
	}
	if err != nil {
		if a.Fmt == "json" {
			return map[string]any{"err": "invalid-json", "text": err.Error()}
		}
		return map[string]any{"err": "yaml", "text": err.Error()}
	}
	var tree any
	if err := yaml.Unmarshal(b, &tree); err != nil {
		return map[string]any{"err": "unreadable", "text": err.Error()}
	}
	return map[string]any{"ok": core.EncodeVal(normAny(tree))}
}

func init() {
	core.Register("c09.struct", &core.CheckDef{Real: realStruct, DriverOp: "c09.struct", Judge: judgeCorr("struct encoding")})
}

func runC09Struct(ctx *core.Ctx) {
	ms := modelStructs()
	var names []string
	for n := range ms {
		names = append(names, n)
	}
	sort.Strings(names)
	// exhaustive part: the zero value and a fully populated value of every model type, both formats
	for _, n := range names {
		for _, f := range []string{"yaml", "json"} {
			ctx.Count("struct:zero")
			ctx.Add("c09.struct", corrArgs{Type: n, Fmt: f, V: core.EncodeVal(typedVal(reflect.New(ms[n]).Elem()))})
			ctx.Count("struct:full")
			ctx.Add("c09.struct", corrArgs{Type: n, Fmt: f, V: core.EncodeVal(typedVal(populate(ctx.Rng, ms[n], 4, 0)))})
		}
	}
	// one field at a time: everything zero except one field
	for _, n := range names {
		t := ms[n]
		for i := 0; i < t.NumField(); i++ {
			if !rendered(t.Field(i)) {
				continue
			}
			v := reflect.New(t).Elem()
			v.Field(i).Set(populate(ctx.Rng, t.Field(i).Type, 3, 0))
			for _, f := range []string{"yaml", "json"} {
				ctx.Count("struct:one-field")
				ctx.Add("c09.struct", corrArgs{Type: n, Fmt: f, V: core.EncodeVal(typedVal(v))})
			}
		}
	}
	// seeded random
	for i, k := 0, ctx.Pick(1000, 80000); i < k; i++ {
		n := names[ctx.Rng.Intn(len(names))]
		if ctx.Rng.Intn(4) == 0 {
			n = []string{"ServiceConfig", "Project", "BuildConfig", "DeployConfig"}[ctx.Rng.Intn(4)]
		}
		pz := []float64{0.2, 0.5, 0.8}[ctx.Rng.Intn(3)]
		depth := 2 + ctx.Rng.Intn(3)
		if n == "Project" {
			depth = 4
			pz = 0.7
		}
		f := []string{"yaml", "json"}[ctx.Rng.Intn(2)]
		ctx.Count("struct:random:" + f)
		ctx.Add("c09.struct", corrArgs{Type: n, Fmt: f, V: core.EncodeVal(typedVal(populate(ctx.Rng, ms[n], depth, pz)))})
	}
}
