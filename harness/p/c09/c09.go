package c09

// C09 — a marshalled project reloads to the same project (YAML and JSON).
//
//	c09_corr.go    correspondence: custom (un)marshallers and struct encoding vs the Lean models
//	c09_struct.go  correspondence: tag-driven encoding of reflection-populated model values vs Encode.render over Gen.Types
//	c09_load.go    correspondence: loader.Transform on real renderings vs Decode.load over Gen.Types
//	c09_rt.go      correspondence + observed theorem: decode(encode v) on the real code vs the model, scope measured
//	c09_oracle.go  direct oracle on the real code (load → render → reload → compare → render again)
//	c09_pool.go    frozen attribute pools the oracle's documents are built from

import "verifharness/core"

func init() { core.RegisterProp("C09", runC09) }

func runC09(ctx *core.Ctx) {
	runC09Corr(ctx)
	ctx.Wait()
	runC09Struct(ctx)
	ctx.Wait()
	runC09Load(ctx)
	ctx.Wait()
	runC09RT(ctx)
	ctx.Wait()
	c09CovMu.Lock()
	ctx.Note("cases outside the scope of the Lean models (skipped, by reason): %v", c09Unmodelled)
	c09CovMu.Unlock()
	runC09Oracle(ctx)
}
