package c09

// C09 — correspondence of the generic decode side: loader.Transform (mapstructure, yaml tags, all decode hooks) applied
// to real YAML renderings of reflection-populated values vs `Decode.load` over the regenerated descriptors
// (Model/Decode.lean).
//
//	c09.load {type, v}   v = the tree read back from the real rendering

import (
	"encoding/json"
	"reflect"
	"sort"

	"github.com/compose-spec/compose-go/v2/loader"
	"gopkg.in/yaml.v3"

	"verifharness/core"
)

// types the generic decode model leaves out: they are decoded after a canonicalisation step of their own
// (c09.decode covers them) or are extension maps (moved under "#extensions" by processExtensions)
// (UlimitsConfig is in scope since round 5: `decodeDM_Ulimits` models its DecodeMapstructure as Transform calls it)
var c09LoadSkip = map[string]bool{"SSHKey": true, "SSHConfig": true, "EnvFile": true, "Extensions": true}

// stripSkipped resets every field whose type is in c09LoadSkip (recursively), so the value is in the model's scope
func stripSkipped(v reflect.Value) { stripSkippedWith(v, c09LoadSkip) }

func stripSkippedWith(v reflect.Value, skip map[string]bool) {
	switch v.Kind() {
	case reflect.Ptr:
		if !v.IsNil() {
			stripSkippedWith(v.Elem(), skip)
		}
	case reflect.Slice:
		for i := 0; i < v.Len(); i++ {
			stripSkippedWith(v.Index(i), skip)
		}
	case reflect.Map:
		if v.Type().Elem().Kind() == reflect.Struct {
			for _, k := range v.MapKeys() {
				e := reflect.New(v.Type().Elem()).Elem()
				e.Set(v.MapIndex(k))
				stripSkippedWith(e, skip)
				v.SetMapIndex(k, e)
			}
		}
	case reflect.Struct:
		t := v.Type()
		for i := 0; i < t.NumField(); i++ {
			f := t.Field(i)
			if !f.IsExported() {
				continue
			}
			ft := f.Type
			for ft.Kind() == reflect.Ptr || ft.Kind() == reflect.Slice || (ft.Kind() == reflect.Map && ft.Name() == "") {
				ft = ft.Elem()
			}
			if skip[f.Type.Name()] || skip[ft.Name()] {
				v.Field(i).Set(reflect.Zero(f.Type))
				continue
			}
			stripSkippedWith(v.Field(i), skip)
		}
	}
}

// c09Absent marks "key not present" in the small-scope enumeration of ulimit mappings
type c09Absent struct{}

func realLoad(raw json.RawMessage) any {
	var a corrArgs
	if err := json.Unmarshal(raw, &a); err != nil {
		return map[string]any{"bad": "args"}
	}
	t := modelStructs()[a.Type]
	if t == nil {
		return map[string]any{"bad": "unknown type " + a.Type}
	}
	p := reflect.New(t)
	if err := loader.Transform(core.DecodeVal(a.V), p.Interface()); err != nil {
		return map[string]any{"err": decodeErrClass(a.Type, err)}
	}
	return map[string]any{"ok": core.EncodeVal(typedVal(p.Elem()))}
}

// realLoadExt: processExtensions (gathers the x- attributes of every mapping under "#extensions") then Transform.
func realLoadExt(raw json.RawMessage) any {
	var a corrArgs
	if err := json.Unmarshal(raw, &a); err != nil {
		return map[string]any{"bad": "args"}
	}
	t := modelStructs()[a.Type]
	if t == nil {
		return map[string]any{"bad": "unknown type " + a.Type}
	}
	tree, ok := core.DecodeVal(a.V).(map[string]any)
	if !ok {
		return map[string]any{"bad": "not a mapping"}
	}
	tree, err := loader.VerifProcessExtensions(tree, nil)
	if err != nil {
		return map[string]any{"err": decodeErrClass(a.Type, err)}
	}
	p := reflect.New(t)
	if err := loader.Transform(tree, p.Interface()); err != nil {
		return map[string]any{"err": decodeErrClass(a.Type, err)}
	}
	return map[string]any{"ok": core.EncodeVal(typedVal(p.Elem()))}
}

// the decode scope with extension maps kept
var c09LoadSkipKeepExt = map[string]bool{"SSHKey": true, "SSHConfig": true, "EnvFile": true}

func init() {
	core.Register("c09.loadext", &core.CheckDef{Real: realLoadExt, DriverOp: "c09.loadext", Judge: judgeCorr("extensions + generic decode")})
	core.Register("c09.load", &core.CheckDef{Real: realLoad, DriverOp: "c09.load", Judge: judgeCorr("generic decode")})
}

func runC09Load(ctx *core.Ctx) {
	ms := modelStructs()
	var names []string
	for n := range ms {
		if !c09LoadSkip[n] && n != "Project" {
			names = append(names, n)
		}
	}
	sort.Strings(names)
	add := func(n string, v reflect.Value, kind string) {
		stripSkipped(v)
		p := reflect.New(v.Type())
		p.Elem().Set(v)
		b, err := yaml.Marshal(p.Interface())
		if err != nil {
			return
		}
		var tree any
		if yaml.Unmarshal(b, &tree) != nil {
			return
		}
		if _, ok := tree.(map[string]any); !ok {
			return // a custom marshaller rendered the struct as a scalar
		}
		ctx.Count("load:" + kind)
		ctx.Add("c09.load", corrArgs{Type: n, V: core.EncodeVal(normAny(tree))})
	}
	for _, n := range names {
		add(n, reflect.New(ms[n]).Elem(), "zero")
		add(n, populate(ctx.Rng, ms[n], 4, 0), "full")
		t := ms[n]
		for i := 0; i < t.NumField(); i++ {
			if rendered(t.Field(i)) {
				v := reflect.New(t).Elem()
				v.Field(i).Set(populate(ctx.Rng, t.Field(i).Type, 3, 0))
				add(n, v, "one-field")
			}
		}
	}
	for i, k := 0, ctx.Pick(800, 30000); i < k; i++ {
		n := names[ctx.Rng.Intn(len(names))]
		if ctx.Rng.Intn(4) == 0 {
			n = []string{"ServiceConfig", "BuildConfig", "DeployConfig", "NetworkConfig"}[ctx.Rng.Intn(4)]
		}
		add(n, populate(ctx.Rng, ms[n], 2+ctx.Rng.Intn(3), []float64{0.2, 0.5, 0.8}[ctx.Rng.Intn(3)]), "random")
	}
	// UlimitsConfig.DecodeMapstructure alone (no schema, no transformUlimits): every node kind as the value itself, as
	// `soft` and as `hard` (each also absent), alone and inside the map[string]*UlimitsConfig of a service — every branch of
	// `decodeDM_Ulimits` / `ulimitKey`
	{
		opts := []any{c09Absent{}}
		for _, k := range core.Kinds {
			opts = append(opts, core.KindValue(k, ctx.Rng))
		}
		opts = append(opts, 0, -1, 65535)
		for _, v := range opts[1:] {
			ctx.Count("load:ulimits-dm:top")
			ctx.Add("c09.load", corrArgs{Type: "UlimitsConfig", V: core.EncodeVal(normAny(v))})
			ctx.Count("load:ulimits-dm:in-service")
			ctx.Add("c09.load", corrArgs{Type: "ServiceConfig", V: core.EncodeVal(normAny(map[string]any{"ulimits": map[string]any{"nofile": v}}))})
		}
		for _, so := range opts {
			for _, ha := range opts {
				m := map[string]any{}
				if _, absent := so.(c09Absent); !absent {
					m["soft"] = so
				}
				if _, absent := ha.(c09Absent); !absent {
					m["hard"] = ha
				}
				if ctx.Rng.Intn(4) == 0 {
					m["single"] = 7 // ignored by the mapping form
				}
				ctx.Count("load:ulimits-dm:pair")
				ctx.Add("c09.load", corrArgs{Type: "UlimitsConfig", V: core.EncodeVal(normAny(m))})
			}
		}
	}
	// the same with extension attributes kept: real renderings carrying x- keys → processExtensions → Transform
	addExt := func(n string, v reflect.Value) {
		stripSkippedWith(v, c09LoadSkipKeepExt)
		p := reflect.New(v.Type())
		p.Elem().Set(v)
		b, err := yaml.Marshal(p.Interface())
		if err != nil {
			return
		}
		var tree any
		if yaml.Unmarshal(b, &tree) != nil {
			return
		}
		if _, ok := tree.(map[string]any); !ok {
			return
		}
		ctx.Count("loadext")
		ctx.Add("c09.loadext", corrArgs{Type: n, V: core.EncodeVal(normAny(tree))})
	}
	for _, n := range names {
		addExt(n, populate(ctx.Rng, ms[n], 4, 0))
	}
	for i, k := 0, ctx.Pick(500, 20000); i < k; i++ {
		n := names[ctx.Rng.Intn(len(names))]
		addExt(n, populate(ctx.Rng, ms[n], 2+ctx.Rng.Intn(3), []float64{0.2, 0.5}[ctx.Rng.Intn(2)]))
	}
}
