package c09

// C09 — correspondence: the custom marshallers / decoders of package types vs Model/Marshal.lean.
//
//	c09.marshal  {type, fmt, v}  real: build the typed value, yaml.Marshal / json.Marshal, read the bytes back with the
//	                             YAML parser (as the loader does)            model: marshalY/J <type>
//	c09.decode   {type, v}       real: loader.Transform (all decode hooks) into the type — for UlimitsConfig, EnvFile and
//	                             SSHConfig through schema + transform.Canonical of a one-service document
//	                                                                          model: decode <type>

import (
	"encoding/json"
	"fmt"
	"regexp"
	"sort"
	"strings"

	"github.com/compose-spec/compose-go/v2/loader"
	"github.com/compose-spec/compose-go/v2/schema"
	"github.com/compose-spec/compose-go/v2/transform"
	"github.com/compose-spec/compose-go/v2/types"
	"gopkg.in/yaml.v3"

	"verifharness/core"
)

type corrArgs struct {
	Type string `json:"type"`
	Fmt  string `json:"fmt,omitempty"`
	V    any    `json:"v"`
}

func strSlice(v any) ([]string, bool) {
	if v == nil {
		return nil, true
	}
	l, ok := v.([]any)
	if !ok {
		return nil, false
	}
	out := make([]string, len(l))
	for i, e := range l {
		s, ok := e.(string)
		if !ok {
			return nil, false
		}
		out[i] = s
	}
	return out, true
}

func strMap(v any) (map[string]string, bool) {
	if v == nil {
		return nil, true
	}
	m, ok := v.(map[string]any)
	if !ok {
		return nil, false
	}
	out := map[string]string{}
	for k, e := range m {
		s, ok := e.(string)
		if !ok {
			return nil, false
		}
		out[k] = s
	}
	return out, true
}

func fieldInt(m map[string]any, k string) int {
	i, _ := m[k].(int)
	return i
}
func fieldStr(m map[string]any, k string) string {
	s, _ := m[k].(string)
	return s
}
func fieldBool(m map[string]any, k string) bool {
	b, _ := m[k].(bool)
	return b
}

// buildTyped turns the wire form of a typed value into the real Go value handed to the encoder.
func buildTyped(typ, fmtName string, v any) (any, bool) {
	switch typ {
	case "UnitBytes":
		i, ok := v.(int)
		return types.UnitBytes(i), ok
	case "Duration":
		i, ok := v.(int)
		return types.Duration(i), ok
	case "DeviceCount":
		i, ok := v.(int)
		return types.DeviceCount(i), ok
	case "ShellCommand":
		l, ok := strSlice(v)
		return types.ShellCommand(l), ok
	case "HealthCheckTest":
		l, ok := strSlice(v)
		return types.HealthCheckTest(l), ok
	case "StringList":
		l, ok := strSlice(v)
		return types.StringList(l), ok
	case "StringOrNumberList":
		l, ok := strSlice(v)
		return types.StringOrNumberList(l), ok
	case "Mapping":
		m, ok := strMap(v)
		return types.Mapping(m), ok
	case "Labels":
		m, ok := strMap(v)
		return types.Labels(m), ok
	case "Options":
		m, ok := strMap(v)
		return types.Options(m), ok
	case "MappingWithEquals":
		if v == nil {
			return types.MappingWithEquals(nil), true
		}
		m, ok := v.(map[string]any)
		if !ok {
			return nil, false
		}
		out := types.MappingWithEquals{}
		for k, e := range m {
			switch x := e.(type) {
			case nil:
				out[k] = nil
			case string:
				out[k] = &x
			default:
				return nil, false
			}
		}
		return out, true
	case "UlimitsConfig":
		m, ok := v.(map[string]any)
		if !ok {
			return nil, false
		}
		return &types.UlimitsConfig{Single: fieldInt(m, "Single"), Soft: fieldInt(m, "Soft"), Hard: fieldInt(m, "Hard")}, true
	case "EnvFile":
		m, ok := v.(map[string]any)
		if !ok {
			return nil, false
		}
		e := types.EnvFile{Path: fieldStr(m, "Path"), Required: fieldBool(m, "Required"), Format: fieldStr(m, "Format")}
		if fmtName == "json" {
			return &e, true // elements of []EnvFile are addressable: encoding/json calls the pointer-receiver MarshalJSON
		}
		return e, true
	case "SSHConfig":
		if v == nil {
			return types.SSHConfig(nil), true
		}
		l, ok := v.([]any)
		if !ok {
			return nil, false
		}
		out := types.SSHConfig{}
		for _, e := range l {
			m, ok := e.(map[string]any)
			if !ok {
				return nil, false
			}
			out = append(out, types.SSHKey{ID: fieldStr(m, "ID"), Path: fieldStr(m, "Path")})
		}
		return out, true
	case "HostsList":
		if v == nil {
			return types.HostsList(nil), true
		}
		m, ok := v.(map[string]any)
		if !ok {
			return nil, false
		}
		out := types.HostsList{}
		for k, e := range m {
			l, ok := strSlice(e)
			if !ok {
				return nil, false
			}
			out[k] = l
		}
		return out, true
	}
	return nil, false
}

func realMarshal(raw json.RawMessage) any {
	var a corrArgs
	if err := json.Unmarshal(raw, &a); err != nil {
		return map[string]any{"bad": "args"}
	}
	x, ok := buildTyped(a.Type, a.Fmt, core.DecodeVal(a.V))
	if !ok {
		return map[string]any{"bad": "typed value"}
	}
	var b []byte
	var err error
	if a.Fmt == "json" {
		b, err = json.Marshal(x)
		if err != nil {
			return map[string]any{"err": "invalid-json", "text": err.Error()}
		}
	} else {
		b, err = yaml.Marshal(x)
		if err != nil {
			return map[string]any{"err": "yaml", "text": err.Error()}
		}
	}
	var tree any
	if err := yaml.Unmarshal(b, &tree); err != nil {
		return map[string]any{"err": "unreadable", "text": err.Error()}
	}
	return map[string]any{"ok": core.EncodeVal(normAny(tree))}
}

func ptrStrMap(m types.MappingWithEquals) any {
	if m == nil {
		return nil
	}
	out := map[string]any{}
	for k, v := range m {
		if v == nil {
			out[k] = nil
		} else {
			out[k] = *v
		}
	}
	return out
}

func strSliceVal(l []string) any {
	if l == nil {
		return nil
	}
	out := make([]any, len(l))
	for i, s := range l {
		out[i] = s
	}
	return out
}

func strMapVal(m map[string]string) any {
	if m == nil {
		return nil
	}
	out := map[string]any{}
	for k, v := range m {
		out[k] = v
	}
	return out
}

var (
	reInvalidSize   = regexp.MustCompile(`invalid size`)
	reInvalidSuffix = regexp.MustCompile(`invalid suffix`)
)

func decodeErrClass(typ string, err error) string {
	s := err.Error()
	switch {
	case reInvalidSize.MatchString(s):
		return "invalid-size"
	case reInvalidSuffix.MatchString(s):
		return "invalid-suffix"
	case strings.Contains(s, "the only value allowed is 'all' or a number"):
		return "invalid-count"
	case strings.Contains(s, "time: "):
		return "invalid-duration"
	case strings.Contains(s, "invalid ssh key"):
		return "invalid-ssh-key"
	case strings.Contains(s, "missing IP"):
		return "missing-ip"
	case strings.Contains(s, "bad host name"):
		return "bad-host"
	case strings.Contains(s, "invalid type"), strings.Contains(s, "unexpected value type"), strings.Contains(s, "invalid ssh config type"):
		return "invalid-type"
	case strings.Contains(s, "expected a map, got"):
		return "not-a-mapping" // mapstructure: a struct / map target fed a scalar or a list (Decode.decode's class)
	}
	return "other: " + s
}

// decodeVia loads a one-service document through schema (optional) + transform.Canonical + loader.Transform.
func decodeVia(attrPath []string, v any, withSchema bool) (*types.ServiceConfig, string, error) {
	svc := map[string]any{"image": "x"}
	cur := svc
	for i, k := range attrPath {
		if i == len(attrPath)-1 {
			cur[k] = v
		} else {
			n := map[string]any{}
			cur[k] = n
			cur = n
		}
	}
	doc := map[string]any{"services": map[string]any{"s": svc}}
	if withSchema {
		if err := schema.Validate(doc); err != nil {
			return nil, "schema", err
		}
	}
	doc, err := transform.Canonical(doc, false)
	if err != nil {
		return nil, "", err
	}
	var sc types.ServiceConfig
	if err := loader.Transform(doc["services"].(map[string]any)["s"], &sc); err != nil {
		return nil, "", err
	}
	return &sc, "", nil
}

func realDecode(raw json.RawMessage) any {
	var a corrArgs
	if err := json.Unmarshal(raw, &a); err != nil {
		return map[string]any{"bad": "args"}
	}
	v := core.DecodeVal(a.V)
	ok := func(x any) any { return map[string]any{"ok": core.EncodeVal(x)} }
	fail := func(err error) any { return map[string]any{"err": decodeErrClass(a.Type, err)} }
	switch a.Type {
	case "UnitBytes":
		var t types.UnitBytes
		if err := loader.Transform(v, &t); err != nil {
			return fail(err)
		}
		return ok(int64(t))
	case "Duration":
		var t types.Duration
		if err := loader.Transform(v, &t); err != nil {
			return fail(err)
		}
		return ok(int64(t))
	case "DeviceCount":
		var t types.DeviceCount
		if err := loader.Transform(v, &t); err != nil {
			return fail(err)
		}
		return ok(int64(t))
	case "ShellCommand":
		var t types.ShellCommand
		if err := loader.Transform(v, &t); err != nil {
			return fail(err)
		}
		return ok(strSliceVal(t))
	case "HealthCheckTest":
		var t types.HealthCheckTest
		if err := loader.Transform(v, &t); err != nil {
			return fail(err)
		}
		return ok(strSliceVal(t))
	case "StringList":
		var t types.StringList
		if err := loader.Transform(v, &t); err != nil {
			return fail(err)
		}
		return ok(strSliceVal(t))
	case "StringOrNumberList":
		var t types.StringOrNumberList
		if err := loader.Transform(v, &t); err != nil {
			return fail(err)
		}
		return ok(strSliceVal(t))
	case "Mapping":
		var t types.Mapping
		if err := loader.Transform(v, &t); err != nil {
			return fail(err)
		}
		return ok(strMapVal(t))
	case "Labels":
		var t types.Labels
		if err := loader.Transform(v, &t); err != nil {
			return fail(err)
		}
		return ok(strMapVal(t))
	case "Options":
		var t types.Options
		if err := loader.Transform(v, &t); err != nil {
			return fail(err)
		}
		return ok(strMapVal(t))
	case "MappingWithEquals":
		var t types.MappingWithEquals
		if err := loader.Transform(v, &t); err != nil {
			return fail(err)
		}
		return ok(ptrStrMap(t))
	case "HostsList":
		var t types.HostsList
		if err := loader.Transform(v, &t); err != nil {
			return fail(err)
		}
		if t == nil {
			return ok(nil)
		}
		out := map[string]any{}
		for k, l := range t {
			out[k] = strSliceVal(l)
			if l == nil {
				out[k] = []any{}
			}
		}
		return ok(out)
	case "UlimitsConfig":
		sc, cls, err := decodeVia([]string{"ulimits"}, map[string]any{"u": v}, true)
		if err != nil {
			if cls != "" {
				return map[string]any{"err": cls}
			}
			return fail(err)
		}
		u := sc.Ulimits["u"]
		if u == nil {
			return map[string]any{"bad": "nil ulimit"}
		}
		return ok(map[string]any{"Single": u.Single, "Soft": u.Soft, "Hard": u.Hard})
	case "EnvFile":
		sc, _, err := decodeVia([]string{"env_file"}, []any{v}, false)
		if err != nil {
			return fail(err)
		}
		if len(sc.EnvFiles) != 1 {
			return map[string]any{"bad": fmt.Sprintf("%d env files", len(sc.EnvFiles))}
		}
		e := sc.EnvFiles[0]
		return ok(map[string]any{"Path": e.Path, "Required": e.Required, "Format": e.Format})
	case "SSHConfig":
		if v == nil {
			return ok(nil)
		}
		sc, _, err := decodeVia([]string{"build", "ssh"}, v, false)
		if err != nil {
			return fail(err)
		}
		keys := sc.Build.SSH
		sort.Slice(keys, func(i, j int) bool { return keys[i].ID < keys[j].ID })
		out := make([]any, len(keys))
		for i, k := range keys {
			out[i] = map[string]any{"ID": k.ID, "Path": k.Path}
		}
		return ok(out)
	}
	return map[string]any{"bad": "type"}
}

func judgeCorr(what string) func(args, real, drv json.RawMessage) *core.Verdict {
	return func(args, real, drv json.RawMessage) *core.Verdict {
		var d, r map[string]json.RawMessage
		if json.Unmarshal(drv, &d) != nil || json.Unmarshal(real, &r) != nil {
			return core.Disagree(what + ": malformed exchange")
		}
		if _, ok := d["unmodelled"]; ok {
			c09CovMu.Lock()
			c09Unmodelled[what+": "+string(d["unmodelled"])]++
			c09CovMu.Unlock()
			return core.Skip("outside the model: " + string(d["unmodelled"]))
		}
		if _, ok := d["bad"]; ok {
			return core.Disagree(what + ": driver rejects the case")
		}
		if _, ok := r["bad"]; ok {
			return core.Disagree(what + ": real runner rejects the case")
		}
		if _, isPanic := r["panic"]; isPanic {
			// a panicking decoder is C01's business; here the model must predict it
			var e string
			json.Unmarshal(d["err"], &e)
			if strings.HasPrefix(e, "panic:") {
				return nil
			}
			return core.Disagree(what + ": real code panics, model does not say so")
		}
		if v := core.CrashVerdict(real); v != nil {
			return v
		}
		if e, ok := r["err"]; ok {
			if !core.CanonEqual(e, d["err"]) {
				return core.Disagree(what + ": error class differs")
			}
			return nil
		}
		dok, has := d["ok"]
		if !has {
			return core.Disagree(what + ": real succeeds, model fails")
		}
		if !core.CanonEqual(r["ok"], dok) {
			return core.Disagree(what + ": values differ")
		}
		return nil
	}
}

// c09Unmodelled counts the cases the Lean model declares outside its scope, by reason (reported as a note).
var c09Unmodelled = map[string]int{}

func init() {
	core.Register("c09.marshal", &core.CheckDef{Real: realMarshal, DriverOp: "c09.marshal", Judge: judgeCorr("marshal")})
	core.Register("c09.decode", &core.CheckDef{Real: realDecode, DriverOp: "c09.decode", Judge: judgeCorr("decode")})
}

// ---------------------------------------------------------------- generators

var c09Words = []string{"", "a", "b", "x y", "A=b", "k=v=w", "1", "0", "-1", "true", "null", "~", "1.5", "1e3", "0x10", "default", "a:b", "[::1]", "::1", "1.2.3.4", "a,b", "é", "$X", "#c", "- d", "k: v", "'q'", "\"dq\"", " lead", "trail ", "yes", "on", "2024-01-01", "9007199254740993", "CMD", "NONE"}

func (g *c09Gen) word() string { return c09Words[g.ctx.Rng.Intn(len(c09Words))] }

type c09Gen struct{ ctx *core.Ctx }

func (g *c09Gen) strList(max int) any {
	if g.ctx.Rng.Intn(8) == 0 {
		return nil
	}
	n := g.ctx.Rng.Intn(max + 1)
	l := make([]any, n)
	for i := range l {
		l[i] = g.word()
	}
	return l
}

func (g *c09Gen) strMap(max int, withNil bool) any {
	if g.ctx.Rng.Intn(8) == 0 {
		return nil
	}
	n := g.ctx.Rng.Intn(max + 1)
	m := map[string]any{}
	for i := 0; i < n; i++ {
		if withNil && g.ctx.Rng.Intn(4) == 0 {
			m[g.word()] = nil
		} else {
			m[g.word()] = g.word()
		}
	}
	return m
}

var c09Ints = []int{0, 1, -1, 2, 7, 10, 59, 60, 61, 999, 1000, 1001, 1023, 1024, 65535, 999999, 1000000, 1000001, 1500000, 999999999, 1000000000, 1000000001,
	1500000000, 59999999999, 60000000000, 90500000000, 3599999999999, 3600000000000, 3600000000001, 86400000000000, 9007199254740991, 9007199254740992, 9007199254740993,
	9223372036854775807, -9223372036854775807, -1000, -1500000000, 123456789, 100000000, 1048576, 1073741824}

func (g *c09Gen) intVal() int {
	r := g.ctx.Rng
	switch r.Intn(4) {
	case 0:
		return c09Ints[r.Intn(len(c09Ints))]
	case 1:
		return r.Intn(4000) - 100
	case 2:
		// a "round" duration / size: few significant digits
		m := []int{1, 10, 1000, 1000000, 1000000000, 60000000000, 3600000000000, 1024, 1048576}[r.Intn(9)]
		return (r.Intn(500) - 20) * m
	}
	return int(r.Int63n(1<<62)) >> uint(r.Intn(62))
}

func (g *c09Gen) typed(typ string) any {
	r := g.ctx.Rng
	switch typ {
	case "UnitBytes", "Duration", "DeviceCount":
		return g.intVal()
	case "ShellCommand", "HealthCheckTest", "StringList", "StringOrNumberList":
		return g.strList(4)
	case "Mapping", "Labels", "Options":
		return g.strMap(4, false)
	case "MappingWithEquals":
		return g.strMap(4, true)
	case "UlimitsConfig":
		pick := func() int { return []int{0, 0, 1, -1, 1024, 65535}[r.Intn(6)] }
		return map[string]any{"Single": pick(), "Soft": pick(), "Hard": pick()}
	case "EnvFile":
		return map[string]any{"Path": []string{"", "./a.env", "b", "/abs/x.env"}[r.Intn(4)], "Required": r.Intn(2) == 0, "Format": []string{"", "", "c09raw"}[r.Intn(3)]}
	case "SSHConfig":
		if r.Intn(8) == 0 {
			return nil
		}
		n := r.Intn(3)
		ids := []string{"default", "k1", "k2", "a=b", ""}
		r.Shuffle(len(ids), func(i, j int) { ids[i], ids[j] = ids[j], ids[i] })
		l := make([]any, n)
		for i := range l {
			l[i] = map[string]any{"ID": ids[i], "Path": []string{"", "", "./key", "/abs/k", "a=b"}[r.Intn(5)]}
		}
		return l
	case "HostsList":
		if r.Intn(8) == 0 {
			return nil
		}
		m := map[string]any{}
		hosts := []string{"a", "b", "host.example", "a-b", "h1"}
		for i, n := 0, r.Intn(4); i < n; i++ {
			ips := make([]any, r.Intn(3))
			for j := range ips {
				ips[j] = []string{"1.1.1.1", "2.2.2.2", "::1", "10.0.0.1", "fe80::1", "", "a=b", "x,y", "[::2]"}[r.Intn(9)]
			}
			m[hosts[r.Intn(len(hosts))]] = ips
		}
		return m
	}
	panic("c09: unknown type " + typ)
}

// tree produces an input for a decoder: mostly the shapes the type accepts, sometimes any node kind.
func (g *c09Gen) tree(typ string) any {
	r := g.ctx.Rng
	if r.Intn(6) == 0 {
		return core.KindValue(core.Kinds[r.Intn(len(core.Kinds))], r)
	}
	scalar := func() any {
		switch r.Intn(5) {
		case 0:
			return g.intVal()
		case 1:
			return r.Intn(2) == 0
		case 2:
			return nil
		}
		return g.word()
	}
	switch typ {
	case "UnitBytes":
		if r.Intn(2) == 0 {
			return g.intVal()
		}
		n := fmt.Sprint(r.Intn(3000))
		if r.Intn(6) == 0 {
			n = fmt.Sprint(g.intVal())
		}
		return n + []string{"", "", "b", "k", "K", "m", "M", "g", "G", "t", "p", "kb", "KB", "kib", "KiB", "mb", "gib", " k", " mb", "x", "kk", "ki", "bb", "kibb", ".5m", "."}[r.Intn(26)]
	case "Duration":
		switch r.Intn(4) {
		case 0:
			return g.intVal()
		case 1:
			d := types.Duration(g.intVal())
			return d.String()
		}
		var b strings.Builder
		if r.Intn(6) == 0 {
			b.WriteString([]string{"-", "+"}[r.Intn(2)])
		}
		for i, n := 0, 1+r.Intn(3); i < n; i++ {
			b.WriteString([]string{"1", "0", "15", "90", "1.5", "0.001", ".5", "1.", "100", "2562047", ""}[r.Intn(11)])
			b.WriteString([]string{"ns", "us", "µs", "μs", "ms", "s", "m", "h", "d", "", "S"}[r.Intn(11)])
		}
		return b.String()
	case "DeviceCount":
		return []any{g.intVal(), "all", "ALL", "All", "3", "-1", "x", "", "1.5", nil, true}[r.Intn(11)]
	case "ShellCommand", "HealthCheckTest", "StringList", "StringOrNumberList":
		switch r.Intn(5) {
		case 0:
			return g.word()
		case 1:
			l := make([]any, r.Intn(4))
			for i := range l {
				l[i] = scalar()
			}
			return l
		}
		return g.strList(4)
	case "Mapping", "Labels", "Options", "MappingWithEquals":
		switch r.Intn(3) {
		case 0:
			l := make([]any, r.Intn(4))
			for i := range l {
				l[i] = scalar()
			}
			return l
		case 1:
			m := map[string]any{}
			for i, n := 0, r.Intn(4); i < n; i++ {
				m[g.word()] = scalar()
			}
			return m
		}
		return g.strMap(4, true)
	case "UlimitsConfig":
		pick := func() any { return []any{0, 1, -1, 1024, "5", nil, 1.5}[r.Intn(7)] }
		switch r.Intn(4) {
		case 0:
			return g.intVal()
		case 1:
			return map[string]any{"soft": r.Intn(5), "hard": r.Intn(5)}
		}
		m := map[string]any{}
		for _, k := range []string{"soft", "hard", "single", "x-u"} {
			if r.Intn(3) != 0 {
				m[k] = pick()
			}
		}
		return m
	case "EnvFile":
		if r.Intn(3) == 0 {
			return g.word()
		}
		m := map[string]any{}
		if r.Intn(5) != 0 {
			m["path"] = []any{"./a.env", "b", ""}[r.Intn(3)]
		}
		if r.Intn(2) == 0 {
			m["required"] = r.Intn(2) == 0
		}
		if r.Intn(3) == 0 {
			m["format"] = "c09raw"
		}
		return m
	case "SSHConfig":
		switch r.Intn(3) {
		case 0:
			l := make([]any, r.Intn(4))
			for i := range l {
				l[i] = []any{"default", "k=./p", "k2=/abs", "bare", "k=a=b", "default: x", "id: path", 3}[r.Intn(8)]
			}
			return l
		case 1:
			m := map[string]any{}
			for i, n := 0, r.Intn(3); i < n; i++ {
				m[[]string{"default", "k1", "k2"}[r.Intn(3)]] = []any{nil, "./p", "/abs", 3}[r.Intn(4)]
			}
			return m
		}
		return nil
	case "HostsList":
		switch r.Intn(3) {
		case 0:
			l := make([]any, r.Intn(4))
			for i := range l {
				l[i] = []any{"a=1.1.1.1", "a:2.2.2.2", "b=::1", "b:[::1]", "c=1,2", "nohost", "=x", "a=b=c", "h:[x", 5, "a=[]"}[r.Intn(11)]
			}
			return l
		case 1:
			m := map[string]any{}
			for i, n := 0, r.Intn(3); i < n; i++ {
				m[[]string{"a", "b", "bad:host", ""}[r.Intn(4)]] = []any{nil, "1.1.1.1", []any{"1.1.1.1", "[::1]"}, 3, []any{}, []any{4}}[r.Intn(6)]
			}
			return m
		}
		return nil
	}
	panic("c09: unknown type " + typ)
}

var c09CustomTypes = []string{"UnitBytes", "Duration", "DeviceCount", "ShellCommand", "HealthCheckTest", "StringList", "StringOrNumberList",
	"Mapping", "Labels", "Options", "MappingWithEquals", "UlimitsConfig", "EnvFile", "SSHConfig", "HostsList"}

func runC09Corr(ctx *core.Ctx) {
	g := &c09Gen{ctx}
	// ---- exhaustive small scope: the fixed integer table through every integer-backed type, both formats, and back
	for _, typ := range []string{"UnitBytes", "Duration", "DeviceCount"} {
		for _, i := range c09Ints {
			for _, f := range []string{"yaml", "json"} {
				ctx.Count("exh:marshal:" + typ)
				ctx.Add("c09.marshal", corrArgs{Type: typ, Fmt: f, V: core.EncodeVal(i)})
			}
			ctx.Count("exh:decode:" + typ)
			ctx.Add("c09.decode", corrArgs{Type: typ, V: core.EncodeVal(i)})
			ctx.Add("c09.decode", corrArgs{Type: typ, V: core.EncodeVal(fmt.Sprint(i))})
		}
	}
	for _, i := range c09Ints {
		ctx.Add("c09.decode", corrArgs{Type: "Duration", V: core.EncodeVal(types.Duration(i).String())})
	}
	// boundaries of ParseDuration's overflow checks and of UnitBytes' plain-integer reading
	for _, s := range []string{"9223372036854775808ns", "-9223372036854775808ns", "9223372036854775807ns", "9223372036854775809ns",
		"-2562047h47m16.854775808s", "2562047h47m16.854775807s", "2562047h47m16.854775808s", "2562048h", "-2562048h", "0", "-0", "+0", "+1s", "1h1h", "0.5h", ".5s", "1.s"} {
		ctx.Count("exh:decode:Duration")
		ctx.Add("c09.decode", corrArgs{Type: "Duration", V: core.EncodeVal(s)})
	}
	for _, s := range []string{"-1", "+5", "-0", "9223372036854775807", "9223372036854775808", "-9223372036854775808", "-9223372036854775809", "9007199254740993", "1_000", "-1k", "+1k", "- 1"} {
		ctx.Count("exh:decode:UnitBytes")
		ctx.Add("c09.decode", corrArgs{Type: "UnitBytes", V: core.EncodeVal(s)})
	}
	// every ulimit triple over {0, 1, -1, 5}
	for _, a := range []int{0, 1, -1, 5} {
		for _, b := range []int{0, 1, -1, 5} {
			for _, c := range []int{0, 1, -1, 5} {
				for _, f := range []string{"yaml", "json"} {
					ctx.Count("exh:marshal:UlimitsConfig")
					ctx.Add("c09.marshal", corrArgs{Type: "UlimitsConfig", Fmt: f, V: core.EncodeVal(map[string]any{"Single": a, "Soft": b, "Hard": c})})
				}
			}
		}
	}
	// every (path, required, format) and every (id, path) over a small alphabet
	for _, p := range []string{"", "./a.env", "k: v"} {
		for _, req := range []bool{false, true} {
			for _, fm := range []string{"", "c09raw"} {
				for _, f := range []string{"yaml", "json"} {
					ctx.Count("exh:marshal:EnvFile")
					ctx.Add("c09.marshal", corrArgs{Type: "EnvFile", Fmt: f, V: core.EncodeVal(map[string]any{"Path": p, "Required": req, "Format": fm})})
				}
			}
		}
	}
	for _, id := range []string{"default", "k", ""} {
		for _, p := range []string{"", "./key", "a=b", "1"} {
			for _, f := range []string{"yaml", "json"} {
				ctx.Count("exh:marshal:SSHConfig")
				ctx.Add("c09.marshal", corrArgs{Type: "SSHConfig", Fmt: f, V: core.EncodeVal([]any{map[string]any{"ID": id, "Path": p}})})
			}
		}
	}
	// every word as a one-element list / one-entry map through the string containers (YAML quoting of odd scalars)
	for _, w := range c09Words {
		for _, typ := range []string{"ShellCommand", "StringList"} {
			for _, f := range []string{"yaml", "json"} {
				ctx.Count("exh:marshal:" + typ)
				ctx.Add("c09.marshal", corrArgs{Type: typ, Fmt: f, V: core.EncodeVal([]any{w})})
			}
		}
		for _, f := range []string{"yaml", "json"} {
			ctx.Count("exh:marshal:Mapping")
			ctx.Add("c09.marshal", corrArgs{Type: "Mapping", Fmt: f, V: core.EncodeVal(map[string]any{"k": w})})
			ctx.Add("c09.marshal", corrArgs{Type: "Mapping", Fmt: f, V: core.EncodeVal(map[string]any{w: "v"})})
		}
		for _, typ := range []string{"Mapping", "MappingWithEquals", "Labels"} {
			ctx.Count("exh:decode:" + typ)
			ctx.Add("c09.decode", corrArgs{Type: typ, V: core.EncodeVal([]any{w})})
			ctx.Add("c09.decode", corrArgs{Type: typ, V: core.EncodeVal(map[string]any{"k": w})})
		}
		ctx.Add("c09.decode", corrArgs{Type: "HostsList", V: core.EncodeVal([]any{w})})
		ctx.Add("c09.decode", corrArgs{Type: "SSHConfig", V: core.EncodeVal([]any{w})})
		ctx.Add("c09.decode", corrArgs{Type: "UnitBytes", V: core.EncodeVal(w)})
		ctx.Add("c09.decode", corrArgs{Type: "Duration", V: core.EncodeVal(w)})
	}
	// every node kind into every decoder (malformed stream)
	for _, typ := range c09CustomTypes {
		for _, k := range core.Kinds {
			ctx.Count("malformed:decode:" + typ)
			ctx.Add("c09.decode", corrArgs{Type: typ, V: core.EncodeVal(core.KindValue(k, ctx.Rng))})
		}
	}
	// ---- seeded random
	n := ctx.Pick(250, 12000)
	for i := 0; i < n; i++ {
		for _, typ := range c09CustomTypes {
			v := g.typed(typ)
			f := []string{"yaml", "json"}[ctx.Rng.Intn(2)]
			ctx.Count("rnd:marshal:" + typ)
			ctx.Add("c09.marshal", corrArgs{Type: typ, Fmt: f, V: core.EncodeVal(v)})
			ctx.Count("rnd:decode:" + typ)
			ctx.Add("c09.decode", corrArgs{Type: typ, V: core.EncodeVal(g.tree(typ))})
		}
	}
}
