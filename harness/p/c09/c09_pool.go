package c09

// C09 — frozen attribute pools for the round-trip oracle.
//
// The keys below are written from the Compose specification (schema/compose-spec.json), NOT derived
// from the Go struct tags: a tag edited in compose-go therefore cannot silently change the inputs.
// Each attribute maps to a list of alternative values; the generators put one alternative per
// attribute into a document.  `c09Coverage` (c09_oracle.go) checks by reflection that every field of
// every model type is non-zero in at least one loaded project.

const c09PoolYAML = `
service:
  annotations:
    - {com.example.a: "1", b: x}
    - [com.example.foo=bar]
  attach: [false, true]
  build:
    - ./dir
    - {context: ./dir, dockerfile: Dockerfile.alt}
    - {dockerfile_inline: "FROM alpine\nRUN echo hi\n"}
    - {context: ./dir, entitlements: [network.host, security.insecure]}
    - {context: ., args: {foo: bar, EMPTY: "", NUM: 3}}
    - {context: ., args: [A=b, NOVALUE]}
    - {context: ., args: ["EMPTYARG=", "FROM_ENV="]}
    - {context: ., ssh: [default]}
    - {context: ., ssh: ["default", "key1=./keys/id_rsa"]}
    - {context: ., ssh: {default: null}}
    - {context: ., ssh: {mykey: ./keys/id_rsa}}
    - {context: ., ssh: {agentkey: null}}
    - {context: ., ssh: {default: null, k2: /abs/key2, k1: ./keys/id_rsa, agent3: null}}
    - {context: ., labels: {l1: v1, l2: ""}}
    - {context: ., labels: [FOO=BAR]}
    - {context: ., cache_from: [foo, bar], cache_to: ["type=local,dest=./cache"]}
    - {context: ., no_cache: true, pull: true, privileged: true}
    - {context: ., additional_contexts: {foo: ./bar, img: "docker-image://alpine"}}
    - {context: ., additional_contexts: ["foo=./bar"]}
    - {context: ., extra_hosts: ["a=1.2.3.4", "b=::1"]}
    - {context: ., extra_hosts: {h1: 10.0.0.1, h2: ["10.0.0.2", "10.0.0.3"]}}
    - {context: ., isolation: hyperv, network: host, target: prod}
    - {context: ., secrets: [s1, {source: s2, target: my_secret, uid: "103", gid: "103", mode: 288}]}
    - {context: ., shm_size: 128m}
    - {context: ., shm_size: 1048576}
    - {context: ., tags: ["foo:v1", "docker.io/u/foo:t"], platforms: [linux/amd64, linux/arm64]}
    - {context: ., ulimits: {nproc: 65535, nofile: {soft: 20000, hard: 40000}}}
    - {context: ., x-build-ext: {a: 1}}
    - {context: "https://github.com/docker/compose.git"}
  develop:
    - {watch: [{path: ./src, action: sync, target: /app, ignore: [node_modules/, "*.tmp"]}]}
    - {watch: [{path: ./go.mod, action: rebuild}]}
    - {watch: [{path: ./cfg, action: sync+restart, target: /cfg}]}
    - {watch: [{path: ./x, action: sync+exec, target: /x, exec: {command: ["echo", "hi"], user: root, privileged: true, working_dir: /w, environment: {A: b}}}]}
    - {watch: [{path: ./src, action: sync, target: /app, x-trig: 1}], x-dev: yes}
  blkio_config:
    - {weight: 300}
    - {weight_device: [{path: /dev/sda, weight: 400}]}
    - {device_read_bps: [{path: /dev/sdb, rate: 12mb}]}
    - {device_read_iops: [{path: /dev/sdb, rate: 120}]}
    - {device_write_bps: [{path: /dev/sdb, rate: 1024k}]}
    - {device_write_iops: [{path: /dev/sdb, rate: 30}]}
  cap_add: [[ALL], [NET_ADMIN, SYS_ADMIN]]
  cap_drop: [[NET_ADMIN, SYS_ADMIN]]
  cgroup_parent: [m-executor-abcd]
  cgroup: [host, private]
  cpu_count: [2]
  cpu_percent: [50, 12.5]
  cpu_period: [50000]
  cpu_quota: [25000, -1]
  cpu_rt_period: [1400]
  cpu_rt_runtime: [400]
  cpus: [0.5, 2, "1.25"]
  cpuset: ["0,1", "0-3"]
  cpu_shares: [73]
  command:
    - bundle exec thin -p 3000
    - ["bundle", "exec", "thin", "-p", "3000"]
    - []
    - ""
    - ["echo", "a b", "", "it's"]
    - "echo \"hello world\" 'x y'"
    - null
    - ["sh", "-c", "echo $$HOME"]
  configs:
    - [c1]
    - [{source: c2, target: /my_config, uid: "103", gid: "103", mode: 288}]
    - [{source: c1, x-cfg: 1}]
  container_name: [my-web-container]
  credential_spec:
    - {file: my-credential-spec.json}
    - {registry: my-credential-spec}
    - {config: c1}
    - {file: f.json, x-cs: 1}
  depends_on:
    - [db]
    - {db: {condition: service_healthy, restart: true}}
    - {db: {condition: service_started, required: false}}
    - {db: {condition: service_completed_successfully, x-dep: 1}}
  deploy:
    - {mode: replicated, replicas: 6, endpoint_mode: dnsrr}
    - {mode: global, labels: [FOO=BAR]}
    - {labels: {a: b}}
    - {update_config: {parallelism: 3, delay: 10s, failure_action: continue, monitor: 60s, max_failure_ratio: 0.3, order: start-first}}
    - {update_config: {delay: 100us, monitor: 2500us}}
    - {rollback_config: {parallelism: 0, delay: 1m30s, failure_action: pause, monitor: 1500ms, max_failure_ratio: 0.5, order: stop-first}}
    - {resources: {limits: {cpus: "0.001", memory: 50M, pids: 100}}}
    - {resources: {limits: {cpus: 1.5, memory: 1gb}, reservations: {cpus: "0.0001", memory: 20M}}}
    - {resources: {reservations: {generic_resources: [{discrete_resource_spec: {kind: gpu, value: 2}}, {discrete_resource_spec: {kind: ssd, value: 1}}]}}}
    - {resources: {reservations: {generic_resources: [{discrete_resource_spec: {kind: gpu, value: 2, x-drs: 1}, x-gr: 2}]}}}
    - {resources: {reservations: {devices: [{capabilities: [gpu], driver: nvidia, count: 2, options: {a: b}}]}}}
    - {resources: {reservations: {devices: [{capabilities: [gpu, tpu], count: all}]}}}
    - {resources: {reservations: {devices: [{capabilities: [gpu], device_ids: ["0", "3"]}]}}}
    - {restart_policy: {condition: on-failure, delay: 5s, max_attempts: 3, window: 120s}}
    - {placement: {constraints: [node=foo], max_replicas_per_node: 5, preferences: [{spread: node.labels.az}]}}
    - {x-deploy: 1, resources: {x-res: 2, limits: {x-lim: 3, pids: 1}}, placement: {x-pl: 4, preferences: [{spread: a, x-pp: 5}]}, restart_policy: {x-rp: 1, condition: any}, update_config: {x-uc: 1, order: start-first}}
  device_cgroup_rules: [["c 1:3 mr", "a 7:* rmw"]]
  devices:
    - ["/dev/ttyUSB0:/dev/ttyUSB0"]
    - ["/dev/sda:/dev/xvda:rwm"]
    - [{source: /dev/ttyUSB0, target: /dev/ttyUSB1, permissions: rw}]
    - [{source: /dev/a, target: /dev/b, x-dev: 1}]
    - ["vendor.com/class=device"]
  dns: [8.8.8.8, [8.8.8.8, 9.9.9.9]]
  dns_opt: [[use-vc, no-tld-query]]
  dns_search: [example.com, [dc1.example.com, dc2.example.com]]
  domainname: [foo.com]
  entrypoint:
    - /code/entrypoint.sh -p 3000
    - ["/code/entrypoint.sh", "-p", "3000"]
    - []
    - ""
  environment:
    - {BAZ: baz, QUX: null, EMPTY: "", NUM: 42, BOOL: "true"}
    - [A=b, FROM_ENV, EQ=a=b, "SP=a b"]
    - {DOLLAR: "a$$b"}
    - ["EMPTYVAL=", "FROM_ENV=", "PLAIN=x"]
  env_file:
    - ./a.env
    - [./a.env, ./b.env]
    - [{path: ./a.env, required: false}]
    - [{path: ./missing.env, required: false}]
    - [{path: ./a.env, format: c09raw}]
    - [{path: ./b.env, required: false, format: c09raw}]
    - [{path: ./b.env, required: true}]
  expose: [["3000", 8000], ["3000-3005/udp"]]
  external_links: [[redis_1, "project_db_1:mysql"]]
  extra_hosts:
    - ["otherhost:50.31.209.229", "somehost=162.242.195.82"]
    - {somehost: 162.242.195.82, otherhost: 50.31.209.229}
    - ["v6=::1", "v6b:[::2]", "multi=1.1.1.1", "multi=2.2.2.2"]
    - ["multi=2.2.2.2", "multi=1.1.1.1"]
    - {multi: [1.1.1.1, 2.2.2.2]}
  group_add: [[mail, "1001"]]
  gpus:
    - all
    - [{count: all}]
    - [{driver: nvidia, count: 2, capabilities: [utility]}]
    - [{device_ids: ["0"], options: {k: v}}]
  hostname: [foo]
  healthcheck:
    - {test: echo "hello world", interval: 10s, timeout: 1s, retries: 5, start_period: 15s, start_interval: 5s}
    - {test: ["CMD", "curl", "-f", "http://localhost"], interval: 1m30s}
    - {test: ["CMD-SHELL", "exit 0"], timeout: 1.5s, interval: 250ms, start_period: 1h, start_interval: 2h45m}
    - {test: ["NONE"]}
    - {disable: true}
    - {test: ["CMD", "true"], retries: 0, interval: 0s, timeout: 10us, start_period: 5ns}
    - {test: "x", x-hc: 1}
  image: [redis, "busybox:1.36", "docker.io/library/alpine@sha256:c5b1261d6d3e43071626931fc004f70149baeba2c8ec672bd4f27761f8e1ad6b"]
  init: [true, false]
  ipc: [host, "service:db", shareable]
  isolation: [default]
  labels:
    - {com.example.description: "Accounting webapp", com.example.number: 42, com.example.empty-label: null}
    - ["com.example.a=b", "com.example.novalue"]
    - {bool: true, float: 1.5}
  label_file: [./a.label, [./a.label, ./b.label]]
  links: [[db, "db:database"]]
  logging:
    - {driver: syslog, options: {syslog-address: "tcp://192.168.0.42:123"}}
    - {driver: json-file, options: {max-size: 10m, max-file: 3, "null": null}}
    - {driver: none, x-log: 1}
  mem_limit: [1gb, 1048576, "512m", 1.5g]
  mem_reservation: [256m, 4096]
  memswap_limit: [2g, -1, "-1"]
  mem_swappiness: [60, 0]
  mac_address: ["02:42:ac:11:65:43"]
  network_mode: [host, none, bridge, "service:db", "container:abc"]
  networks:
    - [n1]
    - [n1, n2]
    - {n1: null}
    - {n1: {aliases: [alias1, alias3]}, n2: {ipv4_address: 172.16.238.10, ipv6_address: "2001:3984:3989::10", mac_address: "02:42:72:98:65:08"}}
    - {n1: {priority: 100, link_local_ips: [57.123.22.11], driver_opts: {k: v, n: 1}}}
    - {n1: {x-net: 1}}
  oom_kill_disable: [true]
  oom_score_adj: [500, -1000]
  pid: [host, "service:db"]
  pids_limit: [10, -1]
  platform: [linux/amd64]
  ports:
    - [3000]
    - ["3001-3005"]
    - ["8000:8000", "127.0.0.1:8001:8001/udp"]
    - ["9090-9091:8080-8081"]
    - [{target: 80, published: "8080", protocol: tcp, mode: host, host_ip: 127.0.0.1, name: web, app_protocol: http}]
    - [{target: 80, published: 8080}]
    - [{target: 81, published: "8081-8085", x-port: 1}]
    - ["[::1]:6001:6002"]
  post_start:
    - [{command: ["echo", "started"]}]
    - [{command: "echo hi there", user: root, privileged: true, working_dir: /tmp, environment: {A: b, N: null}}]
    - [{command: ["x"], environment: [A=b], x-hook: 1}]
  pre_stop:
    - [{command: ["echo", "stopping"], user: u}]
  privileged: [true]
  profiles: [[debug], [p1, p2]]
  pull_policy: [always, never, if_not_present, missing, build]
  read_only: [true]
  restart: [always, "on-failure:3", unless-stopped, "no"]
  runtime: [runc]
  scale: [3, 0, 1]
  secrets:
    - [s1]
    - [{source: s2, target: my_secret, uid: "103", gid: "103", mode: 288}]
    - [{source: s1, target: /run/secrets/other}]
    - [{source: s1, x-sec: 1}]
  security_opt: [["label=level:s0:c100,c200", "label=type:svirt_apache_t"]]
  shm_size: [64m, 1000000, "2gb"]
  stdin_open: [true]
  stop_grace_period: [20s, 1m30s, 1h, 1.5s, 500ms, 0s, 100us, 2h3m4.5s, "90s", 1m, 36h]
  stop_signal: [SIGUSR1]
  storage_opt: [{size: 20G}]
  sysctls:
    - {net.core.somaxconn: 1024, net.ipv4.tcp_syncookies: 0}
    - [net.core.somaxconn=1024]
  tmpfs: [/run, [/run, "/tmp:size=64m"]]
  tty: [true]
  ulimits:
    - {nproc: 65535}
    - {nofile: {soft: 20000, hard: 40000}}
    - {nproc: 65535, nofile: {soft: 20000, hard: 40000}, core: 0}
    - {nofile: {soft: 0, hard: 0}}
    - {memlock: -1}
    - {nofile: {soft: 1, hard: 2, x-ul: 1}}
  user: [someone, "1000:1000"]
  userns_mode: [host]
  uts: [host]
  volumes:
    - [/var/lib/anonymous]
    - ["/opt/data:/var/lib/data"]
    - [".:/code", "./static:/var/www/html:ro"]
    - ["~/configs:/etc/configs:ro"]
    - ["v1:/var/lib/volume", "v1:/other:ro,nocopy"]
    - [{type: bind, source: ./opt, target: /opt/cached, consistency: cached, read_only: true}]
    - [{type: bind, source: /abs, target: /abs2, bind: {propagation: rshared, create_host_path: true, selinux: z, recursive: enabled}}]
    - [{type: volume, source: v1, target: /data, volume: {nocopy: true, subpath: sub}}]
    - [{type: tmpfs, target: /opt/tmpfs, tmpfs: {size: 10000, mode: 511}}]
    - [{type: tmpfs, target: /opt/tmpfs2, tmpfs: {size: 64m}}]
    - [{type: npipe, source: "\\\\.\\pipe\\docker_engine", target: "\\\\.\\pipe\\docker_engine"}]
    - [{type: cluster, source: cv, target: /c}]
    - [{type: volume, source: v1, target: /x, x-vol: 1, volume: {x-vv: 1, nocopy: true}}]
    - [{type: bind, source: /a, target: /b, bind: {x-bind: 1, propagation: private}}, {type: tmpfs, target: /t, tmpfs: {x-tm: 1, size: 1}}]
    - ["/host/path:/container/path:z", "/h2:/c2:rw,Z,rslave"]
  volumes_from: [[db, "db:ro"], ["container:other:rw"]]
  working_dir: [/code]
  extends:
    - {service: db}
  x-svc-ext: [baz, {nested: {a: [1, 2.5, true, null, "s"]}}, [1, 2]]
network:
  name: [my-net]
  driver: [overlay, bridge]
  driver_opts: [{foo: bar, baz: 1}]
  ipam:
    - {driver: default}
    - {config: [{subnet: 172.28.0.0/16, ip_range: 172.28.5.0/24, gateway: 172.28.5.254, aux_addresses: {host1: 172.28.1.5, host2: 172.28.1.6}}, {subnet: "2001:3984:3989::/64", gateway: "2001:3984:3989::1"}]}
    - {driver: overlay, config: [{subnet: 10.0.0.0/8}]}
    - {x-ipam: 1, config: [{subnet: 10.1.0.0/16, x-pool: 1}]}
    - {options: {foo: bar}}
  external: [true, {name: my-cool-network}]
  internal: [true]
  attachable: [true]
  enable_ipv6: [true, false]
  labels: [{foo: bar}, [a=b]]
  x-net-ext: [{a: 1}]
volume:
  name: [user_specified_name]
  driver: [flocker]
  driver_opts: [{foo: bar, baz: 1}]
  external: [true, {name: my-cool-volume}]
  labels: [{foo: bar}, [a=b, c]]
  x-vol-ext: [1]
secret:
  name: [secname]
  file: [./secret_data, /abs/secret_data, "~/secret_data"]
  environment: [SECRET_ENV, UNSET_ENV]
  external: [true, {name: my_secret}]
  labels: [{foo: bar}]
  driver: [secret-bucket]
  driver_opts: [{k: v}]
  template_driver: [golang]
  x-sec-ext: [{a: b}]
config:
  name: [cfgname]
  file: [./config_data, "~/config_data"]
  environment: [CONFIG_ENV]
  content: ["inline content\nline2\n", "with $$dollar"]
  external: [true, {name: my_config}]
  labels: [{foo: bar}]
  template_driver: [golang]
  x-cfg-ext: [true]
project:
  x-bar: [baz, 1, 1.5, true, null, [1, 2], {bar: baz, foo: {deep: [a]}}]
  x-foo: [bar]
`

// attributes that cannot be combined in one service (the loader rejects the combination)
var c09Exclusive = [][]string{
	{"network_mode", "networks"},
	{"network_mode", "ports"},
	{"extends", "*"},
}

// files materialised next to every generated compose file
var c09Files = map[string]string{
	"a.env":          "FROM_FILE_A=1\nSHARED=a\n",
	"b.env":          "FROM_FILE_B=2\nSHARED=b\nRAW=$NOT_EXPANDED\n",
	"a.label":        "file.label.a=1\n",
	"b.label":        "file.label.b=2\n",
	"secret_data":    "s3cr3t\n",
	"config_data":    "cfg\n",
	"dir/Dockerfile": "FROM scratch\n",
	"keys/id_rsa":    "key\n",
}

var c09Env = map[string]string{
	"FROM_ENV":   "from-env",
	"SECRET_ENV": "secret-from-env",
	"CONFIG_ENV": "config-from-env",
	"HOME":       "/home/user",
	"b":          "interpolated-b",
	"dollar":     "interpolated-dollar",
}
