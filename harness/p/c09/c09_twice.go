package c09

// C09 round 6 — input class "the same entity spelled twice": one port / mount / secret reference / variable / … written
// in two of its syntaxes (short and long, list and mapping, number and string, with and without the attributes the
// loader defaults), (i) as two entries of one list in one file, (ii) in two compose files merged by the loader,
// (iii) in a service and the service it extends.  The loader decides from the unicity key and the merge rules whether
// the two spellings are one entry; the rendering carries every default explicitly, so a key that depends on the
// spelling makes the reload of the rendering collapse (or keep) entries the first load did not.  Each document goes
// through the same oracle as every other one (`c09.roundtrip`: load → render → reload alone → compare → render again).
//
// The spellings are written from the Compose specification, like the pools of c09_pool.go.

import (
	"encoding/json"
	"fmt"
	"sort"
	"strings"

	"gopkg.in/yaml.v3"

	"verifharness/core"
)

const c09TwiceYAML = `
# attribute → groups; each group lists spellings of ONE entry of the sequence-valued attribute that share a unicity key
entries:
  ports:
    - ["8080:80", "8080:80/tcp", "0.0.0.0:8080:80", {target: 80, published: "8080"}, {target: 80, published: 8080},
       {target: 80, published: "8080", protocol: tcp}, {target: 80, published: "8080", host_ip: 0.0.0.0},
       {target: 80, published: "8080", mode: ingress}, {target: "80", published: "8080"}]
    - [80, "80", "80/tcp", {target: 80}, {target: 80, protocol: tcp}, {target: 80, mode: ingress}]
    - ["127.0.0.1:53:53/udp", {target: 53, published: "53", host_ip: 127.0.0.1, protocol: udp}, {target: 53, published: 53, host_ip: 127.0.0.1, protocol: udp, mode: ingress}]
    - ["9000-9001:9000-9001", "9000:9000", {target: 9000, published: "9000"}]
  volumes:
    - ["v1:/data", "v1:/data:rw", {type: volume, source: v1, target: /data}, {type: volume, source: v1, target: /data, read_only: false},
       {type: volume, source: v1, target: /data, volume: {}}, "./dir:/data", {type: bind, source: ./dir, target: /data}]
    - ["./dir:/mnt:ro", {type: bind, source: ./dir, target: /mnt, read_only: true}, {type: bind, source: ./dir, target: /mnt, read_only: true, bind: {create_host_path: true}}]
    - [/anon, {type: volume, target: /anon}]
  secrets:
    - [s1, {source: s1}, {source: s1, target: /run/secrets/s1}, {source: s1, target: s1}, {source: s2, target: /run/secrets/s1}]
  configs:
    - [c1, {source: c1}, {source: c1, target: /c1}, {source: c2, target: /c1}]
  env_file:
    - [./a.env, {path: ./a.env}, {path: ./a.env, required: true}, {path: ./a.env, required: false}, {path: ./a.env, format: c09raw}]
  environment:
    - [A=b, A=c, A, "A=", "A=b=c"]
  labels:
    - [l=1, l=2, l, "l="]
  annotations:
    - [a=1, a=2]
  extra_hosts:
    - ["h=1.2.3.4", "h:1.2.3.4", "h=1.2.3.5"]
  devices:
    - ["/dev/a:/dev/b", "/dev/a:/dev/b:rwm", {source: /dev/a, target: /dev/b, permissions: rwm}, {source: /dev/a, target: /dev/b}]
  expose:
    - [80, "80", "80/tcp"]
  tmpfs:
    - [/run, "/run:size=1m"]
  sysctls:
    - [a.b=1, a.b=2]
  links:
    - [db, "db:alias", "db:db"]
  external_links:
    - [ext, "ext:alias"]
  volumes_from:
    - [db, "db:ro", "db:rw"]
  group_add:
    - [1000, "1000"]
  dns:
    - [8.8.8.8, 8.8.4.4]
  cap_add:
    - [ALL, NET_ADMIN]
  build.args:
    - [A=b, A=c, A, "A="]
  build.labels:
    - [l=1, l=2]
  build.ssh:
    - [default, "default=/ssh.sock", "k=./keys/id_rsa"]
  build.secrets:
    - [s1, {source: s1}, {source: s1, target: /run/secrets/s1}]
  build.extra_hosts:
    - ["h=1.2.3.4", "h:1.2.3.4"]
  build.additional_contexts:
    - ["foo=./dir", "foo=./keys"]
  build.tags:
    - ["img:v1", "img:v2"]
  build.cache_from:
    - [foo, bar]
# attribute → groups; each group lists spellings of the WHOLE attribute value that mean the same (or overlapping) things
whole:
  environment:
    - [[A=b, "E=", N], {A: b, E: "", N: null}, {A: "b"}, [A=c], {N: x}]
  labels:
    - [[a=b, c], {a: b, c: ""}, {a: "2"}]
  annotations:
    - [[a=b], {a: b}]
  build:
    - [./dir, {context: ./dir}, {context: ./dir, dockerfile: Dockerfile}]
  build.args:
    - [[A=b, N], {A: b, N: null}, {A: c}]
  build.labels:
    - [[a=b], {a: b}]
  build.ssh:
    - [[default], {default: null}, ["k=./keys/id_rsa"], {k: ./keys/id_rsa}, [default, "k=./keys/id_rsa"]]
  build.additional_contexts:
    - [["foo=./dir"], {foo: ./dir}]
  build.extra_hosts:
    - [["h=1.2.3.4"], {h: 1.2.3.4}, {h: [1.2.3.4]}]
  build.shm_size:
    - [1048576, 1m, 1mb]
  build.ulimits:
    - [{nofile: 100}, {nofile: {soft: 100, hard: 100}}]
  command:
    - [echo hi, [echo, hi], "", []]
  entrypoint:
    - [/bin/sh -c, [/bin/sh, -c], "", []]
  healthcheck:
    - [{test: exit 0}, {test: [CMD-SHELL, exit 0]}, {test: [CMD, "true"], interval: 90s}, {test: [CMD, "true"], interval: 1m30s}, {disable: true}]
  depends_on:
    - [[db], {db: {condition: service_started}}, {db: {condition: service_started, required: true}}, {db: {condition: service_healthy, restart: true}}]
  networks:
    - [[n1], {n1: null}, {n1: {}}, {n1: {aliases: [a1]}}, [n1, n2]]
  dns:
    - [8.8.8.8, [8.8.8.8], [8.8.4.4]]
  dns_search:
    - [example.com, [example.com]]
  tmpfs:
    - [/run, [/run], ["/run:size=1m"]]
  env_file:
    - [./a.env, [./a.env], [{path: ./a.env}], [{path: ./a.env, required: false}], [./b.env]]
  label_file:
    - [./a.label, [./a.label], [./b.label]]
  extra_hosts:
    - [["h=1.2.3.4"], {h: 1.2.3.4}, {h: [1.2.3.4]}, ["h=1.2.3.5"], {h: [1.2.3.4, 1.2.3.5]}]
  sysctls:
    - [[a.b=1], {a.b: 1}, {a.b: "1"}]
  ulimits:
    - [{nofile: 100}, {nofile: {soft: 100, hard: 100}}, {nofile: {soft: 100, hard: 200}}]
  logging:
    - [{driver: x, options: {a: "1"}}, {driver: x, options: {a: 1}}, {options: {b: "2"}}]
  mem_limit:
    - [1048576, 1m, 1mb, "1048576"]
  shm_size:
    - [64m, 67108864]
  stop_grace_period:
    - [90s, 1m30s]
  cpus:
    - [0.5, "0.5"]
  ports:
    - [["8080:80"], [{target: 80, published: "8080"}], [{target: 80, published: 8080, protocol: tcp, mode: ingress}]]
  volumes:
    - [["v1:/data"], [{type: volume, source: v1, target: /data}], [{type: volume, source: v1, target: /data, volume: {nocopy: true}}]]
  secrets:
    - [[s1], [{source: s1}], [{source: s1, target: /run/secrets/s1, mode: 288}]]
  configs:
    - [[c1], [{source: c1}], [{source: c1, target: /c1, mode: 288}]]
  deploy:
    - [{resources: {limits: {cpus: 0.5, memory: 1m}}}, {resources: {limits: {cpus: "0.5", memory: 1048576}}}, {replicas: 2}]
  blkio_config:
    - [{device_read_bps: [{path: /dev/sda, rate: 1mb}]}, {device_read_bps: [{path: /dev/sda, rate: 1048576}]}]
# top-level section.name → groups of spellings of the whole resource
top:
  volumes.v1:
    - [null, {}, {name: named}, {external: true}, {driver: local, labels: [a=b]}, {driver: local, labels: {a: b}}]
  networks.n1:
    - [null, {}, {name: named}, {external: true}, {driver: bridge, labels: [a=b]}, {driver: bridge, labels: {a: b}}, {ipam: {config: [{subnet: 10.0.0.0/24}]}}]
  secrets.s1:
    - [{file: ./secret_data}, {file: ./secret_data, labels: [a=b]}, {file: ./secret_data, labels: {a: b}}, {environment: SECRET_ENV}]
  configs.c1:
    - [{file: ./config_data}, {file: ./config_data, labels: [a=b]}, {content: hello}, {environment: CONFIG_ENV}]
`

type c09Twice struct {
	Entries map[string][][]any `yaml:"entries"`
	Whole   map[string][][]any `yaml:"whole"`
	Top     map[string][][]any `yaml:"top"`
}

func loadTwice() *c09Twice {
	var t c09Twice
	if err := yaml.Unmarshal([]byte(c09TwiceYAML), &t); err != nil {
		panic("c09 twice pool: " + err.Error())
	}
	return &t
}

// setAttr writes svc[a][b]… = v for a dotted attribute, creating the frame the attribute needs (a build context).
func setAttr(svc map[string]any, attr string, v any) {
	parts := strings.Split(attr, ".")
	m := svc
	for _, p := range parts[:len(parts)-1] {
		n, ok := m[p].(map[string]any)
		if !ok {
			n = map[string]any{}
			if p == "build" {
				n["context"] = "."
			}
			m[p] = n
		}
		m = n
	}
	m[parts[len(parts)-1]] = core.DeepCopyVal(v)
}

func keysOf(m map[string][][]any) []string {
	var l []string
	for k := range m {
		l = append(l, k)
	}
	sort.Strings(l)
	return l
}

func twiceDocs(kind, attr string, a, b any) (layouts []string, mains []map[string]any, overs [][]map[string]any) {
	svcWith := func(v any) map[string]any {
		s := map[string]any{"image": "busybox"}
		if v != nil {
			setAttr(s, attr, v)
		}
		return s
	}
	one := func(v any) any {
		if kind == "entries" {
			return []any{v}
		}
		return v
	}
	frame := func(svcs map[string]any) map[string]any {
		d := baseDoc()
		for k, v := range svcs {
			d["services"].(map[string]any)[k] = v
		}
		return d
	}
	if kind == "entries" {
		layouts = append(layouts, "same-list")
		mains = append(mains, frame(map[string]any{"svc": svcWith([]any{a, b})}))
		overs = append(overs, nil)
	}
	layouts = append(layouts, "override")
	mains = append(mains, frame(map[string]any{"svc": svcWith(one(a))}))
	overs = append(overs, []map[string]any{{"services": map[string]any{"svc": svcWith(one(b))}}})

	layouts = append(layouts, "extends")
	derived := svcWith(one(b))
	derived["extends"] = map[string]any{"service": "base"}
	mains = append(mains, frame(map[string]any{"base": svcWith(one(a)), "svc": derived}))
	overs = append(overs, nil)
	return
}

func addTwice(ctx *core.Ctx, main map[string]any, over []map[string]any, m c09Mode, focus string) {
	b, err := json.Marshal(main)
	if err != nil {
		panic(err)
	}
	var os []json.RawMessage
	for _, o := range over {
		x, err := json.Marshal(o)
		if err != nil {
			panic(err)
		}
		os = append(os, x)
	}
	ctx.Add("c09.roundtrip", rtArgs{Doc: b, Overrides: os, Format: m.format, SkipNorm: m.skipNorm, NoPaths: m.noPaths, Focus: focus})
}

func runC09Twice(ctx *core.Ctx) {
	t := loadTwice()
	modes := allModes()
	// quick: the default options in both renderings for every pair + one other option mode drawn per pair;
	// thorough: every mode
	pick := func() []c09Mode {
		if ctx.Pick(0, 1) == 1 {
			return modes
		}
		other := []c09Mode{}
		for _, m := range modes {
			if m.skipNorm || m.noPaths {
				other = append(other, m)
			}
		}
		return []c09Mode{{false, false, "yaml"}, {false, false, "json"}, other[ctx.Rng.Intn(len(other))]}
	}
	emit := func(kind, attr string, gi int, group []any) {
		for i, a := range group {
			for j, b := range group {
				if i == j {
					continue
				}
				layouts, mains, overs := twiceDocs(kind, attr, a, b)
				for li, lay := range layouts {
					for _, m := range pick() {
						ctx.Count("twice:" + kind + ":" + lay)
						ctx.Count("twice:attr:" + attr)
						addTwice(ctx, mains[li], overs[li], m, fmt.Sprintf("twice:%s:%s#%d[%d,%d]:%s", kind, attr, gi, i, j, lay))
					}
				}
			}
		}
	}
	for _, attr := range keysOf(t.Entries) {
		for gi, g := range t.Entries[attr] {
			emit("entries", attr, gi, g)
		}
	}
	for _, attr := range keysOf(t.Whole) {
		for gi, g := range t.Whole[attr] {
			emit("whole", attr, gi, g)
		}
	}
	// top-level resources: the two spellings in two merged files
	for _, key := range keysOf(t.Top) {
		sect, name, _ := strings.Cut(key, ".")
		for gi, g := range t.Top[key] {
			for i, a := range g {
				for j, b := range g {
					if i == j {
						continue
					}
					main := baseDoc()
					main["services"].(map[string]any)["svc"] = map[string]any{"image": "busybox"}
					main[sect].(map[string]any)[name] = core.DeepCopyVal(a)
					over := map[string]any{sect: map[string]any{name: core.DeepCopyVal(b)}}
					for _, m := range pick() {
						ctx.Count("twice:top:override")
						ctx.Count("twice:attr:" + key)
						addTwice(ctx, main, []map[string]any{over}, m, fmt.Sprintf("twice:top:%s#%d[%d,%d]", key, gi, i, j))
					}
				}
			}
		}
	}
}
