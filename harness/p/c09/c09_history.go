package c09

// C09 round 6 — input class "histories": a SEQUENCE of renderings of ONE loaded project value, each with its own
// options (plain / types.WithSecretContent, YAML / JSON).  The property speaks about "rendering a loaded project":
// which renderings were made before must not matter.  After every call of the history
//
//	(1) the project value is compared, deeply (unexported fields included), with its state before the call:
//	    rendering does not write to the caller's project                         history-mutates:<call>:<Type.field>
//	(2) the bytes are compared with the rendering, under the same options, of a freshly loaded project
//	                                                                             history-differs:<call>:<first differing key>
//	(3) a plain rendering is reloaded next to the original and compared (as in c09.roundtrip), and the reloaded
//	    project is rendered again                                                history-reload-error / history-roundtrip / history-rerender-differs
//
// (2) and (3) are decided on the real code only; (1) is the heap clause the Lean model `Secrets.applyHeap` proves for the
// unchanged code (`Props/C09History.lean`).

import (
	"encoding/json"
	"fmt"
	"os"
	"path/filepath"
	"reflect"
	"sort"
	"strings"
	"time"

	"github.com/compose-spec/compose-go/v2/types"
	"gopkg.in/yaml.v3"

	"verifharness/core"
)

type histArgs struct {
	rtArgs
	Steps []string `json:"steps"` // yaml | json | yaml+secrets | json+secrets
}

// deepDump lists every leaf of v as "path = value", unexported fields included, maps in key order, nil and empty kept apart.
func deepDump(v reflect.Value, path string, out *[]string, depth int) {
	if depth > 40 {
		*out = append(*out, path+" = <too deep>")
		return
	}
	switch v.Kind() {
	case reflect.Ptr, reflect.Interface:
		if v.IsNil() {
			*out = append(*out, path+" = nil")
			return
		}
		deepDump(v.Elem(), path, out, depth+1)
	case reflect.Struct:
		t := v.Type()
		for i := 0; i < t.NumField(); i++ {
			deepDump(v.Field(i), path+"."+t.Name()+"."+t.Field(i).Name, out, depth+1)
		}
	case reflect.Slice:
		if v.IsNil() {
			*out = append(*out, path+" = nil-slice")
			return
		}
		*out = append(*out, fmt.Sprintf("%s = len %d", path, v.Len()))
		for i := 0; i < v.Len(); i++ {
			deepDump(v.Index(i), fmt.Sprintf("%s[%d]", path, i), out, depth+1)
		}
	case reflect.Array:
		for i := 0; i < v.Len(); i++ {
			deepDump(v.Index(i), fmt.Sprintf("%s[%d]", path, i), out, depth+1)
		}
	case reflect.Map:
		if v.IsNil() {
			*out = append(*out, path+" = nil-map")
			return
		}
		*out = append(*out, fmt.Sprintf("%s = map len %d", path, v.Len()))
		keys := v.MapKeys()
		ks := make([]string, len(keys))
		idx := map[string]reflect.Value{}
		for i, k := range keys {
			ks[i] = fmt.Sprint(scalarOf(k))
			idx[ks[i]] = k
		}
		sort.Strings(ks)
		for _, k := range ks {
			deepDump(v.MapIndex(idx[k]), path+"["+k+"]", out, depth+1)
		}
	default:
		*out = append(*out, fmt.Sprintf("%s = %v", path, scalarOf(v)))
	}
}

// scalarOf reads a scalar without Interface() (which panics on unexported fields).
func scalarOf(v reflect.Value) any {
	switch v.Kind() {
	case reflect.Bool:
		return v.Bool()
	case reflect.Int, reflect.Int8, reflect.Int16, reflect.Int32, reflect.Int64:
		return v.Int()
	case reflect.Uint, reflect.Uint8, reflect.Uint16, reflect.Uint32, reflect.Uint64, reflect.Uintptr:
		return v.Uint()
	case reflect.Float32, reflect.Float64:
		return v.Float()
	case reflect.String:
		return fmt.Sprintf("%q", v.String())
	case reflect.Interface, reflect.Ptr:
		if v.IsNil() {
			return "nil"
		}
		return scalarOf(v.Elem())
	}
	return "<" + v.Kind().String() + ">"
}

func dumpProject(p *types.Project) []string {
	var l []string
	deepDump(reflect.ValueOf(p), "P", &l, 0)
	return l
}

var reDumpField = func() func(string) string {
	return func(line string) string {
		// "P.Project.Secrets[s2].SecretConfig.marshallContent = true" → "SecretConfig.marshallContent"
		path, _, _ := strings.Cut(line, " = ")
		parts := strings.Split(reBracket.ReplaceAllString(path, ""), ".")
		if len(parts) >= 2 {
			return parts[len(parts)-2] + "." + parts[len(parts)-1]
		}
		return path
	}
}()

func firstDumpDiff(a, b []string) (field, what string) {
	n := len(a)
	if len(b) < n {
		n = len(b)
	}
	for i := 0; i < n; i++ {
		if a[i] != b[i] {
			return reDumpField(a[i]), a[i] + "  →  " + b[i]
		}
	}
	if len(a) != len(b) {
		return "shape", fmt.Sprintf("%d leaves → %d leaves", len(a), len(b))
	}
	return "", ""
}

func renderStep(p *types.Project, step string) ([]byte, error) {
	switch step {
	case "yaml":
		return p.MarshalYAML()
	case "json":
		return p.MarshalJSON()
	case "yaml+secrets":
		return p.MarshalYAML(types.WithSecretContent)
	case "json+secrets":
		return p.MarshalJSON(types.WithSecretContent)
	}
	return nil, fmt.Errorf("unknown step %q", step)
}

func realHistory(raw json.RawMessage) any {
	var a histArgs
	if err := json.Unmarshal(raw, &a); err != nil {
		return rtOut{Skip: "bad args"}
	}
	text := a.Text
	if text == "" {
		text = string(a.Doc)
	}
	req := a.req("compose.yaml", text)
	root, err := core.Materialize(req.Files)
	defer os.RemoveAll(root)
	if err != nil {
		return rtOut{Skip: "materialize: " + err.Error()}
	}
	p, err := req.LoadIn(root)
	if err != nil || p == nil {
		return rtOut{Skip: "load: " + errKey(err, root)}
	}
	if referencesDisabled(p) {
		return rtOut{Skip: "enabled service references a profile-disabled one"}
	}
	sortSSH(p)
	// reference renderings: one freshly loaded project per distinct option set, rendered once
	ref := map[string][]byte{}
	for _, s := range a.Steps {
		if _, ok := ref[s]; ok {
			continue
		}
		q, err := req.LoadIn(root)
		if err != nil || q == nil {
			return rtOut{Skip: "second load fails: " + errKey(err, root)}
		}
		sortSSH(q)
		b, err := renderStep(q, s)
		if err != nil {
			return rtOut{Fail: "marshal-error:" + s, What: "rendering a freshly loaded project fails: " + err.Error()}
		}
		ref[s] = b
	}
	// the model's view of the project (Model/RenderHistory.lean): its secrets, in name order
	tr := &histTrace{Steps: a.Steps, Secrets: []map[string]string{}, Visible: [][]string{}, Flags: []string{}}
	var snames []string
	for n := range p.Secrets {
		snames = append(snames, n)
	}
	sort.Strings(snames)
	for _, n := range snames {
		sc := p.Secrets[n]
		tr.Secrets = append(tr.Secrets, map[string]string{"key": n, "name": sc.Name, "file": sc.File, "environment": sc.Environment, "content": sc.Content})
	}
	var done []string
	for i, s := range a.Steps {
		before := dumpProject(p)
		b, err := renderStep(p, s)
		hist := fmt.Sprintf("call %d (%s) after [%s]", i+1, s, strings.Join(done, ", "))
		if err != nil {
			return rtOut{Fail: "history-marshal-error:" + s, What: hist + ": " + err.Error()}
		}
		after := dumpProject(p)
		if f, w := firstDumpDiff(before, after); f != "" {
			return rtOut{Fail: "history-mutates:" + s + ":" + f, What: hist + " wrote to the caller's project: " + w}
		}
		if string(b) != string(ref[s]) {
			return rtOut{Fail: "history-differs:" + s + ":" + firstDiffLine(string(ref[s]), string(b)),
				What: hist + " renders other bytes than the same call on a freshly loaded project:\n--- fresh\n" + clip(string(ref[s]), 700) + "\n--- this history\n" + clip(string(b), 700)}
		}
		if s == "yaml" || s == "json" {
			name := fmt.Sprintf("rendered-%d.%s", i, s)
			if err := os.WriteFile(filepath.Join(root, name), b, 0o644); err != nil {
				return rtOut{Skip: err.Error()}
			}
			r2 := req
			r2.ConfigFiles = []string{name}
			if strings.Contains(string(b), "$") {
				r2.SkipInterpolation = true // contract B, see c09_oracle.go
			}
			p2, err := r2.LoadIn(root)
			if err != nil || p2 == nil {
				return rtOut{Fail: "history-reload-error:" + s + ":" + errKey(err, root), What: fmt.Sprintf("%s: the rendering does not load: %v\n%s", hist, core.ScrubErr(err, root), clip(string(b), 1200))}
			}
			sortSSH(p2)
			if ds := diffProjects(p, p2, s == "json"); len(ds) > 0 {
				sort.Slice(ds, func(i, j int) bool { return ds[i].Field < ds[j].Field })
				return rtOut{Fail: "history-roundtrip:" + ds[0].Field + ":" + s, What: fmt.Sprintf("%s: reloaded project differs: %s: %s → %s", hist, ds[0].Path, ds[0].A, ds[0].B)}
			}
			b2, err := renderStep(p2, s)
			if err != nil {
				return rtOut{Fail: "history-rerender-error:" + s, What: hist + ": " + err.Error()}
			}
			if string(b2) != string(b) {
				return rtOut{Fail: "history-rerender-differs:" + s + ":" + firstDiffLine(string(b), string(b2)), What: hist + ": rendering the reloaded project gives other bytes"}
			}
		}
		tr.Visible = append(tr.Visible, secretsWithContent(b, snames))
		done = append(done, s)
	}
	for _, n := range snames {
		if types.VerifSecretMarshallContent(p.Secrets[n]) {
			tr.Flags = append(tr.Flags, n)
		}
	}
	return rtOut{Ok: true, Hist: tr}
}

// histTrace is what the Lean model of a history (`c09.history` driver op) is compared on.
type histTrace struct {
	Steps   []string            `json:"steps"`
	Secrets []map[string]string `json:"secrets"`
	Visible [][]string          `json:"visible"` // per call: the secrets whose content is in the rendering
	Flags   []string            `json:"flags"`   // after the history: secrets flagged in the caller's project
}

// secretsWithContent reads a rendering back (JSON is YAML) and lists the secrets that carry `content`.
func secretsWithContent(b []byte, names []string) []string {
	out := []string{}
	var doc map[string]any
	if err := yaml.Unmarshal(b, &doc); err != nil {
		return []string{"<unparsable rendering>"}
	}
	ss, _ := doc["secrets"].(map[string]any)
	for _, n := range names {
		if m, ok := ss[n].(map[string]any); ok {
			if _, has := m["content"]; has {
				out = append(out, n)
			}
		}
	}
	return out
}

func histDriverArgs(_, real json.RawMessage) any {
	var o rtOut
	if json.Unmarshal(real, &o) != nil || o.Hist == nil {
		return map[string]any{"secrets": []any{}, "steps": []string{}}
	}
	return map[string]any{"secrets": o.Hist.Secrets, "steps": o.Hist.Steps}
}

func judgeHistory(args, real, drv json.RawMessage) *core.Verdict {
	if v := judgeRoundTrip(args, real, nil); v != nil {
		return v
	}
	var o rtOut
	var d struct {
		Visible [][]string `json:"visible"`
		Flags   []string   `json:"flags"`
	}
	if json.Unmarshal(real, &o) != nil || o.Hist == nil || json.Unmarshal(drv, &d) != nil {
		return core.Disagree("history: malformed exchange")
	}
	if d.Flags == nil {
		d.Flags = []string{}
	}
	for i := range d.Visible {
		if d.Visible[i] == nil {
			d.Visible[i] = []string{}
		}
	}
	if !reflect.DeepEqual(d.Flags, o.Hist.Flags) || len(d.Visible) != len(o.Hist.Visible) {
		return core.Disagree(fmt.Sprintf("history: flags in the caller's project after the history: real %v, model %v; calls real %d, model %d", o.Hist.Flags, d.Flags, len(o.Hist.Visible), len(d.Visible)))
	}
	for i := range d.Visible {
		if !reflect.DeepEqual(d.Visible[i], o.Hist.Visible[i]) {
			return core.Disagree(fmt.Sprintf("history: call %d (%s): secrets rendered with content: real %v, model %v", i+1, o.Hist.Steps[i], o.Hist.Visible[i], d.Visible[i]))
		}
	}
	return nil
}

var histSteps = []string{"yaml", "json", "yaml+secrets", "json+secrets"}

func init() {
	core.Register("c09.history", &core.CheckDef{Real: realHistory, DriverOp: "c09.history", DriverArgs: histDriverArgs, Judge: judgeHistory, Timeout: 30 * time.Second})
}

func addHistory(ctx *core.Ctx, doc map[string]any, m c09Mode, steps []string, focus string) {
	b, err := json.Marshal(doc)
	if err != nil {
		panic(err)
	}
	nsec := 0
	for _, s := range steps {
		if strings.HasSuffix(s, "+secrets") {
			nsec++
		}
	}
	ctx.Count(fmt.Sprintf("history:len=%d", len(steps)))
	ctx.Count(fmt.Sprintf("history:with-secret-content-calls=%d", nsec))
	ctx.Add("c09.history", histArgs{rtArgs: rtArgs{Doc: b, SkipNorm: m.skipNorm, NoPaths: m.noPaths, Focus: focus}, Steps: steps})
}

func runC09History(ctx *core.Ctx) {
	pool := loadPool()
	def := c09Mode{false, false, ""}
	// ---- 1. the frame document (file secret, environment secret, file config, inline config) + an environment config:
	//         every history of length ≤ 3 over the four calls (4 + 16 + 64)
	frame := func() map[string]any {
		d := baseDoc()
		d["services"].(map[string]any)["svc"] = map[string]any{"image": "busybox", "secrets": []any{"s1", "s2"}, "configs": []any{"c1", "c2", "c3"}}
		d["configs"].(map[string]any)["c3"] = map[string]any{"environment": "CONFIG_ENV"}
		return d
	}
	var seqs [][]string
	var gen func(prefix []string, n int)
	gen = func(prefix []string, n int) {
		if len(prefix) > 0 {
			seqs = append(seqs, append([]string{}, prefix...))
		}
		if n == 0 {
			return
		}
		for _, s := range histSteps {
			gen(append(prefix, s), n-1)
		}
	}
	gen(nil, 3)
	for _, sq := range seqs {
		ctx.Count("history:frame")
		addHistory(ctx, frame(), def, sq, "history:frame")
	}
	// ---- 2. every alternative of every secret / config attribute, the four histories "option call, then plain call"
	for _, t := range []struct {
		sect string
		pool map[string][]any
	}{{"secrets", pool.Secret}, {"configs", pool.Config}} {
		for _, k := range sortedKeys(t.pool) {
			for i, alt := range t.pool[k] {
				doc := baseDoc()
				res := map[string]any{k: core.DeepCopyVal(alt)}
				if k != "file" && k != "environment" && k != "content" && k != "external" {
					res["environment"] = "SECRET_ENV"
				}
				doc[t.sect].(map[string]any)["res"] = res
				doc["services"].(map[string]any)["svc"] = map[string]any{"image": "busybox"}
				for _, sq := range [][]string{{"yaml+secrets", "yaml"}, {"json+secrets", "json"}, {"yaml+secrets", "json"}, {"json+secrets", "yaml"}} {
					ctx.Count("history:" + t.sect + "." + k)
					addHistory(ctx, doc, def, sq, fmt.Sprintf("history:%s.%s#%d", t.sect, k, i))
				}
			}
		}
	}
	// ---- 3. seeded random documents (as in c09.roundtrip) × random histories of length 2 … 5, random option mode
	n := ctx.Pick(40, 4000)
	modes := allModes()
	svcKeys := sortedKeys(pool.Service)
	for i := 0; i < n; i++ {
		doc := frame()
		density := []float64{0.05, 0.15, 0.4}[ctx.Rng.Intn(3)]
		attrs := map[string]any{"image": "busybox"}
		for _, k := range svcKeys {
			if ctx.Rng.Float64() >= density || excluded(attrs, k) || k == "profiles" {
				continue
			}
			alts := pool.Service[k]
			attrs[k] = core.DeepCopyVal(alts[ctx.Rng.Intn(len(alts))])
		}
		doc["services"].(map[string]any)["r0"] = attrs
		for _, t := range []struct {
			sect string
			pool map[string][]any
		}{{"secrets", pool.Secret}, {"configs", pool.Config}} {
			res := map[string]any{}
			for _, k := range sortedKeys(t.pool) {
				if ctx.Rng.Float64() < 0.3 {
					alts := t.pool[k]
					res[k] = core.DeepCopyVal(alts[ctx.Rng.Intn(len(alts))])
				}
			}
			_, f := res["file"]
			_, e := res["environment"]
			_, c := res["content"]
			_, x := res["external"]
			if !f && !e && !c && !x {
				res["environment"] = "SECRET_ENV"
			}
			doc[t.sect].(map[string]any)["r0"] = res
		}
		l := 2 + ctx.Rng.Intn(4)
		var sq []string
		for j := 0; j < l; j++ {
			sq = append(sq, histSteps[ctx.Rng.Intn(len(histSteps))])
		}
		m := modes[ctx.Rng.Intn(len(modes))]
		ctx.Count("history:random")
		addHistory(ctx, doc, m, sq, "history:random")
	}
}
