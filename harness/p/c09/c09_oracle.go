package c09

// C09 — direct oracle on the real code: load → MarshalYAML / MarshalJSON → reload → compare → render again.
//
//	c09.roundtrip   one generated compose document, one option mode, one format
//	c09.coverage    (parent only) every field of every model type was non-zero in some loaded project

import (
	"encoding/json"
	"fmt"
	"io"
	"os"
	"path/filepath"
	"reflect"
	"regexp"
	"sort"
	"strings"
	"sync"
	"time"

	"github.com/compose-spec/compose-go/v2/dotenv"
	"github.com/compose-spec/compose-go/v2/types"
	"gopkg.in/yaml.v3"

	"verifharness/core"
)

type rtArgs struct {
	Doc      json.RawMessage `json:"doc"`            // the compose document (JSON text is valid YAML)
	Text     string          `json:"text,omitempty"` // … or literal YAML text
	Format   string          `json:"format"`         // yaml | json
	SkipNorm bool            `json:"skip_norm,omitempty"`
	NoPaths  bool            `json:"no_paths,omitempty"`
	Profiles []string        `json:"profiles,omitempty"`
	NameOpt  string          `json:"name_opt,omitempty"` // project name given as an option ("" = taken from the document)
	Focus    string          `json:"focus,omitempty"`    // informational: the attribute this document is about
	// round 6: further compose files merged over the first one, in order (override-1.yaml, override-2.yaml, …);
	// the rendering is reloaded alone
	Overrides []json.RawMessage `json:"overrides,omitempty"`
}

type rtOut struct {
	Skip    string     `json:"skip,omitempty"`
	Fail    string     `json:"fail,omitempty"` // stable key
	What    string     `json:"what,omitempty"`
	Ok      bool       `json:"ok,omitempty"`
	Covered []string   `json:"covered,omitempty"`
	Bytes   int        `json:"bytes,omitempty"`
	Hist    *histTrace `json:"hist,omitempty"` // c09.history only
}

func (a rtArgs) req(file, content string) core.LoadReq {
	files := map[string]string{}
	for k, v := range c09Files {
		files[k] = v
	}
	files[file] = content
	cfs := []string{file}
	for i, o := range a.Overrides {
		n := fmt.Sprintf("override-%d.yaml", i+1)
		files[n] = string(o)
		cfs = append(cfs, n)
	}
	return core.LoadReq{Files: files, ConfigFiles: cfs, Env: c09Env, ProjectName: a.NameOpt, Profiles: a.Profiles,
		SkipNormalization: a.SkipNorm, NoResolvePaths: a.NoPaths}
}

var (
	reForType   = regexp.MustCompile(`for type (\*?[A-Za-z0-9_.]+)`)
	reSvcName   = regexp.MustCompile(`\b(services|networks|volumes|secrets|configs|ulimits)\.[A-Za-z0-9_-]+`)
	reIndex     = regexp.MustCompile(`\.[0-9]+\b`)
	reQuoted    = regexp.MustCompile(`"[^"]*"|'[^']*'`)
	reNonKey    = regexp.MustCompile(`[^A-Za-z0-9_.*:/\[\]-]+`)
	reDecodeErr = regexp.MustCompile(`error decoding '([^']+)': ([^\n]*)`)
	reBracket   = regexp.MustCompile(`\[[^\]]*\]`)
	reFilePath  = regexp.MustCompile(`\S*rendered(-[0-9]+)?\.(yaml|json):?`)
	reItems     = regexp.MustCompile(`items\[[0-9, ]+\]`) // gojsonschema: "array items[0,1] must be unique" — positions are not part of the key
)

// errKey turns an error text into a short stable token (no names, indices, temp paths).
func errKey(err error, root string) string {
	s := core.ScrubErr(err, root)
	if m := reDecodeErr.FindStringSubmatch(s); m != nil {
		// mapstructure: error decoding 'services[svc].memswap_limit': invalid size: '-1'
		s = "decode:" + reBracket.ReplaceAllString(m[1], "[*]") + ":" + m[2]
	}
	s = reFilePath.ReplaceAllString(s, "")
	s = reItems.ReplaceAllString(s, "items")
	s = strings.ReplaceAll(s, "$ROOT", "")
	s = reSvcName.ReplaceAllString(s, "$1.*")
	s = reIndex.ReplaceAllString(s, ".*")
	s = reQuoted.ReplaceAllString(s, "_")
	s = strings.TrimSpace(s)
	s = reNonKey.ReplaceAllString(s, "_")
	if len(s) > 90 {
		s = s[:90]
	}
	return strings.Trim(s, "_:")
}

// referencesDisabled reports whether an enabled service names a profile-disabled one.
func referencesDisabled(p *types.Project) bool {
	if len(p.DisabledServices) == 0 {
		return false
	}
	dis := func(n string) bool { _, ok := p.DisabledServices[n]; return ok }
	for _, s := range p.Services {
		for d := range s.DependsOn {
			if dis(d) {
				return true
			}
		}
		for _, l := range s.Links {
			if dis(strings.SplitN(l, ":", 2)[0]) {
				return true
			}
		}
		for _, v := range s.VolumesFrom {
			if !strings.HasPrefix(v, "container:") && dis(strings.SplitN(v, ":", 2)[0]) {
				return true
			}
		}
		for _, m := range []string{s.NetworkMode, s.Ipc, s.Pid} {
			if strings.HasPrefix(m, types.ServicePrefix) && dis(strings.TrimPrefix(m, types.ServicePrefix)) {
				return true
			}
		}
		if s.Extends != nil && dis(s.Extends.Service) {
			return true
		}
	}
	return false
}

// sortSSH gives build.ssh a canonical order (it is decoded from a map in Go's random order — DESIGN §10 #6, owned by C02).
func sortSSH(p *types.Project) {
	for _, s := range p.Services {
		if s.Build != nil && len(s.Build.SSH) > 1 {
			sort.Slice(s.Build.SSH, func(i, j int) bool { return s.Build.SSH[i].ID < s.Build.SSH[j].ID })
		}
	}
}

// ---------------------------------------------------------------- structural comparison

type pdiff struct {
	Field  string // innermost Type.Field
	Path   string
	A, B   string
	Dollar bool
	Order  bool // same elements, different order
}

type differ struct {
	json  bool
	diffs []pdiff
}

var shellCommandType = reflect.TypeOf(types.ShellCommand{})

func short(v reflect.Value) string {
	if !v.IsValid() {
		return "<invalid>"
	}
	s := fmt.Sprintf("%#v", v.Interface())
	if v.Kind() == reflect.Ptr && !v.IsNil() {
		s = "&" + fmt.Sprintf("%#v", v.Elem().Interface())
	}
	if len(s) > 160 {
		s = s[:160] + "…"
	}
	return s
}

func (d *differ) add(field, path string, a, b reflect.Value) {
	sa, sb := short(a), short(b)
	d.diffs = append(d.diffs, pdiff{Field: field, Path: path, A: sa, B: sb, Dollar: strings.Contains(sa, "$")})
}

func (d *differ) walk(a, b reflect.Value, field, path string, depth int) {
	if len(d.diffs) > 20 {
		return
	}
	switch a.Kind() {
	case reflect.Ptr:
		if a.IsNil() || b.IsNil() {
			if a.IsNil() != b.IsNil() {
				d.add(field, path, a, b)
			}
			return
		}
		d.walk(a.Elem(), b.Elem(), field, path, depth)
	case reflect.Interface:
		if a.IsNil() || b.IsNil() {
			if a.IsNil() != b.IsNil() {
				d.add(field, path, a, b)
			}
			return
		}
		x, _ := json.Marshal(core.EncodeVal(normAny(a.Interface())))
		y, _ := json.Marshal(core.EncodeVal(normAny(b.Interface())))
		if string(x) != string(y) {
			d.add(field, path, a, b)
		}
	case reflect.Struct:
		t := a.Type()
		for i := 0; i < t.NumField(); i++ {
			f := t.Field(i)
			if !f.IsExported() {
				continue
			}
			if y, ok := f.Tag.Lookup("yaml"); ok && y == "-" {
				continue
			}
			if d.json && f.Name == "Extensions" && depth >= 1 {
				continue // the JSON form omits nested extension attributes by design
			}
			d.walk(a.Field(i), b.Field(i), t.Name()+"."+f.Name, path+"."+f.Name, depth+1)
		}
	case reflect.Slice:
		if a.Type() == shellCommandType && a.IsNil() != b.IsNil() {
			d.add(field, path, a, b) // nil (unset) and empty (cleared) are different commands
			return
		}
		if a.Len() != b.Len() {
			d.add(field, path, a, b)
			return
		}
		if a.Type().Elem().Kind() == reflect.String && !reflect.DeepEqual(a.Interface(), b.Interface()) {
			x, y := make([]string, a.Len()), make([]string, b.Len())
			for i := range x {
				x[i], y[i] = a.Index(i).String(), b.Index(i).String()
			}
			sort.Strings(x)
			sort.Strings(y)
			if reflect.DeepEqual(x, y) {
				d.add(field, path, a, b)
				d.diffs[len(d.diffs)-1].Order = true
				return
			}
		}
		for i := 0; i < a.Len(); i++ {
			d.walk(a.Index(i), b.Index(i), field, fmt.Sprintf("%s[%d]", path, i), depth)
		}
	case reflect.Map:
		if a.Len() != b.Len() {
			d.add(field, path, a, b)
			return
		}
		keys := a.MapKeys()
		sort.Slice(keys, func(i, j int) bool { return keys[i].String() < keys[j].String() })
		for _, k := range keys {
			bv := b.MapIndex(k)
			if !bv.IsValid() {
				d.add(field, path+"["+k.String()+"]", a.MapIndex(k), reflect.ValueOf("<missing>"))
				continue
			}
			d.walk(a.MapIndex(k), bv, field, path+"["+k.String()+"]", depth)
		}
	default:
		if !reflect.DeepEqual(a.Interface(), b.Interface()) {
			d.add(field, path, a, b)
		}
	}
}

// normAny makes extension values comparable independently of the concrete Go number / map types.
func normAny(v any) any {
	switch x := v.(type) {
	case map[string]any:
		m := map[string]any{}
		for k, e := range x {
			m[k] = normAny(e)
		}
		return m
	case map[any]any:
		m := map[string]any{}
		for k, e := range x {
			m[fmt.Sprint(k)] = normAny(e)
		}
		return m
	case []any:
		l := make([]any, len(x))
		for i, e := range x {
			l[i] = normAny(e)
		}
		return l
	case int64:
		return int(x)
	case uint64:
		return int(x)
	case float64:
		if x == float64(int(x)) {
			return int(x)
		}
	}
	return v
}

func diffProjects(a, b *types.Project, isJSON bool) []pdiff {
	d := &differ{json: isJSON}
	va, vb := reflect.ValueOf(a).Elem(), reflect.ValueOf(b).Elem()
	for _, f := range []string{"Name", "Services", "Networks", "Volumes", "Secrets", "Configs", "Extensions"} {
		d.walk(va.FieldByName(f), vb.FieldByName(f), "Project."+f, f, 1)
	}
	return d.diffs
}

// ---------------------------------------------------------------- coverage

// nonZeroFields collects Type.Field for every exported field holding a non-zero value somewhere in v.
func nonZeroFields(v reflect.Value, out map[string]bool) {
	switch v.Kind() {
	case reflect.Ptr, reflect.Interface:
		if !v.IsNil() {
			nonZeroFields(v.Elem(), out)
		}
	case reflect.Struct:
		t := v.Type()
		for i := 0; i < t.NumField(); i++ {
			f := t.Field(i)
			if !f.IsExported() {
				continue
			}
			fv := v.Field(i)
			if !isZeroLen(fv) {
				out[t.Name()+"."+f.Name] = true
				nonZeroFields(fv, out)
			}
		}
	case reflect.Slice:
		for i := 0; i < v.Len(); i++ {
			nonZeroFields(v.Index(i), out)
		}
	case reflect.Map:
		it := v.MapRange()
		for it.Next() {
			nonZeroFields(it.Value(), out)
		}
	}
}

func isZeroLen(v reflect.Value) bool {
	switch v.Kind() {
	case reflect.Slice, reflect.Map:
		return v.Len() == 0
	}
	return v.IsZero()
}

// allModelFields lists Type.Field for every exported field of every struct reachable from types.Project
// that takes part in the YAML rendering.
func allModelFields() []string {
	seen := map[reflect.Type]bool{}
	set := map[string]bool{}
	var visit func(t reflect.Type)
	visit = func(t reflect.Type) {
		switch t.Kind() {
		case reflect.Ptr, reflect.Slice, reflect.Map:
			visit(t.Elem())
		case reflect.Struct:
			if seen[t] || t.PkgPath() != reflect.TypeOf(types.Project{}).PkgPath() {
				return
			}
			seen[t] = true
			for i := 0; i < t.NumField(); i++ {
				f := t.Field(i)
				if !f.IsExported() {
					continue
				}
				if y, ok := f.Tag.Lookup("yaml"); ok && y == "-" {
					continue
				}
				set[t.Name()+"."+f.Name] = true
				visit(f.Type)
			}
		}
	}
	visit(reflect.TypeOf(types.Project{}))
	var l []string
	for k := range set {
		l = append(l, k)
	}
	sort.Strings(l)
	return l
}

// fields no schema-valid compose file can set (the schema has no such attribute) or that the loader always clears.
var c09Unreachable = map[string]string{
	"ServiceConfig.Dockerfile":   "legacy v1 attribute, rejected by the schema",
	"ServiceConfig.LogDriver":    "legacy v1 attribute, rejected by the schema",
	"ServiceConfig.LogOpt":       "legacy v1 attribute, rejected by the schema",
	"ServiceConfig.Net":          "legacy v1 attribute, rejected by the schema",
	"ServiceConfig.VolumeDriver": "legacy attribute, rejected by the schema",
	"ServiceConfig.Extends":      "removed from the model once extends has been applied",
	"ExtendsConfig.File":         "removed from the model once extends has been applied",
	"ExtendsConfig.Service":      "removed from the model once extends has been applied",
	"ConfigObjConfig.Driver":     "the schema has no configs.*.driver",
	"ConfigObjConfig.DriverOpts": "the schema has no configs.*.driver_opts",
	"BlkioConfig.Extensions":     "the schema allows no x- attributes in blkio_config",
	"WeightDevice.Extensions":    "the schema allows no x- attributes in blkio_config.weight_device",
	"ThrottleDevice.Extensions":  "the schema allows no x- attributes in blkio_config.device_*",
	"UlimitsConfig.Extensions":   "accepted by the schema but dropped by UlimitsConfig.DecodeMapstructure",
	"IPAMPool.Extensions":        "accepted by the schema but dropped by the decoder (inline map without the #extensions key)",
}

var (
	c09CovMu sync.Mutex
	c09Cov   = map[string]bool{}
)

// ---------------------------------------------------------------- the oracle

func realRoundTrip(raw json.RawMessage) any {
	var a rtArgs
	if err := json.Unmarshal(raw, &a); err != nil {
		return rtOut{Skip: "bad args"}
	}
	text := a.Text
	if text == "" {
		text = string(a.Doc)
	}
	req := a.req("compose.yaml", text)
	root, err := core.Materialize(req.Files)
	defer os.RemoveAll(root)
	if err != nil {
		return rtOut{Skip: "materialize: " + err.Error()}
	}
	p, err := req.LoadIn(root)
	if err != nil || p == nil {
		return rtOut{Skip: "load: " + errKey(err, root)}
	}
	if referencesDisabled(p) {
		return rtOut{Skip: "enabled service references a profile-disabled one"}
	}
	sortSSH(p)
	cov := map[string]bool{}
	nonZeroFields(reflect.ValueOf(p), cov)
	var covered []string
	for k := range cov {
		covered = append(covered, k)
	}
	sort.Strings(covered)

	render := func(q *types.Project) ([]byte, error) {
		if a.Format == "json" {
			return q.MarshalJSON()
		}
		return q.MarshalYAML()
	}
	b1, err := render(p)
	if err != nil {
		k := "marshal-error:" + a.Format
		if m := reForType.FindStringSubmatch(err.Error()); m != nil {
			k += ":" + strings.TrimPrefix(m[1], "*")
		}
		return rtOut{Fail: k, What: "rendering fails: " + err.Error(), Covered: covered}
	}
	if a.Format == "json" && !json.Valid(b1) {
		return rtOut{Fail: "marshal-invalid:json", What: "MarshalJSON returned invalid JSON", Covered: covered}
	}
	name := "rendered." + a.Format
	if err := os.WriteFile(filepath.Join(root, name), b1, 0o644); err != nil {
		return rtOut{Skip: err.Error()}
	}
	req2 := req
	req2.ConfigFiles = []string{name}
	if req2.ProjectName == "" && a.SkipNorm {
		// without normalisation the first load took the name from the document; the rendering carries it too
	}
	// reload under one caller contract, compare, render again; pre = key prefix of that contract
	check := func(r core.LoadReq, pre string) *rtOut {
		p2, err := r.LoadIn(root)
		if err != nil || p2 == nil {
			if f := duplicatesLoaded(p); f != "" && err != nil && strings.Contains(err.Error(), "must be unique") {
				// the LOADED project already holds one item twice (two spellings of it were not recognised as one): the rendering
				// is faithful and the schema refuses it.  Keyed by the field, so that a marshaller that duplicates items
				// (same schema message, project without duplicates) keeps its own key.
				return &rtOut{Fail: pre + "reload-error:" + a.Format + ":duplicates-loaded:" + f, What: fmt.Sprintf("the loaded project holds an item twice in %s and its rendering does not load: %v\n%s", f, core.ScrubErr(err, root), clip(string(b1), 1500)), Covered: covered}
			}
			return &rtOut{Fail: pre + "reload-error:" + a.Format + ":" + errKey(err, root), What: fmt.Sprintf("the rendering does not load: %v\n%s", core.ScrubErr(err, root), clip(string(b1), 1500)), Covered: covered}
		}
		sortSSH(p2)
		if ds := diffProjects(p, p2, a.Format == "json"); len(ds) > 0 {
			sort.Slice(ds, func(i, j int) bool { return ds[i].Field < ds[j].Field })
			d := ds[0]
			k := pre + "roundtrip:" + d.Field + ":" + a.Format
			if d.Dollar && pre == "" {
				k = "roundtrip-dollar:" + d.Field + ":" + a.Format
			} else if d.Order {
				k = pre + "roundtrip-order:" + d.Field + ":" + a.Format
			}
			var all []string
			for _, x := range ds {
				all = append(all, fmt.Sprintf("%s: %s → %s", x.Path, x.A, x.B))
			}
			return &rtOut{Fail: k, What: "reloaded project differs: " + clip(strings.Join(all, "; "), 1200), Covered: covered}
		}
		b2, err := render(p2)
		if err != nil {
			return &rtOut{Fail: pre + "rerender-error:" + a.Format, What: err.Error(), Covered: covered}
		}
		if string(b1) != string(b2) {
			return &rtOut{Fail: pre + "rerender-differs:" + a.Format + ":" + firstDiffLine(string(b1), string(b2)), What: "second rendering differs from the first", Covered: covered}
		}
		return nil
	}
	// Contract B (design/C09.md §"the `$` contract"): the rendering carries every `$` literally, so the caller who wants the
	// equivalent project back reloads it with interpolation skipped.  Under that contract the round trip must be exact —
	// no recorded finding applies to it.
	if strings.Contains(string(b1), "$") {
		rb := req2
		rb.SkipInterpolation = true
		if o := check(rb, "nointerp-"); o != nil {
			return *o
		}
	}
	// Contract A (default: same options as the first load); the `roundtrip-dollar:*` keys are recorded for it only.
	if o := check(req2, ""); o != nil {
		return *o
	}
	return rtOut{Ok: true, Covered: covered, Bytes: len(b1)}
}

// duplicatesLoaded names the first (in name order) Type.Field of the project holding a list of strings with one item twice.
func duplicatesLoaded(p *types.Project) string {
	found := map[string]bool{}
	var walk func(v reflect.Value, field string)
	walk = func(v reflect.Value, field string) {
		switch v.Kind() {
		case reflect.Ptr, reflect.Interface:
			if !v.IsNil() {
				walk(v.Elem(), field)
			}
		case reflect.Struct:
			t := v.Type()
			for i := 0; i < t.NumField(); i++ {
				if t.Field(i).IsExported() {
					walk(v.Field(i), t.Name()+"."+t.Field(i).Name)
				}
			}
		case reflect.Slice:
			if v.Type().Elem().Kind() == reflect.String {
				seen := map[string]bool{}
				for i := 0; i < v.Len(); i++ {
					if seen[v.Index(i).String()] {
						found[field] = true
					}
					seen[v.Index(i).String()] = true
				}
				return
			}
			for i := 0; i < v.Len(); i++ {
				walk(v.Index(i), field)
			}
		case reflect.Map:
			it := v.MapRange()
			for it.Next() {
				walk(it.Value(), field)
			}
		}
	}
	walk(reflect.ValueOf(p.Services), "Project.Services")
	var l []string
	for f := range found {
		l = append(l, f)
	}
	sort.Strings(l)
	if len(l) == 0 {
		return ""
	}
	return l[0]
}

func clip(s string, n int) string {
	if len(s) > n {
		return s[:n] + "…"
	}
	return s
}

var reKeyOfLine = regexp.MustCompile(`^\s*-?\s*"?([A-Za-z0-9_.#-]+)"?:`)

// firstDiffLine names the key of the first differing line (stable part of a rerender failure key).
func firstDiffLine(a, b string) string {
	la, lb := strings.Split(a, "\n"), strings.Split(b, "\n")
	for i := 0; i < len(la) && i < len(lb); i++ {
		if la[i] != lb[i] {
			if m := reKeyOfLine.FindStringSubmatch(la[i]); m != nil {
				return m[1]
			}
			return "line"
		}
	}
	return "length"
}

func judgeRoundTrip(args, real, _ json.RawMessage) *core.Verdict {
	if v := core.CrashVerdict(real); v != nil {
		return v
	}
	var o rtOut
	if err := json.Unmarshal(real, &o); err != nil {
		return core.Disagree("malformed oracle outcome")
	}
	if len(o.Covered) > 0 {
		c09CovMu.Lock()
		for _, f := range o.Covered {
			c09Cov[f] = true
		}
		c09CovMu.Unlock()
	}
	switch {
	case o.Skip != "":
		return core.Skip(o.Skip)
	case o.Fail != "":
		return core.Fail(o.Fail, o.What)
	}
	return nil
}

// the "c09raw" env_file format is registered by consumers (docker compose does); without a registered
// format the loader rejects every existing env_file that names one.
func init() {
	dotenv.RegisterFormat("c09raw", func(r io.Reader, _ string, _ func(string) (string, bool)) (map[string]string, error) {
		b, err := io.ReadAll(r)
		if err != nil {
			return nil, err
		}
		m := map[string]string{}
		for _, l := range strings.Split(string(b), "\n") {
			if k, v, ok := strings.Cut(l, "="); ok {
				m[k] = v
			}
		}
		return m, nil
	})
}

func init() {
	core.Register("c09.roundtrip", &core.CheckDef{Real: realRoundTrip, Judge: judgeRoundTrip, Timeout: 20 * time.Second})
	core.Register("c09.coverage", &core.CheckDef{Judge: func(args, _, _ json.RawMessage) *core.Verdict {
		var a struct {
			Uncovered []string `json:"uncovered"`
		}
		json.Unmarshal(args, &a)
		if len(a.Uncovered) > 0 {
			return core.Disagree("model fields never non-zero in any loaded project of this run (the generators no longer reach them): " + strings.Join(a.Uncovered, ", "))
		}
		return nil
	}})
}

// ---------------------------------------------------------------- generators

type c09Pool struct {
	Service map[string][]any `yaml:"service"`
	Network map[string][]any `yaml:"network"`
	Volume  map[string][]any `yaml:"volume"`
	Secret  map[string][]any `yaml:"secret"`
	Config  map[string][]any `yaml:"config"`
	Project map[string][]any `yaml:"project"`
}

func loadPool() *c09Pool {
	var p c09Pool
	if err := yaml.Unmarshal([]byte(c09PoolYAML), &p); err != nil {
		panic("c09 pool: " + err.Error())
	}
	return &p
}

func sortedKeys(m map[string][]any) []string {
	var l []string
	for k := range m {
		l = append(l, k)
	}
	sort.Strings(l)
	return l
}

// baseDoc is the fixed frame every generated document starts from.
func baseDoc() map[string]any {
	return map[string]any{
		"name": "c09",
		"services": map[string]any{
			"db": map[string]any{"image": "postgres"},
		},
		"networks": map[string]any{"n1": nil, "n2": map[string]any{}},
		"volumes":  map[string]any{"v1": nil},
		"secrets":  map[string]any{"s1": map[string]any{"file": "./secret_data"}, "s2": map[string]any{"environment": "SECRET_ENV"}},
		"configs":  map[string]any{"c1": map[string]any{"file": "./config_data"}, "c2": map[string]any{"content": "hello"}},
	}
}

type c09Mode struct {
	skipNorm, noPaths bool
	format            string
}

func allModes() []c09Mode {
	var l []c09Mode
	for _, f := range []string{"yaml", "json"} {
		for _, sn := range []bool{false, true} {
			for _, np := range []bool{false, true} {
				l = append(l, c09Mode{sn, np, f})
			}
		}
	}
	return l
}

func addDoc(ctx *core.Ctx, doc map[string]any, m c09Mode, focus string, profiles []string, nameOpt string) {
	b, err := json.Marshal(doc)
	if err != nil {
		panic(err)
	}
	ctx.Add("c09.roundtrip", rtArgs{Doc: b, Format: m.format, SkipNorm: m.skipNorm, NoPaths: m.noPaths, Focus: focus, Profiles: profiles, NameOpt: nameOpt})
}

func excluded(attrs map[string]any, k string) bool {
	for _, pair := range c09Exclusive {
		a, b := pair[0], pair[1]
		if b == "*" {
			if k == a && len(attrs) > 1 || (k != a && attrs[a] != nil) {
				return true
			}
			continue
		}
		if (k == a && attrs[b] != nil) || (k == b && attrs[a] != nil) {
			return true
		}
	}
	return false
}

func runC09Oracle(ctx *core.Ctx) {
	pool := loadPool()
	modes := allModes()
	// ---- 1. one attribute at a time, every alternative, every mode × format  (exhaustive over the pool)
	for _, k := range sortedKeys(pool.Service) {
		for i, alt := range pool.Service[k] {
			for _, m := range modes {
				doc := baseDoc()
				svc := map[string]any{"image": "busybox", k: core.DeepCopyVal(alt)}
				if k == "image" {
					delete(svc, "image")
					svc["image"] = alt
				}
				doc["services"].(map[string]any)["svc"] = svc
				var profiles []string
				if k == "profiles" {
					profiles = []string{"debug", "p1"}
				}
				ctx.Count("focus:service." + k)
				addDoc(ctx, doc, m, fmt.Sprintf("service.%s#%d", k, i), profiles, "")
			}
		}
	}
	top := []struct {
		sect string
		pool map[string][]any
	}{{"networks", pool.Network}, {"volumes", pool.Volume}, {"secrets", pool.Secret}, {"configs", pool.Config}}
	for _, t := range top {
		for _, k := range sortedKeys(t.pool) {
			for i, alt := range t.pool[k] {
				for _, m := range modes {
					doc := baseDoc()
					res := map[string]any{k: core.DeepCopyVal(alt)}
					if (t.sect == "secrets" || t.sect == "configs") && k != "file" && k != "environment" && k != "content" && k != "external" {
						res["file"] = "./secret_data"
					}
					doc[t.sect].(map[string]any)["res"] = res
					doc["services"].(map[string]any)["svc"] = map[string]any{"image": "busybox"}
					ctx.Count("focus:" + t.sect + "." + k)
					addDoc(ctx, doc, m, fmt.Sprintf("%s.%s#%d", t.sect, k, i), nil, "")
				}
			}
		}
	}
	for _, k := range sortedKeys(pool.Project) {
		for i, alt := range pool.Project[k] {
			for _, m := range modes {
				doc := baseDoc()
				doc[k] = core.DeepCopyVal(alt)
				doc["services"].(map[string]any)["svc"] = map[string]any{"image": "busybox"}
				ctx.Count("focus:project." + k)
				addDoc(ctx, doc, m, fmt.Sprintf("project.%s#%d", k, i), nil, "")
			}
		}
	}
	// project name given as an option, no name in the document
	for _, m := range modes {
		doc := baseDoc()
		delete(doc, "name")
		doc["services"].(map[string]any)["svc"] = map[string]any{"image": "busybox"}
		ctx.Count("focus:name-option")
		addDoc(ctx, doc, m, "name-option", nil, "given-name")
	}
	// ---- 2. seeded random combinations
	n := ctx.Pick(100, 15000)
	svcKeys := sortedKeys(pool.Service)
	for i := 0; i < n; i++ {
		doc := baseDoc()
		nsvc := 1 + ctx.Rng.Intn(3)
		density := []float64{0.05, 0.15, 0.4, 0.9}[ctx.Rng.Intn(4)]
		var profiles []string
		for s := 0; s < nsvc; s++ {
			attrs := map[string]any{"image": "busybox"}
			for _, k := range svcKeys {
				if ctx.Rng.Float64() >= density || excluded(attrs, k) {
					continue
				}
				alts := pool.Service[k]
				attrs[k] = core.DeepCopyVal(alts[ctx.Rng.Intn(len(alts))])
			}
			if _, ok := attrs["profiles"]; ok && ctx.Rng.Intn(2) == 0 {
				profiles = []string{"debug", "p2"}
			}
			doc["services"].(map[string]any)[fmt.Sprintf("s%d", s)] = attrs
		}
		for _, t := range top {
			nres := ctx.Rng.Intn(3)
			for r := 0; r < nres; r++ {
				res := map[string]any{}
				for _, k := range sortedKeys(t.pool) {
					if ctx.Rng.Float64() < density {
						alts := t.pool[k]
						res[k] = core.DeepCopyVal(alts[ctx.Rng.Intn(len(alts))])
					}
				}
				if t.sect == "secrets" || t.sect == "configs" {
					_, f := res["file"]
					_, e := res["environment"]
					_, c := res["content"]
					_, x := res["external"]
					if !f && !e && !c && !x {
						res["file"] = "./secret_data"
					}
				}
				doc[t.sect].(map[string]any)[fmt.Sprintf("r%d", r)] = res
			}
		}
		for _, k := range sortedKeys(pool.Project) {
			if ctx.Rng.Float64() < density {
				alts := pool.Project[k]
				doc[k] = core.DeepCopyVal(alts[ctx.Rng.Intn(len(alts))])
			}
		}
		m := modes[ctx.Rng.Intn(len(modes))]
		ctx.Count(fmt.Sprintf("random:density=%.2f", density))
		ctx.Count("random:format=" + m.format)
		addDoc(ctx, doc, m, "random", profiles, "")
	}
	// ---- 2b. round 6: the same entity spelled twice (one file / merged files / extends); histories of renderings
	runC09Twice(ctx)
	runC09History(ctx)
	ctx.Wait()
	// ---- 3. coverage of the model types by the projects loaded above
	var uncovered []string
	c09CovMu.Lock()
	for _, f := range allModelFields() {
		if !c09Cov[f] {
			if _, ok := c09Unreachable[f]; !ok {
				uncovered = append(uncovered, f)
			}
		}
	}
	ncov := len(c09Cov)
	c09CovMu.Unlock()
	ctx.Note("coverage: %d model fields non-zero in some loaded project; %d fields are unreachable by any schema-valid file; uncovered: %v", ncov, len(c09Unreachable), uncovered)
	ctx.Add("c09.coverage", map[string]any{"uncovered": uncovered})
}
