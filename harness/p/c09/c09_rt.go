package c09

// C09 — the composition the generic round-trip theorem speaks about, on the real code:
//
//	c09.rt {type, fmt, v}   real: the typed value v rendered by yaml.v3 / encoding/json, read back by the YAML parser and
//	                        decoded by loader.Transform into a fresh value; model: Decode.decode (Encode.encode v)
//
// The judge demands (1) that both sides agree on the outcome and on the value that comes back, and (2) that every value
// the Lean classifier places inside the scope of `generic_roundtrip_fmt` over `C09.leavesNoEnvSSH` (`inscope`: plainB of the
// type, stableB of the value) really comes back **unchanged** on the real code — the theorem's conclusion, observed.  The
// distribution records how many generated values are in scope, per type.

import (
	"encoding/json"
	"reflect"
	"sort"

	"github.com/compose-spec/compose-go/v2/loader"
	"gopkg.in/yaml.v3"
	"verifharness/core"
)

func realRT(raw json.RawMessage) any {
	var a corrArgs
	if err := json.Unmarshal(raw, &a); err != nil {
		return map[string]any{"bad": "args"}
	}
	t := modelStructs()[a.Type]
	if t == nil {
		return map[string]any{"bad": "unknown type " + a.Type}
	}
	v, err := fillVal(t, core.DecodeVal(a.V))
	if err != nil {
		return map[string]any{"bad": err.Error()}
	}
	p := reflect.New(t)
	p.Elem().Set(v)
	var b []byte
	if a.Fmt == "json" {
		b, err = json.Marshal(p.Interface())
	} else {
		b, err = yaml.Marshal(p.Interface())
	}
	if err != nil {
		return map[string]any{"err": "marshal", "text": err.Error()}
	}
	var tree any
	if err := yaml.Unmarshal(b, &tree); err != nil {
		return map[string]any{"err": "unreadable", "text": err.Error()}
	}
	q := reflect.New(t)
	if err := loader.Transform(normAny(tree), q.Interface()); err != nil {
		return map[string]any{"err": decodeErrClass(a.Type, err)}
	}
	return map[string]any{"ok": core.EncodeVal(typedVal(q.Elem()))}
}

var c09RTScope = map[string]int{}

func judgeRT(args, real, drv json.RawMessage) *core.Verdict {
	var a struct {
		Type string          `json:"type"`
		V    json.RawMessage `json:"v"`
	}
	json.Unmarshal(args, &a)
	var d, r map[string]json.RawMessage
	if json.Unmarshal(drv, &d) != nil || json.Unmarshal(real, &r) != nil {
		return core.Disagree("round trip: malformed exchange")
	}
	inScope := string(d["inscope"]) == "true"
	delete(d, "inscope")
	if inScope {
		c09CovMu.Lock()
		c09RTScope[a.Type]++
		c09CovMu.Unlock()
		// the theorem's conclusion on the real code
		if ok, has := r["ok"]; !has || !core.CanonEqual(ok, a.V) {
			return core.Disagree("round trip: a value inside the scope of generic_roundtrip_fmt does not reload to itself on the real code")
		}
		if ok, has := d["ok"]; !has || !core.CanonEqual(ok, a.V) {
			return core.Disagree("round trip: the classifier places a value in scope on which the model's own round trip is not the identity")
		}
	}
	dj, _ := json.Marshal(d)
	return judgeCorr("round trip")(args, real, dj)
}

func init() {
	core.Register("c09.rt", &core.CheckDef{Real: realRT, DriverOp: "c09.rt", Judge: judgeRT})
}

// rtSkip: types whose reload needs a stage outside the decode model (canonicalisation), raw extension maps
var c09RTSkip = map[string]bool{"SSHKey": true, "SSHConfig": true, "EnvFile": true, "Extensions": true}

func runC09RT(ctx *core.Ctx) {
	ms := modelStructs()
	var names []string
	for n := range ms {
		if !c09RTSkip[n] && n != "Project" {
			names = append(names, n)
		}
	}
	sort.Strings(names)
	add := func(n string, v reflect.Value, kind string) {
		stripSkippedWith(v, c09RTSkip)
		for _, f := range []string{"yaml", "json"} {
			ctx.Count("rt:" + kind)
			ctx.Add("c09.rt", corrArgs{Type: n, Fmt: f, V: core.EncodeVal(typedVal(v))})
		}
	}
	for _, n := range names {
		add(n, reflect.New(ms[n]).Elem(), "zero")
		add(n, populate(ctx.Rng, ms[n], 4, 0), "full")
		t := ms[n]
		for i := 0; i < t.NumField(); i++ {
			if rendered(t.Field(i)) {
				v := reflect.New(t).Elem()
				v.Field(i).Set(populate(ctx.Rng, t.Field(i).Type, 3, 0))
				add(n, v, "one-field")
			}
		}
	}
	for i, k := 0, ctx.Pick(500, 30000); i < k; i++ {
		n := names[ctx.Rng.Intn(len(names))]
		if ctx.Rng.Intn(4) == 0 {
			n = []string{"ServiceConfig", "BuildConfig", "DeployConfig", "NetworkConfig"}[ctx.Rng.Intn(4)]
		}
		add(n, populate(ctx.Rng, ms[n], 2+ctx.Rng.Intn(3), []float64{0.2, 0.5, 0.8}[ctx.Rng.Intn(3)]), "random")
	}
	ctx.Wait()
	c09CovMu.Lock()
	total := 0
	for _, c := range c09RTScope {
		total += c
	}
	ctx.Note("c09.rt: %d generated values inside the scope of the generic round-trip theorem (all reload to themselves on the real code), by type: %v", total, c09RTScope)
	c09CovMu.Unlock()
}
