package c12

// C12, round 6 — SEVERAL nested loads in one load, with remote resource loaders registered (and never used).
//
// `c12.load` observes one attribute that reaches the project through ONE chain of include / extends levels.  The
// per-origin clause of the property is about every file of a project at once: a main file that includes files from
// several directories, whose services extend services of files in yet other directories, an included "hub" file that
// does the same one level down.  Every nested load derives its own resource-loader list from the parent's
// (`append(opts.RemoteResourceLoaders(), localResourceLoader{dir})` in ApplyInclude and getExtendsBaseFromFile), so
// what one nested load does to that list is visible to the next one only through aliasing on the real heap — and
// only when remote loaders are registered (the list is empty otherwise) and at least two nested loads follow each
// other.  This stream produces that class: 0..3 registered remote loaders × spare capacity in the caller's slice ×
// 2..5 units {include, extends, include inside an included hub, extends inside the hub} in distinct directories ×
// reference written relative / absolute × attribute × written value × resolution on/off.
//
// Observations on the real code:
//   * every unit's path attribute against the SPECIFICATION with the directory of the unit's own file as base, and
//     against the Lean model of the origin logic (`Paths.predict` with the unit's own chain — `Loaders.siblings_*`
//     say that the chain of a unit does not depend on its siblings);
//   * aliasing: after the load the caller's `Options.ResourceLoaders` is what the caller registered followed by the
//     local loader of the project directory (the options value is captured through the public option function), and
//     the caller's own slice — spare capacity included — is what it was when the loader took it over.

import (
	"context"
	"encoding/json"
	"fmt"
	"os"
	"path/filepath"
	"sort"
	"strings"
	"time"

	"github.com/compose-spec/compose-go/v2/loader"
	"github.com/compose-spec/compose-go/v2/types"

	"verifharness/core"
)

type multiUnit struct {
	Via  string `json:"via"` // incl | ext | hub-incl | hub-ext
	Dir  string `json:"dir"` // directory of the unit's file, relative to the directory of the referring file
	Abs  bool   `json:"abs,omitempty"`
	Attr string `json:"attr"`
	S    string `json:"s"`
}

type multiArgs struct {
	Remotes  int         `json:"remotes"`
	Spare    int         `json:"spare,omitempty"`
	Units    []multiUnit `json:"units"`
	Hub      string      `json:"hub,omitempty"`       // directory of the hub file (relative to the project directory)
	HubAbs   bool        `json:"hub_abs,omitempty"`   // the hub is referenced by an absolute path
	HubFirst bool        `json:"hub_first,omitempty"` // the hub entry precedes the other include entries
	Wd       string      `json:"wd"`
	Off      bool        `json:"off,omitempty"`
	Model    bool        `json:"model,omitempty"` // second entry point: loader.LoadModelWithContext (the dictionary), not LoadWithContext
	Shared   *multiShared `json:"shared,omitempty"` // round 7: ONE file reached several times in one load, along different routes
	Twice    *multiTwice  `json:"twice,omitempty"`  // round 7: ONE file included several times in one load
}

// one file (a library of services) listed by several `include` sections of one load: the main file's, the hub's, both,
// or twice in one list.  The definitions are identical, so the project is valid; the paths are anchored on the file's directory.
type multiTwice struct {
	Dir    string   `json:"dir"` // relative to the project directory
	Attr   string   `json:"attr"`
	S      string   `json:"s"`
	Routes []string `json:"routes"` // main | hub, in order
}

// round 7 — the SAME file is the `extends.file` target of several services of one load, which live in files of
// different (or the same) directories and are reached along different routes: a service of the main file, of an included
// file, of the hub, of a file included by the hub.  Whatever the route and whoever came first, the inherited relative
// paths are anchored on the directory of the file that declares them.  With `Chain` the shared file's service itself
// extends a service of a second file (in `Chain`, relative to the shared file's directory) which carries the attribute.
type multiShared struct {
	Dir   string       `json:"dir"` // directory of the shared file, relative to the project directory
	Attr  string       `json:"attr"`
	S     string       `json:"s"`
	Chain string       `json:"chain,omitempty"`
	Users []sharedUser `json:"users"`
}

type sharedUser struct {
	Route string `json:"route"`         // main | incl | hub | hub-incl : the file the extending service lives in
	Dir   string `json:"dir,omitempty"` // directory of that file (incl: relative to the project directory, hub-incl: to the hub's)
	Abs   bool   `json:"abs,omitempty"` // extends.file written absolute
}

// a registered remote loader: accepts only its own scheme, which no input uses
type c12Remote struct{ id int }

func (r c12Remote) Accept(p string) bool {
	return strings.HasPrefix(p, fmt.Sprintf("c12remote%d://", r.id))
}
func (r c12Remote) Load(_ context.Context, _ string) (string, error) { return "", os.ErrNotExist }
func (r c12Remote) Dir(p string) string                             { return filepath.Dir(p) }

func renderLoaders(l []loader.ResourceLoader) []string {
	out := make([]string, 0, cap(l))
	for _, x := range l[:cap(l)] {
		if x == nil {
			out = append(out, "nil")
			continue
		}
		out = append(out, fmt.Sprintf("%T%+v", x, x))
	}
	return out
}

const c12RootMark = "@@C12ROOT@@"

// carrierN = carrier with the top-level resource renamed per unit
func carrierN(attr, s string, i int) (svc map[string]any, top map[string]any, kind string) {
	svc, top0, kind := carrier(attr, s)
	top = map[string]any{}
	for sect, m := range top0 {
		mm := map[string]any{}
		for k, v := range m.(map[string]any) {
			mm[fmt.Sprintf("%s%d", k, i)] = v
		}
		top[sect] = mm
	}
	return
}

func c12ExtractN(p map[string]any, attr string, i int) (any, map[string]any) {
	q := map[string]any{"services": map[string]any{}}
	if ss, ok := p["services"].(map[string]any); ok {
		q["services"] = map[string]any{"svc": ss[fmt.Sprintf("svc%d", i)]}
	}
	for _, sect := range []string{"secrets", "configs", "volumes"} {
		if m, ok := p[sect].(map[string]any); ok {
			mm := map[string]any{}
			for _, k := range []string{"s", "c", "v"} {
				if v, ok := m[fmt.Sprintf("%s%d", k, i)]; ok {
					mm[k] = v
				}
			}
			q[sect] = mm
		}
	}
	return c12Extract(q, attr)
}

type multiObs struct {
	c12Obs
	Frame map[string]any   `json:"frame,omitempty"` // non-path attributes of the unit's service, as loaded
	Via   string           `json:"via"`
	Steps []map[string]any `json:"steps"`
}

type multiScenario struct {
	files map[string]string
	obs   []multiObs
}

func buildMulti(a multiArgs) (*multiScenario, string) {
	sc := &multiScenario{files: map[string]string{}}
	j := filepath.Join
	proj := c12Clean
	put := func(rel string, doc map[string]any) { sc.files[rel] = mustJSONText(doc) }
	ref := func(parentDir, dir, file string, abs bool) string {
		if abs {
			return c12RootMark + "/" + j(proj, parentDir, dir, file)
		}
		return j(dir, file)
	}
	mainIncl, hubIncl := []any{}, []any{}
	mainSvcs := map[string]any{"main": map[string]any{"image": "m"}}
	hubSvcs := map[string]any{"hubsvc": map[string]any{"image": "h"}}
	hubRef := ref("", a.Hub, "hub.yaml", a.HubAbs)
	needHub := false
	seen := map[string]bool{}
	for i, u := range a.Units {
		if topLevel(u.Attr) && strings.HasSuffix(u.Via, "ext") {
			return nil, "top-level attributes are not inherited through extends"
		}
		if u.Attr == "label_file" {
			return nil, "label files are read by the loader"
		}
		svc, top, kind := carrierN(u.Attr, u.S, i)
		name := u.Attr
		if name == "volumes.short" {
			if !shortOK(u.S) {
				return nil, "not a bind mount in the short syntax"
			}
			name = "volumes.bind.source"
		}
		parent := ""
		if strings.HasPrefix(u.Via, "hub-") {
			parent, needHub = a.Hub, true
		}
		file := fmt.Sprintf("u%d.yaml", i)
		rel := j(proj, parent, u.Dir, file)
		if seen[j(parent, u.Dir)] {
			return nil, "two units in one directory"
		}
		seen[j(parent, u.Dir)] = true
		r := ref(parent, u.Dir, file, u.Abs)
		sname := fmt.Sprintf("svc%d", i)
		var steps []map[string]any
		switch u.Via {
		case "incl":
			mainIncl = append(mainIncl, r)
			put(rel, merge(map[string]any{"services": map[string]any{sname: svc}}, top))
			steps = []map[string]any{{"incl": r}}
		case "ext":
			mainSvcs[sname] = map[string]any{"extends": map[string]any{"file": r, "service": "b"}}
			put(rel, map[string]any{"services": map[string]any{"b": svc}})
			steps = []map[string]any{{"ext": r}}
		case "hub-incl":
			hubIncl = append(hubIncl, r)
			put(rel, merge(map[string]any{"services": map[string]any{sname: svc}}, top))
			steps = []map[string]any{{"incl": hubRef}, {"incl": r}}
		case "hub-ext":
			hubSvcs[sname] = map[string]any{"extends": map[string]any{"file": r, "service": "b"}}
			put(rel, map[string]any{"services": map[string]any{"b": svc}})
			steps = []map[string]any{{"incl": hubRef}, {"ext": r}}
		default:
			return nil, "unknown via"
		}
		base := a.Wd + "/" + j(parent, u.Dir)
		sc.obs = append(sc.obs, multiObs{c12Obs: c12Obs{Name: name, Kind: kind, S: u.S, Base: base, RelBase: j(parent, u.Dir)}, Via: u.Via, Steps: steps})
	}
	if sh := a.Shared; sh != nil {
		if topLevel(sh.Attr) || sh.Attr == "label_file" {
			return nil, "shared: not an attribute inherited through extends"
		}
		if sh.Attr == "volumes.short" && !shortOK(sh.S) {
			return nil, "not a bind mount in the short syntax"
		}
		name := sh.Attr
		if name == "volumes.short" {
			name = "volumes.bind.source"
		}
		svc, _, kind := carrier(sh.Attr, sh.S)
		declDir := sh.Dir // directory of the file that declares the attribute
		var tail []map[string]any
		if sh.Chain != "" {
			declDir = j(sh.Dir, sh.Chain)
			r2 := j(sh.Chain, "base2.yaml")
			put(j(proj, sh.Dir, "base.yaml"), map[string]any{"services": map[string]any{"b": map[string]any{"extends": map[string]any{"file": r2, "service": "b2"}}}})
			put(j(proj, declDir, "base2.yaml"), map[string]any{"services": map[string]any{"b2": svc}})
			tail = []map[string]any{{"ext": r2}}
		} else {
			put(j(proj, sh.Dir, "base.yaml"), map[string]any{"services": map[string]any{"b": svc}})
		}
		perFile := map[string]map[string]any{} // user files (several users may live in one file)
		for k, u := range sh.Users {
			sname := fmt.Sprintf("svc%d", len(a.Units)+k)
			userDir := "" // directory of the user's file, relative to the project directory
			var steps []map[string]any
			switch u.Route {
			case "main":
			case "hub":
				userDir, needHub = a.Hub, true
				steps = []map[string]any{{"incl": hubRef}}
			case "incl":
				userDir = u.Dir
			case "hub-incl":
				userDir, needHub = j(a.Hub, u.Dir), true
			default:
				return nil, "unknown route"
			}
			rr, err := filepath.Rel(j("/r", proj, userDir), j("/r", proj, sh.Dir, "base.yaml"))
			if err != nil {
				return nil, "shared: no relative reference"
			}
			r := rr
			if u.Abs {
				r = c12RootMark + "/" + j(proj, sh.Dir, "base.yaml")
			}
			// without resolution the value stays relative to the project directory, spelled along the route that was
			// taken: a user outside the project directory reaches the file as ../proj/<dir> (the same directory)
			relDecl := j(userDir, filepath.Dir(rr), sh.Chain)
			ext := map[string]any{"extends": map[string]any{"file": r, "service": "b"}}
			switch u.Route {
			case "main":
				mainSvcs[sname] = ext
			case "hub":
				hubSvcs[sname] = ext
			case "incl", "hub-incl":
				rel := j(proj, userDir, "su.yaml")
				if perFile[rel] == nil {
					perFile[rel] = map[string]any{}
					ir := j(u.Dir, "su.yaml")
					if u.Route == "incl" {
						mainIncl = append(mainIncl, ir)
					} else {
						hubIncl = append(hubIncl, ir)
					}
				}
				perFile[rel][sname] = ext
				if u.Route == "incl" {
					steps = []map[string]any{{"incl": j(u.Dir, "su.yaml")}}
				} else {
					steps = []map[string]any{{"incl": hubRef}, {"incl": j(u.Dir, "su.yaml")}}
				}
			}
			steps = append(append(steps, map[string]any{"ext": r}), tail...)
			sc.obs = append(sc.obs, multiObs{c12Obs: c12Obs{Name: name, Kind: kind, S: sh.S, Base: a.Wd + "/" + declDir, RelBase: relDecl},
				Via: "shared:" + u.Route, Steps: steps})
		}
		for rel, svcs := range perFile {
			put(rel, map[string]any{"services": svcs})
		}
	}
	if tw := a.Twice; tw != nil {
		if a.Off {
			return nil, "twice: without resolution every route spells the directory its own way"
		}
		if tw.Attr == "label_file" || (tw.Attr == "volumes.short" && !shortOK(tw.S)) {
			return nil, "twice: attribute not usable"
		}
		n := len(sc.obs)
		svc, top, kind := carrierN(tw.Attr, tw.S, n)
		name := tw.Attr
		if name == "volumes.short" {
			name = "volumes.bind.source"
		}
		put(j(proj, tw.Dir, "lib.yaml"), merge(map[string]any{"services": map[string]any{fmt.Sprintf("svc%d", n): svc}}, top))
		var steps []map[string]any
		for _, rt := range tw.Routes {
			switch rt {
			case "main":
				r := j(tw.Dir, "lib.yaml")
				mainIncl = append(mainIncl, r)
				steps = []map[string]any{{"incl": r}}
			case "hub":
				r, err := filepath.Rel(j("/r", proj, a.Hub), j("/r", proj, tw.Dir, "lib.yaml"))
				if err != nil {
					return nil, "twice: no relative reference"
				}
				hubIncl, needHub = append(hubIncl, r), true
				if steps == nil {
					steps = []map[string]any{{"incl": hubRef}, {"incl": r}}
				}
			default:
				return nil, "unknown route"
			}
		}
		sc.obs = append(sc.obs, multiObs{c12Obs: c12Obs{Name: name, Kind: kind, S: tw.S, Base: a.Wd + "/" + tw.Dir, RelBase: tw.Dir}, Via: "twice", Steps: steps})
	}
	if needHub {
		if seen[j(a.Hub)] {
			return nil, "hub shares a directory with a unit"
		}
		hub := map[string]any{"services": hubSvcs}
		if len(hubIncl) > 0 {
			hub["include"] = hubIncl
		}
		put(j(proj, a.Hub, "hub.yaml"), hub)
		if a.HubFirst {
			mainIncl = append([]any{hubRef}, mainIncl...)
		} else {
			mainIncl = append(mainIncl, hubRef)
		}
	}
	main := map[string]any{"services": mainSvcs}
	if len(mainIncl) > 0 {
		main["include"] = mainIncl
	}
	put(j(proj, "compose.yaml"), main)
	return sc, ""
}

func realMulti(raw json.RawMessage) any {
	var a multiArgs
	json.Unmarshal(raw, &a)
	sc, why := buildMulti(a)
	if sc == nil {
		return map[string]any{"bad": why}
	}
	root, err := core.Materialize(map[string]string{})
	defer os.RemoveAll(root)
	if err != nil {
		return map[string]any{"bad": "materialize: " + err.Error()}
	}
	names := make([]string, 0, len(sc.files))
	for n := range sc.files {
		names = append(names, n)
	}
	sort.Strings(names)
	for _, n := range names {
		p := filepath.Join(root, n)
		os.MkdirAll(filepath.Dir(p), 0o755)
		if err := os.WriteFile(p, []byte(strings.ReplaceAll(sc.files[n], c12RootMark, root)), 0o644); err != nil {
			return map[string]any{"bad": "write: " + err.Error()}
		}
	}
	for i := range sc.obs {
		for _, st := range sc.obs[i].Steps {
			for k, v := range st {
				st[k] = strings.ReplaceAll(v.(string), c12RootMark, root)
			}
		}
	}
	home := filepath.Join(root, "home")
	os.MkdirAll(home, 0o755)
	defer c12DecoyCwd(filepath.Join(root, a.Wd))()
	if old, had := os.LookupEnv("HOME"); had {
		defer os.Setenv("HOME", old)
	} else {
		defer os.Unsetenv("HOME")
	}
	os.Setenv("HOME", home)
	details := types.ConfigDetails{WorkingDir: root + "/" + a.Wd, ConfigFiles: []types.ConfigFile{{Filename: filepath.Join(root, c12Clean, "compose.yaml")}}, Environment: map[string]string{}}
	dirs := allDirs(root)
	// the caller's slice: `Remotes` loaders, `Spare` unused slots behind them
	var mine []loader.ResourceLoader
	if a.Remotes > 0 || a.Spare > 0 {
		mine = make([]loader.ResourceLoader, 0, a.Remotes+a.Spare)
		for i := 0; i < a.Remotes; i++ {
			mine = append(mine, c12Remote{i + 1})
		}
	}
	var captured *loader.Options
	optFn := func(o *loader.Options) {
		o.SetProjectName("c12", true)
		o.ResolvePaths = !a.Off
		o.SkipConsistencyCheck = true
		o.SkipResolveEnvironment = true
		o.ResourceLoaders = mine
		captured = o
	}
	var p *types.Project
	var dict map[string]any
	if a.Model {
		dict, err = loader.LoadModelWithContext(context.Background(), details, optFn)
	} else {
		p, err = loader.LoadWithContext(context.Background(), details, optFn)
	}
	// aliasing: what the options / the caller's slice hold after the load, and what they must hold
	wantOpts := []string{}
	for i := 0; i < a.Remotes; i++ {
		wantOpts = append(wantOpts, fmt.Sprintf("%T%+v", c12Remote{i + 1}, c12Remote{i + 1}))
	}
	wantLocal := "loader.localResourceLoader{WorkingDir:" + details.WorkingDir + "}"
	wantOpts = append(wantOpts, wantLocal)
	wantMine := append([]string{}, wantOpts[:a.Remotes]...)
	for i := 0; i < a.Spare; i++ {
		if i == 0 {
			wantMine = append(wantMine, wantLocal) // ToOptions appends the local loader into the first spare slot
		} else {
			wantMine = append(wantMine, "nil")
		}
	}
	alias := map[string]any{"want_opts": wantOpts, "want_mine": wantMine, "mine": renderLoaders(mine)}
	if captured != nil {
		got := renderLoaders(captured.ResourceLoaders)
		if len(got) > len(captured.ResourceLoaders) {
			alias["opts_spare"] = got[len(captured.ResourceLoaders):]
			got = got[:len(captured.ResourceLoaders)]
		}
		alias["opts"] = got
	}
	scrub := func(v any) any {
		b, _ := json.Marshal(v)
		var w any
		json.Unmarshal([]byte(strings.ReplaceAll(string(b), root, "$ROOT")), &w)
		return w
	}
	if err != nil {
		return map[string]any{"err": core.ScrubErr(err, root), "root": root, "home": home, "obs": sc.obs, "alias": scrub(alias)}
	}
	var tree map[string]any
	if a.Model {
		// the dictionary as the loader returns it, through JSON so that every container is generic
		b, err := json.Marshal(dict)
		if err != nil {
			return map[string]any{"bad": "marshal: " + err.Error()}
		}
		json.Unmarshal(b, &tree)
	} else {
		b, err := p.MarshalJSON()
		if err != nil {
			return map[string]any{"bad": "marshal: " + err.Error()}
		}
		json.Unmarshal(b, &tree)
	}
	for i, u := range a.Units {
		sc.obs[i].Got, sc.obs[i].Frame = c12ExtractN(tree, u.Attr, i)
	}
	if sh := a.Shared; sh != nil {
		for k := range sh.Users {
			i := len(a.Units) + k
			sc.obs[i].Got, sc.obs[i].Frame = c12ExtractN(tree, sh.Attr, i)
		}
	}
	if tw := a.Twice; tw != nil {
		i := len(sc.obs) - 1
		sc.obs[i].Got, sc.obs[i].Frame = c12ExtractN(tree, tw.Attr, i)
	}
	return map[string]any{"root": root, "home": home, "obs": sc.obs, "dirs": dirs, "wd": details.WorkingDir, "alias": scrub(alias)}
}

type multiReal struct {
	Dirs  []string   `json:"dirs"`
	Wd    string     `json:"wd"`
	Root  string     `json:"root"`
	Home  string     `json:"home"`
	Obs   []multiObs `json:"obs"`
	Err   string     `json:"err"`
	Bad   string     `json:"bad"`
	Alias struct {
		WantOpts []string `json:"want_opts"`
		WantMine []string `json:"want_mine"`
		Mine     []string `json:"mine"`
		Opts     []string `json:"opts"`
	} `json:"alias"`
}

func sameStrings(a, b []string) bool {
	if len(a) != len(b) {
		return false
	}
	for i := range a {
		if a[i] != b[i] {
			return false
		}
	}
	return true
}

func init() {
	core.Register("c12.multi", &core.CheckDef{
		Real:     realMulti,
		DriverOp: "c12.specs",
		Timeout:  90 * time.Second,
		DriverArgs: func(args, real json.RawMessage) any {
			var r multiReal
			json.Unmarshal(real, &r)
			var a multiArgs
			json.Unmarshal(args, &a)
			items := []any{}
			for _, o := range r.Obs {
				wd := r.Root + "/" + o.Base
				if a.Off {
					wd = o.RelBase
				}
				item := map[string]any{"kind": o.Kind, "wd": wd, "home": r.Home, "s": o.S}
				if r.Wd != "" {
					item["model"] = map[string]any{"kind": o.Kind, "wd": r.Wd, "home": r.Home, "s": o.S, "final": !a.Off, "dirs": r.Dirs, "steps": o.Steps}
				}
				items = append(items, item)
			}
			return map[string]any{"items": items}
		},
		Judge: func(args, real, drv json.RawMessage) *core.Verdict {
			if v := core.CrashVerdict(real); v != nil {
				return v
			}
			var a multiArgs
			json.Unmarshal(args, &a)
			var r multiReal
			var d []struct {
				Want  *string `json:"want"`
				Model *struct {
					Ok  *string `json:"ok"`
					Err string  `json:"err"`
				} `json:"model"`
			}
			if json.Unmarshal(real, &r) != nil || json.Unmarshal(drv, &d) != nil {
				return core.Disagree("malformed multi-load exchange")
			}
			if r.Bad != "" {
				return core.Skip(r.Bad)
			}
			if len(d) != len(r.Obs) {
				return core.Disagree("spec answered a different number of questions")
			}
			mode := "on"
			if a.Off {
				mode = "off"
			}
			shape := fmt.Sprintf("%d remote loader(s), %d spare, units %s", a.Remotes, a.Spare, multiShape(a))
			if r.Err != "" {
				return core.Fail("multi-load-error:"+mode, fmt.Sprintf("a valid project (%s) is rejected: %s", shape, r.Err))
			}
			var tie *core.Verdict
			for i, o := range r.Obs {
				got, _ := o.Got.(string)
				if m := d[i].Model; m != nil && tie == nil {
					if m.Ok == nil || o.Got == nil || *m.Ok != got {
						tie = core.Disagree(fmt.Sprintf("Paths.predict ≠ loader: unit %d (%s) %s=%q: project has %v, the model predicts %v %s", i, o.Via, o.Name, o.S, o.Got, m.Ok, m.Err))
					}
				}
				if d[i].Want == nil {
					continue
				}
				if o.Got == nil || got != *d[i].Want {
					return core.Fail(fmt.Sprintf("multi:%s:%s:%s", mode, o.Via, o.Name),
						fmt.Sprintf("unit %d (%s, dir %q) %s=%q (%s, resolution %s): project has %v, the property says %q", i, o.Via, multiDirOf(a, i), o.Name, o.S, shape, mode, o.Got, *d[i].Want))
				}
			}
			// frame: the non-path attributes of every unit come out as written, whatever the neighbours are
			wantFrame := map[string]string{"image": "./img", "working_dir": "./wd", "command": "./run", "dockerfile": "./Dockerfile", "named": "named"}
			for i, o := range r.Obs {
				ks := make([]string, 0, len(o.Frame))
				for k := range o.Frame {
					ks = append(ks, k)
				}
				sort.Strings(ks)
				for _, k := range ks {
					if s, _ := o.Frame[k].(string); s != wantFrame[k] {
						return core.Fail("multi-frame:"+k, fmt.Sprintf("unit %d (%s): non-path attribute %s was rewritten to %v (%s)", i, o.Via, k, o.Frame[k], shape))
					}
				}
			}
			if !sameStrings(r.Alias.Opts, r.Alias.WantOpts) {
				return core.Fail("alias:options-resource-loaders-changed", fmt.Sprintf("after the load (%s) Options.ResourceLoaders is %v, the caller registered %v", shape, r.Alias.Opts, r.Alias.WantOpts))
			}
			if !sameStrings(r.Alias.Mine, r.Alias.WantMine) {
				return core.Fail("alias:caller-slice-changed", fmt.Sprintf("after the load (%s) the caller's loader slice (with its spare capacity) is %v, expected %v", shape, r.Alias.Mine, r.Alias.WantMine))
			}
			return tie
		},
	})
}

func multiShape(a multiArgs) string {
	var l []string
	for _, u := range a.Units {
		s := u.Via
		if u.Abs {
			s += "(abs)"
		}
		l = append(l, s)
	}
	if sh := a.Shared; sh != nil {
		var us []string
		for _, u := range sh.Users {
			s := u.Route
			if u.Dir != "" {
				s += ":" + u.Dir
			}
			if u.Abs {
				s += "(abs)"
			}
			us = append(us, s)
		}
		s := fmt.Sprintf("; file %s/base.yaml extended by [%s]", sh.Dir, strings.Join(us, ","))
		if sh.Chain != "" {
			s += " and itself extending " + sh.Chain + "/base2.yaml"
		}
		l = append(l, s)
	}
	if tw := a.Twice; tw != nil {
		l = append(l, fmt.Sprintf("; file %s/lib.yaml included from [%s]", tw.Dir, strings.Join(tw.Routes, ",")))
	}
	return strings.Join(l, ",")
}

func multiDirOf(a multiArgs, i int) string {
	if i < len(a.Units) {
		return a.Units[i].Dir
	}
	if sh := a.Shared; sh != nil && i-len(a.Units) < len(sh.Users) {
		if sh.Chain != "" {
			return filepath.Join(sh.Dir, sh.Chain)
		}
		return sh.Dir
	}
	if a.Twice != nil {
		return a.Twice.Dir
	}
	return "?"
}

var c12MultiAttrs = []string{"build.context", "build.additional_contexts", "env_file.path", "develop.watch.path",
	"volumes.bind.source", "volumes.short", "secrets.file", "configs.file", "volumes.driver_opts.device"}
var c12MultiShapes = []string{"./x", "../x", "x/y", ".", "~/x", "/vabs", "..", "a//b/", "C:\\x", "https://h/x.git"}
var c12MultiDirs = []string{"a", "b/c", "../sib", "d", "e/f/g", "../sib2/h"}
var c12MultiPatterns = [][]string{
	{"incl", "incl"}, {"incl", "incl", "incl"}, {"ext", "ext"}, {"ext", "ext", "ext"}, {"incl", "ext"}, {"ext", "incl", "ext", "incl"},
	{"hub-incl", "hub-incl"}, {"hub-ext", "hub-ext"}, {"hub-incl", "hub-ext", "hub-incl"}, {"incl", "hub-incl"}, {"hub-ext", "ext"},
	{"incl", "hub-incl", "ext", "hub-ext"}, {"incl", "hub-ext", "incl"}, {"incl"}, {"ext"}, {"hub-incl"}, {"hub-ext"},
}

var c12TwiceDirs = []string{"lib", "l/ib", "../libsib"}
var c12TwiceRoutes = [][]string{{"main", "hub"}, {"hub", "main"}, {"main", "main"}, {"hub", "hub"}, {"main", "hub", "main"}, {"main"}, {"hub"}}
var c12SharedDirs = []string{"shared", "x/shared", "../sharedsib"}
var c12SharedPatterns = [][]sharedUser{
	{{Route: "main"}, {Route: "incl", Dir: "a"}}, {{Route: "incl", Dir: "b/c"}, {Route: "main"}}, {{Route: "main"}, {Route: "main"}},
	{{Route: "incl", Dir: "a"}, {Route: "incl", Dir: "a"}}, {{Route: "incl", Dir: "a"}, {Route: "incl", Dir: "../sib"}}, {{Route: "hub"}, {Route: "main"}},
	{{Route: "hub"}, {Route: "hub-incl", Dir: "d"}}, {{Route: "hub-incl", Dir: "d"}, {Route: "hub-incl", Dir: "e/f/g"}}, {{Route: "hub"}, {Route: "hub"}},
	{{Route: "main"}, {Route: "incl", Dir: "a"}, {Route: "hub"}, {Route: "hub-incl", Dir: "../sib2/h"}}, {{Route: "incl", Dir: "../sib"}, {Route: "hub"}},
	{{Route: "main"}, {Route: "hub-incl", Dir: "d"}, {Route: "main"}}, {{Route: "main"}}, {{Route: "incl", Dir: "a"}}, {{Route: "hub"}}, {{Route: "hub-incl", Dir: "d"}},
}

func runC12Multi(ctx *core.Ctx) {
	rng := ctx.Rng
	add := func(a multiArgs, tag string) {
		for i := range a.Units {
			u := &a.Units[i]
			for k := 0; k < 20 && ((topLevel(u.Attr) && strings.HasSuffix(u.Via, "ext")) || (u.Attr == "volumes.short" && !shortOK(u.S))); k++ {
				u.Attr = c12MultiAttrs[(k+i)%5] // a service-level attribute
			}
		}
		if sc, why := buildMulti(a); sc == nil {
			ctx.Count("multi-skipped:" + why) // measured: these cases end in Skip
		}
		ctx.Add("c12.multi", a)
		ctx.Count(fmt.Sprintf("multi:%s:remotes=%d", tag, a.Remotes))
		ctx.Count(fmt.Sprintf("multi-units:%d", len(a.Units)))
		abs := 0
		for i, u := range a.Units {
			ctx.Count("multi-via:" + u.Via)
			if u.Abs && i > 0 {
				abs++
			}
		}
		if abs > 0 {
			ctx.Count("multi:later-unit-absolute")
		}
		if a.Spare > 0 {
			ctx.Count("multi:spare-capacity")
		}
		if sh := a.Shared; sh != nil {
			dirs := map[string]bool{}
			for _, u := range sh.Users {
				ctx.Count("multi-shared-route:" + u.Route)
				d := "" // directory of the user's file relative to the project directory
				switch u.Route {
				case "hub":
					d = a.Hub
				case "incl":
					d = u.Dir
				case "hub-incl":
					d = filepath.Join(a.Hub, u.Dir)
				}
				if dirs[d] {
					ctx.Count("multi-shared:two-users-in-one-directory")
				}
				dirs[d] = true
			}
			if len(dirs) > 1 {
				ctx.Count("multi-shared:users-in-different-directories")
			}
			ctx.Count(fmt.Sprintf("multi-shared-users:%d", len(sh.Users)))
			if sh.Chain != "" {
				ctx.Count("multi-shared:chain")
			}
		}
		if tw := a.Twice; tw != nil && !a.Off {
			ctx.Count("multi-twice:" + strings.Join(tw.Routes, "+"))
		}
		if a.Model {
			ctx.Count("multi:entry=LoadModelWithContext")
		} else {
			ctx.Count("multi:entry=LoadWithContext")
		}
	}
	k := 0
	mk := func(pat []string, absMask int) multiArgs {
		a := multiArgs{Hub: "hub", Wd: c12WdShapes[k%len(c12WdShapes)]}
		for i, via := range pat {
			k++
			a.Units = append(a.Units, multiUnit{Via: via, Dir: c12MultiDirs[(k+i)%len(c12MultiDirs)], Abs: absMask&(1<<i) != 0,
				Attr: c12MultiAttrs[k%len(c12MultiAttrs)], S: c12MultiShapes[(k/3)%len(c12MultiShapes)]})
		}
		// distinct directories
		used := map[string]bool{}
		for i := range a.Units {
			par := "m:"
			if strings.HasPrefix(a.Units[i].Via, "hub-") {
				par = "h:"
			}
			for used[par+a.Units[i].Dir] {
				k++
				a.Units[i].Dir = c12MultiDirs[k%len(c12MultiDirs)]
			}
			used[par+a.Units[i].Dir] = true
		}
		return a
	}
	// exhaustive over pattern × absolute-reference mask × number of registered remote loaders
	for _, pat := range c12MultiPatterns {
		for mask := 0; mask < 1<<len(pat); mask++ {
			for _, rem := range []int{0, 1, 2} {
				a := mk(pat, mask)
				a.Remotes = rem
				a.Spare = []int{0, 0, 2, 1}[k%4]
				a.HubAbs = k%3 == 0
				a.HubFirst = k%2 == 0
				a.Off = k%5 == 0
				a.Model = k%7 == 0
				add(a, "exhaustive")
			}
		}
	}
	// round 7: one file extended several times in one load — exhaustive over the route patterns × chain × absolute mask
	sharedAttrs := []string{"build.context", "env_file.path", "volumes.bind.source", "develop.watch.path", "build.additional_contexts", "volumes.short"}
	sharedVals := []string{"./x", "../x", "x/y", ".", "~/x", "/vabs", "a//b/"}
	for pi, pat := range c12SharedPatterns {
		for _, chain := range []string{"", "deep", "../up"} {
			for mask := 0; mask < 1<<len(pat); mask++ {
				k++
				var a multiArgs
				if k%3 == 0 {
					a = mk(c12MultiPatterns[k%len(c12MultiPatterns)], 0)
				} else {
					a = multiArgs{Hub: "hub", Wd: c12WdShapes[k%len(c12WdShapes)]}
				}
				sh := &multiShared{Dir: c12SharedDirs[(k+pi)%len(c12SharedDirs)], Attr: sharedAttrs[k%len(sharedAttrs)], S: sharedVals[(k/2)%len(sharedVals)], Chain: chain}
				for i, u := range pat {
					u.Abs = mask&(1<<i) != 0
					sh.Users = append(sh.Users, u)
				}
				a.Shared = sh
				a.Remotes = k % 3
				a.HubAbs = k%3 == 0
				a.HubFirst = k%2 == 0
				a.Off = k%5 == 0
				a.Model = k%7 == 0
				if k%2 == 0 && !a.Off {
					a.Twice = &multiTwice{Dir: c12TwiceDirs[k%len(c12TwiceDirs)], Attr: c12MultiAttrs[k%len(c12MultiAttrs)], S: sharedVals[(k/3)%len(sharedVals)], Routes: c12TwiceRoutes[(k/2)%len(c12TwiceRoutes)]}
				}
				add(a, "shared")
			}
		}
	}
	for i, n := 0, ctx.Pick(500, 20000); i < n; i++ {
		pat := c12MultiPatterns[rng.Intn(len(c12MultiPatterns))]
		if rng.Intn(3) == 0 {
			pat = nil
			for j, m := 0, 2+rng.Intn(4); j < m; j++ {
				pat = append(pat, []string{"incl", "ext", "hub-incl", "hub-ext"}[rng.Intn(4)])
			}
		}
		k += rng.Intn(50)
		a := mk(pat, rng.Intn(1<<len(pat)))
		for j := range a.Units {
			a.Units[j].Attr = c12MultiAttrs[rng.Intn(len(c12MultiAttrs))]
			a.Units[j].S = c12MultiShapes[rng.Intn(len(c12MultiShapes))]
		}
		a.Remotes = rng.Intn(4)
		a.Spare = []int{0, 0, 1, 3}[rng.Intn(4)]
		a.HubAbs, a.HubFirst, a.Off = rng.Intn(3) == 0, rng.Intn(2) == 0, rng.Intn(5) == 0
		a.Model = rng.Intn(3) == 0
		a.Hub = []string{"hub", "h/u", "../hubsib"}[rng.Intn(3)]
		if rng.Intn(3) == 0 {
			sh := &multiShared{Dir: c12SharedDirs[rng.Intn(len(c12SharedDirs))], Attr: sharedAttrs[rng.Intn(len(sharedAttrs))], S: sharedVals[rng.Intn(len(sharedVals))],
				Chain: []string{"", "", "deep", "../up"}[rng.Intn(4)]}
			for j, m := 0, 1+rng.Intn(4); j < m; j++ {
				u := sharedUser{Route: []string{"main", "incl", "hub", "hub-incl"}[rng.Intn(4)], Abs: rng.Intn(4) == 0}
				if u.Route == "incl" || u.Route == "hub-incl" {
					u.Dir = c12MultiDirs[rng.Intn(len(c12MultiDirs))]
				}
				sh.Users = append(sh.Users, u)
			}
			a.Shared = sh
			if rng.Intn(4) == 0 {
				a.Units = nil
			}
		}
		if !a.Off && rng.Intn(3) == 0 {
			a.Twice = &multiTwice{Dir: c12TwiceDirs[rng.Intn(len(c12TwiceDirs))], Attr: c12MultiAttrs[rng.Intn(len(c12MultiAttrs))], S: sharedVals[rng.Intn(len(sharedVals))], Routes: c12TwiceRoutes[rng.Intn(len(c12TwiceRoutes))]}
		}
		add(a, "random")
	}
}
