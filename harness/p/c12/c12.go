package c12

// C12 — relative paths resolve against the right directory, everything else is untouched.
//
// correspondence (real code vs Lean model, Model/Paths.lean)
//	c12.join     filepath.Join / Clean / IsAbs           vs  Paths.join / clean / isAbs
//	c12.winabs   paths.volumeNameLen / isWindowsAbs      vs  Paths.volumeNameLen? / isWindowsAbs?
//	c12.remote   paths.isRemoteContext / ExpandUser      vs  Paths.isRemoteContext / expandUser
//	c12.resolve  paths.ResolveRelativePaths on trees     vs  Paths.resolve (+ collect mode for failures)
// direct oracles on the real code
//	c12.attr     one attribute × one written value: ResolveRelativePaths vs the SPEC (Spec/Paths.lean)
//	c12.frame    leaves that are not path attributes are never rewritten (hand-written attribute list)
//	c12.idem     resolving twice = resolving once (absolute base)
//	c12.compose  two-stage resolution (relative dir, then project dir) = one-stage against the joined dir
//	c12.load     whole loads (c12load.go)

import (
	"encoding/json"
	"fmt"
	"os"
	"path/filepath"
	"reflect"
	"sort"
	"strings"
	"time"

	"github.com/compose-spec/compose-go/v2/loader"
	"github.com/compose-spec/compose-go/v2/paths"
	"github.com/compose-spec/compose-go/v2/utils"

	"verifharness/core"
)

// ---------------------------------------------------------------- environment of the child

// the machine is shared with other checks: a case that has not answered after a minute is a hang, not before
const c12Timeout = 60 * time.Second

var c12ScratchCwd string
var c12FsChecked = false
var c12FsCollision = ""

// names used as first components of absolute paths by the generators: none of them may exist,
// otherwise utils.ResolveSymbolicLink (develop.watch) would consult a real directory entry.
var c12Roots = []string{"/vw", "/vh", "/vabs", "/vo"}

var c12OrigHome, c12OrigCwd string
var c12HadHome bool

// c12Restore puts the process environment back (HOME, working directory): the child processes are shared.
func c12Restore() {
	if c12HadHome {
		os.Setenv("HOME", c12OrigHome)
	} else {
		os.Unsetenv("HOME")
	}
	if c12OrigCwd != "" {
		os.Chdir(c12OrigCwd)
	}
}

func c12Prepare(home string) string {
	c12OrigHome, c12HadHome = os.LookupEnv("HOME")
	c12OrigCwd, _ = os.Getwd()
	if c12ScratchCwd != "" {
		os.Chdir(c12ScratchCwd)
	}
	if !c12FsChecked {
		c12FsChecked = true
		for _, r := range c12Roots {
			if _, err := os.Lstat(r); err == nil {
				c12FsCollision = r
			}
		}
		// a private, empty, deep working directory: relative results of stage-1 resolutions are looked up from here
		if base := os.Getenv("VERIF_SCRATCH"); base != "" {
			d := filepath.Join(base, fmt.Sprintf("cwd-%d", os.Getpid()), "p", "q", "r")
			if os.MkdirAll(d, 0o755) == nil {
				c12ScratchCwd = d
				os.Chdir(d)
			}
		}
	}
	if home == "" {
		os.Unsetenv("HOME")
	} else {
		os.Setenv("HOME", home)
	}
	return c12FsCollision
}

func c12Remotes(prefixes []string) []paths.RemoteResource {
	var l []paths.RemoteResource
	for _, p := range prefixes {
		p := p
		l = append(l, func(s string) bool { return strings.HasPrefix(s, p) })
	}
	return l
}

// ---------------------------------------------------------------- a hostile process working directory (round 5)
//
// Included / extended files are first resolved against a directory RELATIVE to the project directory; whatever the
// real code does with such an intermediate value must not depend on the working directory of the process.  An empty
// private cwd (rounds 1-4) hid a lookup of develop.watch paths from there; now the cwd holds a symbolic link for the
// first component of every relative directory a case uses, all pointing to an existing decoy directory.

// c12PlantDecoy: in the private scratch cwd (…/cwd-<pid>/p/q/r), make the first real component of the relative
// path `rel` a symbolic link to a decoy directory (leading ".." climb to q, p; further up is not ours: nothing planted).
func c12PlantDecoy(rel string) func() {
	noop := func() {}
	if c12ScratchCwd == "" || rel == "" || filepath.IsAbs(rel) {
		return noop
	}
	parts := strings.Split(filepath.Clean(rel), "/")
	dir := c12ScratchCwd
	up := 0
	for len(parts) > 0 && parts[0] == ".." {
		parts = parts[1:]
		dir = filepath.Dir(dir)
		up++
	}
	if up > 2 || len(parts) == 0 || parts[0] == "." || parts[0] == "" {
		return noop
	}
	target := filepath.Join(filepath.Dir(filepath.Dir(filepath.Dir(c12ScratchCwd))), "decoy-target")
	if os.MkdirAll(target, 0o755) != nil {
		return noop
	}
	link := filepath.Join(dir, parts[0])
	if _, err := os.Lstat(link); err == nil {
		return noop // a directory of the scratch chain itself (p, q, r) or an older link
	}
	if os.Symlink(target, link) != nil {
		return noop
	}
	return func() { os.Remove(link) }
}

// c12DecoyCwd: a fresh working directory for a whole load whose entries (and those of its two ancestors) mirror the
// names found in the project directory (and its two ancestors), every one a symbolic link to a decoy directory.
func c12DecoyCwd(projDir string) func() {
	noop := func() {}
	base, err := os.MkdirTemp(os.Getenv("VERIF_SCRATCH"), "verif-C12-cwd-") // inside the run's scratch directory when there is one: removed with it
	if err != nil {
		return noop
	}
	target := filepath.Join(base, "decoy-target")
	cwd := filepath.Join(base, "p", "q", "r")
	if os.MkdirAll(target, 0o755) != nil || os.MkdirAll(cwd, 0o755) != nil {
		os.RemoveAll(base)
		return noop
	}
	src, dst := filepath.Clean(projDir), cwd
	for level := 0; level < 3; level++ {
		if ents, err := os.ReadDir(src); err == nil {
			for _, e := range ents {
				os.Symlink(target, filepath.Join(dst, e.Name())) // fails for p/q/r themselves: fine
			}
		}
		src, dst = filepath.Dir(src), filepath.Dir(dst)
	}
	old, _ := os.Getwd()
	if os.Chdir(cwd) != nil {
		os.RemoveAll(base)
		return noop
	}
	return func() {
		if old != "" {
			os.Chdir(old)
		}
		os.RemoveAll(base)
	}
}

// ---------------------------------------------------------------- string-level correspondence

type joinArgs struct {
	A string `json:"a"`
	B string `json:"b"`
}

type pArgs struct {
	P    string `json:"p"`
	Home string `json:"home"`
}

// ---------------------------------------------------------------- tree-level

type resolveArgs struct {
	Tree    json.RawMessage `json:"tree"`
	Wd      string          `json:"wd"`
	Home    string          `json:"home"`
	Remotes []string        `json:"remotes"`
}

func c12ErrClass(err error) string {
	s := err.Error()
	switch {
	case strings.Contains(s, "unexpected type"):
		return "unexpectedType"
	case strings.Contains(s, "invalid mount config"):
		return "bindNoSource"
	default:
		return "symlink"
	}
}

func c12Resolve(tree any, wd string, remotes []string) (map[string]any, any) {
	m, ok := tree.(map[string]any)
	if !ok {
		return nil, map[string]any{"bad": "top level is not a mapping"}
	}
	if err := paths.ResolveRelativePaths(m, wd, c12Remotes(remotes)); err != nil {
		return nil, map[string]any{"err": c12ErrClass(err)}
	}
	return m, nil
}

func realResolve(raw json.RawMessage) any {
	var a resolveArgs
	json.Unmarshal(raw, &a)
	defer c12Restore()
	if c := c12Prepare(a.Home); c != "" {
		return map[string]any{"bad": "fs-collision " + c}
	}
	defer c12PlantDecoy(a.Wd)() // a relative base: the results are relative, the model consults no file system
	m, bad := c12Resolve(core.DecodeValRaw(a.Tree), a.Wd, a.Remotes)
	if bad != nil {
		return bad
	}
	return map[string]any{"ok": core.EncodeVal(m)}
}

func shortSite(site string) string {
	if i := strings.LastIndexByte(site, '.'); i >= 0 {
		return site[i+1:]
	}
	return site
}

func judgeResolve(args, real, drv json.RawMessage) *core.Verdict {
	var r map[string]json.RawMessage
	var d struct {
		Out   json.RawMessage `json:"out"`
		Fails []string        `json:"fails"`
		Bad   string          `json:"bad"`
	}
	if json.Unmarshal(real, &r) != nil || json.Unmarshal(drv, &d) != nil {
		return core.Disagree("malformed exchange")
	}
	if _, bad := r["bad"]; bad {
		return core.Skip("outside the domain")
	}
	if d.Out == nil {
		return core.Disagree("driver gave no outcome: " + d.Bad)
	}
	switch core.Class(real) {
	case "ok":
		if !core.CanonEqual(real, d.Out) {
			return core.Disagree("Paths.resolve ≠ paths.ResolveRelativePaths")
		}
		if len(d.Fails) != 0 {
			return core.Disagree("model collects failures on an input the real code accepts")
		}
	case "err":
		var e string
		json.Unmarshal(r["err"], &e)
		if !contains(d.Fails, "err:"+e) {
			return core.Disagree("real error " + e + " is not among the model's failures")
		}
	case "panic":
		var s string
		json.Unmarshal(r["panic"], &s)
		if !contains(d.Fails, "panic:"+shortSite(s)) {
			return core.Disagree("real panic " + s + " is not among the model's failures")
		}
	default:
		return core.CrashVerdict(real)
	}
	return nil
}

func contains(l []string, s string) bool {
	for _, x := range l {
		if x == s {
			return true
		}
	}
	return false
}

// ---------------------------------------------------------------- attributes (hand-written from the property text)

type attr struct {
	Name string // stable name used in failure keys
	Kind string // spec kind: local | context | mount | extends
}

var c12Attrs = []attr{
	{"build.context", "context"},
	{"build.additional_contexts", "context"},
	{"env_file.path", "local"},
	{"label_file", "local"},
	{"extends.file", "extends"},
	{"develop.watch.path", "local"},
	{"volumes.bind.source", "mount"},
	{"secrets.file", "mount"},
	{"configs.file", "mount"},
	{"volumes.driver_opts.device", "mount"},
}

// attrTree builds a realistic canonical model holding value s at attribute a (plus non-path noise),
// and returns the accessor of the attribute.
func attrTree(a string, s string) (map[string]any, func(map[string]any) any) {
	svc := map[string]any{
		"image":       "./img", // non-path attributes that look like paths
		"command":     []any{"./run", "~/x"},
		"working_dir": "./wd",
		"environment": map[string]any{"P": "./p"},
		"volumes": []any{
			map[string]any{"type": "volume", "source": "./named", "target": "/t"},
		},
	}
	t := map[string]any{"services": map[string]any{"a": svc}, "name": "./n"}
	get := func(m map[string]any) map[string]any { return m["services"].(map[string]any)["a"].(map[string]any) }
	switch a {
	case "build.context":
		svc["build"] = map[string]any{"context": s, "dockerfile": "./Dockerfile"}
		return t, func(m map[string]any) any { return get(m)["build"].(map[string]any)["context"] }
	case "build.additional_contexts":
		svc["build"] = map[string]any{"context": "/vabs", "additional_contexts": map[string]any{"k": s}}
		return t, func(m map[string]any) any {
			return get(m)["build"].(map[string]any)["additional_contexts"].(map[string]any)["k"]
		}
	case "env_file.path":
		svc["env_file"] = []any{map[string]any{"path": s, "required": true}}
		return t, func(m map[string]any) any { return get(m)["env_file"].([]any)[0].(map[string]any)["path"] }
	case "label_file":
		svc["label_file"] = []any{s}
		return t, func(m map[string]any) any { return get(m)["label_file"].([]any)[0] }
	case "extends.file":
		svc["extends"] = map[string]any{"file": s, "service": "./b"}
		return t, func(m map[string]any) any { return get(m)["extends"].(map[string]any)["file"] }
	case "develop.watch.path":
		svc["develop"] = map[string]any{"watch": []any{map[string]any{"path": s, "action": "sync", "target": "./t"}}}
		return t, func(m map[string]any) any {
			return get(m)["develop"].(map[string]any)["watch"].([]any)[0].(map[string]any)["path"]
		}
	case "volumes.bind.source":
		svc["volumes"] = []any{
			map[string]any{"type": "volume", "source": "./named", "target": "/t"},
			map[string]any{"type": "bind", "source": s, "target": "./t2"},
		}
		return t, func(m map[string]any) any { return get(m)["volumes"].([]any)[1].(map[string]any)["source"] }
	case "secrets.file":
		t["secrets"] = map[string]any{"s": map[string]any{"file": s, "name": "./sn"}}
		return t, func(m map[string]any) any { return m["secrets"].(map[string]any)["s"].(map[string]any)["file"] }
	case "configs.file":
		t["configs"] = map[string]any{"c": map[string]any{"file": s, "name": "./cn"}}
		return t, func(m map[string]any) any { return m["configs"].(map[string]any)["c"].(map[string]any)["file"] }
	case "volumes.driver_opts.device":
		t["volumes"] = map[string]any{"v": map[string]any{"driver": "local", "driver_opts": map[string]any{"o": "bind", "type": "none", "device": s}},
			"w": map[string]any{"driver": "local", "driver_opts": map[string]any{"o": "rw", "device": "./notbind"}},
			"x": map[string]any{"driver": "other", "driver_opts": map[string]any{"o": "bind", "device": "./notlocal"}}}
		return t, func(m map[string]any) any {
			return m["volumes"].(map[string]any)["v"].(map[string]any)["driver_opts"].(map[string]any)["device"]
		}
	}
	panic("unknown attribute " + a)
}

type attrArgs struct {
	Attr    string   `json:"attr"`
	Kind    string   `json:"kind"`
	S       string   `json:"s"`
	Wd      string   `json:"wd"`
	Home    string   `json:"home"`
	Remotes []string `json:"remotes"`
}

// isPathAttr: is the leaf at this path (list indices rendered as "[]") one of the attributes the property names?
func isPathAttr(p []string, tree map[string]any, idx []int) bool {
	m := func(pat string) bool {
		pp := strings.Split(pat, ".")
		// a (malformed) composite value at an attribute position belongs to the attribute: prefix match
		if len(pp) > len(p) {
			return false
		}
		for i := range pp {
			if pp[i] != "*" && pp[i] != p[i] {
				return false
			}
		}
		return true
	}
	switch {
	case m("services.*.build.context"), m("services.*.build.additional_contexts.*"),
		m("services.*.env_file.[].path"), m("services.*.label_file.[]"), m("services.*.extends.file"),
		m("services.*.develop.watch.[].path"), m("secrets.*.file"), m("configs.*.file"):
		return true
	case m("services.*.volumes.[].source"):
		// only bind mounts
		vols := tree["services"].(map[string]any)[p[1]].(map[string]any)["volumes"].([]any)
		v := vols[idx[0]].(map[string]any)
		return v["type"] == "bind"
	case m("volumes.*.driver_opts.device"):
		v := tree["volumes"].(map[string]any)[p[1]].(map[string]any)
		o, _ := v["driver_opts"].(map[string]any)
		return v["driver"] == "local" && o["o"] == "bind"
	}
	return false
}

// diffLeaves lists the positions at which two trees differ (keys joined with '.', list items as "[]"; idx = list indices met).
func diffLeaves(a, b any, p []string, idx []int, out func(p []string, idx []int, a, b any)) {
	switch x := a.(type) {
	case map[string]any:
		y, ok := b.(map[string]any)
		if !ok {
			out(p, idx, a, b)
			return
		}
		keys := map[string]bool{}
		for k := range x {
			keys[k] = true
		}
		for k := range y {
			keys[k] = true
		}
		ks := make([]string, 0, len(keys))
		for k := range keys {
			ks = append(ks, k)
		}
		sort.Strings(ks)
		for _, k := range ks {
			xv, xok := x[k]
			yv, yok := y[k]
			if xok != yok {
				out(append(append([]string{}, p...), k), idx, xv, yv)
				continue
			}
			diffLeaves(xv, yv, append(append([]string{}, p...), k), idx, out)
		}
	case []any:
		y, ok := b.([]any)
		if !ok || len(x) != len(y) {
			out(p, idx, a, b)
			return
		}
		for i := range x {
			diffLeaves(x[i], y[i], append(append([]string{}, p...), "[]"), append(append([]int{}, idx...), i), out)
		}
	default:
		if !reflect.DeepEqual(a, b) {
			out(p, idx, a, b)
		}
	}
}

func patOf(p []string) string {
	q := append([]string{}, p...)
	if len(q) > 1 && (q[0] == "services" || q[0] == "secrets" || q[0] == "configs" || q[0] == "volumes" || q[0] == "networks") {
		q[1] = "*"
	}
	return strings.Join(q, ".")
}

func init() {
	core.Register("c12.join", &core.CheckDef{
		Timeout: c12Timeout,
		Real: func(raw json.RawMessage) any {
			var a joinArgs
			json.Unmarshal(raw, &a)
			return map[string]any{"join": filepath.Join(a.A, a.B), "clean": filepath.Clean(a.A), "abs": filepath.IsAbs(a.A)}
		},
		DriverOp: "c12.join",
	})
	core.Register("c12.winabs", &core.CheckDef{
		Timeout: c12Timeout,
		Real: func(raw json.RawMessage) any {
			var a pArgs
			json.Unmarshal(raw, &a)
			return map[string]any{"vol": paths.VerifVolumeNameLen(a.P), "abs": paths.VerifIsWindowsAbs(a.P)}
		},
		DriverOp: "c12.winabs",
		Judge: func(args, real, drv json.RawMessage) *core.Verdict {
			if v := core.CrashVerdict(real); v != nil {
				return v // property: windows-absolute detection is total
			}
			// the volume length is a byte offset in Go and a code-point offset in the model: compare it on ASCII only
			var a pArgs
			json.Unmarshal(args, &a)
			var r, d struct {
				Vol  int  `json:"vol"`
				Abs  bool `json:"abs"`
				Spec bool `json:"spec"`
			}
			if json.Unmarshal(real, &r) != nil || json.Unmarshal(drv, &d) != nil {
				return core.Disagree("malformed exchange")
			}
			ascii := true
			for _, c := range a.P {
				if c > 127 {
					ascii = false
				}
			}
			// oracle: the real function against the SPECIFICATION of "Windows-absolute" (Spec.winAbs: drive or UNC form)
			if r.Abs != d.Spec {
				return core.Fail("winabs-spec", fmt.Sprintf("isWindowsAbs(%q) = %v but the specification (drive letter or \\\\server\\share form) says %v", a.P, r.Abs, d.Spec))
			}
			if r.Abs != d.Abs || (ascii && r.Vol != d.Vol) {
				return core.Disagree("Paths.isWindowsAbs? ≠ paths.isWindowsAbs")
			}
			return nil
		},
	})
	core.Register("c12.remote", &core.CheckDef{
		Timeout: c12Timeout,
		Real: func(raw json.RawMessage) any {
			var a pArgs
			json.Unmarshal(raw, &a)
			defer c12Restore()
			c12Prepare(a.Home)
			return map[string]any{"remote": paths.VerifIsRemoteContext(a.P), "expand": paths.ExpandUser(a.P)}
		},
		DriverOp: "c12.remote",
	})
	core.Register("c12.resolve", &core.CheckDef{Timeout: c12Timeout, Real: realResolve, DriverOp: "c12.resolve", Judge: judgeResolve})

	// ---- oracle: one attribute, one written value, against the specification
	core.Register("c12.attr", &core.CheckDef{
		Timeout: c12Timeout,
		Real: func(raw json.RawMessage) any {
			var a attrArgs
			json.Unmarshal(raw, &a)
			defer c12Restore()
			if c := c12Prepare(a.Home); c != "" {
				return map[string]any{"bad": "fs-collision " + c}
			}
			t, get := attrTree(a.Attr, a.S)
			m, bad := c12Resolve(t, a.Wd, a.Remotes)
			if bad != nil {
				return bad
			}
			return map[string]any{"got": get(m)}
		},
		DriverOp: "c12.spec",
		Judge: func(args, real, drv json.RawMessage) *core.Verdict {
			if v := core.CrashVerdict(real); v != nil {
				return v
			}
			var a attrArgs
			json.Unmarshal(args, &a)
			var r struct {
				Got *string `json:"got"`
				Err string  `json:"err"`
				Bad string  `json:"bad"`
			}
			var d struct {
				Want  *string `json:"want"`
				Class string  `json:"class"`
			}
			if json.Unmarshal(real, &r) != nil || json.Unmarshal(drv, &d) != nil || d.Class == "" {
				return core.Disagree("malformed spec exchange")
			}
			if r.Bad != "" {
				return core.Skip(r.Bad)
			}
			if d.Want == nil {
				return core.Skip("the property does not say")
			}
			if r.Got == nil {
				return core.Fail("spec:"+a.Attr+":"+d.Class+":error", fmt.Sprintf("%s=%q (base %q): resolution fails (%s) but the property says %q", a.Attr, a.S, a.Wd, r.Err, *d.Want))
			}
			if *r.Got != *d.Want {
				return core.Fail("spec:"+a.Attr+":"+d.Class, fmt.Sprintf("%s=%q (base %q, home %q) resolves to %q but the property says %q", a.Attr, a.S, a.Wd, a.Home, *r.Got, *d.Want))
			}
			return nil
		},
	})

	// ---- oracle: frame — only path attributes are ever rewritten
	core.Register("c12.frame", &core.CheckDef{
		Timeout: c12Timeout,
		Real: func(raw json.RawMessage) any {
			var a resolveArgs
			json.Unmarshal(raw, &a)
			defer c12Restore()
			if c := c12Prepare(a.Home); c != "" {
				return map[string]any{"bad": "fs-collision " + c}
			}
			before := core.DecodeValRaw(a.Tree)
			if bm, ok := before.(map[string]any); ok {
				for k := range bm {
					if strings.Contains(k, ".") {
						// the schema rejects such a top-level key; tree.Path.Next does not escape it (modelled, see c12.resolve)
						return map[string]any{"bad": "dotted top-level key"}
					}
				}
			}
			m, bad := c12Resolve(core.DeepCopyVal(before), a.Wd, a.Remotes)
			if bad != nil {
				return bad
			}
			bm, _ := before.(map[string]any)
			var moved []string
			diffLeaves(before, any(m), nil, nil, func(p []string, idx []int, x, y any) {
				ok := false
				func() {
					defer func() { recover() }()
					ok = isPathAttr(p, bm, idx)
				}()
				if !ok {
					moved = append(moved, patOf(p))
				}
			})
			return map[string]any{"moved": moved}
		},
		Judge: func(args, real, drv json.RawMessage) *core.Verdict {
			var r struct {
				Moved []string `json:"moved"`
				Bad   string   `json:"bad"`
				Err   string   `json:"err"`
			}
			if json.Unmarshal(real, &r) != nil {
				return core.Disagree("malformed")
			}
			if r.Bad != "" || r.Err != "" || core.Class(real) == "panic" {
				return core.Skip("not resolved")
			}
			if v := core.CrashVerdict(real); v != nil {
				return v
			}
			if len(r.Moved) > 0 {
				return core.Fail("frame:"+r.Moved[0], fmt.Sprintf("a value that is not a path attribute was rewritten at %v", r.Moved))
			}
			return nil
		},
	})

	// ---- oracle: idempotence (absolute base)
	core.Register("c12.idem", &core.CheckDef{
		Timeout: c12Timeout,
		Real: func(raw json.RawMessage) any {
			var a resolveArgs
			json.Unmarshal(raw, &a)
			defer c12Restore()
			if c := c12Prepare(a.Home); c != "" {
				return map[string]any{"bad": "fs-collision " + c}
			}
			m1, bad := c12Resolve(core.DecodeValRaw(a.Tree), a.Wd, a.Remotes)
			if bad != nil {
				return bad
			}
			m2, bad := c12Resolve(core.DeepCopyVal(any(m1)), a.Wd, a.Remotes)
			if bad != nil {
				return map[string]any{"second": bad}
			}
			var moved []string
			diffLeaves(any(m1), any(m2), nil, nil, func(p []string, idx []int, x, y any) {
				moved = append(moved, fmt.Sprintf("%s: %v -> %v", patOf(p), x, y))
			})
			return map[string]any{"moved": moved, "first": patOfFirst(moved)}
		},
		Judge: func(args, real, drv json.RawMessage) *core.Verdict {
			var r struct {
				Moved  []string        `json:"moved"`
				First  string          `json:"first"`
				Bad    string          `json:"bad"`
				Err    string          `json:"err"`
				Second json.RawMessage `json:"second"`
			}
			if json.Unmarshal(real, &r) != nil {
				return core.Disagree("malformed")
			}
			if r.Bad != "" || r.Err != "" || core.Class(real) == "panic" {
				return core.Skip("not resolved")
			}
			if v := core.CrashVerdict(real); v != nil {
				return v
			}
			if r.Second != nil {
				return core.Fail("nonidempotent:second-fails", "resolving a resolved model fails: "+string(r.Second))
			}
			if len(r.Moved) > 0 {
				return core.Fail("nonidempotent:"+r.First, fmt.Sprintf("resolving a resolved model changes %v", r.Moved))
			}
			return nil
		},
	})

	// ---- oracle: two-stage = one-stage
	core.Register("c12.compose", &core.CheckDef{
		Timeout: c12Timeout,
		Real: func(raw json.RawMessage) any {
			var a composeArgs
			json.Unmarshal(raw, &a)
			defer c12Restore()
			if c := c12Prepare(a.Home); c != "" {
				return map[string]any{"bad": "fs-collision " + c}
			}
			defer c12PlantDecoy(a.Rel)() // the first-stage results are relative: nothing may be looked up from the process cwd
			t := core.DecodeValRaw(a.Tree)
			one, bad := c12Resolve(core.DeepCopyVal(t), filepath.Join(a.Wd, a.Rel), a.Remotes)
			if bad != nil {
				return bad
			}
			s1, bad := c12Resolve(core.DeepCopyVal(t), a.Rel, a.Remotes)
			if bad != nil {
				return bad
			}
			inter := core.DeepCopyVal(any(s1))
			two, bad := c12Resolve(any(s1), a.Wd, a.Remotes)
			if bad != nil {
				return map[string]any{"second": bad}
			}
			var moved, keys []string
			diffLeaves(any(one), any(two), nil, nil, func(p []string, idx []int, x, y any) {
				iv := leafAt(inter, p, idx)
				moved = append(moved, fmt.Sprintf("%s: one-stage %v, stage-1 %v, two-stage %v", patOf(p), x, iv, y))
				keys = append(keys, interClass(iv)+":"+kindOfPath(p))
			})
			sort.Strings(keys)
			first := ""
			if len(keys) > 0 {
				first = keys[0]
			}
			return map[string]any{"moved": moved, "first": first}
		},
		Judge: func(args, real, drv json.RawMessage) *core.Verdict {
			var a composeArgs
			json.Unmarshal(args, &a)
			var r struct {
				Moved  []string        `json:"moved"`
				First  string          `json:"first"`
				Bad    string          `json:"bad"`
				Err    string          `json:"err"`
				Second json.RawMessage `json:"second"`
			}
			if json.Unmarshal(real, &r) != nil {
				return core.Disagree("malformed")
			}
			if r.Bad != "" || r.Err != "" || core.Class(real) == "panic" {
				return core.Skip("not resolved")
			}
			if v := core.CrashVerdict(real); v != nil {
				return v
			}
			if r.Second != nil {
				return core.Fail("compose:second-fails", "second stage fails: "+string(r.Second))
			}
			if len(r.Moved) > 0 {
				return core.Fail("compose:"+r.First, fmt.Sprintf("directory %q: %v", a.Rel, r.Moved))
			}
			return nil
		},
	})

	// ---- oracle: develop.watch paths through real symbolic links (file system = real, in a temp dir):
	// the resolved path is absolute, it is the physical path (every symbolic-link component replaced, whatever the
	// link's target looks like: absolute, relative, a chain of links), and resolving again changes nothing.
	// The expectation is computed here with Lstat/EvalSymlinks on the longest existing prefix, independently of utils.
	core.Register("c12.symlink", &core.CheckDef{
		Timeout: c12Timeout,
		Real: func(raw json.RawMessage) any {
			var a symlinkArgs
			json.Unmarshal(raw, &a)
			files := map[string]string{}
			for _, d := range a.Dirs {
				files[d+"/.keep"] = ""
			}
			root, err := core.Materialize(files)
			defer os.RemoveAll(root)
			if err != nil {
				return map[string]any{"bad": err.Error()}
			}
			for _, l := range a.Links {
				target := l[1]
				if strings.HasPrefix(target, "$ROOT") {
					target = root + strings.TrimPrefix(target, "$ROOT")
				}
				os.MkdirAll(filepath.Dir(filepath.Join(root, l[0])), 0o755)
				if err := os.Symlink(target, filepath.Join(root, l[0])); err != nil {
					return map[string]any{"bad": err.Error()}
				}
			}
			written := a.Path // the develop.watch path as written; "$ROOT/…" = written absolute (possibly not clean)
			full := filepath.Join(root, a.Wd, a.Path)
			writtenAbs := strings.HasPrefix(a.Path, "$ROOT")
			if writtenAbs {
				written = root + strings.TrimPrefix(a.Path, "$ROOT")
				full = written
			}
			want, wantErr := c12PhysicalPath(full)
			scrub := func(x string) string { return strings.ReplaceAll(x, root, "$ROOT") }
			res := map[string]any{"want": scrub(want), "want_err": wantErr != nil}
			unclean := writtenAbs && filepath.Clean(written) != written
			res["unclean"] = unclean
			// the link table of the Lean model (Model/PathsSymlink.lean): every symbolic link at its physical location
			// (Walk does not follow links) with what EvalSymlinks says about it
			comps := func(p string) []string { return strings.Split(strings.TrimPrefix(filepath.Clean(p), "/"), "/") }
			links := [][]any{}
			filepath.Walk(root, func(p string, info os.FileInfo, err error) error {
				if err == nil && info.Mode()&os.ModeSymlink != 0 {
					if t, err := filepath.EvalSymlinks(p); err == nil {
						links = append(links, []any{comps(p), comps(t)})
					} else {
						links = append(links, []any{comps(p), nil})
					}
				}
				return nil
			})
			res["links"] = links
			res["path"] = comps(full)
			t, get := attrTree("develop.watch.path", written)
			m1, bad := c12Resolve(t, filepath.Join(root, a.Wd), nil)
			if bad != nil {
				res["first_err"] = bad
				return res
			}
			f, _ := get(m1).(string)
			res["first"] = scrub(f)
			res["first_raw"] = f
			if unclean {
				// what the answer denotes: an absolute path written with "." / ".." / "//" may be left as written or
				// resolved, but it must still name the same file
				if ph, err := c12PhysicalPath(f); err == nil {
					res["first_phys"] = scrub(ph)
				}
				// … as the operating system reads it (".." after a symbolic link is not lexical): when the written path
				// exists, the answer must exist and be the same file
				if in, err := os.Stat(written); err == nil {
					out, err := os.Stat(f)
					res["same_file"] = err == nil && os.SameFile(in, out)
				}
			}
			m2, bad := c12Resolve(core.DeepCopyVal(any(m1)).(map[string]any), filepath.Join(root, a.Wd), nil)
			if bad != nil {
				res["second_err"] = bad
				return res
			}
			g, _ := get(m2).(string)
			res["second"] = scrub(g)
			return res
		},
		DriverOp: "c12.symres",
		DriverArgs: func(args, real json.RawMessage) any {
			var r struct {
				Links json.RawMessage `json:"links"`
				Path  json.RawMessage `json:"path"`
			}
			json.Unmarshal(real, &r)
			return map[string]any{"links": r.Links, "path": r.Path}
		},
		Judge: func(args, real, drv json.RawMessage) *core.Verdict {
			if v := core.CrashVerdict(real); v != nil {
				return v
			}
			var a symlinkArgs
			json.Unmarshal(args, &a)
			// correspondence: the link-table model of ResolveSymbolicLink against the real function.
			// Evaluated AFTER the oracle below: a failing input (the real code breaks the property) outranks a broken tie.
			tie := func() *core.Verdict {
				var rr struct {
					FirstRaw *string         `json:"first_raw"`
					FirstErr json.RawMessage `json:"first_err"`
					Path     []string        `json:"path"`
					Bad      string          `json:"bad"`
					Unclean  bool            `json:"unclean"`
				}
				var d struct {
					Ok  []string `json:"ok"`
					Err bool     `json:"err"`
					Bad string   `json:"bad"`
				}
				// (an absolute path that is not clean is outside the model: Sym.resolveStr works on the cleaned components)
				if json.Unmarshal(real, &rr) == nil && rr.Bad == "" && rr.Path != nil && !rr.Unclean && json.Unmarshal(drv, &d) == nil {
					model := "/" + strings.Join(d.Ok, "/")
					switch {
					case d.Bad != "":
						return core.Disagree("link-table model: " + d.Bad)
					case d.Err != (rr.FirstRaw == nil):
						return core.Disagree(fmt.Sprintf("Sym.resolveSym ≠ ResolveSymbolicLink: model err=%v, real %v %s", d.Err, rr.FirstRaw, rr.FirstErr))
					case !d.Err && model != *rr.FirstRaw:
						return core.Disagree(fmt.Sprintf("Sym.resolveSym ≠ ResolveSymbolicLink: model %s, real %s", model, *rr.FirstRaw))
					}
				}
				return nil
			}
			var r struct {
				First     *string         `json:"first"`
				Second    *string         `json:"second"`
				Want      string          `json:"want"`
				WantErr   bool            `json:"want_err"`
				FirstErr  json.RawMessage `json:"first_err"`
				SecondErr json.RawMessage `json:"second_err"`
				Bad       string          `json:"bad"`
				Unclean   bool            `json:"unclean"`
				FirstPhys *string         `json:"first_phys"`
				SameFile  *bool           `json:"same_file"`
			}
			json.Unmarshal(real, &r)
			if r.Bad != "" {
				return core.Skip(r.Bad)
			}
			if r.Unclean && !r.WantErr {
				// written absolute, not clean: "absolute paths are left as written" or resolved — either way the same file
				switch {
				case r.First == nil:
					return core.Fail("symlink:"+a.Name+":error", fmt.Sprintf("watch path %q: resolution fails (%s), expected a path for %s", a.Path, r.FirstErr, r.Want))
				case r.SameFile != nil && !*r.SameFile:
					return core.Fail("symlink-unclean:names-another-file", fmt.Sprintf("absolute watch path %q exists (physically %s) but is rewritten to %s, which does not name that file (%s)", a.Path, r.Want, *r.First, a.Name))
				case r.SameFile == nil && (r.FirstPhys == nil || *r.FirstPhys != r.Want):
					return core.Fail("symlink-unclean:names-another-file", fmt.Sprintf("absolute watch path %q (physically %s) is rewritten to %s, which names %v (%s)", a.Path, r.Want, *r.First, r.FirstPhys, a.Name))
				case r.Second == nil || *r.Second != *r.First:
					return core.Fail("nonidempotent:develop.watch:"+a.Name, fmt.Sprintf("watch path %q resolves to %s, resolving again gives %v %s", a.Path, *r.First, r.Second, r.SecondErr))
				}
				return nil
			}
			if r.WantErr {
				// a dangling link or a link loop: an error is the right answer (no crash, see above); an absolute path
				// that is not clean may also come back exactly as written (absolute paths are left as written)
				if r.First != nil && r.Unclean && *r.First == a.Path {
					return nil
				}
				if r.First != nil {
					return core.Fail("symlink:"+a.Name+":no-error", fmt.Sprintf("watch path %q goes through a broken symbolic link but resolves to %s", a.Path, *r.First))
				}
				return tie()
			}
			if r.First == nil {
				return core.Fail("symlink:"+a.Name+":error", fmt.Sprintf("watch path %q: resolution fails (%s), expected %s", a.Path, r.FirstErr, r.Want))
			}
			if !strings.HasPrefix(*r.First, "$ROOT/") && *r.First != "$ROOT" {
				return core.Fail("symlink:"+a.Name+":not-absolute", fmt.Sprintf("watch path %q resolves to %q, which is not an absolute path below the project (expected %s)", a.Path, *r.First, r.Want))
			}
			if *r.First != r.Want {
				return core.Fail("symlink:"+a.Name+":wrong-path", fmt.Sprintf("watch path %q resolves to %s, the physical path is %s", a.Path, *r.First, r.Want))
			}
			if r.Second == nil || *r.Second != *r.First {
				return core.Fail("nonidempotent:develop.watch:"+a.Name, fmt.Sprintf("watch path %q resolves to %s, resolving again gives %v %s", a.Path, *r.First, r.Second, r.SecondErr))
			}
			return tie()
		},
	})

	// ---- utils.ResolveSymbolicLink on strings (round 5): the process sits in a directory of the link tree and the
	// function is handed (a) the path as written — RELATIVE: it is not anchored, nothing may be looked up, the property
	// wants it back unchanged (the base directory is joined later) — and (b) the absolute path.
	// Correspondence: Sym.resolveStr over the link table read off the temp directory.
	core.Register("c12.symstr", &core.CheckDef{
		Timeout: c12Timeout,
		Real: func(raw json.RawMessage) any {
			var a symlinkArgs
			json.Unmarshal(raw, &a)
			files := map[string]string{}
			for _, d := range a.Dirs {
				files[d+"/.keep"] = ""
			}
			root, err := core.Materialize(files)
			defer os.RemoveAll(root)
			if err != nil {
				return map[string]any{"bad": err.Error()}
			}
			for _, l := range a.Links {
				target := l[1]
				if strings.HasPrefix(target, "$ROOT") {
					target = root + strings.TrimPrefix(target, "$ROOT")
				}
				os.MkdirAll(filepath.Dir(filepath.Join(root, l[0])), 0o755)
				if err := os.Symlink(target, filepath.Join(root, l[0])); err != nil {
					return map[string]any{"bad": err.Error()}
				}
			}
			comps := func(p string) []string { return strings.Split(strings.TrimPrefix(filepath.Clean(p), "/"), "/") }
			links := [][]any{}
			filepath.Walk(root, func(p string, info os.FileInfo, err error) error {
				if err == nil && info.Mode()&os.ModeSymlink != 0 {
					if t, err := filepath.EvalSymlinks(p); err == nil {
						links = append(links, []any{comps(p), comps(t)})
					} else {
						links = append(links, []any{comps(p), nil})
					}
				}
				return nil
			})
			old, _ := os.Getwd()
			defer os.Chdir(old)
			if err := os.Chdir(filepath.Join(root, a.Wd)); err != nil {
				return map[string]any{"bad": "chdir: " + err.Error()}
			}
			in := a.Path
			if strings.HasPrefix(in, "$ROOT") {
				in = filepath.Clean(root + strings.TrimPrefix(in, "$ROOT"))
			}
			res := map[string]any{"links": links, "in": in, "root": root}
			if out, err := utils.ResolveSymbolicLink(in); err != nil {
				res["err"] = true
			} else {
				res["out"] = out
			}
			return res
		},
		DriverOp: "c12.symstr",
		DriverArgs: func(args, real json.RawMessage) any {
			var r struct {
				Links json.RawMessage `json:"links"`
				In    string          `json:"in"`
			}
			json.Unmarshal(real, &r)
			return map[string]any{"links": r.Links, "path": r.In}
		},
		Judge: func(args, real, drv json.RawMessage) *core.Verdict {
			if v := core.CrashVerdict(real); v != nil {
				return v
			}
			var a symlinkArgs
			json.Unmarshal(args, &a)
			var r struct {
				In   string  `json:"in"`
				Root string  `json:"root"`
				Out  *string `json:"out"`
				Err  bool    `json:"err"`
				Bad  string  `json:"bad"`
			}
			var d struct {
				Ok  *string `json:"ok"`
				Err bool    `json:"err"`
			}
			if json.Unmarshal(real, &r) != nil || json.Unmarshal(drv, &d) != nil {
				return core.Disagree("malformed exchange")
			}
			if r.Bad != "" {
				return core.Skip(r.Bad)
			}
			scrub := func(x string) string { return strings.ReplaceAll(x, r.Root, "$ROOT") }
			// oracle: a relative path comes back as it is, whatever the process directory holds
			if !filepath.IsAbs(r.In) {
				if r.Err || r.Out == nil || *r.Out != r.In {
					got := "an error"
					if r.Out != nil {
						got = scrub(*r.Out)
					}
					return core.Fail("symlink-relative:looked-up-from-process-cwd", fmt.Sprintf("ResolveSymbolicLink(%q) with the process in %q answers %s: the components of a path that is not anchored yet were looked up from the working directory of the process (%s)", r.In, a.Wd, got, a.Name))
				}
			}
			switch {
			case d.Err != r.Err:
				return core.Disagree(fmt.Sprintf("Sym.resolveStr ≠ ResolveSymbolicLink(%q): model err=%v, real err=%v", scrub(r.In), d.Err, r.Err))
			case !r.Err && (d.Ok == nil || r.Out == nil || *d.Ok != *r.Out):
				return core.Disagree(fmt.Sprintf("Sym.resolveStr ≠ ResolveSymbolicLink(%q): model %v, real %v", scrub(r.In), d.Ok, r.Out))
			}
			return nil
		},
	})

	// ---- correspondence: filepath.Rel / filepath.Dir and the local resource loader's Dir (the base-directory logic)
	core.Register("c12.rel", &core.CheckDef{
		Timeout: c12Timeout,
		Real: func(raw json.RawMessage) any {
			var a struct{ Base, Targ string }
			json.Unmarshal(raw, &a)
			res := map[string]any{"dir": filepath.Dir(a.Base), "rel": nil}
			if r, err := filepath.Rel(a.Base, a.Targ); err == nil {
				res["rel"] = r
			}
			return res
		},
		DriverOp: "c12.rel",
	})
	core.Register("c12.ldir", &core.CheckDef{
		Timeout: c12Timeout,
		Real: func(raw json.RawMessage) any {
			var a ldirArgs
			json.Unmarshal(raw, &a)
			files := map[string]string{}
			for _, d := range a.Dirs {
				files[d+"/.keep"] = ""
			}
			for _, f := range a.Files {
				files[f] = ""
			}
			root, err := core.Materialize(files)
			defer os.RemoveAll(root)
			if err != nil {
				return map[string]any{"bad": err.Error()}
			}
			orig := strings.ReplaceAll(a.Orig, "$ROOT", root)
			got := loader.VerifLocalLoaderDir(filepath.Join(root, a.Lw), orig)
			return map[string]any{"dir": got, "root": root, "dirs": c12AllDirs(root)}
		},
		DriverOp: "c12.ldir",
		DriverArgs: func(args, real json.RawMessage) any {
			var a ldirArgs
			json.Unmarshal(args, &a)
			var r struct {
				Root string   `json:"root"`
				Dirs []string `json:"dirs"`
			}
			json.Unmarshal(real, &r)
			return map[string]any{"lw": filepath.Join(r.Root, a.Lw), "orig": strings.ReplaceAll(a.Orig, "$ROOT", r.Root), "dirs": r.Dirs}
		},
		Judge: func(args, real, drv json.RawMessage) *core.Verdict {
			if v := core.CrashVerdict(real); v != nil {
				return v
			}
			var r, d struct {
				Dir *string `json:"dir"`
				Bad string  `json:"bad"`
			}
			if json.Unmarshal(real, &r) != nil || json.Unmarshal(drv, &d) != nil {
				return core.Disagree("malformed exchange")
			}
			if r.Bad != "" {
				return core.Skip(r.Bad)
			}
			if r.Dir == nil || d.Dir == nil || *r.Dir != *d.Dir {
				return core.Disagree(fmt.Sprintf("Paths.loaderDir ≠ localResourceLoader.Dir: real %v, model %v", r.Dir, d.Dir))
			}
			return nil
		},
	})

	core.RegisterProp("C12", runC12)
}

type ldirArgs struct {
	Lw    string   `json:"lw"`    // loader working directory, relative to the temp root
	Orig  string   `json:"orig"`  // the path handed to Dir ($ROOT = the temp root)
	Dirs  []string `json:"dirs"`  // directories that exist
	Files []string `json:"files"` // files that exist
}

func c12AllDirs(root string) []string {
	var l []string
	filepath.Walk(root, func(p string, info os.FileInfo, err error) error {
		if err == nil && info.IsDir() {
			l = append(l, p)
		}
		return nil
	})
	sort.Strings(l)
	return l
}

type symlinkArgs struct {
	Name  string     `json:"name"`
	Dirs  []string   `json:"dirs"`  // directories to create (relative to the temp root)
	Links [][]string `json:"links"` // [link, target]; a target starting with $ROOT is absolute, anything else is stored as written
	Wd    string     `json:"wd"`    // working directory, relative to the temp root
	Path  string     `json:"path"`  // the develop.watch path as written
}

// c12PhysicalPath: the path with every symbolic link of its longest existing prefix resolved (the rest is appended as is).
func c12PhysicalPath(p string) (string, error) {
	p = filepath.Clean(p)
	parts := strings.Split(strings.TrimPrefix(p, "/"), "/")
	cur := "/"
	for i, part := range parts {
		next := filepath.Join(cur, part)
		if _, err := os.Lstat(next); err != nil {
			// `next` does not exist: everything up to `cur` is physical already
			return filepath.Join(append([]string{cur}, parts[i:]...)...), nil
		}
		phys, err := filepath.EvalSymlinks(next)
		if err != nil {
			return "", err
		}
		cur = phys
	}
	return cur, nil
}

var c12SymlinkCases = []symlinkArgs{
	{Name: "none", Dirs: []string{"p/a/c"}, Wd: "p", Path: "a/c/x"},
	{Name: "abs-target", Dirs: []string{"p/b/c"}, Links: [][]string{{"p/a", "$ROOT/p/b"}}, Wd: "p", Path: "a/c/x"},
	{Name: "rel-target", Dirs: []string{"p/real/src"}, Links: [][]string{{"p/link", "real"}}, Wd: "p", Path: "link/src"},
	{Name: "rel-target-dotdot", Dirs: []string{"q/real/src", "p"}, Links: [][]string{{"p/link", "../q/real"}}, Wd: "p", Path: "./link/src/new"},
	{Name: "rel-target-deep", Dirs: []string{"p/x/real/src"}, Links: [][]string{{"p/x/y", "real/src"}}, Wd: "p", Path: "x/y/f"},
	{Name: "nested", Dirs: []string{"p/b", "p/d/x"}, Links: [][]string{{"p/a", "$ROOT/p/b"}, {"p/b/c", "$ROOT/p/d"}}, Wd: "p", Path: "a/c/x"},
	{Name: "nested-rel", Dirs: []string{"p/b", "p/d/x"}, Links: [][]string{{"p/a", "b"}, {"p/b/c", "../d"}}, Wd: "p", Path: "a/c/x"},
	{Name: "chain", Dirs: []string{"p/c/x"}, Links: [][]string{{"p/a", "b"}, {"p/b", "c"}}, Wd: "p", Path: "a/x/new"},
	{Name: "last-component", Dirs: []string{"p/real"}, Links: [][]string{{"p/link", "real"}}, Wd: "p", Path: "link"},
	{Name: "outside-wd", Dirs: []string{"o/real/s", "p"}, Links: [][]string{{"o/link", "real"}}, Wd: "p", Path: "../o/link/s"},
	{Name: "wd-is-link", Dirs: []string{"real/s"}, Links: [][]string{{"p", "real"}}, Wd: "p", Path: "s/x"},
	// written absolute and not clean (round 5): the clean spelling of the link occurs as plain text further up
	{Name: "abs-dotdot-prefix", Dirs: []string{"t/y", "lx"}, Links: [][]string{{"l", "$ROOT/t"}}, Wd: ".", Path: "$ROOT/lx/../l/y"},
	{Name: "abs-dotdot-sibling", Dirs: []string{"data/app/src", "srv/app-compose"}, Links: [][]string{{"srv/app", "$ROOT/data/app"}}, Wd: "srv/app-compose", Path: "$ROOT/srv/app-compose/../app/src"},
	{Name: "abs-dotdot", Dirs: []string{"t/y", "a"}, Links: [][]string{{"l", "$ROOT/t"}}, Wd: ".", Path: "$ROOT/a/../l/y"},
	{Name: "abs-dot", Dirs: []string{"t/y"}, Links: [][]string{{"l", "$ROOT/t"}}, Wd: ".", Path: "$ROOT/./l/y"},
	{Name: "abs-double-slash", Dirs: []string{"t/y"}, Links: [][]string{{"l", "$ROOT/t"}}, Wd: ".", Path: "$ROOT//l/y"},
	{Name: "abs-trailing-slash", Dirs: []string{"t/y"}, Links: [][]string{{"l", "$ROOT/t"}}, Wd: ".", Path: "$ROOT/l/y/"},
	{Name: "abs-clean", Dirs: []string{"t/y"}, Links: [][]string{{"l", "$ROOT/t"}}, Wd: ".", Path: "$ROOT/l/y"},
	{Name: "dangling", Dirs: []string{"p"}, Links: [][]string{{"p/link", "missing"}}, Wd: "p", Path: "link/x"},
	{Name: "loop", Dirs: []string{"p"}, Links: [][]string{{"p/a", "b"}, {"p/b", "a"}}, Wd: "p", Path: "a/x"},
}

type composeArgs struct {
	Tree    json.RawMessage `json:"tree"`
	Wd      string          `json:"wd"`
	Rel     string          `json:"rel"`
	Home    string          `json:"home"`
	Remotes []string        `json:"remotes"`
}

func patOfFirst(moved []string) string {
	if len(moved) == 0 {
		return ""
	}
	s := moved[0]
	if i := strings.Index(s, ":"); i >= 0 {
		s = s[:i]
	}
	return s
}

// leafAt follows a diff position (list items as "[]", indices in idx) in a tree.
func leafAt(t any, p []string, idx []int) any {
	i := 0
	for _, k := range p {
		switch x := t.(type) {
		case map[string]any:
			t = x[k]
		case []any:
			if i < len(idx) && idx[i] < len(x) {
				t = x[idx[i]]
				i++
			} else {
				return nil
			}
		default:
			return nil
		}
	}
	return t
}

// interClass: how the second stage misreads the value the first stage produced.
func interClass(v any) string {
	s, ok := v.(string)
	switch {
	case !ok:
		return "stage1-not-a-string"
	case strings.HasPrefix(s, "~"):
		return "stage1-starts-with-tilde"
	case strings.Contains(s, "://") || paths.VerifIsRemoteContext(s):
		return "stage1-looks-remote"
	case paths.VerifIsWindowsAbs(s):
		return "stage1-looks-windows-abs"
	case filepath.IsAbs(s):
		return "stage1-abs"
	}
	return "stage1-plain"
}

func kindOfPath(p []string) string {
	pat := patOf(p)
	switch {
	case strings.Contains(pat, "build."):
		return "context"
	case strings.HasSuffix(pat, "extends.file"):
		return "extends"
	case strings.HasSuffix(pat, ".source") || strings.HasSuffix(pat, ".device") || strings.HasPrefix(pat, "secrets.") || strings.HasPrefix(pat, "configs."):
		return "mount"
	case strings.Contains(pat, "env_file") || strings.Contains(pat, "label_file") || strings.Contains(pat, "develop."):
		return "local"
	}
	return pat
}

// relClass names the shape of an intermediate (relative) directory — the part of a failure key that explains it.
func relClass(rel string) string {
	c := filepath.Clean(rel)
	switch {
	case strings.HasPrefix(c, "~"):
		return "dir-starts-with-tilde"
	case strings.HasPrefix(c, "git@") || strings.HasPrefix(c, "github.com/") || c == "github.com":
		return "dir-looks-remote"
	case strings.Contains(c, "://"):
		return "dir-has-scheme"
	case paths.VerifIsWindowsAbs(c) || paths.VerifIsWindowsAbs(c+"/"):
		return "dir-looks-windows-abs"
	case filepath.IsAbs(c):
		return "dir-abs"
	}
	return "dir-plain"
}

// ---------------------------------------------------------------- generators

var c12Shapes = []string{
	"./x", "x/y", "../x", ".", "/vabs", "/vabs/x/../y/", "~/x", "C:\\x", "\\\\srv\\share", "https://h/x.git", "git@h:x", "docker-image://img",
	"", "~", "~u/x", "x/../..", "a//b/", "C:/x", "c:x", "C:", "\\\\srv\\share\\x", "//srv/share/x", "\\\\.\\pipe\\x", "\\\\srv\\.sh\\x", "github.com/o/r", "http://h", "git://h/r", "ssh://h/r",
	"x://y", "./https://h", "é/x", "..", "../..", ".hidden", "a b", "file:///x", "x/.", "./", "x:/y", "1:\\x", "\\x", "\\\\a\\b\\", "~/../x", "./~", "x/~", "git@", "a/git@h",
}

var c12Wds = []string{"/vw", "/vw/d/", "/vw/../vo/.", "sub", "../o", ".", "", "/"}
var c12Homes = []string{"/vh", "", "rel/h", "/vh/"}
var c12Rels = []string{"sub", "sub/deep", "../sib", ".", "a/../b", "~", "~/x", "git@h", "github.com/o", "github.com", "C:", "c:/x", "x://y", "https:", "\\\\a\\b", "é", "sub/", "./sub"}

func enc(v any) json.RawMessage {
	b, err := json.Marshal(core.EncodeVal(v))
	if err != nil {
		panic(err)
	}
	return b
}

func runC12(ctx *core.Ctx) {
	rng := ctx.Rng

	// ---------- 1. exhaustive small scope: Join/Clean over {/ . x ~}, windows detection over {\ / . : C 1 é}
	{
		alpha := []string{"/", ".", "x"}
		var all func(n int, alpha []string) []string
		all = func(n int, alpha []string) []string {
			l := []string{""}
			prev := []string{""}
			for i := 0; i < n; i++ {
				var next []string
				for _, p := range prev {
					for _, a := range alpha {
						next = append(next, p+a)
					}
				}
				l = append(l, next...)
				prev = next
			}
			return l
		}
		as := all(ctx.Pick(6, 8), alpha)
		bs := all(ctx.Pick(3, 5), alpha)
		for _, a := range as {
			for _, b := range bs {
				ctx.Add("c12.join", joinArgs{A: a, B: b})
			}
			ctx.Count(fmt.Sprintf("join-exhaustive-len-%d", len(a)))
		}
		for _, p := range all(ctx.Pick(6, 8), []string{"\\", "/", ".", ":", "C", "é"}) {
			ctx.Add("c12.winabs", pArgs{P: p})
			ctx.Count("winabs-exhaustive")
		}
		for _, p := range all(ctx.Pick(4, 5), []string{"\\", "/", ".", ":", "z", "1", "@"}) {
			ctx.Add("c12.winabs", pArgs{P: p})
			ctx.Count("winabs-exhaustive")
		}
		for _, s := range c12Shapes {
			for _, pre := range []string{"", "https://", "http://", "git://", "ssh://", "github.com/", "git@", "https:/", "HTTP://", "github.com", "~", "~/", " "} {
				for _, h := range c12Homes {
					ctx.Add("c12.remote", pArgs{P: pre + s, Home: h})
					ctx.Count("remote-expand")
				}
			}
		}
	}

	// ---------- 2. exhaustive: attribute × shape × base × home  (correspondence + spec oracle + frame + idempotence)
	for _, a := range c12Attrs {
		for _, s := range c12Shapes {
			for _, wd := range c12Wds {
				for _, h := range c12Homes {
					t, _ := attrTree(a.Name, s)
					rem := []string{"oci://", "git@"}
					ra := resolveArgs{Tree: enc(t), Wd: wd, Home: h, Remotes: rem}
					ctx.Add("c12.resolve", ra)
					ctx.Add("c12.attr", attrArgs{Attr: a.Name, Kind: a.Kind, S: s, Wd: wd, Home: h, Remotes: rem})
					ctx.Add("c12.frame", ra)
					if filepath.IsAbs(wd) {
						ctx.Add("c12.idem", ra)
					}
					ctx.Count("attr-exhaustive:" + a.Name)
				}
			}
		}
	}
	ctx.Res.Exhaustive = true

	// ---------- 3. two-stage vs one-stage, exhaustive over attribute × shape × intermediate directory
	for _, a := range c12Attrs {
		for _, s := range c12Shapes {
			for _, rel := range c12Rels {
				t, _ := attrTree(a.Name, s)
				ctx.Add("c12.compose", composeArgs{Tree: enc(t), Wd: "/vw/p", Rel: rel, Home: "/vh"})
				ctx.Count("compose-exhaustive:" + relClass(rel))
			}
		}
	}

	// ---------- 4. seeded random: composed path strings, several services, noise, malformed nodes
	toks := []string{"/", "/", ".", "..", "~", "a", "b", "x", "C:", "\\", "://", "git@", "https://", "github.com/", "é", ":", " ", "-"}
	randPath := func() string {
		if rng.Intn(3) == 0 {
			return c12Shapes[rng.Intn(len(c12Shapes))]
		}
		n := 1 + rng.Intn(6)
		var b strings.Builder
		for i := 0; i < n; i++ {
			b.WriteString(toks[rng.Intn(len(toks))])
		}
		return b.String()
	}
	pick := func(l []string) string { return l[rng.Intn(len(l))] }
	randTree := func(malformed bool) map[string]any {
		t := map[string]any{}
		svcs := map[string]any{}
		for i, n := 0, 1+rng.Intn(3); i < n; i++ {
			s := map[string]any{"image": randPath()}
			if rng.Intn(2) == 0 {
				b := map[string]any{"context": randPath(), "dockerfile": randPath()}
				if rng.Intn(2) == 0 {
					b["additional_contexts"] = map[string]any{"k1": randPath(), "k.2": randPath()}
				}
				s["build"] = b
			}
			if rng.Intn(3) == 0 {
				s["env_file"] = []any{map[string]any{"path": randPath(), "required": rng.Intn(2) == 0}, map[string]any{"path": randPath()}}
			}
			if rng.Intn(3) == 0 {
				s["label_file"] = []any{randPath(), randPath()}
			}
			if rng.Intn(4) == 0 {
				s["extends"] = map[string]any{"file": randPath(), "service": randPath()}
			}
			if rng.Intn(4) == 0 {
				s["develop"] = map[string]any{"watch": []any{map[string]any{"path": randPath(), "action": "sync", "target": randPath()}}}
			}
			if rng.Intn(2) == 0 {
				var vols []any
				for j, m := 0, 1+rng.Intn(3); j < m; j++ {
					v := map[string]any{"type": pick([]string{"bind", "bind", "volume", "tmpfs", "npipe", "Bind"}), "target": randPath()}
					if rng.Intn(8) != 0 {
						v["source"] = randPath()
					}
					if rng.Intn(3) == 0 {
						v["bind"] = map[string]any{"create_host_path": true}
					}
					vols = append(vols, v)
				}
				s["volumes"] = vols
			}
			if rng.Intn(3) == 0 {
				s["environment"] = map[string]any{"A": randPath(), "B": nil}
				s["command"] = []any{randPath()}
				s["working_dir"] = randPath()
			}
			svcs[pick([]string{"a", "b", "c", "d.e", "web"})] = s
		}
		t["services"] = svcs
		if rng.Intn(2) == 0 {
			t["secrets"] = map[string]any{"s1": map[string]any{"file": randPath()}, "s2": map[string]any{"environment": randPath()}}
		}
		if rng.Intn(2) == 0 {
			t["configs"] = map[string]any{"c1": map[string]any{"file": randPath()}, "c2": map[string]any{"content": randPath()}}
		}
		if rng.Intn(2) == 0 {
			vs := map[string]any{}
			for _, n := range []string{"v1", "v2", "v3"} {
				switch rng.Intn(5) {
				case 0:
					vs[n] = nil
				case 1:
					vs[n] = map[string]any{"driver": "local", "driver_opts": map[string]any{"o": pick([]string{"bind", "bind", "rw"}), "device": randPath()}}
				case 2:
					vs[n] = map[string]any{"driver": pick([]string{"local", "nfs"}), "name": randPath()}
				case 3:
					vs[n] = map[string]any{"driver": "local", "driver_opts": map[string]any{"o": "bind"}}
				default:
					vs[n] = map[string]any{"external": true, "driver_opts": map[string]any{"o": "bind", "device": randPath()}}
				}
			}
			t["volumes"] = vs
		}
		if rng.Intn(4) == 0 {
			t["include"] = []any{map[string]any{"path": []any{randPath()}, "project_directory": randPath(), "env_file": []any{randPath()}}}
		}
		if rng.Intn(6) == 0 {
			t["name"] = randPath()
			t["networks"] = map[string]any{"n": map[string]any{"driver": randPath()}}
		}
		if malformed {
			// dotted top-level keys (Path.Next does not escape at the root), wrong node kinds at resolver positions
			switch rng.Intn(5) {
			case 0:
				t[pick([]string{"include.path", "include.env_file", "include.project_directory"})] = []any{randPath(), []any{randPath(), []any{randPath()}}, []any{randPath(), 3}, map[string]any{}}[rng.Intn(4)]
			case 1:
				t["services.z.build"] = map[string]any{"context": randPath()}
			case 2:
				t["configs.c"] = map[string]any{"file": randPath()}
			}
			for i, n := 0, 1+rng.Intn(2); i < n; i++ {
				kv := core.KindValue(core.Kinds[rng.Intn(len(core.Kinds))], rng)
				mutateAt(t, rng.Intn(64), kv)
			}
		}
		return t
	}
	n := ctx.Pick(9000, 250000)
	for i := 0; i < n; i++ {
		malformed := i%4 == 3
		t := randTree(malformed)
		ra := resolveArgs{Tree: enc(t), Wd: pick(c12Wds), Home: pick(c12Homes), Remotes: []string{"oci://", "git@"}}
		ctx.Add("c12.resolve", ra)
		if malformed {
			ctx.Count("random-tree-malformed")
		} else {
			ctx.Count("random-tree")
		}
		if i%3 == 0 {
			ctx.Add("c12.frame", ra)
			if filepath.IsAbs(ra.Wd) {
				ctx.Add("c12.idem", ra)
			}
		}
		if i%5 == 0 && !malformed {
			rel := pick(c12Rels[:6])
			if rng.Intn(3) == 0 {
				rel = pick([]string{"p", "p/q", "../r", "..", "../../s", "./t/", "u//v", "w/.."})
			}
			ctx.Add("c12.compose", composeArgs{Tree: ra.Tree, Wd: pick([]string{"/vw/p", "/vw", "/"}), Rel: rel, Home: "/vh"})
			ctx.Count("compose-random")
		}
	}
	// random strings for the string-level functions
	for i, n := 0, ctx.Pick(15000, 400000); i < n; i++ {
		p := randPath()
		ctx.Add("c12.join", joinArgs{A: randPath(), B: p})
		ctx.Add("c12.winabs", pArgs{P: p})
		ctx.Add("c12.remote", pArgs{P: p, Home: pick(c12Homes)})
		a := c12Attrs[rng.Intn(len(c12Attrs))]
		ctx.Add("c12.attr", attrArgs{Attr: a.Name, Kind: a.Kind, S: p, Wd: pick(c12Wds), Home: pick(c12Homes), Remotes: []string{"oci://", "git@"}})
		ctx.Count("random-string")
	}

	// filepath.Rel / Dir: exhaustive over {/ . x y} (pairs), then the local loader's Dir on real directory trees
	{
		var all func(n int) []string
		all = func(n int) []string {
			l := []string{""}
			prev := []string{""}
			for i := 0; i < n; i++ {
				var next []string
				for _, p := range prev {
					for _, a := range []string{"/", ".", "x", "y"} {
						next = append(next, p+a)
					}
				}
				l = append(l, next...)
				prev = next
			}
			return l
		}
		ps := all(ctx.Pick(3, 5))
		for _, b := range ps {
			for _, t := range ps {
				ctx.Add("c12.rel", map[string]string{"base": b, "targ": t})
			}
		}
		ctx.Count("rel-exhaustive")
		for i, n := 0, ctx.Pick(25000, 200000); i < n; i++ {
			ctx.Add("c12.rel", map[string]string{"base": randPath(), "targ": randPath()})
			ctx.Count("rel-random")
		}
		origs := []string{"sub/inc.yaml", "inc.yaml", "../sib/x.yaml", "sub", "sub/deep/", ".", "..", "missing/x.yaml", "$ROOT/p/sub/inc.yaml", "$ROOT/o/x.yaml",
			"a//b/../c.yaml", "sub/deep/../inc.yaml", "../../x.yaml", "$ROOT/p", "$ROOT", "sub/file.yaml/x", "./sub/./inc.yaml", "é/x.yaml", "~/x.yaml", "C:/x.yaml"}
		for _, lw := range []string{"p", "p/sub", "p/sub/..", "p/"} {
			for _, o := range origs {
				ctx.Add("c12.ldir", ldirArgs{Lw: lw, Orig: o, Dirs: []string{"p/sub/deep", "sib", "o", "p/é"}, Files: []string{"p/sub/inc.yaml", "p/inc.yaml", "p/sub/file.yaml"}})
				ctx.Count("ldir")
			}
		}
	}
	// round 5: the same link trees, the function called directly — on the path as written (relative) with the process in
	// the project directory, in its parent and in a sibling, and on the absolute clean path
	symstr := func(c symlinkArgs, kind string) {
		if strings.HasPrefix(c.Path, "$ROOT") {
			return // written absolute: the c12.symlink stream
		}
		for _, wd := range []string{c.Wd, filepath.Dir(c.Wd), "."} {
			r := c
			r.Wd = wd
			ctx.Add("c12.symstr", r)
			ctx.Count("symstr:relative:" + kind)
			r.Path = filepath.Join(c.Wd, c.Path) // what a first stage against the relative directory `Wd` hands over
			ctx.Add("c12.symstr", r)
			ctx.Count("symstr:relative-joined:" + kind)
		}
		r := c
		r.Path = "$ROOT/" + filepath.Join(c.Wd, c.Path)
		ctx.Add("c12.symstr", r)
		ctx.Count("symstr:absolute:" + kind)
	}
	for _, c := range c12SymlinkCases {
		symstr(c, "named")
	}
	for _, c := range c12SymlinkCases {
		ctx.Add("c12.symlink", c)
		ctx.Count("symlink:" + c.Name)
	}
	// seeded: random trees of directories and links (absolute / relative / upward targets), random watch paths through them
	for i, n := 0, ctx.Pick(150, 4000); i < n; i++ {
		names := []string{"a", "b", "c", "d"}
		c := symlinkArgs{Name: "random", Wd: "p", Dirs: []string{"p"}}
		for j, m := 0, 1+rng.Intn(3); j < m; j++ {
			c.Dirs = append(c.Dirs, "p/"+pick(names)+"/"+pick(names))
		}
		for j, m := 0, 1+rng.Intn(3); j < m; j++ {
			link := "p/" + pick(names)
			if rng.Intn(2) == 0 {
				link += "/" + pick(names)
			}
			var target string
			switch rng.Intn(4) {
			case 0:
				target = "$ROOT/p/" + pick(names)
			case 1:
				target = pick(names)
			case 2:
				target = "../" + pick(names)
			default:
				target = pick(names) + "/" + pick(names)
			}
			c.Links = append(c.Links, []string{link, target})
		}
		c.Path = pick(names) + "/" + pick(names) + "/" + pick([]string{"x", "a", "b"})
		ctx.Add("c12.symlink", c)
		ctx.Count("symlink:random")
		if i%2 == 0 {
			// the same tree, the path written absolute with a detour through a name that starts like another one
			u := c
			u.Name = "random-abs-unclean"
			first := pick(names)
			u.Dirs = append(append([]string{}, c.Dirs...), "p/"+first+"x")
			u.Path = "$ROOT/p/" + first + "x/../" + pick([]string{first, pick(names)}) + "/" + pick(names) + pick([]string{"", "/.", "//x"})
			ctx.Add("c12.symlink", u)
			ctx.Count("symlink:random-abs-unclean")
		}
		if i%3 == 0 {
			symstr(c, "random")
		}
	}

	runC12Loads(ctx)
	runC12Multi(ctx)
	runC12Loaders(ctx)
}

// mutateAt replaces the k-th node (pre-order, modulo the size) of the tree below the root by v.
func mutateAt(t map[string]any, k int, v any) {
	type slot struct {
		set func(any)
		val any
	}
	var slots []slot
	var walk func(x any)
	walk = func(x any) {
		switch y := x.(type) {
		case map[string]any:
			ks := make([]string, 0, len(y))
			for k := range y {
				ks = append(ks, k)
			}
			sort.Strings(ks)
			for _, k := range ks {
				k := k
				slots = append(slots, slot{func(n any) { y[k] = n }, y[k]})
				walk(y[k])
			}
		case []any:
			for i := range y {
				i := i
				slots = append(slots, slot{func(n any) { y[i] = n }, y[i]})
				walk(y[i])
			}
		}
	}
	walk(t)
	if len(slots) == 0 {
		return
	}
	slots[k%len(slots)].set(v)
}
