package c12

// C12 — whole loads: attribute × written value × origin {main, override, included depth 1..2 (± project_directory),
// extended from another directory (depth 1..2), extends inside an include} × directory shapes × working-dir
// shapes × resolution on/off.  The real loader is run on a directory tree; every path attribute of the resulting
// project is compared with what the SPECIFICATION (Spec/Paths.lean, through the driver) prescribes for
// (kind, base directory of the origin, home, written value).

import (
	"context"
	"encoding/json"
	"fmt"
	"os"
	"path/filepath"
	"sort"
	"strings"
	"time"

	"github.com/compose-spec/compose-go/v2/loader"
	"github.com/compose-spec/compose-go/v2/types"

	"verifharness/core"
)

type loadArgs struct {
	Attr    string `json:"attr"`
	S       string `json:"s"`
	Origin  string `json:"origin"`
	Dir     string `json:"dir,omitempty"`
	Dir2    string `json:"dir2,omitempty"`
	Wd      string `json:"wd"`       // working-dir shape (relative to the temp root, possibly unclean)
	MainDir string `json:"main_dir"` // directory holding the main compose file (relative to the temp root)
	Off     bool   `json:"off,omitempty"`
}

// one expected observation
type c12Obs struct {
	Name    string `json:"name"`    // what is observed (stable, for keys)
	Kind    string `json:"kind"`    // spec kind
	S       string `json:"s"`       // written value
	Base    string `json:"base"`    // base directory relative to the temp root (unclean allowed), "" with Verbatim
	RelBase string `json:"relbase"` // base directory relative to the working dir (resolution off)
	Verb    bool   `json:"verb"`    // resolution off and origin in a main file: left as written
	Got     any    `json:"got"`
	Stage1  string `json:"stage1"` // what a first-stage resolution against RelBase would have produced (explains a failure)
}

const c12Clean = "proj" // the working directory once cleaned

type scenario struct {
	files map[string]string
	cfgs  []string
	obs   []c12Obs
	steps []map[string]any // the origin chain as written in the files, for the Lean model of the base-directory logic
	// accessors
	svc string // service name in the final project
	top bool   // attribute is top-level (secrets/configs/volumes)
}

func mustJSONText(v any) string {
	b, err := json.Marshal(v)
	if err != nil {
		panic(err)
	}
	return string(b)
}

// carrier builds the service / top-level source carrying (attr = s), in source (not canonical) syntax.
func carrier(attr, s string) (svc map[string]any, top map[string]any, kind string) {
	svc = map[string]any{"image": "./img", "working_dir": "./wd", "command": []any{"./run"}}
	top = map[string]any{}
	switch attr {
	case "build.context":
		svc["build"] = map[string]any{"context": s, "dockerfile": "./Dockerfile"}
		kind = "context"
	case "build.additional_contexts":
		svc["build"] = map[string]any{"context": "/vabs", "additional_contexts": map[string]any{"k": s}}
		kind = "context"
	case "env_file.path":
		svc["env_file"] = []any{map[string]any{"path": s, "required": false}}
		kind = "local"
	case "label_file":
		svc["label_file"] = []any{s}
		kind = "local"
	case "develop.watch.path":
		svc["develop"] = map[string]any{"watch": []any{map[string]any{"path": s, "action": "rebuild"}}}
		kind = "local"
	case "volumes.bind.source":
		svc["volumes"] = []any{map[string]any{"type": "bind", "source": s, "target": "/t"}, map[string]any{"type": "volume", "source": "named", "target": "/n"}}
		kind = "mount"
	case "volumes.short":
		svc["volumes"] = []any{s + ":/t", "named:/n"}
		kind = "mount"
	case "secrets.file":
		top["secrets"] = map[string]any{"s": map[string]any{"file": s}}
		kind = "mount"
	case "configs.file":
		top["configs"] = map[string]any{"c": map[string]any{"file": s}}
		kind = "mount"
	case "volumes.driver_opts.device":
		top["volumes"] = map[string]any{"v": map[string]any{"driver": "local", "driver_opts": map[string]any{"type": "none", "o": "bind", "device": s}}}
		kind = "mount"
	default:
		panic("unknown attribute " + attr)
	}
	return
}

func topLevel(attr string) bool {
	return attr == "secrets.file" || attr == "configs.file" || attr == "volumes.driver_opts.device"
}

func merge(ms ...map[string]any) map[string]any {
	r := map[string]any{}
	for _, m := range ms {
		for k, v := range m {
			r[k] = v
		}
	}
	return r
}

// buildScenario lays out the files for one case.  Paths in `files` are relative to the temp root.
func buildScenario(a loadArgs) (*scenario, string) {
	sc := &scenario{files: map[string]string{}, svc: "svc", top: topLevel(a.Attr)}
	svc, top, kind := carrier(a.Attr, a.S)
	proj := c12Clean
	j := func(parts ...string) string { return filepath.Join(parts...) }
	var base, relbase string
	var stages []string // relative directory of every resolution stage before the last one, innermost first
	verb := false
	put := func(rel string, doc map[string]any) { sc.files[rel] = mustJSONText(doc) }
	mainFile := j(a.MainDir, "compose.yaml")
	sc.cfgs = []string{mainFile}
	switch a.Origin {
	case "main":
		put(mainFile, merge(map[string]any{"services": map[string]any{"svc": svc}}, top))
		base, relbase, verb = a.Wd, ".", a.Off
	case "override":
		put(mainFile, map[string]any{"services": map[string]any{"svc": map[string]any{"image": "base"}, "other": map[string]any{"image": "o"}}})
		over := j(proj, "over", "override.yaml")
		put(over, merge(map[string]any{"services": map[string]any{"svc": svc}}, top))
		sc.cfgs = append(sc.cfgs, over)
		base, relbase, verb = a.Wd, ".", a.Off
	case "include1":
		sc.steps = []map[string]any{{"incl": j(a.Dir, "inc.yaml")}}
		put(mainFile, map[string]any{"include": []any{j(a.Dir, "inc.yaml")}, "services": map[string]any{"main": map[string]any{"image": "m"}}})
		put(j(proj, a.Dir, "inc.yaml"), merge(map[string]any{"services": map[string]any{"svc": svc}}, top))
		base, relbase = a.Wd+"/"+a.Dir, j(a.Dir)
		stages = []string{j(a.Dir)}
	case "include-multi":
		sc.steps = []map[string]any{{"incl": j(a.Dir, "inc.yaml")}}
		// one include entry with two files: the first fixes the project directory, the second (elsewhere) overrides it
		put(mainFile, map[string]any{"include": []any{map[string]any{"path": []any{j(a.Dir, "inc.yaml"), j("elsewhere", a.Dir2, "over.yaml")}}}, "services": map[string]any{"main": map[string]any{"image": "m"}}})
		put(j(proj, a.Dir, "inc.yaml"), map[string]any{"services": map[string]any{"svc": map[string]any{"image": "first"}}})
		put(j(proj, "elsewhere", a.Dir2, "over.yaml"), merge(map[string]any{"services": map[string]any{"svc": svc}}, top))
		base, relbase = a.Wd+"/"+a.Dir, j(a.Dir)
		stages = []string{j(a.Dir)}
	case "include-pd":
		sc.steps = []map[string]any{{"incl": j(a.Dir, "inc.yaml"), "pd": a.Dir2}}
		put(mainFile, map[string]any{"include": []any{map[string]any{"path": j(a.Dir, "inc.yaml"), "project_directory": a.Dir2}}, "services": map[string]any{"main": map[string]any{"image": "m"}}})
		put(j(proj, a.Dir, "inc.yaml"), merge(map[string]any{"services": map[string]any{"svc": svc}}, top))
		put(j(proj, a.Dir2, ".keep"), map[string]any{})
		base, relbase = a.Wd+"/"+a.Dir2, j(a.Dir2)
		stages = []string{j(a.Dir2)}
	case "include2":
		sc.steps = []map[string]any{{"incl": j(a.Dir, "inc.yaml")}, {"incl": j(a.Dir2, "inc2.yaml")}}
		put(mainFile, map[string]any{"include": []any{j(a.Dir, "inc.yaml")}, "services": map[string]any{"main": map[string]any{"image": "m"}}})
		put(j(proj, a.Dir, "inc.yaml"), map[string]any{"include": []any{map[string]any{"path": j(a.Dir2, "inc2.yaml")}}, "services": map[string]any{"mid": map[string]any{"image": "m"}}})
		put(j(proj, a.Dir, a.Dir2, "inc2.yaml"), merge(map[string]any{"services": map[string]any{"svc": svc}}, top))
		base, relbase = a.Wd+"/"+a.Dir+"/"+a.Dir2, j(a.Dir, a.Dir2)
		stages = []string{j(a.Dir2), j(a.Dir)}
	case "extends":
		sc.steps = []map[string]any{{"ext": j(a.Dir, "base.yaml")}}
		put(mainFile, map[string]any{"services": map[string]any{"svc": map[string]any{"extends": map[string]any{"file": j(a.Dir, "base.yaml"), "service": "b"}, "labels": map[string]any{"own": "./l"}}}})
		put(j(proj, a.Dir, "base.yaml"), map[string]any{"services": map[string]any{"b": svc}})
		base, relbase = a.Wd+"/"+a.Dir, j(a.Dir)
		stages = []string{j(a.Dir)}
	case "extends-chain":
		sc.steps = []map[string]any{{"ext": j(a.Dir, "base.yaml")}}
		// the extended service itself extends a sibling of the same (other-directory) file
		put(mainFile, map[string]any{"services": map[string]any{"svc": map[string]any{"extends": map[string]any{"file": j(a.Dir, "base.yaml"), "service": "b"}}}})
		put(j(proj, a.Dir, "base.yaml"), map[string]any{"services": map[string]any{"b": map[string]any{"extends": map[string]any{"service": "c"}, "labels": map[string]any{"mid": "./l"}}, "c": svc}})
		base, relbase = a.Wd+"/"+a.Dir, j(a.Dir)
		stages = []string{j(a.Dir)}
	case "extends2":
		sc.steps = []map[string]any{{"ext": j(a.Dir, "base.yaml")}, {"ext": j(a.Dir2, "base2.yaml")}}
		put(mainFile, map[string]any{"services": map[string]any{"svc": map[string]any{"extends": map[string]any{"file": j(a.Dir, "base.yaml"), "service": "b"}}}})
		put(j(proj, a.Dir, "base.yaml"), map[string]any{"services": map[string]any{"b": map[string]any{"extends": map[string]any{"file": j(a.Dir2, "base2.yaml"), "service": "c"}, "labels": map[string]any{"mid": "./l"}}}})
		put(j(proj, a.Dir, a.Dir2, "base2.yaml"), map[string]any{"services": map[string]any{"c": svc}})
		base, relbase = a.Wd+"/"+a.Dir+"/"+a.Dir2, j(a.Dir, a.Dir2)
		stages = []string{j(a.Dir2), j(a.Dir)}
	case "include-extends":
		sc.steps = []map[string]any{{"incl": j(a.Dir, "inc.yaml")}, {"ext": j(a.Dir2, "base.yaml")}}
		put(mainFile, map[string]any{"include": []any{j(a.Dir, "inc.yaml")}, "services": map[string]any{"main": map[string]any{"image": "m"}}})
		put(j(proj, a.Dir, "inc.yaml"), map[string]any{"services": map[string]any{"svc": map[string]any{"extends": map[string]any{"file": j(a.Dir2, "base.yaml"), "service": "b"}}}})
		put(j(proj, a.Dir, a.Dir2, "base.yaml"), map[string]any{"services": map[string]any{"b": svc}})
		base, relbase = a.Wd+"/"+a.Dir+"/"+a.Dir2, j(a.Dir, a.Dir2)
		stages = []string{j(a.Dir2), j(a.Dir)}
	case "include3":
		// round 5: depth 3 (theorem include_chain_origin holds for any depth; the tie was at depth ≤ 2)
		d3 := "l3"
		sc.steps = []map[string]any{{"incl": j(a.Dir, "inc.yaml")}, {"incl": j(a.Dir2, "inc2.yaml")}, {"incl": j(d3, "inc3.yaml")}}
		put(mainFile, map[string]any{"include": []any{j(a.Dir, "inc.yaml")}, "services": map[string]any{"main": map[string]any{"image": "m"}}})
		put(j(proj, a.Dir, "inc.yaml"), map[string]any{"include": []any{map[string]any{"path": j(a.Dir2, "inc2.yaml")}}, "services": map[string]any{"mid": map[string]any{"image": "m"}}})
		put(j(proj, a.Dir, a.Dir2, "inc2.yaml"), map[string]any{"include": []any{j(d3, "inc3.yaml")}, "services": map[string]any{"mid2": map[string]any{"image": "m"}}})
		put(j(proj, a.Dir, a.Dir2, d3, "inc3.yaml"), merge(map[string]any{"services": map[string]any{"svc": svc}}, top))
		base, relbase = a.Wd+"/"+a.Dir+"/"+a.Dir2+"/"+d3, j(a.Dir, a.Dir2, d3)
		stages = []string{d3, j(a.Dir2), j(a.Dir)}
	case "include2-extends":
		// round 5: extends inside the innermost of two included files (include_chain_extends_origin, n = 2)
		e3 := "e3"
		sc.steps = []map[string]any{{"incl": j(a.Dir, "inc.yaml")}, {"incl": j(a.Dir2, "inc2.yaml")}, {"ext": j(e3, "base.yaml")}}
		put(mainFile, map[string]any{"include": []any{j(a.Dir, "inc.yaml")}, "services": map[string]any{"main": map[string]any{"image": "m"}}})
		put(j(proj, a.Dir, "inc.yaml"), map[string]any{"include": []any{map[string]any{"path": j(a.Dir2, "inc2.yaml")}}, "services": map[string]any{"mid": map[string]any{"image": "m"}}})
		put(j(proj, a.Dir, a.Dir2, "inc2.yaml"), map[string]any{"services": map[string]any{"svc": map[string]any{"extends": map[string]any{"file": j(e3, "base.yaml"), "service": "b"}}}})
		put(j(proj, a.Dir, a.Dir2, e3, "base.yaml"), map[string]any{"services": map[string]any{"b": svc}})
		base, relbase = a.Wd+"/"+a.Dir+"/"+a.Dir2+"/"+e3, j(a.Dir, a.Dir2, e3)
		stages = []string{e3, j(a.Dir2), j(a.Dir)}
	default:
		panic("unknown origin " + a.Origin)
	}
	if sc.top && strings.Contains(a.Origin, "extends") {
		return nil, "top-level attributes are not inherited through extends"
	}
	name := a.Attr
	if name == "volumes.short" {
		name = "volumes.bind.source"
	}
	// how a later stage reads what an earlier stage wrote (only used to explain and key a failure)
	stage1, v := "stage1-plain", a.S
	for _, d := range stages {
		if c := interClass(v); c != "stage1-plain" {
			break // exempt or expanded as written: later stages leave it alone
		}
		v = filepath.Join(d, v)
		if c := interClass(v); c != "stage1-plain" {
			stage1 = c
			break
		}
	}
	sc.obs = append(sc.obs, c12Obs{Name: name, Kind: kind, S: a.S, Base: base, RelBase: relbase, Verb: verb, Stage1: stage1})
	// non-path values that must come out as written (frame), and the named volume
	return sc, ""
}

// c12Extract reads the observed attribute from the project rendered as JSON.
func c12Extract(p map[string]any, attr string) (got any, frame map[string]any) {
	frame = map[string]any{}
	dig := func(v any, ks ...any) any {
		for _, k := range ks {
			switch kk := k.(type) {
			case string:
				m, ok := v.(map[string]any)
				if !ok {
					return nil
				}
				v = m[kk]
			case int:
				l, ok := v.([]any)
				if !ok || kk >= len(l) {
					return nil
				}
				v = l[kk]
			}
		}
		return v
	}
	svc := dig(p, "services", "svc")
	frame["image"] = dig(svc, "image")
	frame["working_dir"] = dig(svc, "working_dir")
	frame["command"] = dig(svc, "command", 0)
	switch attr {
	case "build.context":
		got = dig(svc, "build", "context")
		frame["dockerfile"] = dig(svc, "build", "dockerfile")
	case "build.additional_contexts":
		got = dig(svc, "build", "additional_contexts", "k")
	case "env_file.path":
		got = dig(svc, "env_file", 0, "path")
	case "label_file":
		got = dig(svc, "label_file", 0)
	case "develop.watch.path":
		got = dig(svc, "develop", "watch", 0, "path")
	case "volumes.bind.source", "volumes.short":
		got = dig(svc, "volumes", 0, "source")
		frame["named"] = dig(svc, "volumes", 1, "source")
	case "secrets.file":
		got = dig(p, "secrets", "s", "file")
	case "configs.file":
		got = dig(p, "configs", "c", "file")
	case "volumes.driver_opts.device":
		got = dig(p, "volumes", "v", "driver_opts", "device")
	}
	return
}

func realLoad(raw json.RawMessage) any {
	var a loadArgs
	json.Unmarshal(raw, &a)
	sc, why := buildScenario(a)
	if sc == nil {
		return map[string]any{"bad": why}
	}
	root, err := core.Materialize(sc.files)
	defer os.RemoveAll(root)
	if err != nil {
		return map[string]any{"bad": "materialize: " + err.Error()}
	}
	home := filepath.Join(root, "home")
	os.MkdirAll(home, 0o755)
	// the process runs somewhere else, in a directory whose entries have the same names as the project's (all of them
	// symbolic links to a decoy): no attribute may be looked up from there
	defer c12DecoyCwd(filepath.Join(root, a.Wd))()
	if old, had := os.LookupEnv("HOME"); had {
		defer os.Setenv("HOME", old)
	} else {
		defer os.Unsetenv("HOME")
	}
	os.Setenv("HOME", home)
	// label files are read by the loader: create the one the property says is meant, when it lies inside the temp root
	if a.Attr == "label_file" {
		if a.Off {
			return map[string]any{"bad": "label files are read relative to the process directory when resolution is off"}
		}
		want := ""
		switch {
		case strings.HasPrefix(a.S, "~"):
			want = filepath.Join(home, a.S[1:])
		case filepath.IsAbs(a.S):
			return map[string]any{"bad": "absolute label file outside the temp root"}
		default:
			want = filepath.Join(root, sc.obs[0].Base, a.S)
		}
		if !strings.HasPrefix(want, root+"/") {
			return map[string]any{"bad": "label file outside the temp root"}
		}
		if st, err := os.Stat(want); err == nil && st.IsDir() {
			return map[string]any{"bad": "label file is a directory"}
		}
		os.MkdirAll(filepath.Dir(want), 0o755)
		if err := os.WriteFile(want, []byte("L=1\n"), 0o644); err != nil {
			return map[string]any{"bad": "label file cannot be created"}
		}
	}
	var cfs []types.ConfigFile
	for _, f := range sc.cfgs {
		cfs = append(cfs, types.ConfigFile{Filename: filepath.Join(root, f)})
	}
	details := types.ConfigDetails{WorkingDir: root + "/" + a.Wd, ConfigFiles: cfs, Environment: map[string]string{}}
	dirs := allDirs(root) // before the load: the loader does not create directories
	p, err := loader.LoadWithContext(context.Background(), details, func(o *loader.Options) {
		o.SetProjectName("c12", true)
		o.ResolvePaths = !a.Off
		o.SkipConsistencyCheck = true
		o.SkipResolveEnvironment = true
	})
	if err != nil {
		return map[string]any{"err": core.ScrubErr(err, root), "root": root, "home": home, "obs": sc.obs}
	}
	b, err := p.MarshalJSON()
	if err != nil {
		return map[string]any{"bad": "marshal: " + err.Error()}
	}
	var tree map[string]any
	json.Unmarshal(b, &tree)
	got, frame := c12Extract(tree, a.Attr)
	sc.obs[0].Got = got
	return map[string]any{"root": root, "home": home, "obs": sc.obs, "frame": frame, "steps": sc.steps, "dirs": dirs, "wd": details.WorkingDir}
}

// allDirs lists every directory below root (absolute, clean) — the `isDir` parameter of the Lean model.
func allDirs(root string) []string {
	var l []string
	filepath.Walk(root, func(p string, info os.FileInfo, err error) error {
		if err == nil && info.IsDir() {
			l = append(l, p)
		}
		return nil
	})
	sort.Strings(l)
	return l
}

type loadReal struct {
	Steps []map[string]any `json:"steps"`
	Dirs  []string         `json:"dirs"`
	Wd    string           `json:"wd"`
	Root  string         `json:"root"`
	Home  string         `json:"home"`
	Obs   []c12Obs       `json:"obs"`
	Frame map[string]any `json:"frame"`
	Err   string         `json:"err"`
	Bad   string         `json:"bad"`
}

func init() {
	core.Register("c12.load", &core.CheckDef{
		Real:     realLoad,
		DriverOp: "c12.specs",
		Timeout:  90 * time.Second,
		DriverArgs: func(args, real json.RawMessage) any {
			var r loadReal
			json.Unmarshal(real, &r)
			items := []any{}
			for _, o := range r.Obs {
				wd := r.Root + "/" + o.Base
				var a loadArgs
				json.Unmarshal(args, &a)
				if a.Off {
					wd = o.RelBase
				}
				item := map[string]any{"kind": o.Kind, "wd": wd, "home": r.Home, "s": o.S}
				if r.Wd != "" {
					steps := r.Steps
					if steps == nil {
						steps = []map[string]any{}
					}
					item["model"] = map[string]any{"kind": o.Kind, "wd": r.Wd, "home": r.Home, "s": o.S, "final": !a.Off, "dirs": r.Dirs, "steps": steps}
				}
				items = append(items, item)
			}
			return map[string]any{"items": items}
		},
		Judge: func(args, real, drv json.RawMessage) *core.Verdict {
			if v := core.CrashVerdict(real); v != nil {
				return v
			}
			var a loadArgs
			json.Unmarshal(args, &a)
			var r loadReal
			var d []struct {
				Want  *string `json:"want"`
				Class string  `json:"class"`
				Model *struct {
					Ok  *string `json:"ok"`
					Err string  `json:"err"`
				} `json:"model"`
			}
			if json.Unmarshal(real, &r) != nil || json.Unmarshal(drv, &d) != nil {
				return core.Disagree("malformed load exchange")
			}
			if r.Bad != "" {
				return core.Skip(r.Bad)
			}
			if len(d) != len(r.Obs) {
				return core.Disagree("spec answered a different number of questions")
			}
			mode := "on"
			if a.Off {
				mode = "off"
			}
			// correspondence (reported only when the oracle below finds no failing input — a failure outranks a broken tie): the Lean model of the origin logic (Model/PathsOrigin.lean: loaderDir, includeLevel,
			// extendsLevel, staged resolution) predicts the value in the loaded project
			var tie *core.Verdict
			if r.Err == "" {
				for i, o := range r.Obs {
					if m := d[i].Model; m != nil {
						got, _ := o.Got.(string)
						if m.Ok == nil || o.Got == nil || *m.Ok != got {
							tie = core.Disagree(fmt.Sprintf("Paths.predict ≠ loader: %s=%q from %s: project has %v, the model predicts %v %s", o.Name, o.S, a.Origin, o.Got, m.Ok, m.Err))
							break
						}
					}
				}
			}
			for i, o := range r.Obs {
				if d[i].Want == nil {
					if tie != nil {
						return tie
					}
					return core.Skip("the property does not say")
				}
				want := *d[i].Want
				if o.Verb {
					want = o.S
				}
				explain := o.Stage1
				if r.Err != "" {
					// the load fails: acceptable only where the loader must read the file (label files); otherwise it is a rejection of a valid project
					return core.Fail(loadKey("load-error", mode, a.Origin, explain, o.Kind, o.Name), fmt.Sprintf("%s=%q from %s (dir %q/%q): load fails: %s", o.Name, o.S, a.Origin, a.Dir, a.Dir2, r.Err))
				}
				got, _ := o.Got.(string)
				if o.Got == nil || got != want {
					key := loadKey("load", mode, a.Origin, explain, o.Kind, o.Name)
					return core.Fail(key, fmt.Sprintf("%s=%q from %s (dir %q/%q, wd %q, resolution %s): project has %v, the property says %q", o.Name, o.S, a.Origin, a.Dir, a.Dir2, a.Wd, mode, o.Got, want))
				}
			}
			// frame: non-path attributes come out as written
			wantFrame := map[string]string{"image": "./img", "working_dir": "./wd", "command": "./run", "dockerfile": "./Dockerfile", "named": "named"}
			ks := make([]string, 0, len(r.Frame))
			for k := range r.Frame {
				ks = append(ks, k)
			}
			sort.Strings(ks)
			if r.Err == "" {
				for _, k := range ks {
					if s, _ := r.Frame[k].(string); s != wantFrame[k] {
						return core.Fail("load-frame:"+k, fmt.Sprintf("non-path attribute %s was rewritten to %v (origin %s)", k, r.Frame[k], a.Origin))
					}
				}
			}
			return tie
		},
	})
}

// loadKey: a failure explained by the two-stage resolution misreading its own intermediate value is keyed by
// that explanation and the attribute kind; anything else by mode, origin and attribute.
func loadKey(pfx, mode, origin, explain, kind, name string) string {
	if explain != "stage1-plain" {
		return fmt.Sprintf("%s:%s:%s", pfx, explain, kind)
	}
	return fmt.Sprintf("%s:%s:%s:%s", pfx, mode, origin, name)
}

func originClass(o string) string {
	switch {
	case strings.Contains(o, "extends"):
		return "extended"
	case strings.HasPrefix(o, "include"):
		return "included"
	}
	return "main"
}

var c12LoadAttrs = []string{"build.context", "build.additional_contexts", "env_file.path", "label_file", "develop.watch.path",
	"volumes.bind.source", "volumes.short", "secrets.file", "configs.file", "volumes.driver_opts.device"}

// written values for whole loads (no empty value: the schema / validators reject it for several attributes)
var c12LoadShapes = []string{"./x", "x/y", "../x", ".", "/vabs", "~/x", "C:\\x", "\\\\srv\\share\\d", "https://h/x.git", "git@h:x", "docker-image://img",
	"..", "x/../..", "a//b/", "C:/x", "github.com/o/r", "./github.com/o/r", "./~", "~", ".hidden", "./C:/x", "é/x", "../../x"}

var c12Origins = []string{"main", "override", "include1", "include-pd", "include2", "extends", "extends2", "include-extends", "include-multi", "extends-chain", "include3", "include2-extends"}
var c12PlainDirs = []string{"sub", "sub/deep", "../sib", "."}
var c12PlainDirs2 = []string{"sub", "sub/deep", "../sib2"}
var c12OddDirs = []string{"~", "github.com/o", "git@h", "C:", "~x/y"}
var c12WdShapes = []string{"proj", "proj/.", "proj/x/..", "proj//"}

func shortOK(s string) bool {
	// the short volume syntax SOURCE:TARGET is only a bind mount for sources that look like paths; keep those
	if s == "" {
		return false
	}
	switch s[0] {
	case '.', '/', '~':
		return !strings.Contains(s, ":")
	}
	return false
}

func runC12Loads(ctx *core.Ctx) {
	rng := ctx.Rng
	add := func(a loadArgs, tag string) {
		if a.Attr == "volumes.short" && !shortOK(a.S) {
			return
		}
		if topLevel(a.Attr) && strings.Contains(a.Origin, "extends") {
			return
		}
		ctx.Add("c12.load", a)
		ctx.Count("load:" + tag + ":" + originClass(a.Origin))
		ctx.Count("load-origin:" + a.Origin)
	}
	// exhaustive over attribute × origin × written value, plain directories rotated (every origin sees every plain dir)
	k := 0
	for _, at := range c12LoadAttrs {
		for _, o := range c12Origins {
			for _, s := range c12LoadShapes {
				k++
				a := loadArgs{Attr: at, S: s, Origin: o, Dir: c12PlainDirs[k%len(c12PlainDirs)], Dir2: c12PlainDirs2[(k/len(c12PlainDirs))%3], Wd: c12WdShapes[k%len(c12WdShapes)], MainDir: "proj"}
				if k%5 == 0 {
					a.MainDir = "proj/cfg"
				}
				add(a, "exhaustive")
				if k%3 == 0 {
					a.Off = true
					add(a, "exhaustive-off")
				}
			}
		}
	}
	// odd directory names: the two-stage resolution misreads its own intermediate result (recorded findings)
	for _, at := range c12LoadAttrs {
		for _, o := range c12Origins[2:] {
			for _, d := range c12OddDirs {
				for _, s := range []string{"./x", ".", "../x"} {
					add(loadArgs{Attr: at, S: s, Origin: o, Dir: d, Dir2: "sub", Wd: "proj", MainDir: "proj"}, "odd-dir")
				}
			}
		}
	}
	// seeded random
	for i, n := 0, ctx.Pick(800, 40000); i < n; i++ {
		a := loadArgs{Attr: c12LoadAttrs[rng.Intn(len(c12LoadAttrs))], S: c12LoadShapes[rng.Intn(len(c12LoadShapes))], Origin: c12Origins[rng.Intn(len(c12Origins))],
			Dir: c12PlainDirs[rng.Intn(len(c12PlainDirs))], Dir2: c12PlainDirs2[rng.Intn(3)], Wd: c12WdShapes[rng.Intn(len(c12WdShapes))], MainDir: "proj", Off: rng.Intn(4) == 0}
		if rng.Intn(4) == 0 {
			a.MainDir = "proj/cfg"
		}
		if rng.Intn(3) == 0 {
			parts := []string{"a", "b", "..", ".", "é", "d e", "x.y"}
			n := 1 + rng.Intn(3)
			var l []string
			for j := 0; j < n; j++ {
				l = append(l, parts[rng.Intn(len(parts))])
			}
			a.S = strings.Join(l, "/")
			if rng.Intn(2) == 0 {
				a.S = "./" + a.S
			}
		}
		if rng.Intn(5) == 0 {
			a.Dir = []string{"p", "p/q", "../r", "p/../q", "é", "d e"}[rng.Intn(6)]
		}
		add(a, "random")
	}
}
