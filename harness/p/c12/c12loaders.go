package c12

// C12, round 6 — correspondence of the heap model of resource-loader lists (Model/PathsLoaders.lean) with the real
// Options values: a caller's slice with `remotes` registered loaders and `spare` unused slots, toOptions, then a script
// of nested loads, each deriving its list exactly as ApplyInclude / getExtendsBaseFromFile do
// (`c := parent.clone(); c.ResourceLoaders = append(c.RemoteResourceLoaders(), localResourceLoader{dir})`; the two
// statements themselves are pinned by `Loaders.loader_lists_are_source`).  Observed on the real heap: what every
// Options value reads at the end (and its capacity), the caller's slice over its whole capacity.  Oracle (real code
// only): no Options value reads anything else at the end than when it was created.

import (
	"encoding/json"
	"fmt"
	"strings"
	"time"

	"github.com/compose-spec/compose-go/v2/loader"
	"github.com/compose-spec/compose-go/v2/types"

	"verifharness/core"
)

type loadersArgs struct {
	Remotes int     `json:"remotes"`
	Spare   int     `json:"spare"`
	Wd      string  `json:"wd"`
	Script  [][]any `json:"script"` // [from, dir]
}

func shortLoaders(l []loader.ResourceLoader) []string {
	out := []string{}
	for _, x := range l {
		switch {
		case x == nil:
			out = append(out, "nil")
		default:
			s := fmt.Sprintf("%+v", x)
			if r, ok := x.(c12Remote); ok {
				out = append(out, fmt.Sprintf("r%d", r.id))
			} else {
				out = append(out, "L:"+strings.TrimSuffix(strings.TrimPrefix(s, "{WorkingDir:"), "}"))
			}
		}
	}
	return out
}

func realLoaders(raw json.RawMessage) any {
	var a loadersArgs
	json.Unmarshal(raw, &a)
	var mine []loader.ResourceLoader
	if a.Remotes+a.Spare > 0 {
		mine = make([]loader.ResourceLoader, 0, a.Remotes+a.Spare)
		for i := 0; i < a.Remotes; i++ {
			mine = append(mine, c12Remote{i + 1})
		}
	}
	details := types.ConfigDetails{WorkingDir: a.Wd}
	o := loader.VerifToOptions(&details, []func(*loader.Options){func(o *loader.Options) { o.ResourceLoaders = mine }})
	lists := []*loader.Options{o}
	created := [][]string{shortLoaders(o.ResourceLoaders)}
	for _, st := range a.Script {
		from := int(st[0].(float64))
		dir := st[1].(string)
		if from >= len(lists) {
			return map[string]any{"bad": "script refers to a list that does not exist"}
		}
		c := loader.VerifC06Clone(lists[from])
		c.ResourceLoaders = append(c.RemoteResourceLoaders(), loader.VerifC12LocalLoader(dir))
		lists = append(lists, c)
		created = append(created, shortLoaders(c.ResourceLoaders))
	}
	out := []any{}
	for _, l := range lists {
		out = append(out, map[string]any{"read": shortLoaders(l.ResourceLoaders), "cap": cap(l.ResourceLoaders)})
	}
	return map[string]any{"mine": shortLoaders(mine[:cap(mine)]), "lists": out, "created": created}
}

func init() {
	core.Register("c12.loaders", &core.CheckDef{
		Real:     realLoaders,
		DriverOp: "c12.loaders",
		Timeout:  20 * time.Second,
		Judge: func(args, real, drv json.RawMessage) *core.Verdict {
			if v := core.CrashVerdict(real); v != nil {
				return v
			}
			type lst struct {
				Read []string `json:"read"`
				Cap  int      `json:"cap"`
			}
			var r struct {
				Bad     string     `json:"bad"`
				Mine    []string   `json:"mine"`
				Lists   []lst      `json:"lists"`
				Created [][]string `json:"created"`
			}
			var d struct {
				Mine  []string `json:"mine"`
				Lists []lst    `json:"lists"`
			}
			if json.Unmarshal(real, &r) != nil || json.Unmarshal(drv, &d) != nil {
				return core.Disagree("malformed loaders exchange")
			}
			if r.Bad != "" {
				return core.Skip(r.Bad)
			}
			for i := range r.Lists {
				if !sameStrings(r.Lists[i].Read, r.Created[i]) {
					return core.Fail("alias:nested-load-changed-existing-loader-list", fmt.Sprintf("Options value %d read %v when it was created and reads %v after later nested loads were prepared", i, r.Created[i], r.Lists[i].Read))
				}
			}
			if len(d.Lists) != len(r.Lists) {
				return core.Disagree(fmt.Sprintf("model has %d lists, real %d", len(d.Lists), len(r.Lists)))
			}
			if !sameStrings(r.Mine, d.Mine) {
				return core.Disagree(fmt.Sprintf("caller's slice over its capacity: real %v, model %v", r.Mine, d.Mine))
			}
			for i := range r.Lists {
				if !sameStrings(r.Lists[i].Read, d.Lists[i].Read) || r.Lists[i].Cap != d.Lists[i].Cap {
					return core.Disagree(fmt.Sprintf("list %d: real %v cap %d, model %v cap %d", i, r.Lists[i].Read, r.Lists[i].Cap, d.Lists[i].Read, d.Lists[i].Cap))
				}
			}
			return nil
		},
	})
}

func runC12Loaders(ctx *core.Ctx) {
	rng := ctx.Rng
	dirs := []string{"/w/a", "/w/b/c", "/sib", "/w", "rel/d", ""}
	add := func(a loadersArgs, tag string) {
		ctx.Add("c12.loaders", a)
		ctx.Count(fmt.Sprintf("loaders:%s:remotes=%d:spare=%d", tag, a.Remotes, a.Spare))
		nested := false
		for _, st := range a.Script {
			if st[0].(int) > 0 {
				nested = true
			}
		}
		if nested {
			ctx.Count("loaders:child-of-child")
		}
		if len(a.Script) >= 2 {
			ctx.Count("loaders:two-or-more-nested-loads")
		}
	}
	// exhaustive: remotes 0..5 × spare 0..3 × every script shape of length ≤ 3 (from ∈ lists created so far)
	for rem := 0; rem <= 5; rem++ {
		for spare := 0; spare <= 3; spare++ {
			var rec func(script [][]any)
			rec = func(script [][]any) {
				add(loadersArgs{Remotes: rem, Spare: spare, Wd: "/w", Script: append([][]any{}, script...)}, "exhaustive")
				if len(script) == 3 {
					return
				}
				for from := 0; from <= len(script); from++ {
					rec(append(append([][]any{}, script...), []any{from, dirs[(len(script)+from)%len(dirs)]}))
				}
			}
			rec(nil)
		}
	}
	for i, n := 0, ctx.Pick(300, 20000); i < n; i++ {
		a := loadersArgs{Remotes: rng.Intn(6), Spare: rng.Intn(4), Wd: []string{"/w", "/w/x/..", "rel"}[rng.Intn(3)]}
		for j, m := 0, rng.Intn(7); j < m; j++ {
			a.Script = append(a.Script, []any{rng.Intn(j + 1), dirs[rng.Intn(len(dirs))]})
		}
		add(a, "random")
	}
}
