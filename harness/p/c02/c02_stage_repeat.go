package c02

// c02.stageRepeat — the `…_stage_perm` theorems (Props/C02Stages.lean: every loader stage that walks the untyped tree
// treats trees that differ only in the order of mapping entries alike, at every nesting level) observed on the REAL stage
// functions: one tree is handed to the stage R times, each time as a fresh copy — every run ranges every mapping of the
// tree, and every rule table, in a new random order — and all runs must end alike: the same resulting tree, or a failure
// every time (which failure is reported may differ: Neg.Env.validate_which_error_order_dependent).
// For `validate` the outcome class is also compared with the model (driver op c02.validate = CV.Validate.validate, the
// function validate_stage_perm is about).
//
// stages: validation.Validate · override.EnforceUnicity · transform.Canonical · transform.SetDefaultValues ·
//         loader.Normalize · paths.ResolveRelativePaths · interpolation.Interpolate (loader's cast table)

import (
	"encoding/json"
	"fmt"
	"strings"

	"github.com/compose-spec/compose-go/v2/interpolation"
	"github.com/compose-spec/compose-go/v2/loader"
	"github.com/compose-spec/compose-go/v2/override"
	"github.com/compose-spec/compose-go/v2/paths"
	"github.com/compose-spec/compose-go/v2/transform"
	"github.com/compose-spec/compose-go/v2/types"
	"github.com/compose-spec/compose-go/v2/validation"

	"verifharness/core"
)

type c02StageArgs struct {
	Stage string `json:"stage"`
	Tree  any    `json:"t"`
	Reps  int    `json:"reps"`
}

var c02Stages = []string{"validate", "unicity", "canonical", "defaults", "normalize", "resolvePaths", "interpolate"}

var c02StageEnv = map[string]string{"V": "val", "N": "7", "B": "true", "EMPTY": ""}

// c02StageOnce runs one real stage on a fresh copy of the tree: "ok:<canonical result>" or "fail"
func c02StageOnce(stage string, t any) (out string) {
	defer func() {
		if r := recover(); r != nil {
			out = "fail"
		}
	}()
	m, _ := core.DecodeVal(t).(map[string]any)
	var err error
	switch stage {
	case "defaults", "normalize", "resolvePaths":
		// these run after transform.Canonical in the loader: hand them the canonical form where there is one
		if c, cerr := transform.Canonical(m, false); cerr == nil {
			m = c
		} else {
			m, _ = core.DecodeVal(t).(map[string]any)
		}
	}
	switch stage {
	case "validate":
		err = validation.Validate(m)
	case "unicity":
		m, err = override.EnforceUnicity(m)
	case "canonical":
		m, err = transform.Canonical(m, false)
	case "defaults":
		m, err = transform.SetDefaultValues(m)
	case "normalize":
		m, err = loader.Normalize(m, types.Mapping(c02StageEnv))
	case "resolvePaths":
		err = paths.ResolveRelativePaths(m, "/base/dir", nil)
	case "interpolate":
		m, err = interpolation.Interpolate(m, interpolation.Options{
			LookupValue:     func(k string) (string, bool) { v, ok := c02StageEnv[k]; return v, ok },
			TypeCastMapping: loader.VerifCastTable(),
		})
	default:
		return "bad-stage"
	}
	if err != nil {
		return "fail"
	}
	j, _ := json.Marshal(core.EncodeVal(m))
	return "ok:" + string(j)
}

func init() {
	core.Register("c02.stageRepeat", &core.CheckDef{
		Real: func(raw json.RawMessage) any {
			var a c02StageArgs
			json.Unmarshal(raw, &a)
			first := c02StageOnce(a.Stage, a.Tree)
			for i := 1; i < max(a.Reps, 2); i++ {
				if o := c02StageOnce(a.Stage, a.Tree); o != first {
					return map[string]any{"unstable": []string{first, o}}
				}
			}
			if first == "fail" {
				return map[string]any{"class": "fail"}
			}
			return map[string]any{"class": "ok"}
		},
		DriverOp: "c02.validate",
		DriverArgs: func(args, _ json.RawMessage) any {
			var a c02StageArgs
			json.Unmarshal(args, &a)
			if a.Stage != "validate" {
				return map[string]any{"skip": true}
			}
			return map[string]any{"t": a.Tree}
		},
		Judge: func(args, real, drv json.RawMessage) *core.Verdict {
			if v := core.CrashVerdict(real); v != nil {
				return v
			}
			var a c02StageArgs
			json.Unmarshal(args, &a)
			if strings.HasPrefix(string(real), `{"unstable"`) {
				return core.Fail("nondeterministic:stage:"+a.Stage, "two runs of the real "+a.Stage+" stage on the same tree differ: "+string(real)[:min(len(real), 600)])
			}
			if a.Stage == "validate" {
				var r, d struct {
					Class string `json:"class"`
				}
				json.Unmarshal(real, &r)
				json.Unmarshal(drv, &d)
				if r.Class != d.Class {
					return core.Disagree(fmt.Sprintf("validation.Validate %s, model %s", r.Class, d.Class))
				}
			}
			return nil
		},
	})
}

// c02StageTree: a compose-model-shaped tree that reaches the handlers of every stage (short forms for Canonical, defaulted
// attributes, path attributes, unicity-indexed sequences with colliding keys, the nodes validation.Validate checks — with
// zero, one or several violations — and interpolated scalars)
func c02StageTree(ctx *core.Ctx) map[string]any {
	d := c02ModelTree(ctx)
	r := ctx.Rng
	pick := func(xs ...any) any { return xs[r.Intn(len(xs))] }
	svcs, _ := d["services"].(map[string]any)
	for _, sv := range svcs {
		s := sv.(map[string]any)
		if r.Intn(2) == 0 {
			s["ports"] = []any{pick("80", "8080:80", "127.0.0.1:80:80/udp", 443, "${N}"), pick("80", "8080:80", map[string]any{"target": 80, "published": "8080"})}
		}
		if r.Intn(2) == 0 {
			s["volumes"] = []any{pick("./d:/data", "v:/data:ro", "/abs:/x", "${V}:/data"), pick("./e:/data", map[string]any{"type": "bind", "source": "./src", "target": "/data"}, "/only")}
		}
		if r.Intn(3) == 0 {
			s["env_file"] = pick("./a.env", []any{"./a.env", map[string]any{"path": "./b.env", "required": false}, "./a.env"})
		}
		if r.Intn(3) == 0 {
			s["secrets"] = []any{"s1", map[string]any{"source": "s1", "target": "/run/secrets/s1"}, "s2"}
		}
		if r.Intn(3) == 0 {
			s["configs"] = []any{"c1", map[string]any{"source": "c2", "target": "/c1"}}
		}
		if r.Intn(3) == 0 {
			s["expose"] = []any{"80", 80, "90-91"}
		}
		if r.Intn(3) == 0 {
			s["devices"] = []any{"/dev/a:/dev/b", "/dev/c:/dev/b:rw", map[string]any{"source": "/dev/x", "target": "/dev/b"}}
		}
		if r.Intn(3) == 0 {
			gp := map[string]any{"driver": "nvidia"}
			if r.Intn(2) == 0 {
				gp["count"] = pick(1, "all")
			}
			if r.Intn(2) == 0 {
				gp["device_ids"] = []any{"0"}
			}
			s["gpus"] = pick("all", []any{gp})
		}
		if r.Intn(3) == 0 {
			w := map[string]any{"action": "sync", "path": pick("./src", "./x", "./z", "")}
			s["develop"] = map[string]any{"watch": []any{w, map[string]any{"action": "rebuild", "path": pick("./y", "./w", "./y", "./y", "")}}}
		}
		if r.Intn(3) == 0 {
			dep, _ := s["deploy"].(map[string]any)
			if dep == nil {
				dep = map[string]any{}
			}
			dev := map[string]any{"capabilities": []any{"gpu"}}
			if r.Intn(2) == 0 {
				dev["count"] = 1
			}
			if r.Intn(2) == 0 {
				dev["device_ids"] = []any{"1"}
			}
			dep["resources"] = map[string]any{"reservations": map[string]any{"devices": []any{dev}}}
			s["deploy"] = dep
		}
		if r.Intn(4) == 0 {
			s["image"] = pick("img", "${V}", "${UNSET:-d}", "${UNSET?required}")
		}
		if r.Intn(4) == 0 {
			s["privileged"] = pick(true, "${B}", "true", "maybe")
		}
	}
	fileObj := func() any {
		// mostly one valid source; sometimes a second one (exclusive), none at all (missing), or an external / driver form
		o := map[string]any{pick("file", "environment", "file").(string): pick("./f", "NAME", "${V}")}
		switch r.Intn(8) {
		case 0:
			o[pick("environment", "content", "file").(string)] = "X"
		case 1:
			o = map[string]any{}
		case 2:
			o = map[string]any{"external": pick(true, false, "yes", "maybe", map[string]any{"name": "n"}), "name": "n"}
		case 3:
			o = map[string]any{"driver": "d"}
		}
		if r.Intn(4) == 0 {
			o["labels"] = c02KVMap(ctx, 2, false)
		}
		if r.Intn(6) == 0 {
			o["x-e"] = 1
		}
		return o
	}
	for _, sec := range []string{"secrets", "configs"} {
		if r.Intn(2) == 0 {
			m := map[string]any{}
			for _, n := range []string{"s1", "s2", "c1"} {
				if r.Intn(2) == 0 {
					m[n] = fileObj()
				}
			}
			d[sec] = m
		}
	}
	if r.Intn(2) == 0 {
		m := map[string]any{}
		for _, n := range []string{"v", "w", "u"} {
			switch r.Intn(9) {
			case 0, 1:
				m[n] = nil
			case 2:
				m[n] = map[string]any{"external": pick(true, "on", false, "nope"), "name": "ext"}
			case 3:
				m[n] = map[string]any{"external": true, "name": "ext", "driver": "local"}
			case 4, 5:
				m[n] = map[string]any{"external": true, "name": "ext", "x-k": 1}
			case 6:
				m[n] = map[string]any{"driver": "local", "labels": c02KVMap(ctx, 2, false)}
			case 7:
				m[n] = pick(5, "str", []any{})
			}
		}
		d["volumes"] = m
	}
	return d
}

func runC02StageRepeat(ctx *core.Ctx) {
	for i := 0; i < ctx.Pick(420, 14000); i++ {
		t := core.EncodeVal(c02StageTree(ctx))
		st := c02Stages[i%len(c02Stages)]
		ctx.Count("stageRepeat-" + st)
		ctx.Add("c02.stageRepeat", c02StageArgs{Stage: st, Tree: t, Reps: ctx.Pick(6, 12)})
	}
}
