package c02

// c02.mergeRepeat — the deep order-independence theorem (Props/C02Deep.lean: CV.Merge.mergeYaml respects `Eqv` for every
// rule, at every nesting level) observed on the real function: override.Merge is run R times on fresh copies of one
// (base, override) pair — every run ranges every mapping, at every depth, in a new random order — and all runs must end
// alike: the same merged tree, or a failure every time (which failure may differ).  The trees exercise every special
// merger (labels / environment as map or list, depends_on, networks, build, logging, ulimits, extra_hosts, ipam configs).

import (
	"encoding/json"
	"fmt"
	"strings"

	"github.com/compose-spec/compose-go/v2/override"

	"verifharness/core"
)

type c02MergeRepeatArgs struct {
	Base any `json:"base"`
	Over any `json:"over"`
	Reps int `json:"reps"`
}

func c02MergeOnce(b, o any) (out string) {
	defer func() {
		if r := recover(); r != nil {
			out = "fail"
		}
	}()
	bm, _ := core.DecodeVal(b).(map[string]any)
	om, _ := core.DecodeVal(o).(map[string]any)
	m, err := override.Merge(bm, om)
	if err != nil {
		return "fail"
	}
	j, _ := json.Marshal(core.EncodeVal(m))
	return "ok:" + string(j)
}

func init() {
	core.Register("c02.mergeRepeat", &core.CheckDef{
		Real: func(raw json.RawMessage) any {
			var a c02MergeRepeatArgs
			json.Unmarshal(raw, &a)
			first := c02MergeOnce(a.Base, a.Over)
			for i := 1; i < max(a.Reps, 2); i++ {
				if o := c02MergeOnce(a.Base, a.Over); o != first {
					return map[string]any{"unstable": []string{first, o}}
				}
			}
			if first == "fail" {
				return map[string]any{"err": "merge fails in every run"}
			}
			return map[string]any{"ok": true}
		},
		Judge: func(args, real, _ json.RawMessage) *core.Verdict {
			if v := core.CrashVerdict(real); v != nil {
				return v
			}
			if strings.HasPrefix(string(real), `{"unstable"`) {
				return core.Fail("nondeterministic:override.Merge", "two runs of override.Merge on the same trees differ: "+string(real)[:min(len(real), 600)])
			}
			return nil
		},
	})
}

// c02SvcTree: a service-shaped mapping that reaches every special merger
func c02SvcTree(ctx *core.Ctx) map[string]any {
	s := map[string]any{}
	kv := func() any {
		if ctx.Rng.Intn(2) == 0 {
			return c02KVMap(ctx, 1+ctx.Rng.Intn(3), true)
		}
		return c02List(ctx, 1+ctx.Rng.Intn(3))
	}
	names := []string{"a", "b", "c", "d"}
	some := func() []any {
		var l []any
		for _, n := range names {
			if ctx.Rng.Intn(2) == 0 {
				l = append(l, n)
			}
		}
		return l
	}
	if ctx.Rng.Intn(2) == 0 {
		s["labels"] = kv()
	}
	if ctx.Rng.Intn(2) == 0 {
		s["environment"] = kv()
	}
	if ctx.Rng.Intn(2) == 0 {
		s["extra_hosts"] = kv()
	}
	if ctx.Rng.Intn(2) == 0 {
		if ctx.Rng.Intn(2) == 0 {
			s["depends_on"] = some()
		} else {
			m := map[string]any{}
			for _, n := range some() {
				m[n.(string)] = map[string]any{"condition": "service_healthy", "restart": ctx.Rng.Intn(2) == 0}
			}
			s["depends_on"] = m
		}
	}
	if ctx.Rng.Intn(2) == 0 {
		if ctx.Rng.Intn(2) == 0 {
			s["networks"] = some()
		} else {
			m := map[string]any{}
			for _, n := range some() {
				if ctx.Rng.Intn(2) == 0 {
					m[n.(string)] = nil
				} else {
					m[n.(string)] = map[string]any{"aliases": []any{"x", "y"}, "priority": ctx.Rng.Intn(3)}
				}
			}
			s["networks"] = m
		}
	}
	if ctx.Rng.Intn(2) == 0 {
		if ctx.Rng.Intn(3) == 0 {
			s["build"] = "./ctx"
		} else {
			s["build"] = map[string]any{"context": ".", "args": kv(), "labels": kv(), "extra_hosts": kv(), "x-b": c02Scalar(ctx)}
		}
	}
	if ctx.Rng.Intn(3) == 0 {
		s["logging"] = map[string]any{"driver": []string{"json-file", "syslog"}[ctx.Rng.Intn(2)], "options": c02KVMap(ctx, 2, false)}
	}
	if ctx.Rng.Intn(3) == 0 {
		s["ulimits"] = map[string]any{"nofile": map[string]any{"soft": ctx.Rng.Intn(3), "hard": 9}, "nproc": ctx.Rng.Intn(3)}
	}
	if ctx.Rng.Intn(3) == 0 {
		s["command"] = []any{"a", "b"}
	}
	if ctx.Rng.Intn(3) == 0 {
		s["deploy"] = map[string]any{"labels": kv(), "resources": map[string]any{"limits": map[string]any{"cpus": "1", "memory": c02Scalar(ctx)}}}
	}
	if ctx.Rng.Intn(4) == 0 {
		s["x-ext"] = c02Tree(ctx, 2)
	}
	return s
}

func c02ModelTree(ctx *core.Ctx) map[string]any {
	d := map[string]any{}
	svcs := map[string]any{}
	for _, n := range []string{"a", "b", "c"} {
		if ctx.Rng.Intn(3) > 0 {
			svcs[n] = c02SvcTree(ctx)
		}
	}
	d["services"] = svcs
	if ctx.Rng.Intn(2) == 0 {
		nets := map[string]any{}
		for _, n := range []string{"n1", "n2"} {
			if ctx.Rng.Intn(2) == 0 {
				continue
			}
			net := map[string]any{}
			if ctx.Rng.Intn(2) == 0 {
				net["labels"] = c02KVMap(ctx, 2, false)
			}
			if ctx.Rng.Intn(3) > 0 {
				var cfgs []any
				for _, sn := range []string{"10.1.0.0/16", "10.2.0.0/16", "fd00::/64"} {
					if ctx.Rng.Intn(2) == 0 {
						c := map[string]any{"subnet": sn}
						if ctx.Rng.Intn(2) == 0 {
							c["gateway"] = "gw-" + fmt.Sprint(ctx.Rng.Intn(3))
						}
						if ctx.Rng.Intn(3) == 0 {
							c["aux_addresses"] = map[string]any{"h1": "1", "h2": fmt.Sprint(ctx.Rng.Intn(3))}
						}
						cfgs = append(cfgs, c)
					}
				}
				if cfgs == nil {
					cfgs = []any{}
				}
				net["ipam"] = map[string]any{"config": cfgs, "driver": "default"}
			}
			nets[n] = net
		}
		d["networks"] = nets
	}
	if ctx.Rng.Intn(3) == 0 {
		d["volumes"] = map[string]any{"v": map[string]any{"labels": c02KVMap(ctx, 2, true), "driver_opts": c02KVMap(ctx, 2, false)}}
	}
	if ctx.Rng.Intn(4) == 0 {
		d["x-top"] = c02Tree(ctx, 2)
	}
	return d
}

func runC02MergeRepeat(ctx *core.Ctx) {
	for i := 0; i < ctx.Pick(800, 40000); i++ {
		ctx.Count("mergeRepeat-random")
		ctx.Add("c02.mergeRepeat", c02MergeRepeatArgs{Base: core.EncodeVal(c02ModelTree(ctx)), Over: core.EncodeVal(c02ModelTree(ctx)), Reps: ctx.Pick(8, 16)})
	}
}
