package c02

// c02.loadSeq — histories of loads inside ONE process (round 6).
//
// The property quantifies over "arbitrary sequences of other loads executed before".  c02.loadN puts generated models in
// front of the load it observes, but its reference is mostly the same process, and a model that disturbs process state
// usually disturbs its own first load in the same way.  This stream makes the history the subject:
//
//	steps  S1 … Sk, T   are loaded one after the other in this process (each in its own directory, or — `same_dir` —
//	                    written over one another at the very same paths); only T's outcome is observed;
//	reference           T alone, loaded by a brand-new process from the same directory (no history at all).
//
// T after any history must end like T in the fresh process: same class and, on success, byte-identical YAML and JSON.
// Any state that survives a call (a package-level default handed out by reference and merged into later, a cache keyed
// by path or by content, a table that is edited, a "seen" set) shows as a difference: key
// nondeterministic:history:<attribute path>.
//
// Two families of sequences:
//   * refine-then-plain (systematic): for every attribute with a short and a long spelling, S declares the short
//     form and refines it with the long form through each merge mechanism of the loader (a later compose file, a second
//     YAML document of the same file, `extends`), i.e. S writes into whatever the short form was expanded to; T is a
//     project that uses the short form of EVERY attribute (so whichever default S wrote into, T reads it);
//   * generated histories: 1–3 models of the c02.loadN generator (override files, extends, include) in front of another.

import (
	"encoding/json"
	"fmt"
	"os"
	"os/exec"
	"path/filepath"
	"strings"
	"time"

	"verifharness/core"
)

type c02SeqStep struct {
	Req   core.LoadReq `json:"req"`
	Label string       `json:"label"`
}

type c02SeqArgs struct {
	Steps    []c02SeqStep `json:"steps"`     // the last one is the observed load
	SameDir  bool         `json:"same_dir"`  // every step is written to the same directory (same absolute paths), replacing the previous one
	Repeat   int          `json:"repeat"`    // each history step is loaded this many times (≥ 1)
	ExpectOK bool         `json:"expect_ok"` // the observed load is valid by construction (systematic family): an error is a harness defect
}

// freshObserve loads the tree at dir in a brand-new process and returns the full observation (no project pointer).
func freshObserve(req core.LoadReq, dir string) (c02Obs, error) {
	self, err := os.Executable()
	if err != nil {
		return c02Obs{}, err
	}
	req.Files = nil
	line, _ := json.Marshal(map[string]any{"id": 0, "op": "c02.loadFull", "args": c02DigestArgs{Req: req, Root: dir}})
	cmd := exec.Command(self, "-serve")
	cmd.Stdin = strings.NewReader(string(line) + "\n")
	cmd.Env = append(os.Environ(), "GOMAXPROCS=2")
	out, err := cmd.Output()
	if err != nil {
		return c02Obs{}, err
	}
	for _, l := range strings.Split(string(out), "\n") {
		var w struct {
			Out *struct {
				Class, Err, YAML, JSON, YErr, JErr string
			} `json:"out"`
		}
		if json.Unmarshal([]byte(l), &w) == nil && w.Out != nil && w.Out.Class != "" {
			return c02Obs{Class: w.Out.Class, Err: w.Out.Err, YAML: w.Out.YAML, JSON: w.Out.JSON, YErr: w.Out.YErr, JErr: w.Out.JErr}, nil
		}
	}
	return c02Obs{}, fmt.Errorf("no answer from the fresh process")
}

func init() {
	core.Register("c02.loadFull", &core.CheckDef{
		Timeout: 60 * time.Second,
		Real: func(raw json.RawMessage) any {
			var a c02DigestArgs
			if err := json.Unmarshal(raw, &a); err != nil {
				return map[string]any{"bad": err.Error()}
			}
			o := c02Observe(a.Req, a.Root)
			return map[string]any{"Class": o.Class, "Err": o.Err, "YAML": o.YAML, "JSON": o.JSON, "YErr": o.YErr, "JErr": o.JErr}
		},
	})
	core.Register("c02.loadSeq", &core.CheckDef{
		Timeout: 120 * time.Second,
		Real: func(raw json.RawMessage) any {
			var a c02SeqArgs
			if err := json.Unmarshal(raw, &a); err != nil || len(a.Steps) == 0 {
				return map[string]any{"bad": fmt.Sprint("arguments: ", err)}
			}
			root, err := core.Materialize(nil)
			defer os.RemoveAll(root)
			if err != nil {
				return map[string]any{"bad": err.Error()}
			}
			write := func(dir string, files map[string]string) error {
				if a.SameDir {
					os.RemoveAll(dir)
				}
				for name, content := range files {
					p := filepath.Join(dir, name)
					if err := os.MkdirAll(filepath.Dir(p), 0o755); err != nil {
						return err
					}
					if err := os.WriteFile(p, []byte(content), 0o644); err != nil {
						return err
					}
				}
				return nil
			}
			var got c02Obs
			var dir string
			hist := []string{}
			for i, st := range a.Steps {
				dir = filepath.Join(root, "w")
				if !a.SameDir {
					dir = filepath.Join(root, fmt.Sprintf("s%d", i))
				}
				if err := write(dir, st.Req.Files); err != nil {
					return map[string]any{"bad": err.Error()}
				}
				if i == len(a.Steps)-1 {
					got = c02Observe(st.Req, dir)
					break
				}
				for k := 0; k < max(a.Repeat, 1); k++ {
					o := c02Observe(st.Req, dir) // a crash or an error of an earlier load is not this case's business
					if k == 0 {
						hist = append(hist, o.Class)
					}
				}
			}
			got.P = nil
			want, err := freshObserve(a.Steps[len(a.Steps)-1].Req, dir)
			if err != nil {
				return map[string]any{"bad": "fresh process: " + err.Error()}
			}
			if d := c02Compare(want, got, "history"); d != nil {
				d["site"] = "history:" + fmt.Sprint(d["site"])
				d["history"] = hist
				d["fresh"] = want.digest()
				d["after"] = got.digest()
				return d
			}
			res := map[string]any{"class": got.Class, "history": hist}
			if got.Class != "ok" {
				res["err"] = got.Err
			}
			return res
		},
		Judge: func(args, real, _ json.RawMessage) *core.Verdict {
			if c := core.Class(real); c == "hang" || c == "fatal" {
				return core.Skip("case did not complete (" + c + "): no determinism verdict; totality is property C01")
			}
			if v := core.CrashVerdict(real); v != nil {
				return v
			}
			var a c02SeqArgs
			json.Unmarshal(args, &a)
			var r struct {
				Diverge, Site, Detail, Bad, Class, Err string
				History                                []string
			}
			json.Unmarshal(real, &r)
			if r.Bad != "" {
				return core.Disagree("harness error: " + r.Bad)
			}
			if r.Diverge != "" {
				var labels []string
				for _, s := range a.Steps {
					labels = append(labels, s.Label)
				}
				return core.Fail("nondeterministic:"+r.Site, fmt.Sprintf("the last load of the sequence [%s] differs from the same load made by a fresh process at %s: %s (earlier loads ended %v)",
					strings.Join(labels, " ; "), r.Site, r.Detail, r.History))
			}
			if a.ExpectOK && r.Class != "ok" {
				return core.Disagree("harness input: the observed project of the systematic family no longer loads: " + r.Err)
			}
			if a.ExpectOK {
				for i, h := range r.History {
					if h != "ok" {
						return core.Disagree(fmt.Sprintf("harness input: history step %d (%s) of the systematic family no longer loads (%s): it would not exercise the merge", i, a.Steps[i].Label, h))
					}
				}
			}
			return nil
		},
	})
}

// ---------------------------------------------------------------- the systematic family

// seqAttr: one attribute with a short spelling and a long-syntax refinement that is MERGED INTO the expanded short form.
type seqAttr struct {
	Name  string
	Short any // value on the service (short / default-relying spelling)
	Long  any // value in the later file / second document / extending service
	Top   bool
}

func seqAttrs() []seqAttr {
	return []seqAttr{
		{Name: "depends_on", Short: []any{"store", "cache"}, Long: M(
			"store", M("condition", "service_healthy", "restart", true),
			"cache", M("condition", "service_completed_successfully", "required", false))},
		{Name: "networks", Short: []any{"front", "back"}, Long: M("front", M("aliases", []any{"a1"}, "priority", 5), "back", M("aliases", []any{"b1"}))},
		{Name: "volumes", Short: []any{"data:/d", "./host:/h"}, Long: []any{
			M("type", "volume", "source", "data", "target", "/d", "read_only", true, "volume", M("nocopy", true)),
			M("type", "bind", "source", "./host", "target", "/h", "bind", M("create_host_path", false, "propagation", "rshared"))}},
		{Name: "ports", Short: []any{"8080:80", "9000"}, Long: []any{M("target", 80, "published", "8080", "mode", "host", "name", "web", "host_ip", "127.0.0.1")}},
		{Name: "env_file", Short: "e1.env", Long: []any{M("path", "e1.env", "required", false), M("path", "e2.env", "required", false)}},
		{Name: "label_file", Short: []any{"l1.labels"}, Long: []any{"l2.labels"}},
		{Name: "build", Short: ".", Long: M("context", ".", "dockerfile", "D2", "args", M("A", "1"), "ssh", []any{"default"}, "tags", []any{"t:1"})},
		{Name: "secrets", Short: []any{"sec1"}, Long: []any{M("source", "sec1", "target", "t1", "mode", 0o440, "uid", "1")}},
		{Name: "configs", Short: []any{"cfg1"}, Long: []any{M("source", "cfg1", "target", "/c1", "mode", 0o400, "gid", "2")}},
		{Name: "ulimits", Short: M("nofile", 100, "nproc", 7), Long: M("nofile", M("soft", 1, "hard", 2), "core", 0)},
		{Name: "environment", Short: []any{"K1=v1", "K2"}, Long: M("K1", "x", "K3", "y")},
		{Name: "labels", Short: []any{"l1=a"}, Long: M("l1", "b", "l2", "c")},
		{Name: "annotations", Short: []any{"n1=a"}, Long: M("n1", "b", "n2", "c")},
		{Name: "extra_hosts", Short: []any{"h1=1.1.1.1"}, Long: M("h1", "2.2.2.2", "h2", []any{"3.3.3.3", "4.4.4.4"})},
		{Name: "healthcheck", Short: M("test", "curl x"), Long: M("test", []any{"CMD", "y"}, "interval", "5s", "retries", 3)},
		{Name: "logging", Short: M("driver", "json-file"), Long: M("options", M("max-size", "1m"))},
		{Name: "deploy", Short: M("replicas", 1), Long: M("resources", M("limits", M("cpus", "0.5"), "reservations", M("devices", []any{M("capabilities", []any{"gpu"}, "count", "all")})),
			"placement", M("constraints", []any{"a==b"}), "labels", []any{"d=1"})},
		{Name: "command", Short: "echo a b", Long: []any{"echo", "c"}},
		{Name: "entrypoint", Short: "/bin/sh -c", Long: []any{"/bin/bash"}},
		{Name: "dns", Short: "1.1.1.1", Long: []any{"8.8.8.8"}},
		{Name: "dns_search", Short: "example.com", Long: []any{"corp.example"}},
		{Name: "tmpfs", Short: "/run", Long: []any{"/tmp"}},
		{Name: "cap_add", Short: []any{"NET_ADMIN"}, Long: []any{"SYS_TIME"}},
		{Name: "expose", Short: []any{"3000", 3001}, Long: []any{"3002-3004"}},
		{Name: "devices", Short: []any{"/dev/a:/dev/b"}, Long: []any{"/dev/c:/dev/d:rw"}},
		{Name: "sysctls", Short: []any{"net.core.somaxconn=1024"}, Long: M("net.core.somaxconn", 2048, "net.ipv4.tcp_syncookies", 1)},
		{Name: "develop", Short: M("watch", []any{M("path", "./src", "action", "sync", "target", "/app")}), Long: M("watch", []any{M("path", "./src", "action", "rebuild", "ignore", []any{"x"})})},
		{Name: "blkio_config", Short: M("weight", 300), Long: M("weight_device", []any{M("path", "/dev/sda", "weight", 400)})},
		{Name: "networks", Top: true, Short: M("front", nil, "back", nil), Long: M("front", M("driver", "bridge", "labels", []any{"n=1"}, "ipam", M("config", []any{M("subnet", "10.5.0.0/16")})), "back", M("internal", true))},
		{Name: "volumes", Top: true, Short: M("data", nil), Long: M("data", M("driver", "local", "labels", []any{"v=1"}, "driver_opts", M("o", "bind")))},
		{Name: "secrets", Top: true, Short: M("sec1", M("file", "./sec.txt")), Long: M("sec1", M("file", "./sec.txt", "labels", []any{"s=1"}))},
		{Name: "configs", Top: true, Short: M("cfg1", M("file", "./sec.txt")), Long: M("cfg1", M("file", "./sec.txt", "labels", M("c", "1")))},
	}
}

var seqStatic = map[string]string{
	"e1.env": "E1=one\n", "e2.env": "E2=two\n", "l1.labels": "com.l1=x\n", "l2.labels": "com.l2=y\n", "sec.txt": "s3cret\n",
}

// seqProject: a project whose service `api` (and `api2` when twice) carries attrs[i].pick for the chosen service-level
// attributes, with the top-level resources they refer to.  top = values of the four resource sections.
func seqProject(attrs []seqAttr, which func(seqAttr) any, apiExtra *om, twice bool) *om {
	api := M("image", "alpine")
	top := map[string]any{"networks": M("front", nil, "back", nil), "volumes": M("data", nil),
		"secrets": M("sec1", M("file", "./sec.txt")), "configs": M("cfg1", M("file", "./sec.txt"))}
	for _, at := range attrs {
		v := which(at)
		if v == nil {
			continue
		}
		if at.Top {
			top[at.Name] = v
		} else {
			api.Set(at.Name, v)
		}
	}
	if apiExtra != nil {
		for _, kv := range apiExtra.KV {
			api.Set(kv.K, kv.V)
		}
	}
	svcs := M("api", api)
	if twice {
		api2 := M()
		for _, kv := range api.KV {
			api2.Set(kv.K, kv.V)
		}
		svcs.Set("api2", api2)
	}
	svcs.Set("store", M("image", "alpine"))
	svcs.Set("cache", M("image", "alpine"))
	return M("services", svcs, "networks", top["networks"], "volumes", top["volumes"], "secrets", top["secrets"], "configs", top["configs"])
}

func seqFiles(extra map[string]string) map[string]string {
	out := map[string]string{}
	for k, v := range seqStatic {
		out[k] = v
	}
	for k, v := range extra {
		out[k] = v
	}
	return out
}

// seqRefine: the history step for attribute set `attrs` through mechanism mech.
func seqRefine(attrs []seqAttr, mech string) c02SeqStep {
	short := func(a seqAttr) any { return a.Short }
	long := func(a seqAttr) any { return a.Long }
	// the later document: only what is refined
	laterSvc := M()
	later := M()
	for _, at := range attrs {
		if at.Top {
			later.Set(at.Name, at.Long)
		} else {
			laterSvc.Set(at.Name, at.Long)
		}
	}
	if len(laterSvc.KV) > 0 {
		later.Set("services", M("api", laterSvc))
	}
	base := seqProject(attrs, short, nil, false)
	req := core.LoadReq{ConfigFiles: []string{"compose.yaml"}, ProjectName: "seq"}
	switch mech {
	case "override-file":
		req.Files = seqFiles(map[string]string{"compose.yaml": renderDoc(base, nil), "override.yaml": renderDoc(later, nil)})
		req.ConfigFiles = append(req.ConfigFiles, "override.yaml")
	case "second-document":
		req.Files = seqFiles(map[string]string{"compose.yaml": "---\n" + renderDoc(base, nil) + "---\n" + renderDoc(later, nil)})
	case "extends":
		// api0 declares the short forms, api extends it and refines them; top-level attributes cannot be extended
		p := seqProject(attrs, short, nil, false)
		svcs := getKey(p, "services").(*om)
		api0 := getKey(svcs, "api").(*om)
		ext := M("extends", "api0")
		for _, kv := range laterSvc.KV {
			ext.Set(kv.K, kv.V)
		}
		ns := M("api0", api0, "api", ext)
		for _, kv := range svcs.KV {
			if kv.K != "api" {
				ns.Set(kv.K, kv.V)
			}
		}
		p.Set("services", ns)
		req.Files = seqFiles(map[string]string{"compose.yaml": renderDoc(p, nil)})
	case "extends-file":
		p := seqProject(attrs, func(seqAttr) any { return nil }, nil, false)
		svcs := getKey(p, "services").(*om)
		ext := M("extends", M("file", "base.yaml", "service", "api"))
		for _, kv := range laterSvc.KV {
			ext.Set(kv.K, kv.V)
		}
		svcs.Set("api", ext)
		req.Files = seqFiles(map[string]string{"compose.yaml": renderDoc(p, nil), "base.yaml": renderDoc(base, nil)})
	case "long-only":
		req.Files = seqFiles(map[string]string{"compose.yaml": renderDoc(seqProject(attrs, long, nil, false), nil)})
	}
	var names []string
	for _, a := range attrs {
		n := a.Name
		if a.Top {
			n = "top." + n
		}
		names = append(names, n)
	}
	l := strings.Join(names, ",")
	if len(names) > 3 {
		l = fmt.Sprintf("%d attributes", len(names))
	}
	return c02SeqStep{Req: req, Label: mech + " refines " + l}
}

// seqPlain: the observed project — the short form of every attribute, on two services.
func seqPlain(attrs []seqAttr) c02SeqStep {
	p := seqProject(attrs, func(a seqAttr) any { return a.Short }, nil, true)
	return c02SeqStep{Label: "every short form, alone", Req: core.LoadReq{ConfigFiles: []string{"compose.yaml"}, ProjectName: "seq",
		Files: seqFiles(map[string]string{"compose.yaml": renderDoc(p, nil)})}}
}

func runC02LoadSeq(ctx *core.Ctx) {
	attrs := seqAttrs()
	plain := seqPlain(attrs)
	mechs := []string{"override-file", "second-document", "extends", "extends-file"}
	// 1. systematic: one attribute at a time through every mechanism, then every attribute at once
	for i, at := range attrs {
		for mi, mech := range mechs {
			if at.Top && strings.HasPrefix(mech, "extends") {
				continue
			}
			ctx.Count("seq-refine-" + mech)
			ctx.Count("seq-case")
			ctx.Add("c02.loadSeq", c02SeqArgs{Steps: []c02SeqStep{seqRefine([]seqAttr{at}, mech), plain}, SameDir: (i+mi)%2 == 0, Repeat: 1, ExpectOK: true})
		}
	}
	for _, mech := range append(mechs, "long-only") {
		ctx.Count("seq-refine-all-" + mech)
		ctx.Count("seq-case")
		ctx.Add("c02.loadSeq", c02SeqArgs{Steps: []c02SeqStep{seqRefine(attrs, mech), plain}, Repeat: 2, ExpectOK: true})
		// the refining project observed after itself: its own first load is the history
		ctx.Count("seq-self-history")
		ctx.Count("seq-case")
		st := seqRefine(attrs, mech)
		ctx.Add("c02.loadSeq", c02SeqArgs{Steps: []c02SeqStep{st, st}, SameDir: true, Repeat: 1, ExpectOK: true})
	}
	// 2. generated histories: models of the loadN generator in front of another one
	for i := ctx.Pick(40, 600); i > 0; i-- {
		var steps []c02SeqStep
		k := 1 + ctx.Rng.Intn(3)
		for j := 0; j <= k; j++ {
			in := c02GenInput(ctx.Rng, 1)
			req := in.req(in.files(nil))
			label := "generated model (" + strings.Join(in.Shapes, ",") + ")"
			if j < k && ctx.Rng.Intn(3) == 0 {
				// an earlier load made with other options: nothing an option switched on or off may stick to the process
				switch ctx.Rng.Intn(7) {
				case 0:
					req.SkipValidation = true
				case 1:
					req.SkipInterpolation = true
				case 2:
					req.SkipNormalization = true
				case 3:
					req.NoResolvePaths = true
				case 4:
					req.SkipConsistencyCheck = true
				case 5:
					req.SkipExtends = true
				default:
					req.SkipDefaultValues, req.SkipResolveEnvironment = true, true
				}
				label += " with other options"
				ctx.Count("seq-generated-history-other-options")
			}
			steps = append(steps, c02SeqStep{Req: req, Label: label})
		}
		same := ctx.Rng.Intn(2) == 0
		ctx.Count(fmt.Sprintf("seq-generated-history-%d", k))
		if same {
			ctx.Count("seq-generated-same-paths")
		}
		ctx.Count("seq-case")
		ctx.Add("c02.loadSeq", c02SeqArgs{Steps: steps, SameDir: same, Repeat: 1})
	}
}
