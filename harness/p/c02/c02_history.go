package c02

// c02.history — correspondence of Model/C02History.lean (round 6): a sequence of "loads" of one service's depends_on
// (short list in the first document, long-form refinements in a later one) run on the REAL transform.Canonical and
// override.Merge in the order loader.processRawYaml runs them (merge, canonical), all in one process; the answer is what
// the LAST load of the sequence holds.  The model (`load false`: a fresh default mapping per entry) computes the same
// from the last step alone — `load_fresh_history_independent` — so a difference here is either a broken tie or a
// package-level default that earlier steps wrote into (the judge tells the two apart by re-running the last step in a
// fresh process).

import (
	"encoding/json"
	"fmt"
	"os"
	"os/exec"
	"strings"
	"time"

	"github.com/compose-spec/compose-go/v2/override"
	"github.com/compose-spec/compose-go/v2/transform"

	"verifharness/core"
)

type histOver struct {
	N  string      `json:"n"`
	KV [][2]string `json:"kv"`
}
type histStep struct {
	Short []string   `json:"short"`
	Over  []histOver `json:"over"`
}
type histArgs struct {
	Steps []histStep `json:"steps"`
}

func histRun(st histStep) any {
	var short []any
	for _, n := range st.Short {
		short = append(short, n)
	}
	doc1 := map[string]any{"services": map[string]any{"x": map[string]any{"image": "i", "depends_on": short}}}
	dict, err := override.Merge(map[string]any{}, doc1)
	if err == nil {
		dict, err = transform.Canonical(dict, false)
	}
	if err == nil && len(st.Over) > 0 {
		deps := map[string]any{}
		for _, o := range st.Over {
			e := map[string]any{}
			for _, kv := range o.KV {
				switch {
				case (kv[0] == "required" || kv[0] == "restart") && (kv[1] == "true" || kv[1] == "false"):
					e[kv[0]] = kv[1] == "true"
				default:
					e[kv[0]] = kv[1]
				}
			}
			deps[o.N] = e
		}
		doc2 := map[string]any{"services": map[string]any{"x": map[string]any{"depends_on": deps}}}
		dict, err = override.Merge(dict, doc2)
		if err == nil {
			dict, err = transform.Canonical(dict, false)
		}
	}
	if err != nil {
		return map[string]any{"err": true}
	}
	out := map[string]any{}
	d, _ := dict["services"].(map[string]any)["x"].(map[string]any)["depends_on"].(map[string]any)
	for n, e := range d {
		m := map[string]any{}
		if em, ok := e.(map[string]any); ok {
			for k, v := range em {
				m[k] = fmt.Sprint(v)
			}
		}
		out[n] = m
	}
	return map[string]any{"ok": out}
}

func init() {
	core.Register("c02.historyOne", &core.CheckDef{ // the last step alone (run by a fresh process)
		Timeout: 20 * time.Second,
		Real: func(raw json.RawMessage) any {
			var st histStep
			json.Unmarshal(raw, &st)
			return histRun(st)
		},
	})
	core.Register("c02.history", &core.CheckDef{
		Timeout: 30 * time.Second,
		Real: func(raw json.RawMessage) any {
			var a histArgs
			if json.Unmarshal(raw, &a) != nil || len(a.Steps) == 0 {
				return map[string]any{"bad": "arguments"}
			}
			var last any
			for _, st := range a.Steps {
				last = histRun(st)
			}
			return last
		},
		DriverOp: "c02.history",
		Judge: func(args, real, drv json.RawMessage) *core.Verdict {
			if v := core.CrashVerdict(real); v != nil {
				return v
			}
			if core.CanonEqual(real, drv) {
				return nil
			}
			// model ≠ real: is it the history?  the last step alone, in a brand-new process
			var a histArgs
			json.Unmarshal(args, &a)
			self, err := os.Executable()
			if err == nil && len(a.Steps) > 0 {
				line, _ := json.Marshal(map[string]any{"id": 0, "op": "c02.historyOne", "args": a.Steps[len(a.Steps)-1]})
				cmd := exec.Command(self, "-serve")
				cmd.Stdin = strings.NewReader(string(line) + "\n")
				if out, err := cmd.Output(); err == nil {
					for _, l := range strings.Split(string(out), "\n") {
						var w struct {
							Out json.RawMessage `json:"out"`
						}
						if json.Unmarshal([]byte(l), &w) == nil && len(w.Out) > 0 {
							if !core.CanonEqual(w.Out, real) {
								return core.Fail("nondeterministic:history:transform.transformDependsOn+override.Merge",
									fmt.Sprintf("depends_on of the last step is %s after the earlier steps of the sequence and %s in a fresh process", real, w.Out))
							}
							break
						}
					}
				}
			}
			return core.Disagree("History.load false ≠ transform.Canonical + override.Merge on depends_on")
		},
	})
}

func runC02History(ctx *core.Ctx) {
	names := []string{"db", "cache", "store", "mq"}
	conds := []string{"service_started", "service_healthy", "service_completed_successfully"}
	genStep := func() histStep {
		var st histStep
		for _, n := range names {
			if ctx.Rng.Intn(2) == 0 {
				st.Short = append(st.Short, n)
			}
		}
		ctx.Rng.Shuffle(len(st.Short), func(i, j int) { st.Short[i], st.Short[j] = st.Short[j], st.Short[i] })
		for _, n := range names {
			if ctx.Rng.Intn(3) != 0 {
				continue
			}
			o := histOver{N: n}
			if ctx.Rng.Intn(3) > 0 {
				o.KV = append(o.KV, [2]string{"condition", conds[ctx.Rng.Intn(len(conds))]})
			}
			if ctx.Rng.Intn(3) == 0 {
				o.KV = append(o.KV, [2]string{"required", []string{"true", "false"}[ctx.Rng.Intn(2)]})
			}
			if ctx.Rng.Intn(3) == 0 {
				o.KV = append(o.KV, [2]string{"restart", []string{"true", "false"}[ctx.Rng.Intn(2)]})
			}
			st.Over = append(st.Over, o)
		}
		return st
	}
	// the Neg witness first
	ctx.Count("history-neg-witness")
	ctx.Add("c02.history", histArgs{Steps: []histStep{
		{Short: []string{"store"}, Over: []histOver{{N: "store", KV: [][2]string{{"condition", "service_healthy"}, {"restart", "true"}}}}},
		{Short: []string{"db", "cache"}}}})
	for i := ctx.Pick(300, 6000); i > 0; i-- {
		var a histArgs
		for k := ctx.Rng.Intn(4); k >= 0; k-- {
			a.Steps = append(a.Steps, genStep())
		}
		last := a.Steps[len(a.Steps)-1]
		refinesShort, newName := false, false
		for _, o := range last.Over {
			in := false
			for _, n := range last.Short {
				in = in || n == o.N
			}
			refinesShort = refinesShort || in
			newName = newName || !in
		}
		ctx.Count(fmt.Sprintf("history-steps-%d", len(a.Steps)))
		switch {
		case len(last.Short) == 0 && len(last.Over) == 0:
			ctx.Count("history-last-empty")
		case len(last.Over) == 0:
			ctx.Count("history-last-plain-short-list")
		case refinesShort && newName:
			ctx.Count("history-last-refines-and-adds")
		case refinesShort:
			ctx.Count("history-last-refines-short-entry")
		default:
			ctx.Count("history-last-adds-new-name")
		}
		ctx.Add("c02.history", a)
	}
}
