package c02

// c02.extendsX — loader.ApplyExtends with references into ANOTHER FILE (Model/C02ExtendsX.lean, Props/C02ExtendsX.lean):
// a main-file service that extends a service of another file is resolved from a fresh load of that file every time it
// is reached and is NOT memoised in the main file's map when it is reached through a sibling.  The real loop is run
// with EVERY visit order of the main file's services (loader.VerifApplyExtendsOrdered) against files written to disk:
//   * all orders must end alike (same services, or an error every time)            → nondeterministic:loader.ApplyExtends:cross-file
//   * each order is compared with CV.Det.ExtX.applyAllX for that order (correspondence).
// Shapes: sibling → cross-file service (the witness of Neg/C02ExtendsX.lean, seeds C02-3/6), chains inside the other file,
// two siblings on one cross-file service, missing file / missing service / cycle among the main services.

import (
	"context"
	"encoding/json"
	"fmt"
	"os"
	"path/filepath"

	"github.com/compose-spec/compose-go/v2/consts"
	"github.com/compose-spec/compose-go/v2/loader"
	"github.com/compose-spec/compose-go/v2/types"

	"verifharness/core"
)

type c02ExtXArgs struct {
	Main   [][]any            `json:"main"`   // [name, null | ref | [file, ref], body]
	Files  map[string][][]any `json:"files"`  // file → [name, extendsOrNull, body]
	Orders [][]string         `json:"orders"` // visit orders of the main services
}

func c02ExtXBody(e []any, ext any) map[string]any {
	body, _ := core.DecodeVal(e[2]).(map[string]any)
	if body == nil {
		body = map[string]any{}
	}
	switch r := ext.(type) {
	case string:
		body["extends"] = map[string]any{"service": r}
	case []any:
		if len(r) == 2 {
			body["extends"] = map[string]any{"file": r[0], "service": r[1]}
		}
	}
	return body
}

func c02ExtXReal(raw json.RawMessage) any {
	var a c02ExtXArgs
	if err := json.Unmarshal(raw, &a); err != nil {
		return map[string]any{"bad": err.Error()}
	}
	root, err := os.MkdirTemp(os.Getenv("VERIF_SCRATCH"), "c02x-")
	if err != nil {
		return map[string]any{"bad": err.Error()}
	}
	defer os.RemoveAll(root)
	for f, svcs := range a.Files {
		m := map[string]any{}
		for _, e := range svcs {
			m[e[0].(string)] = c02ExtXBody(e, e[1])
		}
		b, _ := json.Marshal(map[string]any{"services": m})
		if err := os.WriteFile(filepath.Join(root, f), b, 0o644); err != nil {
			return map[string]any{"bad": err.Error()}
		}
	}
	mainAbs := filepath.Join(root, "compose.yaml")
	var outs []any
	for _, order := range a.Orders {
		svcs := map[string]any{}
		for _, e := range a.Main {
			svcs[e[0].(string)] = c02ExtXBody(e, e[1])
		}
		dict := map[string]any{"services": svcs}
		details := types.ConfigDetails{WorkingDir: root, ConfigFiles: []types.ConfigFile{{Filename: mainAbs}}, Environment: map[string]string{}}
		opts := loader.VerifToOptions(&details, nil)
		ctx := context.WithValue(context.Background(), consts.ComposeFileKey{}, mainAbs)
		if err := loader.VerifApplyExtendsOrdered(ctx, dict, opts, order); err != nil {
			outs = append(outs, map[string]any{"err": true})
		} else {
			outs = append(outs, map[string]any{"ok": core.EncodeVal(dict["services"])})
		}
	}
	return map[string]any{"outs": outs}
}

func init() {
	core.Register("c02.extendsX", &core.CheckDef{
		Real:     c02ExtXReal,
		DriverOp: "c02.extendsX",
		Judge: func(args, real, drv json.RawMessage) *core.Verdict {
			if v := core.CrashVerdict(real); v != nil {
				return v
			}
			var r, d struct {
				Outs []json.RawMessage `json:"outs"`
			}
			if json.Unmarshal(real, &r) != nil || json.Unmarshal(drv, &d) != nil || len(r.Outs) == 0 || len(r.Outs) != len(d.Outs) {
				return core.Disagree("malformed exchange: " + string(real)[:min(len(real), 300)] + " / " + string(drv)[:min(len(drv), 300)])
			}
			for i := 1; i < len(r.Outs); i++ {
				if !core.CanonEqual(r.Outs[0], r.Outs[i]) {
					return core.Fail("nondeterministic:loader.ApplyExtends:cross-file",
						fmt.Sprintf("visit orders 0 and %d of the services map end differently: %s vs %s", i, string(r.Outs[0])[:min(len(r.Outs[0]), 400)], string(r.Outs[i])[:min(len(r.Outs[i]), 400)]))
				}
			}
			for i := range r.Outs {
				if !core.CanonEqual(r.Outs[i], d.Outs[i]) {
					return core.Disagree(fmt.Sprintf("ExtX.applyAllX ≠ loader.ApplyExtends for visit order %d", i))
				}
			}
			return nil
		},
	})
}

func c02Perms(names []string) [][]string {
	var out [][]string
	for _, p := range permutations(len(names)) {
		o := make([]string, len(names))
		for i, j := range p {
			o[i] = names[j]
		}
		out = append(out, o)
	}
	return out
}

func runC02ExtendsX(ctx *core.Ctx) {
	r := ctx.Rng
	body := func(nm string) any {
		b := map[string]any{}
		for _, key := range []string{"image", "hostname", "user", "x-e"} {
			if r.Intn(2) == 0 {
				b[key] = nm + "-" + key
			}
		}
		if r.Intn(3) > 0 {
			var l []any
			for j := r.Intn(3); j >= 0; j-- {
				l = append(l, fmt.Sprintf("%s%d", nm, j))
			}
			b["expose"] = l
		}
		return core.EncodeVal(b)
	}
	// the witness of Neg/C02ExtendsX.lean, first
	ctx.Count("extendsX-sibling-through-file")
	ctx.Add("c02.extendsX", c02ExtXArgs{
		Main:   [][]any{{"a", "b", body("a")}, {"b", []any{"other.yaml", "x"}, body("b")}},
		Files:  map[string][][]any{"other.yaml": {{"x", nil, core.EncodeVal(map[string]any{"image": "from-x", "expose": []any{"x0"}})}}},
		Orders: c02Perms([]string{"a", "b"}),
	})
	for i := 0; i < ctx.Pick(320, 12000); i++ {
		n := 2 + r.Intn(3) // 2..4 main services: 2, 6 or 24 orders
		names := []string{"a", "b", "c", "d"}[:n]
		onames := []string{"x", "y", "z"}
		var other [][]any
		for j, nm := range onames {
			var ref any
			switch k := r.Intn(8); {
			case k < 3 && j > 0:
				ref = onames[r.Intn(j)]
			case k == 3:
				ref = onames[r.Intn(len(onames))] // may be cyclic / self
			case k == 4 && r.Intn(3) == 0:
				ref = "ghost"
			}
			other = append(other, []any{nm, ref, body(nm)})
		}
		files := map[string][][]any{"other.yaml": other}
		if r.Intn(4) == 0 {
			files["more.yaml"] = [][]any{{"x", nil, body("mx")}, {"a", "x", body("ma")}}
		}
		var main [][]any
		kind := "plain"
		cross := 0
		for j, nm := range names {
			var ref any
			switch k := r.Intn(10); {
			case k < 4:
				f := "other.yaml"
				if _, ok := files["more.yaml"]; ok && r.Intn(2) == 0 {
					f = "more.yaml"
				}
				switch r.Intn(12) {
				case 0:
					ref = []any{"nofile.yaml", "x"}
					kind = "missing-file"
				case 1:
					ref = []any{f, "ghost"}
					kind = "missing-service"
				default:
					ref = []any{f, []string{"x", "y", "z", "a"}[r.Intn(4)]}
				}
				cross++
			case k < 8 && n > 1:
				o := r.Intn(n)
				if o == j && r.Intn(4) > 0 {
					o = (o + 1) % n
				}
				ref = names[o] // sibling (earlier or later; sometimes itself: cycle)
			}
			main = append(main, []any{nm, ref, body(nm)})
		}
		// the branch the model is about: a sibling reference whose target is itself a cross-file service
		isCross := map[string]bool{}
		for _, e := range main {
			if _, ok := e[1].([]any); ok {
				isCross[e[0].(string)] = true
			}
		}
		through := "no-sibling-through-file"
		for _, e := range main {
			if ref, ok := e[1].(string); ok && isCross[ref] {
				through = "sibling-through-file"
			}
		}
		ctx.Count(fmt.Sprintf("extendsX-random-%d-services-%d-cross-%s", n, min(cross, 2), kind))
		ctx.Count("extendsX-" + through)
		ctx.Add("c02.extendsX", c02ExtXArgs{Main: main, Files: files, Orders: c02Perms(names)})
	}
}
