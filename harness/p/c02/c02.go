package c02

// C02 — loading is deterministic.  Correspondence checks (real function vs Lean model):
//
//	c02.pmatch    tree.Path.Matches                         vs TPath.pmatch
//	c02.table     the real rule tables (verif exports)      vs the regenerated Gen tables (ties the translator)
//	c02.ruleAt    rows of the real table matching a path    vs rows of the Gen table matching it (+ oracle: ≤ 1 row)
//	c02.intoSeq   override.convertIntoSequence              vs Det.intoSeq
//	c02.ssh       types.SSHConfig.DecodeMapstructure        vs Det.sshDecode          (+ oracle: repeated decodes agree)
//	c02.hosts     types.HostsList decode + MarshalYAML      vs Det.hostsDecode/hostsRender
//	c02.mapping   types.Mapping / MappingWithEquals         vs Det.mappingDecode / mweDecode
//	c02.merge     override.Merge on trees without specials  vs Det.mergeGeneric
//	c02.newGraph  graph.CheckCycle (newGraph + checkCycle)  vs Det.newGraph over every iteration order
//	              (the real outcomes of R runs must all be outcomes of some order; oracle: they must agree)
//
// The direct oracle on whole loads is in c02_oracle.go.

import (
	"context"
	"encoding/json"
	"fmt"
	"os"
	"reflect"
	"regexp"
	"runtime"
	"sort"
	"strings"

	"github.com/compose-spec/compose-go/v2/consts"
	"github.com/compose-spec/compose-go/v2/graph"
	"github.com/compose-spec/compose-go/v2/loader"
	"github.com/compose-spec/compose-go/v2/override"
	"github.com/compose-spec/compose-go/v2/transform"
	"github.com/compose-spec/compose-go/v2/tree"
	"github.com/compose-spec/compose-go/v2/types"
	"github.com/compose-spec/compose-go/v2/validation"

	"verifharness/core"
)

type c02PathArgs struct {
	Table   string `json:"table,omitempty"`
	Pattern string `json:"pattern,omitempty"`
	Path    string `json:"path,omitempty"`
}

type c02ValArgs struct {
	V    any    `json:"v"`
	Kind string `json:"kind,omitempty"`
	Reps int    `json:"reps,omitempty"`
}

type c02MergeArgs struct {
	Base any `json:"base"`
	Over any `json:"over"`
}

type c02Svc struct {
	Name string  `json:"name"`
	Deps [][]any `json:"deps"` // [dep, required]
}

type c02Graph struct {
	Services []c02Svc `json:"services"`
	Disabled []string `json:"disabled"`
}

type c02GraphArgs struct {
	G    c02Graph `json:"g"`
	Reps int      `json:"reps"`
}

var funcSuffix = regexp.MustCompile(`(\.func[0-9]+|\.[0-9]+)+$`)

// baseHandler normalises a handler name: real "…/override.mountIndexer.func1" and Gen `mountIndexer("")` → "mountIndexer".
func baseHandler(s string) string {
	if i := strings.IndexByte(s, '('); i >= 0 {
		s = s[:i]
	}
	s = funcSuffix.ReplaceAllString(s, "")
	if i := strings.LastIndexByte(s, '.'); i >= 0 {
		s = s[i+1:]
	}
	return s
}

func realTable(name string) map[string]string {
	switch name {
	case "mergeSpecials":
		return override.VerifMergeSpecials()
	case "unique":
		return override.VerifUnique()
	case "transformers":
		return transform.VerifTransformers()
	case "defaultValues":
		return transform.VerifDefaultValues()
	case "validationChecks":
		return validation.VerifChecks()
	case "castTable":
		out := map[string]string{}
		for k, v := range loader.VerifCastTable() {
			out[string(k)] = runtime.FuncForPC(reflect.ValueOf(v).Pointer()).Name()
		}
		return out
	}
	return nil
}

// the tables whose real counterpart is reachable (paths.resolvers is local to a function: translator only)
var c02RealTables = []string{"mergeSpecials", "unique", "transformers", "defaultValues", "validationChecks", "castTable"}

func sprintClassErr(err error) string {
	s := err.Error()
	switch {
	case strings.Contains(s, "bad host name"):
		return "badHost"
	case strings.Contains(s, "missing IP"):
		return "missingIP"
	case strings.Contains(s, "unexpected value type"), strings.Contains(s, "invalid ssh config type"):
		return "badType"
	}
	return "other:" + s
}

func renderMWE(m types.MappingWithEquals) []string {
	l := []string{}
	for k, v := range m {
		if v == nil {
			l = append(l, k)
		} else {
			l = append(l, k+"="+*v)
		}
	}
	sort.Strings(l)
	return l
}

func nonNil(l []string) []string {
	if l == nil {
		return []string{}
	}
	return l
}

// realGraphOnce builds a project from g and runs graph.CheckCycle on it.
func realGraphOnce(g c02Graph) any {
	p := &types.Project{Services: types.Services{}, DisabledServices: types.Services{}}
	for _, s := range g.Services {
		sc := types.ServiceConfig{Name: s.Name}
		if len(s.Deps) > 0 {
			sc.DependsOn = types.DependsOnConfig{}
			for _, d := range s.Deps {
				sc.DependsOn[d[0].(string)] = types.ServiceDependency{Condition: "service_started", Required: d[1].(bool)}
			}
		}
		p.Services[s.Name] = sc
	}
	for _, d := range g.Disabled {
		p.DisabledServices[d] = types.ServiceConfig{Name: d, Profiles: []string{"off"}}
	}
	err := graph.CheckCycle(p)
	if err != nil {
		s := err.Error()
		switch {
		case strings.Contains(s, "dependency cycle detected"):
			return map[string]any{"err": "cycle"}
		case strings.Contains(s, "but is disabled"):
			return map[string]any{"err": "disabled"}
		case strings.Contains(s, "depends on unknown service"):
			return map[string]any{"err": "unknown"}
		}
		return map[string]any{"err": "other:" + s}
	}
	var names []string
	for n := range p.Services {
		names = append(names, n)
	}
	sort.Strings(names)
	out := []any{}
	for _, n := range names {
		var ds []string
		for d := range p.Services[n].DependsOn {
			ds = append(ds, d)
		}
		sort.Strings(ds)
		deps := []any{}
		for _, d := range ds {
			deps = append(deps, []any{d, p.Services[n].DependsOn[d].Required})
		}
		out = append(out, []any{n, deps})
	}
	return map[string]any{"ok": out}
}

func permutations(n int) [][]int {
	if n == 0 {
		return [][]int{{}}
	}
	var out [][]int
	for _, p := range permutations(n - 1) {
		for i := 0; i <= len(p); i++ {
			q := append(append(append([]int{}, p[:i]...), n-1), p[i:]...)
			out = append(out, q)
		}
	}
	return out
}

// graphVariants enumerates every iteration order of the services map and of each depends_on map
// (bounded: the generator keeps the product ≤ a few hundred).
func graphVariants(g c02Graph) []c02Graph {
	var perSvc [][]c02Svc
	for _, s := range g.Services {
		var vs []c02Svc
		for _, p := range permutations(len(s.Deps)) {
			d := make([][]any, len(p))
			for i, j := range p {
				d[i] = s.Deps[j]
			}
			vs = append(vs, c02Svc{Name: s.Name, Deps: d})
		}
		perSvc = append(perSvc, vs)
	}
	var out []c02Graph
	for _, order := range permutations(len(g.Services)) {
		var rec func(i int, cur []c02Svc)
		rec = func(i int, cur []c02Svc) {
			if i == len(order) {
				out = append(out, c02Graph{Services: append([]c02Svc{}, cur...), Disabled: g.Disabled})
				return
			}
			for _, v := range perSvc[order[i]] {
				rec(i+1, append(cur, v))
			}
		}
		rec(0, nil)
	}
	return out
}

func jsonEq(a, b any) bool {
	x, _ := json.Marshal(a)
	y, _ := json.Marshal(b)
	return string(x) == string(y)
}

func init() {
	core.Register("c02.pmatch", &core.CheckDef{
		Real: func(raw json.RawMessage) any {
			var a c02PathArgs
			json.Unmarshal(raw, &a)
			return map[string]any{"m": tree.Path(a.Path).Matches(tree.Path(a.Pattern))}
		},
		DriverOp: "c02.pmatch",
	})
	core.Register("c02.table", &core.CheckDef{
		Real: func(raw json.RawMessage) any {
			var a c02PathArgs
			json.Unmarshal(raw, &a)
			t := realTable(a.Table)
			var ks []string
			for k := range t {
				ks = append(ks, k)
			}
			sort.Strings(ks)
			rows := []any{}
			for _, k := range ks {
				rows = append(rows, []any{k, baseHandler(t[k])})
			}
			return map[string]any{"rows": rows}
		},
		DriverOp: "c02.table",
		Judge: func(args, real, drv json.RawMessage) *core.Verdict {
			var r, d struct {
				Rows [][]string `json:"rows"`
			}
			if json.Unmarshal(real, &r) != nil || json.Unmarshal(drv, &d) != nil {
				return core.Disagree("malformed table exchange")
			}
			for i := range d.Rows {
				if len(d.Rows[i]) == 2 {
					d.Rows[i][1] = baseHandler(d.Rows[i][1])
				}
			}
			if !reflect.DeepEqual(r.Rows, d.Rows) {
				return core.Disagree(fmt.Sprintf("regenerated table differs from the table in the running code: real=%v gen=%v", r.Rows, d.Rows))
			}
			return nil
		},
	})
	core.Register("c02.ruleAt", &core.CheckDef{
		Real: func(raw json.RawMessage) any {
			var a c02PathArgs
			json.Unmarshal(raw, &a)
			ms := []string{}
			for k := range realTable(a.Table) {
				if tree.Path(a.Path).Matches(tree.Path(k)) {
					ms = append(ms, k)
				}
			}
			sort.Strings(ms)
			return map[string]any{"matches": ms}
		},
		DriverOp: "c02.ruleAt",
		Judge: func(args, real, drv json.RawMessage) *core.Verdict {
			if !core.CanonEqual(real, drv) {
				return core.Disagree("rows matching the path differ between the real table and the regenerated one")
			}
			var r struct {
				Matches []string `json:"matches"`
			}
			json.Unmarshal(real, &r)
			if len(r.Matches) > 1 {
				var a c02PathArgs
				json.Unmarshal(args, &a)
				return core.Fail("ambiguous-rule:"+a.Table+":"+strings.Join(r.Matches, "|"), fmt.Sprintf("path %s matches %d rows of %s: the rule applied depends on map iteration order", a.Path, len(r.Matches), a.Table))
			}
			return nil
		},
	})
	core.Register("c02.intoSeq", &core.CheckDef{
		Real: func(raw json.RawMessage) any {
			var a c02ValArgs
			json.Unmarshal(raw, &a)
			seq := override.VerifConvertIntoSequence(core.DecodeVal(a.V))
			if seq == nil {
				return map[string]any{"nil": true}
			}
			return map[string]any{"seq": core.EncodeVal(seq)}
		},
		DriverOp: "c02.intoSeq",
	})
	core.Register("c02.ssh", &core.CheckDef{
		Real: func(raw json.RawMessage) any {
			var a c02ValArgs
			json.Unmarshal(raw, &a)
			var first any
			for i := 0; i < max(a.Reps, 1); i++ {
				var c types.SSHConfig
				var out any
				if err := c.DecodeMapstructure(core.DecodeVal(a.V)); err != nil {
					out = map[string]any{"err": sprintClassErr(err)}
				} else {
					l := []any{}
					for _, k := range c {
						l = append(l, []any{k.ID, k.Path})
					}
					out = map[string]any{"ok": l}
				}
				if i == 0 {
					first = out
				} else if !jsonEq(first, out) {
					return map[string]any{"unstable": []any{first, out}}
				}
			}
			return first
		},
		DriverOp: "c02.ssh",
		Judge: func(args, real, drv json.RawMessage) *core.Verdict {
			if v := core.CrashVerdict(real); v != nil {
				return v
			}
			if strings.HasPrefix(string(real), `{"unstable"`) {
				return core.Fail("nondeterministic:types.SSHConfig.DecodeMapstructure", "two decodes of the same ssh mapping give different key orders: "+string(real))
			}
			if !core.CanonEqual(real, drv) {
				return core.Disagree("Det.sshDecode ≠ SSHConfig.DecodeMapstructure")
			}
			return nil
		},
	})
	core.Register("c02.hosts", &core.CheckDef{
		Real: func(raw json.RawMessage) any {
			var a c02ValArgs
			json.Unmarshal(raw, &a)
			var first any
			for i := 0; i < max(a.Reps, 1); i++ {
				var h types.HostsList
				var out any
				if err := h.DecodeMapstructure(core.DecodeVal(a.V)); err != nil {
					out = map[string]any{"err": sprintClassErr(err)}
				} else {
					l, _ := h.MarshalYAML()
					out = map[string]any{"ok": nonNil(l.([]string))}
				}
				if i == 0 {
					first = out
				} else if !jsonEq(first, out) {
					return map[string]any{"unstable": []any{first, out}}
				}
			}
			return first
		},
		DriverOp: "c02.hosts",
		Judge: func(args, real, drv json.RawMessage) *core.Verdict {
			if v := core.CrashVerdict(real); v != nil {
				return v
			}
			if strings.HasPrefix(string(real), `{"unstable"`) {
				return core.Fail("nondeterministic:types.HostsList", "two decodes+renderings of the same extra_hosts value differ: "+string(real))
			}
			if !core.CanonEqual(real, drv) {
				return core.Disagree("Det.hostsDecode/hostsRender ≠ HostsList")
			}
			return nil
		},
	})
	core.Register("c02.mapping", &core.CheckDef{
		Real: func(raw json.RawMessage) any {
			var a c02ValArgs
			json.Unmarshal(raw, &a)
			if a.Kind == "mwe" {
				var m types.MappingWithEquals
				if err := m.DecodeMapstructure(core.DecodeVal(a.V)); err != nil {
					return map[string]any{"err": sprintClassErr(err)}
				}
				return map[string]any{"ok": renderMWE(m), "mapping": nonNil(m.ToMapping().Values())}
			}
			var m types.Mapping
			if err := m.DecodeMapstructure(core.DecodeVal(a.V)); err != nil {
				return map[string]any{"err": sprintClassErr(err)}
			}
			return map[string]any{"ok": nonNil(m.Values()), "mwe": renderMWE(m.ToMappingWithEquals())}
		},
		DriverOp: "c02.mapping",
	})
	core.Register("c02.merge", &core.CheckDef{
		Real: func(raw json.RawMessage) any {
			var a c02MergeArgs
			json.Unmarshal(raw, &a)
			b, _ := core.DecodeVal(a.Base).(map[string]any)
			o, _ := core.DecodeVal(a.Over).(map[string]any)
			m, err := override.Merge(b, o)
			if err != nil {
				if strings.Contains(err.Error(), "cannot override") {
					return map[string]any{"err": "cannotOverride"}
				}
				return map[string]any{"err": "other:" + err.Error()}
			}
			return map[string]any{"ok": core.EncodeVal(m)}
		},
		DriverOp: "c02.merge",
	})
	core.Register("c02.mergeSeq", &core.CheckDef{
		Real: func(raw json.RawMessage) any {
			var a struct{ A, B, C, D any }
			json.Unmarshal(raw, &a)
			base := map[string]any{"services": map[string]any{"s": map[string]any{"labels": core.DecodeVal(a.A), "extra_hosts": core.DecodeVal(a.C)}}}
			over := map[string]any{"services": map[string]any{"s": map[string]any{"labels": core.DecodeVal(a.B), "extra_hosts": core.DecodeVal(a.D)}}}
			m, err := override.Merge(base, over)
			if err != nil {
				return map[string]any{"err": err.Error()}
			}
			s := m["services"].(map[string]any)["s"].(map[string]any)
			return map[string]any{"labels": core.EncodeVal(s["labels"]), "extra_hosts": core.EncodeVal(s["extra_hosts"])}
		},
		DriverOp: "c02.mergeSeq",
	})
	core.Register("c02.extends", &core.CheckDef{
		Real: func(raw json.RawMessage) any {
			var a struct {
				Services [][]any `json:"services"`
				Reps     int     `json:"reps"`
			}
			json.Unmarshal(raw, &a)
			var first any
			for i := 0; i < max(a.Reps, 1); i++ {
				svcs := map[string]any{}
				for _, e := range a.Services {
					body := core.DecodeVal(e[2]).(map[string]any)
					if ref, ok := e[1].(string); ok {
						if i%2 == 0 {
							body["extends"] = map[string]any{"service": ref}
						} else {
							body["extends"] = ref
						}
					}
					svcs[e[0].(string)] = body
				}
				dict := map[string]any{"services": svcs}
				ctx := context.WithValue(context.Background(), consts.ComposeFileKey{}, "compose.yaml")
				var out any
				if err := loader.VerifApplyExtends(ctx, dict, &loader.Options{}); err != nil {
					out = map[string]any{"err": true}
				} else {
					out = map[string]any{"ok": core.EncodeVal(dict["services"])}
				}
				if i == 0 {
					first = out
				} else if !jsonEq(first, out) {
					return map[string]any{"unstable": []any{first, out}}
				}
			}
			return first
		},
		DriverOp: "c02.extends",
		Judge: func(args, real, drv json.RawMessage) *core.Verdict {
			if v := core.CrashVerdict(real); v != nil {
				return v
			}
			if strings.HasPrefix(string(real), `{"unstable"`) {
				return core.Fail("nondeterministic:loader.ApplyExtends", "two runs of ApplyExtends on the same services map differ: "+string(real))
			}
			if !core.CanonEqual(real, drv) {
				return core.Disagree("Det.applyAll ≠ loader.ApplyExtends")
			}
			return nil
		},
	})
	core.Register("c02.newGraph", &core.CheckDef{
		Real: func(raw json.RawMessage) any {
			var a c02GraphArgs
			json.Unmarshal(raw, &a)
			var outs []any
			for i := 0; i < max(a.Reps, 1); i++ {
				o := realGraphOnce(a.G)
				dup := false
				for _, p := range outs {
					if jsonEq(p, o) {
						dup = true
					}
				}
				if !dup {
					outs = append(outs, o)
				}
			}
			return map[string]any{"outs": outs}
		},
		DriverOp: "c02.newGraph",
		DriverArgs: func(args, real json.RawMessage) any {
			var a c02GraphArgs
			json.Unmarshal(args, &a)
			return map[string]any{"variants": graphVariants(a.G)}
		},
		Judge: func(args, real, drv json.RawMessage) *core.Verdict {
			if v := core.CrashVerdict(real); v != nil {
				return v
			}
			var r, d struct {
				Outs []json.RawMessage `json:"outs"`
			}
			if json.Unmarshal(real, &r) != nil || json.Unmarshal(drv, &d) != nil || len(d.Outs) == 0 {
				return core.Disagree("malformed newGraph exchange: " + string(drv))
			}
			for _, ro := range r.Outs {
				found := false
				for _, do := range d.Outs {
					if core.CanonEqual(ro, do) {
						found = true
						break
					}
				}
				if !found {
					return core.Disagree(fmt.Sprintf("real outcome %s is not the model's outcome under any iteration order", ro))
				}
			}
			// which error is reported may depend on the order; whether one is, and the project on success, must not
			classes := map[string]bool{}
			for _, ro := range r.Outs {
				if core.Class(ro) == "ok" {
					classes[string(ro)] = true
				} else {
					classes["err"] = true
				}
			}
			if len(classes) > 1 {
				return core.Fail("nondeterministic:graph.newGraph", fmt.Sprintf("graph.CheckCycle on one project gives %d different outcomes: %s", len(r.Outs), real))
			}
			return nil
		},
	})
	core.RegisterProp("C02", runC02)
}

// ---------------------------------------------------------------- generators

var c02ScalarPool = []any{nil, "", "v", "a=b", "x y", "1", true, false, 0, 7, -3, 1.5, "${V}", "é", "z:1"}
var c02KeyPool = []string{"a", "b", "c", "A", "k1", "k.dot", "x-ext", "é", "zz", "_u", "a=b", ""}

func c02Scalar(ctx *core.Ctx) any { return c02ScalarPool[ctx.Rng.Intn(len(c02ScalarPool))] }

// c02KVMap: a mapping whose values are scalars or lists of scalars (the domain of convertIntoSequence / the decoders)
func c02KVMap(ctx *core.Ctx, n int, lists bool) map[string]any {
	m := map[string]any{}
	for len(m) < n {
		k := c02KeyPool[ctx.Rng.Intn(len(c02KeyPool))]
		if lists && ctx.Rng.Intn(4) == 0 {
			var l []any
			for i := ctx.Rng.Intn(3); i >= 0; i-- {
				l = append(l, c02Scalar(ctx))
			}
			m[k] = l
		} else {
			m[k] = c02Scalar(ctx)
		}
	}
	return m
}

// scalarsOnly replaces composite values (whose fmt.Sprint rendering is outside the model) by a string
func scalarsOnly(m map[string]any) map[string]any {
	out := map[string]any{}
	for k, v := range m {
		switch v.(type) {
		case []any, map[string]any:
			out[k] = "composite"
		default:
			out[k] = v
		}
	}
	return out
}

func c02List(ctx *core.Ctx, n int) []any {
	l := []any{}
	pool := []any{"a=1", "b", "a=2", "c=", "=x", "k=v=w", "h:1.2.3.4", "h=[::1]", "g=1.1.1.1,2.2.2.2", "h=5.5.5.5", "nohost", 7, true, "a:b=c", "[x]=1"}
	for i := 0; i < n; i++ {
		l = append(l, pool[ctx.Rng.Intn(len(pool))])
	}
	return l
}

// generic trees for c02.merge: keys never form a path of mergeSpecials (no top-level services/networks/volumes)
func c02Tree(ctx *core.Ctx, depth int) any {
	switch k := ctx.Rng.Intn(10); {
	case k < 3 && depth > 0:
		m := map[string]any{}
		keys := []string{"p", "q", "r", "x-e", "k.d", "s"}
		for i := ctx.Rng.Intn(4); i > 0; i-- {
			m[keys[ctx.Rng.Intn(len(keys))]] = c02Tree(ctx, depth-1)
		}
		return m
	case k < 5 && depth > 0:
		l := []any{}
		for i := ctx.Rng.Intn(3); i > 0; i-- {
			l = append(l, c02Tree(ctx, depth-1))
		}
		return l
	default:
		return c02Scalar(ctx)
	}
}

func c02TopMap(ctx *core.Ctx) map[string]any {
	m := map[string]any{}
	keys := []string{"p", "q", "x-top", "name", "t.u"}
	for i := 1 + ctx.Rng.Intn(3); i > 0; i-- {
		m[keys[ctx.Rng.Intn(len(keys))]] = c02Tree(ctx, 3)
	}
	return m
}

func c02GraphGen(ctx *core.Ctx, nsvc, maxDeps int) c02Graph {
	names := []string{"a", "b", "c", "d"}[:nsvc]
	universe := []string{"a", "b", "c", "d", "off1", "off2", "ghost"}
	var g c02Graph
	g.Disabled = []string{"off1", "off2"}
	for _, n := range names {
		s := c02Svc{Name: n}
		seen := map[string]bool{}
		for i := ctx.Rng.Intn(maxDeps + 1); i > 0; i-- {
			d := universe[ctx.Rng.Intn(len(universe))]
			if seen[d] {
				continue
			}
			seen[d] = true
			req := ctx.Rng.Intn(3) > 0
			if d == "off1" || d == "off2" || d == "ghost" {
				req = ctx.Rng.Intn(4) == 0
			}
			s.Deps = append(s.Deps, []any{d, req})
		}
		g.Services = append(g.Services, s)
	}
	return g
}

func graphVariantCount(g c02Graph) int {
	fact := func(n int) int {
		f := 1
		for i := 2; i <= n; i++ {
			f *= i
		}
		return f
	}
	n := fact(len(g.Services))
	for _, s := range g.Services {
		n *= fact(len(s.Deps))
	}
	return n
}

func runC02(ctx *core.Ctx) {
	if os.Getenv("C02_ONLY") == "oracle" { // development aid: only the whole-load oracle
		runC02Oracle(ctx)
		return
	}
	if os.Getenv("C02_ONLY") == "seq" { // development aid: only the load-sequence streams (round 6)
		runC02History(ctx)
		runC02LoadSeq(ctx)
		return
	}
	if os.Getenv("C02_ONLY") == "round5" { // development aid: only the streams added in round 5 (many seeds, quickly)
		runC02StageRepeat(ctx)
		runC02ExtendsX(ctx)
		return
	}
	// ---- 1. exhaustive small scope
	// 1a. path matching: every pattern/path pair over a small alphabet of parts up to 3 parts (+ the root)
	partsAlpha := []string{"a", "b", "*", "[]", ""}
	var paths []string
	var rec func(prefix []string, n int)
	rec = func(prefix []string, n int) {
		if len(prefix) > 0 {
			paths = append(paths, strings.Join(prefix, "."))
		}
		if n == 0 {
			return
		}
		for _, p := range partsAlpha {
			rec(append(prefix, p), n-1)
		}
	}
	rec(nil, 3)
	for _, pat := range paths {
		for _, p := range paths {
			ctx.Count("pmatch-exhaustive")
			ctx.Add("c02.pmatch", c02PathArgs{Pattern: pat, Path: p})
		}
	}
	// 1b. the regenerated tables are the tables of the running code; every pattern-derived path hits ≤ 1 row
	for _, t := range c02RealTables {
		ctx.Count("table")
		ctx.Add("c02.table", c02PathArgs{Table: t})
		for pat := range realTable(t) {
			ps := strings.Split(pat, ".")
			cands := map[string]bool{}
			// instantiate wildcards several ways; also prefixes and one-part extensions (near misses)
			for _, inst := range []string{"x", "*", "labels", "build", "[]"} {
				q := make([]string, len(ps))
				for i, p := range ps {
					if p == "*" {
						q[i] = inst
					} else {
						q[i] = p
					}
				}
				full := strings.Join(q, ".")
				cands[full] = true
				cands[full+".x"] = true
				cands[full+".*"] = true
				for i := 1; i < len(q); i++ {
					cands[strings.Join(q[:i], ".")] = true
				}
				// replace one literal part by a wildcard-ish / other literal
				for i := range q {
					r := append([]string{}, q...)
					r[i] = "*"
					cands[strings.Join(r, ".")] = true
				}
			}
			var cl []string
			for c := range cands {
				cl = append(cl, c)
			}
			sort.Strings(cl)
			for _, c := range cl {
				for _, t2 := range c02RealTables {
					ctx.Count("ruleAt-derived")
					ctx.Add("c02.ruleAt", c02PathArgs{Table: t2, Path: c})
				}
			}
		}
	}
	// 1c. decoders: every mapping with ≤ 3 keys over a small key/value alphabet
	smallKeys := []string{"a", "b", "c"}
	smallVals := []any{nil, "v", 1, true, []any{"p", 2}, "", "[::1]"}
	var emit func(i int, cur map[string]any)
	emit = func(i int, cur map[string]any) {
		if i == len(smallKeys) {
			cp := map[string]any{}
			for k, v := range cur {
				cp[k] = v
			}
			tv := core.EncodeVal(cp)
			sv := core.EncodeVal(scalarsOnly(cp))
			ctx.Count("decoder-exhaustive")
			ctx.Add("c02.intoSeq", c02ValArgs{V: tv})
			ctx.Add("c02.ssh", c02ValArgs{V: sv, Reps: 12})
			ctx.Add("c02.hosts", c02ValArgs{V: tv, Reps: 4})
			ctx.Add("c02.mapping", c02ValArgs{V: sv})
			ctx.Add("c02.mapping", c02ValArgs{V: sv, Kind: "mwe"})
			return
		}
		emit(i+1, cur)
		for _, v := range smallVals {
			cur[smallKeys[i]] = v
			emit(i+1, cur)
			delete(cur, smallKeys[i])
		}
	}
	emit(0, map[string]any{})
	// 1d. every service graph with 2 services, dependencies among {a, b, off1, ghost} × required/optional (≤ 2 deps each)
	{
		type dep struct {
			n string
			r bool
		}
		var choices [][]dep
		univ := []string{"a", "b", "off1", "ghost"}
		choices = append(choices, nil)
		for i, x := range univ {
			for _, rx := range []bool{true, false} {
				choices = append(choices, []dep{{x, rx}})
				for _, y := range univ[i+1:] {
					for _, ry := range []bool{true, false} {
						choices = append(choices, []dep{{x, rx}, {y, ry}})
					}
				}
			}
		}
		for _, ca := range choices {
			for _, cb := range choices {
				g := c02Graph{Disabled: []string{"off1"}}
				for i, c := range [][]dep{ca, cb} {
					s := c02Svc{Name: []string{"a", "b"}[i]}
					for _, d := range c {
						s.Deps = append(s.Deps, []any{d.n, d.r})
					}
					g.Services = append(g.Services, s)
				}
				ctx.Count("graph-exhaustive")
				ctx.Add("c02.newGraph", c02GraphArgs{G: g, Reps: ctx.Pick(6, 24)})
			}
		}
	}
	// 1e. every `extends` graph over 3 services (each extends nobody / one of the three / a missing one) × 2 body shapes
	{
		names := []string{"a", "b", "c"}
		refs := []any{nil, "a", "b", "c", "ghost"}
		bodies := []map[string]any{
			{"image": "i", "hostname": "h", "healthcheck": map[string]any{"interval": "1s"}},
			{"image": "j", "x-e": []any{1}, "healthcheck": map[string]any{"retries": 2, "interval": "2s"}, "user": nil},
		}
		for _, ra := range refs {
			for _, rb := range refs {
				for _, rc := range refs {
					for sh := 0; sh < 2; sh++ {
						var svcs [][]any
						for i, r := range []any{ra, rb, rc} {
							svcs = append(svcs, []any{names[i], r, core.EncodeVal(bodies[(i+sh)%2])})
						}
						ctx.Count("extends-exhaustive")
						ctx.Add("c02.extends", map[string]any{"services": svcs, "reps": ctx.Pick(6, 20)})
					}
				}
			}
		}
	}
	// 1f. a chain with two siblings at its end (r ← m ← x, m ← y), every service adding 1–3 entries to a list that is merged
	// by appending: the siblings must each get their own entries, whatever order they are resolved in and whatever spare
	// capacity the lists of their base have
	for n := 0; n < 81; n++ {
		sizes := []int{1 + n%3, 1 + (n/3)%3, 1 + (n/9)%3, 1 + (n/27)%3}
		var svcs [][]any
		for i, nm := range []string{"r", "m", "x", "y"} {
			var ref any
			switch nm {
			case "m":
				ref = "r"
			case "x", "y":
				ref = "m"
			}
			var l []any
			for j := 0; j < sizes[i]; j++ {
				l = append(l, fmt.Sprintf("%s%d", nm, j))
			}
			svcs = append(svcs, []any{nm, ref, core.EncodeVal(map[string]any{"image": nm, "expose": l, "cap_drop": l})})
		}
		ctx.Count("extends-siblings-lists")
		ctx.Add("c02.extends", map[string]any{"services": svcs, "reps": ctx.Pick(8, 24)})
	}
	ctx.Res.Exhaustive = true
	// random extends forests / graphs over up to 5 services with random generic bodies
	for i := 0; i < ctx.Pick(1500, 30000); i++ {
		n := 2 + ctx.Rng.Intn(4)
		names := []string{"a", "b", "c", "d", "e"}[:n]
		var svcs [][]any
		for j, nm := range names {
			var ref any
			switch k := ctx.Rng.Intn(10); {
			case k < 5 && j > 0:
				ref = names[ctx.Rng.Intn(j)] // earlier service: acyclic
			case k == 5:
				ref = names[ctx.Rng.Intn(n)] // anyone: may be cyclic / self
			case k == 6 && ctx.Rng.Intn(4) == 0:
				ref = "ghost"
			}
			body := map[string]any{}
			for _, key := range []string{"image", "hostname", "user", "x-e", "working_dir"} {
				if ctx.Rng.Intn(2) == 0 {
					body[key] = c02Scalar(ctx)
				}
			}
			if ctx.Rng.Intn(3) > 0 {
				var l []any
				for j := ctx.Rng.Intn(3); j >= 0; j-- {
					l = append(l, fmt.Sprintf("%s%d", nm, j))
				}
				body["expose"] = l
			}
			if ctx.Rng.Intn(2) == 0 {
				hc := map[string]any{}
				for _, key := range []string{"interval", "retries", "timeout"} {
					if ctx.Rng.Intn(2) == 0 {
						hc[key] = c02Scalar(ctx)
					}
				}
				body["healthcheck"] = hc
			}
			svcs = append(svcs, []any{nm, ref, core.EncodeVal(body)})
		}
		ctx.Count("extends-random")
		ctx.Add("c02.extends", map[string]any{"services": svcs, "reps": 4})
	}

	// ---- 2. seeded random, mostly valid
	for i := 0; i < ctx.Pick(4000, 60000); i++ {
		n := ctx.Rng.Intn(6)
		m := c02KVMap(ctx, n, true)
		tv := core.EncodeVal(m)
		sv := core.EncodeVal(scalarsOnly(m))
		ctx.Count(fmt.Sprintf("decoder-random-map-%d", n))
		ctx.Add("c02.intoSeq", c02ValArgs{V: tv})
		ctx.Add("c02.ssh", c02ValArgs{V: sv, Reps: 6})
		ctx.Add("c02.hosts", c02ValArgs{V: tv, Reps: 3})
		ctx.Add("c02.mapping", c02ValArgs{V: sv})
		ctx.Add("c02.mapping", c02ValArgs{V: sv, Kind: "mwe"})
		lv := core.EncodeVal(c02List(ctx, ctx.Rng.Intn(5)))
		ctx.Count("decoder-random-list")
		ctx.Add("c02.intoSeq", c02ValArgs{V: lv})
		ctx.Add("c02.hosts", c02ValArgs{V: lv, Reps: 2})
		ctx.Add("c02.mapping", c02ValArgs{V: lv})
		ctx.Add("c02.mapping", c02ValArgs{V: lv, Kind: "mwe"})
	}
	seqArg := func() any {
		switch ctx.Rng.Intn(6) {
		case 0:
			return core.EncodeVal(c02List(ctx, ctx.Rng.Intn(5)))
		case 1:
			return core.EncodeVal(c02Scalar(ctx))
		default:
			return core.EncodeVal(c02KVMap(ctx, ctx.Rng.Intn(5), true))
		}
	}
	for i := 0; i < ctx.Pick(5000, 80000); i++ {
		ctx.Count("mergeSeq-random")
		ctx.Add("c02.mergeSeq", map[string]any{"a": seqArg(), "b": seqArg(), "c": seqArg(), "d": seqArg()})
	}
	runC02MergeRepeat(ctx)
	runC02StageRepeat(ctx)
	runC02ExtendsX(ctx)
	for i := 0; i < ctx.Pick(6000, 100000); i++ {
		ctx.Count("merge-random")
		ctx.Add("c02.merge", c02MergeArgs{Base: core.EncodeVal(c02TopMap(ctx)), Over: core.EncodeVal(c02TopMap(ctx))})
	}
	for i := 0; i < ctx.Pick(1500, 20000); i++ {
		g := c02GraphGen(ctx, 2+ctx.Rng.Intn(2), 3)
		if graphVariantCount(g) > 300 {
			ctx.Count("graph-random-skipped-too-many-orders")
			continue
		}
		ctx.Count("graph-random")
		ctx.Add("c02.newGraph", c02GraphArgs{G: g, Reps: ctx.Pick(6, 16)})
	}
	// ---- 3. malformed stream: the ten node kinds at the decoders
	for _, k := range core.Kinds {
		for i := 0; i < 3; i++ {
			tv := core.EncodeVal(core.KindValue(k, ctx.Rng))
			ctx.Count("malformed-kind-" + k)
			ctx.Add("c02.intoSeq", c02ValArgs{V: tv})
			if k != "map" {
				ctx.Add("c02.ssh", c02ValArgs{V: tv})
			}
		}
	}
	for _, k := range []string{"null", "bool", "int", "float", "string", "emptyList", "emptyMap"} {
		tv := core.EncodeVal(core.KindValue(k, ctx.Rng))
		ctx.Count("malformed-decoder-" + k)
		ctx.Add("c02.hosts", c02ValArgs{V: tv})
		ctx.Add("c02.mapping", c02ValArgs{V: tv})
		ctx.Add("c02.mapping", c02ValArgs{V: tv, Kind: "mwe"})
	}

	// ---- 4. the direct oracle on whole loads
	runC02History(ctx)
	runC02LoadSeq(ctx)
	runC02Oracle(ctx)
}
