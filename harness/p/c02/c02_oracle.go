package c02

// C02 — direct oracle on the real loader (a metamorphic family of real executions):
//
//	c02.loadN   one generated multi-file compose model is
//	            (1) loaded N times in one process, after a prefix of loads of *other* models
//	                (every load re-randomises every Go map range; the prefix exercises process state),
//	            (2) loaded again from K textual variants in which the declaration order of every
//	                mapping (services, networks, …, environment, labels, ssh, depends_on, …) is permuted.
//	            All loads must agree on success/failure and, on success, give reflect.DeepEqual projects
//	            with byte-identical YAML and JSON renderings.
//
// A divergence is reported with the key  nondeterministic:<site>  where <site> is the attribute path of the
// first difference (service / resource names replaced by *, list indices by []), or the code site for an
// outcome flip whose error class is known.

import (
	"context"
	"crypto/sha256"
	"encoding/hex"
	"encoding/json"
	"fmt"
	"math/rand"
	"os"
	"os/exec"
	"path/filepath"
	"reflect"
	"regexp"
	"sort"
	"strconv"
	"strings"
	"time"

	"github.com/compose-spec/compose-go/v2/loader"
	"github.com/compose-spec/compose-go/v2/types"

	"verifharness/core"
)

// ---------------------------------------------------------------- ordered trees and their YAML (JSON-flow) rendering

type okv struct {
	K string
	V any
}
type om struct{ KV []okv }
type rawYAML string // literal YAML (flow) text, e.g. a tagged node

func M(pairs ...any) *om {
	m := &om{}
	for i := 0; i+1 < len(pairs); i += 2 {
		m.KV = append(m.KV, okv{pairs[i].(string), pairs[i+1]})
	}
	return m
}
func (m *om) Set(k string, v any) *om {
	for i := range m.KV {
		if m.KV[i].K == k {
			m.KV[i].V = v
			return m
		}
	}
	m.KV = append(m.KV, okv{k, v})
	return m
}
func (m *om) Has(k string) bool {
	for i := range m.KV {
		if m.KV[i].K == k {
			return true
		}
	}
	return false
}

// render writes v as flow-style YAML (JSON with ordered keys).  shuf != nil permutes the keys of every mapping.
func render(b *strings.Builder, v any, shuf *rand.Rand) {
	switch x := v.(type) {
	case nil:
		b.WriteString("null")
	case rawYAML:
		b.WriteString(string(x))
	case *om:
		idx := make([]int, len(x.KV))
		for i := range idx {
			idx[i] = i
		}
		if shuf != nil {
			shuf.Shuffle(len(idx), func(i, j int) { idx[i], idx[j] = idx[j], idx[i] })
		}
		b.WriteString("{")
		for n, i := range idx {
			if n > 0 {
				b.WriteString(", ")
			}
			k, _ := json.Marshal(x.KV[i].K)
			b.Write(k)
			b.WriteString(": ")
			render(b, x.KV[i].V, shuf)
		}
		b.WriteString("}")
	case []any:
		b.WriteString("[")
		for i, e := range x {
			if i > 0 {
				b.WriteString(", ")
			}
			render(b, e, shuf)
		}
		b.WriteString("]")
	default:
		j, err := json.Marshal(x)
		if err != nil {
			panic(err)
		}
		b.Write(j)
	}
}

func renderDoc(v any, shuf *rand.Rand) string {
	var b strings.Builder
	render(&b, v, shuf)
	b.WriteString("\n")
	return b.String()
}

// ---------------------------------------------------------------- generator of compose models

type c02Input struct {
	Trees       map[string]any    // compose files as ordered trees (rendered per variant)
	Static      map[string]string // other files (env files, secrets, …)
	ConfigFiles []string
	Env         map[string]string
	Profiles    []string
	Shapes      []string // what the input exercises (for the distribution histogram)
}

type c02Gen struct {
	r       *rand.Rand
	shapes  map[string]bool
	sshList bool // ssh spelled as a list in every file of this input (a list cannot be merged with a mapping)
}

func (g *c02Gen) coin(n int) bool { return g.r.Intn(n) == 0 }
func (g *c02Gen) pick(l ...string) string {
	return l[g.r.Intn(len(l))]
}
func (g *c02Gen) shape(s string) { g.shapes[s] = true }

// kvEither renders a key/value collection either as a mapping or as a list of "k=v" strings
func (g *c02Gen) kvEither(pairs [][2]string) any {
	if g.coin(2) {
		m := M()
		for _, p := range pairs {
			m.Set(p[0], p[1])
		}
		return m
	}
	var l []any
	for _, p := range pairs {
		l = append(l, p[0]+"="+p[1])
	}
	return l
}

func (g *c02Gen) labels(prefix string) any {
	n := 2 + g.r.Intn(3)
	var ps [][2]string
	for i := 0; i < n; i++ {
		ps = append(ps, [2]string{fmt.Sprintf("com.%s.l%d", prefix, g.r.Intn(4)), g.pick("1", "v", "${V1:-d}", "", "x y") + strconv.Itoa(i)})
	}
	// keys may repeat in list form (unicity keeps the last)
	return g.kvEither(dedupeIfMap(ps))
}

func dedupeIfMap(ps [][2]string) [][2]string { return ps }

func (g *c02Gen) service(name string, all []string, resources *c02Resources, canExtend []string, dir string) *om {
	s := M()
	if g.coin(5) {
		s.Set("build", g.build())
	} else {
		s.Set("image", g.pick("alpine", "busybox:1", "img:${TAG:-latest}"))
		if g.coin(3) {
			s.Set("build", g.build())
		}
	}
	if g.coin(2) {
		n := 2 + g.r.Intn(3)
		var ps [][2]string
		for i := 0; i < n; i++ {
			ps = append(ps, [2]string{fmt.Sprintf("E%d", g.r.Intn(5)), g.pick("1", "two", "${V2}", "", "a=b") + strconv.Itoa(i)})
		}
		env := g.kvEither(ps)
		if l, ok := env.([]any); ok && g.coin(2) {
			env = append(l, "BARE", "V1")
		}
		s.Set("environment", env)
		g.shape("environment")
	}
	if g.coin(2) {
		s.Set("labels", g.labels(name))
		g.shape("labels")
	}
	if g.coin(3) {
		var l []any
		for _, f := range []string{"e1.env", "e2.env", "e3.env"} {
			if g.coin(3) {
				continue
			}
			if g.coin(3) {
				l = append(l, M("path", dir+f, "required", g.coin(2)))
			} else {
				l = append(l, dir+f)
			}
		}
		if g.coin(4) {
			l = append(l, M("path", dir+"missing.env", "required", false))
		}
		if len(l) > 0 {
			s.Set("env_file", l)
			g.shape("env_file")
		}
	}
	if g.coin(3) {
		var l []any
		for i := 2 + g.r.Intn(2); i > 0; i-- {
			switch g.r.Intn(5) {
			case 0:
				l = append(l, "8000-8002:9000-9002")
			case 1:
				l = append(l, "127.0.0.1:8001-8002:9001-9002/udp")
			case 2:
				l = append(l, M("target", 9001, "published", "8001", "protocol", g.pick("tcp", "udp")))
			case 3:
				l = append(l, "9000-9003")
			default:
				l = append(l, fmt.Sprintf("%d:%d", 80+g.r.Intn(3), 80+g.r.Intn(3)))
			}
		}
		s.Set("ports", l)
		g.shape("ports")
	}
	// depends_on: ≥ 2 entries, some optional, some on services that a profile disables
	if len(all) > 1 && g.coin(2) {
		var deps []string
		for _, o := range all {
			if o == name {
				break // only earlier services: no cycles
			}
			if g.coin(2) {
				deps = append(deps, o)
			}
		}
		if g.coin(40) {
			deps = append(deps, name) // self dependency (always a cycle … unless newGraph deletes it, DESIGN §10 #5)
			g.shape("depends_on-self")
		}
		if len(deps) > 0 {
			if g.coin(2) {
				var l []any
				for _, d := range deps {
					l = append(l, d)
				}
				s.Set("depends_on", l)
			} else {
				m := M()
				for _, d := range deps {
					e := M("condition", g.pick("service_started", "service_healthy", "service_completed_successfully"))
					if g.coin(2) {
						e.Set("required", g.coin(2))
					}
					if g.coin(4) {
						e.Set("restart", true)
					}
					m.Set(d, e)
				}
				s.Set("depends_on", m)
			}
			g.shape("depends_on")
		}
	}
	if g.coin(3) {
		hosts := [][2]string{{"h1", "10.0.0.1"}, {"h2", "10.0.0.2"}, {"h1", "10.0.0.3"}, {"v6", "[::1]"}, {"h3", "10.0.0.4"}, {"h2", "10.0.0.5"}}
		g.r.Shuffle(len(hosts), func(i, j int) { hosts[i], hosts[j] = hosts[j], hosts[i] })
		hosts = hosts[:2+g.r.Intn(3)]
		if g.coin(2) {
			m := M()
			for _, h := range hosts {
				m.Set(h[0], h[1])
			}
			if g.coin(3) {
				m.Set("multi", []any{"10.1.1.1", "10.1.1.2"})
			}
			s.Set("extra_hosts", m)
		} else {
			var l []any
			for _, h := range hosts {
				l = append(l, h[0]+g.pick("=", ":")+h[1])
			}
			s.Set("extra_hosts", l)
		}
		g.shape("extra_hosts")
	}
	if g.coin(12) {
		s.Set("network_mode", g.pick("none", "host"))
		g.shape("network_mode")
	} else if len(resources.Networks) > 0 && g.coin(2) {
		if g.coin(2) {
			var l []any
			for _, n := range resources.Networks {
				if g.coin(2) {
					l = append(l, n)
				}
			}
			if len(l) > 0 {
				s.Set("networks", l)
			}
		} else {
			m := M()
			for _, n := range resources.Networks {
				if g.coin(3) {
					continue
				}
				if g.coin(2) {
					m.Set(n, nil)
				} else {
					e := M("aliases", []any{name + "-a1", name + "-a2", name + "-a1"})
					if g.coin(2) {
						e.Set("priority", g.r.Intn(3))
					}
					m.Set(n, e)
				}
			}
			if len(m.KV) > 0 {
				s.Set("networks", m)
			}
		}
		g.shape("service-networks")
	}
	if g.coin(3) {
		var l []any
		for i := 1 + g.r.Intn(3); i > 0; i-- {
			switch g.r.Intn(4) {
			case 0:
				if len(resources.Volumes) > 0 {
					l = append(l, resources.Volumes[g.r.Intn(len(resources.Volumes))]+":/data"+strconv.Itoa(g.r.Intn(2)))
					continue
				}
				fallthrough
			case 1:
				l = append(l, "./src:/app"+strconv.Itoa(g.r.Intn(2))+g.pick("", ":ro"))
			case 2:
				l = append(l, M("type", "bind", "source", "./cfg", "target", "/app"+strconv.Itoa(g.r.Intn(2)), "read_only", g.coin(2)))
			default:
				l = append(l, M("type", "tmpfs", "target", "/tmp/t", "tmpfs", M("size", 1000)))
			}
		}
		s.Set("volumes", l)
		g.shape("volumes")
	}
	if len(resources.Secrets) > 0 && g.coin(3) {
		var l []any
		for _, sec := range resources.Secrets {
			if g.coin(2) {
				l = append(l, sec)
			} else {
				l = append(l, M("source", sec, "target", g.pick("/run/secrets/"+sec, "alt"), "mode", g.pick("0440", "${MODE:-0400}")))
			}
		}
		s.Set("secrets", l)
		g.shape("service-secrets")
	}
	if len(resources.Configs) > 0 && g.coin(4) {
		var l []any
		for _, c := range resources.Configs {
			l = append(l, g.pick(c, c))
		}
		s.Set("configs", l)
	}
	if len(all) > 0 && all[len(all)-1] == name && g.coin(3) {
		s.Set("profiles", []any{g.pick("dev", "debug"), g.pick("dev", "test")})
		g.shape("profiles")
	}
	if g.coin(4) {
		s.Set("sysctls", g.kvEither([][2]string{{"net.core.somaxconn", "1024"}, {"net.ipv4.tcp_syncookies", "0"}, {"net.core.somaxconn", "512"}}))
	}
	if g.coin(4) {
		s.Set("dns", g.pick("8.8.8.8", "1.1.1.1"))
		if g.coin(2) {
			s.Set("dns", []any{"8.8.8.8", "9.9.9.9", "8.8.8.8"})
		}
	}
	if g.coin(4) {
		s.Set("tmpfs", []any{"/run", "/tmp:size=1m"})
	}
	if g.coin(4) {
		s.Set("cap_add", []any{"NET_ADMIN", "SYS_TIME", "NET_ADMIN"})
	}
	if g.coin(4) {
		s.Set("ulimits", M("nofile", M("soft", 100, "hard", 200), "nproc", 65535))
	}
	if g.coin(4) {
		s.Set("logging", M("driver", g.pick("json-file", "syslog"), "options", M("max-size", "10m", "max-file", "3")))
	}
	if g.coin(4) {
		s.Set("healthcheck", M("test", []any{"CMD", "true"}, "interval", "10s", "retries", g.pick("3", "${RETRIES:-2}")))
	}
	if g.coin(4) {
		s.Set("command", g.pick("echo hi", "sleep ${T:-1}"))
		if g.coin(2) {
			s.Set("command", []any{"echo", "a b"})
		}
	}
	if g.coin(5) {
		s.Set("deploy", M("replicas", g.pick("1", "2"), "labels", g.labels("deploy"),
			"resources", M("reservations", M("devices", []any{M("capabilities", []any{"gpu"}, "count", g.pick("1", "all")), M("capabilities", []any{"tpu"}, "driver", "x")}))))
	}
	if g.coin(5) {
		s.Set("x-custom", M("b", 1, "a", []any{"z", "y"}, "c", M("q", true, "p", nil)))
	}
	if g.coin(6) {
		s.Set("annotations", g.labels("ann"))
	}
	if g.coin(6) {
		s.Set("develop", M("watch", []any{M("path", "./src", "action", "sync", "target", "/app"), M("path", "./go.mod", "action", "rebuild")}))
	}
	if len(canExtend) > 0 && g.coin(3) {
		t := canExtend[g.r.Intn(len(canExtend))]
		if strings.Contains(t, "@") {
			p := strings.SplitN(t, "@", 2)
			s.Set("extends", M("file", p[1], "service", p[0]))
		} else if g.coin(2) {
			s.Set("extends", M("service", t))
		} else {
			s.Set("extends", t)
		}
		g.shape("extends")
	}
	return s
}

func (g *c02Gen) build() any {
	if g.coin(4) {
		return "./ctx"
	}
	b := M("context", g.pick(".", "./ctx", "${CTX:-.}"))
	if g.coin(2) {
		ssh := M()
		ids := []string{"default", "k1", "k2", "zz", "a.b"}
		g.r.Shuffle(len(ids), func(i, j int) { ids[i], ids[j] = ids[j], ids[i] })
		for _, id := range ids[:2+g.r.Intn(3)] {
			if g.coin(2) {
				ssh.Set(id, nil)
			} else {
				ssh.Set(id, "./keys/"+id)
			}
		}
		if g.sshList {
			var l []any
			for _, kv := range ssh.KV {
				if kv.V == nil && kv.K == "default" {
					l = append(l, kv.K)
				} else if kv.V == nil {
					l = append(l, kv.K+"=./keys/"+kv.K)
				} else {
					l = append(l, kv.K+"="+kv.V.(string))
				}
			}
			b.Set("ssh", l)
		} else {
			b.Set("ssh", ssh)
		}
		g.shape("build.ssh")
	}
	if g.coin(2) {
		b.Set("args", g.kvEither([][2]string{{"A1", "x"}, {"A2", "${V1}"}, {"A0", ""}}))
	}
	if g.coin(3) {
		b.Set("labels", g.labels("build"))
	}
	if g.coin(3) {
		b.Set("additional_contexts", g.kvEither([][2]string{{"c1", "./c1"}, {"c2", "docker-image://alpine"}, {"c0", "https://example.com/x.git"}}))
		g.shape("build.additional_contexts")
	}
	if g.coin(4) {
		b.Set("extra_hosts", M("bh1", "1.1.1.1", "bh2", "2.2.2.2"))
	}
	if g.coin(4) {
		b.Set("tags", []any{"t:1", "t:2", "t:1"})
	}
	if g.coin(5) {
		b.Set("platforms", []any{"linux/amd64", "linux/arm64"})
	}
	return b
}

type c02Resources struct{ Networks, Volumes, Secrets, Configs []string }

func (g *c02Gen) network(name string) any {
	if g.coin(4) {
		return nil
	}
	n := M()
	if g.coin(2) {
		n.Set("driver", g.pick("bridge", "overlay"))
	}
	if g.coin(2) {
		var cfgs []any
		subnets := []string{"10.1.0.0/16", "10.2.0.0/16", "fd00::/64", "10.3.0.0/16"}
		g.r.Shuffle(len(subnets), func(i, j int) { subnets[i], subnets[j] = subnets[j], subnets[i] })
		for _, sn := range subnets[:2+g.r.Intn(2)] {
			c := M("subnet", sn)
			if g.coin(2) {
				c.Set("gateway", strings.Replace(strings.Split(sn, "/")[0], ".0.0", ".0.1", 1))
			}
			if g.coin(3) {
				c.Set("aux_addresses", M("h2", "10.9.9.2", "h1", "10.9.9.1"))
			}
			cfgs = append(cfgs, c)
		}
		ipam := M("config", cfgs)
		if g.coin(3) {
			ipam.Set("driver", "default")
		}
		if g.coin(3) {
			ipam.Set("options", M("o2", "b", "o1", "a"))
		}
		n.Set("ipam", ipam)
		g.shape("ipam")
	}
	if g.coin(2) {
		n.Set("labels", g.labels("net"))
	}
	if g.coin(3) {
		n.Set("driver_opts", M("z", "1", "a", "2", "m", 3))
	}
	if g.coin(5) {
		n.Set("internal", g.pick("true", "false", "${INTERNAL:-false}"))
	}
	if g.coin(8) {
		return M("external", true, "name", "ext-"+name)
	}
	return n
}

// c02GenInput builds one multi-file model. size 0 = small (used for prefixes), 1 = full.
func c02GenInput(r *rand.Rand, size int) *c02Input {
	g := &c02Gen{r: r, shapes: map[string]bool{}}
	g.sshList = g.coin(4)
	in := &c02Input{Trees: map[string]any{}, Static: map[string]string{}, Env: map[string]string{}}
	tok := strconv.Itoa(r.Intn(1000000))
	in.Static["e1.env"] = "E1=from-e1-" + tok + "\nE2=from-e1\nSHARED=1\nQ=\"quoted ${E1}\"\n"
	in.Static["e2.env"] = "E2=from-e2\nE3=from-e2\nSHARED=2\n# comment\nBARE\n"
	in.Static["e3.env"] = "E4=${V1:-none}\nSHARED=3\n"
	in.Static["inc/e1.env"] = "E1=inc\nINC=1\n"
	in.Static["inc/e2.env"] = "E2=inc2\nSHARED=i2\n"
	in.Static["inc/e3.env"] = "E3=${INCV:-noincv}\n"
	in.Static["inc/inc.env"] = "INCV=from-inc-env\nV1=inc-v1\n"
	in.Static["sec.txt"] = "s3cret-" + tok + "\n"
	in.Static["keys/default"] = "k\n"
	for _, kv := range [][2]string{{"V1", "one"}, {"V2", "two"}, {"TAG", "1.2"}, {"MODE", "0444"}, {"RETRIES", "5"}, {"T", "3"}, {"SECRET_ENV", "shh"}} {
		if g.coin(2) {
			in.Env[kv[0]] = kv[1]
		}
	}
	res := &c02Resources{}
	for _, n := range []string{"front", "back", "mgmt"} {
		if g.coin(2) {
			res.Networks = append(res.Networks, n)
		}
	}
	for _, n := range []string{"data", "cache"} {
		if g.coin(2) {
			res.Volumes = append(res.Volumes, n)
		}
	}
	for _, n := range []string{"sec1", "sec2"} {
		if g.coin(2) {
			res.Secrets = append(res.Secrets, n)
		}
	}
	if g.coin(3) {
		res.Configs = append(res.Configs, "cfg1", "cfg2")
	}
	main := M()
	if g.coin(2) {
		main.Set("name", g.pick("proj", "p-${V1:-x}", "demo_1"))
	}
	if g.coin(5) {
		main.Set("version", g.pick("3", "3.8", "2.4"))
		g.shape("version")
	}
	nsvc := 2 + r.Intn(3)
	if size == 0 {
		nsvc = 1 + r.Intn(2)
	}
	names := []string{"web", "db", "cache", "worker"}[:nsvc]
	// base.yaml: services that can be extended from another file (chain b1 → b0)
	var canExtend []string
	if g.coin(2) {
		base := M("services", M(
			"b0", g.service("b0", nil, &c02Resources{}, nil, ""),
			"b1", g.service("b1", nil, &c02Resources{}, []string{"b0"}, ""),
		))
		in.Trees["base.yaml"] = base
		canExtend = append(canExtend, "b0@base.yaml", "b1@base.yaml", "b1@./base.yaml")
		g.shape("extends-file")
	}
	svcs := M()
	for i, n := range names {
		ce := append([]string{}, canExtend...)
		for _, o := range names[:i] { // extend only earlier names: no cycles
			ce = append(ce, o)
		}
		svcs.Set(n, g.service(n, names, res, ce, ""))
	}
	// the tracker key clash of DESIGN §10 #9 in its order-dependent form (C05's finding): db@main → web@main →
	// db@base.yaml → b0@base.yaml is acyclic, but (file, extending name) repeats for `db`
	if len(canExtend) > 0 && nsvc >= 2 && g.coin(14) {
		baseSvcs := getKey(in.Trees["base.yaml"].(*om), "services").(*om)
		baseSvcs.Set("db", M("image", "alpine", "extends", "b0", "hostname", "from-base"))
		svcs.KV[0].V.(*om).Set("extends", M("file", "base.yaml", "service", "db"))
		svcs.KV[1].V.(*om).Set("extends", "web")
		g.shape("extends-key-clash")
	}
	// a service disabled by a profile, optionally depended upon
	if g.coin(3) {
		off := g.service("tools", nil, res, nil, "")
		off.Set("profiles", []any{"tools"})
		svcs.Set("tools", off)
		for _, kv := range svcs.KV[:len(svcs.KV)-1] {
			s := kv.V.(*om)
			if g.coin(2) {
				continue
			}
			dep := M("condition", "service_started", "required", g.coin(8))
			switch d := getKey(s, "depends_on").(type) {
			case *om:
				d.Set("tools", dep)
			case nil:
				s.Set("depends_on", M("tools", dep))
			}
		}
		g.shape("disabled-dependency")
	}
	// an env file (and a label file) SHARED by two services whose values are interpolated with a variable that each service
	// defines differently in an EARLIER file of its own (seed C02-4: a per-call cache keyed by the file path makes the first
	// service visited in the map range decide what the other one gets from the shared file)
	if nsvc >= 2 && g.coin(5) {
		in.Static["greet.env"] = "GREETING=hello ${WHO}\nPLAIN=p\n"
		in.Static["greet.labels"] = "com.greeting=hi ${WHO}\n"
		for i := 0; i < 2; i++ {
			sv := svcs.KV[i].V.(*om)
			who := "who-" + svcs.KV[i].K
			in.Static[who+".env"] = "WHO=" + svcs.KV[i].K + "\n"
			in.Static[who+".labels"] = "WHO=" + svcs.KV[i].K + "-label\n"
			var l []any
			if cur, ok := getKey(sv, "env_file").([]any); ok {
				l = cur
			}
			sv.Set("env_file", append(l, who+".env", M("path", "greet.env", "required", true)))
			sv.Set("label_file", []any{who + ".labels", "greet.labels"})
		}
		if g.coin(4) {
			// the same missing file, optional for one service and required for the other: an error in every order
			svcs.KV[0].V.(*om).Set("env_file", []any{M("path", "nope.env", "required", false)})
			svcs.KV[1].V.(*om).Set("env_file", []any{M("path", "nope.env", "required", true)})
			g.shape("shared-missing-env-file")
		}
		g.shape("shared-env-file-cross-ref")
	}
	// a chain with two siblings at its end (r0 ← m0 ← two of the services), each adding its own entries to a list merged by
	// appending (seed C02-1: a "clone" that shares the backing array of the base's list makes the siblings overwrite
	// each other's entry, depending on the order they are resolved in)
	if nsvc >= 2 && g.coin(6) {
		svcs.Set("r0", M("image", "alpine", "expose", []any{"1000", "1001"}, "cap_drop", []any{"A"}))
		svcs.Set("m0", M("extends", "r0", "expose", []any{"2000"}, "cap_drop", []any{"B", "C"}))
		for i := 0; i < 2; i++ {
			sv := svcs.KV[i].V.(*om)
			sv.Set("extends", "m0")
			sv.Set("expose", []any{fmt.Sprintf("30%d0", i)}) // one entry: it fits into the spare capacity left by m0's append
			sv.Set("cap_drop", []any{"S" + strconv.Itoa(i)})
		}
		g.shape("extends-siblings-lists")
	}
	// a short-form depends_on list inherited through `extends` and refined per dependency by the extending service (seed
	// C02-2: one default entry shared by every key of the list makes all dependencies take the values of whichever key
	// is merged last)
	if nsvc >= 3 && g.coin(6) {
		svcs.Set("dbase", M("image", "alpine", "depends_on", []any{names[0], names[1]}))
		last := svcs.KV[nsvc-1].V.(*om)
		last.Set("extends", "dbase")
		last.Set("depends_on", M(
			names[0], M("condition", "service_healthy"),
			names[1], M("condition", "service_completed_successfully", "restart", true)))
		g.shape("depends_on-list-refined")
	}
	main.Set("services", svcs)
	if len(res.Networks) > 0 {
		m := M()
		for _, n := range res.Networks {
			m.Set(n, g.network(n))
		}
		main.Set("networks", m)
	}
	if len(res.Volumes) > 0 {
		m := M()
		for _, n := range res.Volumes {
			if g.coin(2) {
				m.Set(n, nil)
			} else {
				m.Set(n, M("driver", "local", "driver_opts", M("type", "none", "o", "bind", "device", "./vol-"+n), "labels", g.labels("vol")))
			}
		}
		main.Set("volumes", m)
	}
	if len(res.Secrets) > 0 {
		m := M()
		for _, n := range res.Secrets {
			if g.coin(2) {
				m.Set(n, M("file", "./sec.txt"))
			} else {
				m.Set(n, M("environment", "SECRET_ENV"))
			}
		}
		main.Set("secrets", m)
	}
	if len(res.Configs) > 0 {
		m := M()
		for _, n := range res.Configs {
			if g.coin(2) {
				m.Set(n, M("content", "k=${V1:-v}\n"))
			} else {
				m.Set(n, M("file", "./sec.txt", "labels", M("b", "2", "a", "1")))
			}
		}
		main.Set("configs", m)
	}
	if g.coin(4) {
		main.Set("x-top", M("zeta", 1, "alpha", []any{3, 2, 1}, "mid", M("b", nil, "a", "x")))
	}
	// include: another model in a sub directory, with its own env file
	if size > 0 && g.coin(3) {
		incSvcs := M("inc1", g.service("inc1", []string{"inc1", "inc2"}, &c02Resources{}, nil, ""), "inc2", g.service("inc2", []string{"inc1", "inc2"}, &c02Resources{}, nil, ""))
		inc := M("services", incSvcs)
		if g.coin(2) {
			inc.Set("networks", M("incnet", g.network("incnet")))
		}
		in.Trees["inc/compose.yaml"] = inc
		var entry any = "inc/compose.yaml"
		if g.coin(2) {
			e := M("path", "inc/compose.yaml")
			if g.coin(2) {
				e.Set("env_file", g.pick("inc/inc.env", "./inc/inc.env"))
			}
			if g.coin(3) {
				e.Set("project_directory", "inc")
			}
			entry = e
		}
		main.Set("include", []any{entry})
		g.shape("include")
	}
	in.Trees["compose.yaml"] = main
	in.ConfigFiles = []string{"compose.yaml"}
	// override file: the same services again with list/map spellings flipped, extra ipam configs, …
	if size > 0 && g.coin(2) {
		osvcs := M()
		for _, n := range names {
			if g.coin(3) {
				continue
			}
			o := g.service(n, names, res, nil, "")
			// an override must not switch image/build in ways that break validation; keep what the generator gave
			osvcs.Set(n, o)
		}
		ov := M("services", osvcs)
		if len(res.Networks) > 0 && g.coin(2) {
			m := M()
			for _, n := range res.Networks {
				if g.coin(2) {
					m.Set(n, g.network(n))
				}
			}
			if len(m.KV) > 0 {
				ov.Set("networks", m)
			}
		}
		if len(res.Volumes) > 0 && g.coin(2) {
			m := M()
			for _, n := range res.Volumes {
				if g.coin(2) {
					m.Set(n, M("labels", g.labels("vol"), "driver_opts", M("o", "bind2", "extra", "1")))
				}
			}
			if len(m.KV) > 0 {
				ov.Set("volumes", m)
				g.shape("override-volumes")
			}
		}
		if len(res.Configs) > 0 && g.coin(3) {
			ov.Set("configs", M(res.Configs[0], M("labels", M("c", "3", "a", "9"))))
		}
		if g.coin(4) {
			// a tagged override
			for _, kv := range osvcs.KV {
				if g.coin(2) {
					kv.V.(*om).Set("ports", rawYAML(`!override ["7000:7000"]`))
					g.shape("tag-override")
				}
			}
		}
		in.Trees["override.yaml"] = ov
		in.ConfigFiles = append(in.ConfigFiles, "override.yaml")
		g.shape("override-file")
	}
	if g.coin(4) {
		in.Profiles = []string{g.pick("dev", "tools", "debug", "*")}
	}
	// a file that carries `version:` (so that it goes through the package-level versionWarning state) and whose ONLY
	// defect is a schema violation that nothing else in the pipeline would notice: if anything process-global decided
	// whether validation runs, the first and the later loads of this file would end differently
	if size == 2 {
		first := svcs.KV[0].V.(*om)
		switch g.r.Intn(3) {
		case 0:
			first.Set("security_opt", []any{"label=x", "label=x"}) // uniqueItems
		case 1:
			first.Set("stop_signal", 9) // must be a string; decodes weakly otherwise
		default:
			first.Set("domainname", true)
		}
		main.Set("version", g.pick("3.9", "2.4"))
		g.shape("version")
		g.shape("schema-only-violation+version")
	} else if size > 0 && g.coin(7) {
		first := svcs.KV[0].V.(*om)
		last := svcs.KV[len(svcs.KV)-1].V.(*om)
		switch g.r.Intn(9) {
		case 0:
			first.Set("unknown_attribute", 1)
		case 1:
			first.Set("ports", "80")
		case 2:
			last.Set("environment", 3)
		case 3:
			last.Set("healthcheck", M("interval", "soon"))
		case 4:
			last.Set("depends_on", []any{"nobody"})
		case 5:
			last.Set("extends", M("service", "nobody"))
		case 6:
			first.Set("env_file", []any{"e1.env", "absent.env"})
		case 7:
			first.Set("cap_add", []any{"X", "X"})
		default:
			main.Set("networks", "oops")
		}
		if g.coin(2) {
			main.Set("version", "3.9")
			g.shape("version")
		}
		g.shape("malformed")
	}
	for s := range g.shapes {
		in.Shapes = append(in.Shapes, s)
	}
	sort.Strings(in.Shapes)
	return in
}

func getKey(m *om, k string) any {
	for _, kv := range m.KV {
		if kv.K == k {
			return kv.V
		}
	}
	return nil
}

// files renders the input; shuf != nil permutes the declaration order of every mapping.
func (in *c02Input) files(shuf *rand.Rand) map[string]string {
	out := map[string]string{}
	for k, v := range in.Static {
		out[k] = v
	}
	var names []string
	for n := range in.Trees {
		names = append(names, n)
	}
	sort.Strings(names)
	for _, n := range names {
		out[n] = renderDoc(in.Trees[n], shuf)
	}
	return out
}

// ---------------------------------------------------------------- the check

type c02LoadArgs struct {
	Req      core.LoadReq        `json:"req"`
	Variants []map[string]string `json:"variants"` // same model, mapping declaration orders permuted (compose files only)
	Prefix   []core.LoadReq      `json:"prefix"`   // other loads executed before, in the same process
	N        int                 `json:"n"`
	Fresh    bool                `json:"fresh"` // also compare with a load of the same tree made by a fresh process
}

// c02DigestArgs: load an already materialised tree in place and return digests (run in a fresh process)
type c02DigestArgs struct {
	Req  core.LoadReq `json:"req"`
	Root string       `json:"root"`
}

func sha(s string) string {
	h := sha256.Sum256([]byte(s))
	return hex.EncodeToString(h[:8])
}

func (o c02Obs) digest() map[string]any {
	return map[string]any{"class": o.Class, "yaml": sha(o.YAML), "json": sha(o.JSON), "yerr": o.YErr != "", "jerr": o.JErr != ""}
}

// freshDigest runs one load of the tree at root in a brand-new process (no load history at all).
func freshDigest(req core.LoadReq, root string) (map[string]any, error) {
	self, err := os.Executable()
	if err != nil {
		return nil, err
	}
	req.Files = nil
	line, _ := json.Marshal(map[string]any{"id": 0, "op": "c02.loadDigest", "args": c02DigestArgs{Req: req, Root: root}})
	cmd := exec.Command(self, "-serve")
	cmd.Stdin = strings.NewReader(string(line) + "\n")
	cmd.Env = append(os.Environ(), "GOMAXPROCS=2")
	out, err := cmd.Output()
	if err != nil {
		return nil, err
	}
	for _, l := range strings.Split(string(out), "\n") {
		var w struct {
			ID  int            `json:"id"`
			Out map[string]any `json:"out"`
		}
		if json.Unmarshal([]byte(l), &w) == nil && w.Out != nil {
			return w.Out, nil
		}
	}
	return nil, fmt.Errorf("no answer from the fresh process")
}

type c02Obs struct {
	Class string // "ok" | "err"
	Err   string
	P     *types.Project
	YAML  string
	JSON  string
	YErr  string
	JErr  string
}

func c02Observe(req core.LoadReq, root string) (obs c02Obs) {
	// a panic of the loader is an outcome like any other here (that loading never panics is property C01):
	// what C02 asks is that every load of the same input ends the same way
	defer func() {
		if r := recover(); r != nil {
			obs = c02Obs{Class: "panic", Err: "panic@" + core.PanicSite()}
		}
	}()
	p, err := req.LoadIn(root)
	if err != nil {
		return c02Obs{Class: "err", Err: core.ScrubErr(err, root)}
	}
	o := c02Obs{Class: "ok", P: p}
	y, yerr := p.MarshalYAML()
	o.YAML = string(y)
	if yerr != nil {
		o.YErr = yerr.Error()
	}
	j, jerr := p.MarshalJSON()
	o.JSON = string(j)
	if jerr != nil {
		o.JErr = "marshal error" // the text may name a map-ordered element; only the fact is compared
	}
	return o
}

var c02NameAfter = regexp.MustCompile(`^(services|networks|volumes|secrets|configs)$`)

// firstDiff returns the attribute path of the first difference between two generic trees.
func firstDiff(a, b any, path []string) (string, bool) {
	switch x := a.(type) {
	case map[string]any:
		y, ok := b.(map[string]any)
		if !ok {
			return strings.Join(path, "."), true
		}
		keys := map[string]bool{}
		for k := range x {
			keys[k] = true
		}
		for k := range y {
			keys[k] = true
		}
		var ks []string
		for k := range keys {
			ks = append(ks, k)
		}
		sort.Strings(ks)
		for _, k := range ks {
			part := k
			if len(path) > 0 && c02NameAfter.MatchString(path[len(path)-1]) && (len(path) == 1) {
				part = "*"
			}
			xv, okx := x[k]
			yv, oky := y[k]
			if okx != oky {
				return strings.Join(append(path, part), "."), true
			}
			if p, d := firstDiff(xv, yv, append(path, part)); d {
				return p, true
			}
		}
		return "", false
	case []any:
		y, ok := b.([]any)
		if !ok || len(x) != len(y) {
			return strings.Join(path, "."), true
		}
		for i := range x {
			if p, d := firstDiff(x[i], y[i], append(path, "[]")); d {
				// an element-wise difference in a list of the same length: the list itself is what is order dependent
				_ = p
				return strings.Join(path, "."), true
			}
		}
		return "", false
	default:
		if !reflect.DeepEqual(a, b) {
			return strings.Join(path, "."), true
		}
		return "", false
	}
}

// yamlDiffPath finds the first differing line of two YAML renderings and reconstructs its key path from the indentation.
func yamlDiffPath(a, b string) string {
	la, lb := strings.Split(a, "\n"), strings.Split(b, "\n")
	i := 0
	for i < len(la) && i < len(lb) && la[i] == lb[i] {
		i++
	}
	if i >= len(la) {
		i = len(la) - 1
	}
	indent := func(s string) int { return len(s) - len(strings.TrimLeft(s, " ")) }
	cur := indent(la[i]) + 1
	var parts []string
	for j := i; j >= 0; j-- {
		l := la[j]
		t := strings.TrimLeft(l, " ")
		if t == "" || strings.HasPrefix(t, "- ") && j != i {
			continue
		}
		if indent(l) < cur && strings.Contains(t, ":") {
			k := strings.TrimPrefix(t, "- ")
			k = k[:strings.Index(k, ":")]
			parts = append([]string{k}, parts...)
			cur = indent(l)
		}
	}
	for k := 1; k < len(parts); k++ {
		if c02NameAfter.MatchString(parts[k-1]) && k == 1 {
			parts[k] = "*"
		}
	}
	if len(parts) > 4 {
		parts = parts[:4]
	}
	return strings.Join(parts, ".")
}

func errSite(msg string) string {
	switch {
	case strings.Contains(msg, "dependency cycle detected"), strings.Contains(msg, "depends on unknown service"), strings.Contains(msg, "but is disabled"):
		return "graph.newGraph"
	case strings.Contains(msg, "Circular reference"):
		return "loader.cycleTracker"
	}
	// class = the message with quoted names, paths, service/resource names and numbers removed
	s := regexp.MustCompile(`"[^"]*"|'[^']*'|\$ROOT\S*|[0-9]+`).ReplaceAllString(msg, "_")
	s = regexp.MustCompile(`\b(services|networks|volumes|secrets|configs)\.[^.\s]+`).ReplaceAllString(s, "$1.*")
	ws := strings.Fields(s)
	if len(ws) > 6 {
		ws = ws[:6]
	}
	return "outcome:" + strings.Join(ws, "-")
}

var c02OpenMaps = map[string]bool{"labels": true, "environment": true, "annotations": true, "args": true, "driver_opts": true, "sysctls": true,
	"extra_hosts": true, "options": true, "additional_contexts": true, "aux_addresses": true, "ssh": true, "depends_on": true, "networks": true, "ulimits": true}

// stableSite cuts an attribute path after the first user-keyed mapping (labels, environment, …) and at depth 5,
// so that the key of a finding does not contain names chosen by the generator.
func stableSite(p string) string {
	parts := strings.Split(p, ".")
	for i, x := range parts {
		if i >= 2 && c02OpenMaps[x] {
			parts = parts[:i+1]
			break
		}
	}
	if len(parts) > 5 {
		parts = parts[:5]
	}
	return strings.Join(parts, ".")
}

func c02Compare(a, b c02Obs, what string) map[string]any {
	if a.Class != b.Class {
		msg := a.Err + b.Err
		if a.Class == "panic" || b.Class == "panic" {
			return map[string]any{"diverge": what, "site": "outcome:" + a.Class + "/" + b.Class + ":" + strings.TrimPrefix(msg, "panic@"), "detail": fmt.Sprintf("one load ends with %s, another with %s (%s)", a.Class, b.Class, msg)}
		}
		return map[string]any{"diverge": what, "site": errSite(msg), "detail": fmt.Sprintf("one load succeeds, another fails with: %s", msg)}
	}
	if a.Class == "err" || a.Class == "panic" {
		return nil // which error is reported may depend on the order; whether one is must not
	}
	if (a.YErr != "") != (b.YErr != "") || (a.JErr != "") != (b.JErr != "") {
		return map[string]any{"diverge": what, "site": "marshal-outcome", "detail": "rendering succeeds for one load and fails for another"}
	}
	if a.JSON != b.JSON {
		var x, y any
		site := "json-bytes"
		if json.Unmarshal([]byte(a.JSON), &x) == nil && json.Unmarshal([]byte(b.JSON), &y) == nil {
			if p, d := firstDiff(x, y, nil); d {
				site = stableSite(p)
			}
		}
		return map[string]any{"diverge": what, "site": site, "detail": "JSON renderings differ"}
	}
	if a.YAML != b.YAML {
		return map[string]any{"diverge": what, "site": stableSite(yamlDiffPath(a.YAML, b.YAML)), "detail": "YAML renderings differ"}
	}
	if !reflect.DeepEqual(a.P, b.P) {
		return map[string]any{"diverge": what, "site": "project-deep-equal:" + structDiff(reflect.ValueOf(a.P), reflect.ValueOf(b.P), "", 0), "detail": "renderings agree but the projects are not deeply equal"}
	}
	return nil
}

// structDiff names the first field path at which two values differ (bounded depth; map keys replaced by *).
func structDiff(a, b reflect.Value, path string, depth int) string {
	if depth > 12 || !a.IsValid() || !b.IsValid() || a.Type() != b.Type() {
		return path
	}
	switch a.Kind() {
	case reflect.Ptr, reflect.Interface:
		if a.IsNil() != b.IsNil() {
			return path
		}
		if a.IsNil() {
			return ""
		}
		return structDiff(a.Elem(), b.Elem(), path, depth+1)
	case reflect.Struct:
		for i := 0; i < a.NumField(); i++ {
			if !reflect.DeepEqual(a.Field(i).Interface(), b.Field(i).Interface()) {
				return structDiff(a.Field(i), b.Field(i), path+"."+a.Type().Field(i).Name, depth+1)
			}
		}
	case reflect.Map:
		if a.Len() != b.Len() || a.IsNil() != b.IsNil() {
			return path
		}
		for _, k := range a.MapKeys() {
			bv := b.MapIndex(k)
			if !bv.IsValid() {
				return path
			}
			if !reflect.DeepEqual(a.MapIndex(k).Interface(), bv.Interface()) {
				return structDiff(a.MapIndex(k), bv, path+".*", depth+1)
			}
		}
	case reflect.Slice:
		if a.Len() != b.Len() || a.IsNil() != b.IsNil() {
			return path
		}
		return path
	}
	return path
}

func init() {
	core.Register("c02.loadN", &core.CheckDef{
		Timeout: 600 * time.Second,
		Real: func(raw json.RawMessage) any {
			var a c02LoadArgs
			if err := json.Unmarshal(raw, &a); err != nil {
				return map[string]any{"bad": err.Error()}
			}
			root, err := core.Materialize(a.Req.Files)
			defer os.RemoveAll(root)
			if err != nil {
				return map[string]any{"bad": err.Error()}
			}
			write := func(files map[string]string) error {
				for name, content := range files {
					p := filepath.Join(root, name)
					if err := os.MkdirAll(filepath.Dir(p), 0o755); err != nil {
						return err
					}
					if err := os.WriteFile(p, []byte(content), 0o644); err != nil {
						return err
					}
				}
				return nil
			}
			// reference load, then the loads of *other* models in the same process and at the same paths
			// (same file names, other contents), then the model again: the history must not show
			var ref c02Obs
			if !a.Fresh {
				ref = c02Observe(a.Req, root)
			}
			for _, p := range a.Prefix {
				if err := write(p.Files); err != nil {
					return map[string]any{"bad": err.Error()}
				}
				func() {
					defer func() { _ = recover() }() // a crash of an unrelated load is not this case's business
					_, _ = p.LoadIn(root)
				}()
			}
			if len(a.Prefix) > 0 {
				ents, _ := os.ReadDir(root)
				for _, e := range ents {
					os.RemoveAll(filepath.Join(root, e.Name()))
				}
				if err := write(a.Req.Files); err != nil {
					return map[string]any{"bad": err.Error()}
				}
			}
			first := c02Observe(a.Req, root)
			for i := 1; i < a.N; i++ {
				o := c02Observe(a.Req, root)
				if d := c02Compare(first, o, "repeat"); d != nil {
					d["at"] = i
					return d
				}
			}
			// the repeats agree among themselves: a difference with the load made before the other loads is history
			if !a.Fresh {
				if d := c02Compare(ref, first, "history"); d != nil {
					d["site"] = "history:" + fmt.Sprint(d["site"])
					return d
				}
			} else {
				fd, err := freshDigest(a.Req, root)
				if err != nil {
					return map[string]any{"bad": "fresh process: " + err.Error()}
				}
				if !jsonEq(fd, first.digest()) {
					return map[string]any{"diverge": "history", "site": "history:fresh-process", "detail": fmt.Sprintf("a fresh process gives %v, this process (after other loads) gives %v", fd, first.digest())}
				}
			}
			for vi, files := range a.Variants {
				for name, content := range files {
					if err := os.WriteFile(filepath.Join(root, name), []byte(content), 0o644); err != nil {
						return map[string]any{"bad": err.Error()}
					}
				}
				o := c02Observe(a.Req, root)
				if d := c02Compare(first, o, "declaration-order"); d != nil {
					d["at"] = vi
					return d
				}
			}
			res := map[string]any{"class": first.Class, "loads": a.N + len(a.Variants)}
			if first.Class == "panic" {
				res["site"] = first.Err
			}
			if first.Class == "err" {
				res["err"] = errSite(first.Err)
				if dbg := os.Getenv("C02_DEBUG"); dbg != "" {
					if f, e := os.OpenFile(dbg, os.O_APPEND|os.O_CREATE|os.O_WRONLY, 0o644); e == nil {
						fmt.Fprintln(f, strings.ReplaceAll(first.Err, "\n", " "))
						f.Close()
					}
				}
			}
			return res
		},
		Judge: func(args, real, _ json.RawMessage) *core.Verdict {
			// a Go panic inside a load is recovered per load and compared as an outcome (c02Observe).  What is left here is
			// the whole case not answering (the watchdog fired: 400 loads on a busy machine, or a loader that hangs) or the
			// process dying: neither says anything about determinism — totality is property C01 — so the case is skipped.
			if c := core.Class(real); c == "hang" || c == "fatal" {
				return core.Skip("case did not complete (" + c + "): no determinism verdict; totality is property C01")
			}
			if v := core.CrashVerdict(real); v != nil {
				return v
			}
			var r struct {
				Diverge string `json:"diverge"`
				Site    string `json:"site"`
				Detail  string `json:"detail"`
				Bad     string `json:"bad"`
			}
			json.Unmarshal(real, &r)
			if r.Bad != "" {
				return core.Disagree("harness error: " + r.Bad)
			}
			if r.Diverge != "" {
				return core.Fail("nondeterministic:"+r.Site, fmt.Sprintf("%s divergence at %s: %s", r.Diverge, r.Site, r.Detail))
			}
			return nil
		},
	})
}

func init() {
	core.Register("c02.loadDigest", &core.CheckDef{
		Timeout: 60 * time.Second,
		Real: func(raw json.RawMessage) any {
			var a c02DigestArgs
			if err := json.Unmarshal(raw, &a); err != nil {
				return map[string]any{"bad": err.Error()}
			}
			return c02Observe(a.Req, a.Root).digest()
		},
	})
}

// c02.sharedEnv — DESIGN §10 #15: loader.projectName stores COMPOSE_PROJECT_NAME into details.Environment, which is the
// *caller's* map.  Two loads that are handed the same map object are therefore not independent: the second sees the
// first one's project name.  The reference is the same second load with a private copy of the original environment.
type c02SharedEnvArgs struct {
	First  string            `json:"first"`  // compose file loaded first (has its own name)
	Second string            `json:"second"` // compose file loaded second
	Env    map[string]string `json:"env"`
}

func init() {
	core.Register("c02.sharedEnv", &core.CheckDef{
		Timeout: 30 * time.Second,
		Real: func(raw json.RawMessage) any {
			var a c02SharedEnvArgs
			json.Unmarshal(raw, &a)
			root, err := core.Materialize(map[string]string{"a/compose.yaml": a.First, "b/compose.yaml": a.Second})
			defer os.RemoveAll(root)
			if err != nil {
				return map[string]any{"bad": err.Error()}
			}
			load := func(dir string, env map[string]string) string {
				d := types.ConfigDetails{WorkingDir: filepath.Join(root, dir), Environment: env,
					ConfigFiles: []types.ConfigFile{{Filename: filepath.Join(root, dir, "compose.yaml")}}}
				p, err := loader.LoadWithContext(context.Background(), d)
				if err != nil {
					return "err"
				}
				y, _ := p.MarshalYAML()
				return p.Name + "|" + sha(string(y))
			}
			cp := func() map[string]string {
				m := map[string]string{}
				for k, v := range a.Env {
					m[k] = v
				}
				return m
			}
			alone := load("b", cp())
			shared := cp()
			load("a", shared)
			after := load("b", shared)
			return map[string]any{"alone": alone, "after": after}
		},
		Judge: func(args, real, _ json.RawMessage) *core.Verdict {
			if v := core.CrashVerdict(real); v != nil {
				return v
			}
			var r struct{ Alone, After, Bad string }
			json.Unmarshal(real, &r)
			if r.Bad != "" {
				return core.Disagree("harness error: " + r.Bad)
			}
			if r.Alone != r.After {
				return core.Fail("nondeterministic:history:loader.projectName-writes-caller-environment",
					fmt.Sprintf("loading the same file with the same environment map gives %q alone and %q after another load that was handed the same map", r.Alone, r.After))
			}
			return nil
		},
	})
}

func (in *c02Input) req(files map[string]string) core.LoadReq {
	return core.LoadReq{Files: files, ConfigFiles: in.ConfigFiles, Env: in.Env, Profiles: in.Profiles, ProjectName: "c02"}
}

func runC02Oracle(ctx *core.Ctx) {
	// loads that share one environment map (the second file may or may not look at COMPOSE_PROJECT_NAME)
	for _, second := range []string{
		`{"name": "${COMPOSE_PROJECT_NAME:-bbb}", "services": {"s": {"image": "alpine"}}}`,
		`{"name": "bbb", "services": {"s": {"image": "alpine", "labels": {"p": "${COMPOSE_PROJECT_NAME}"}}}}`,
		`{"name": "bbb", "services": {"s": {"image": "alpine"}}}`,
	} {
		for _, env := range []map[string]string{{}, {"X": "1"}, {"COMPOSE_PROJECT_NAME": "fromenv"}} {
			ctx.Count("shared-env")
			ctx.Add("c02.sharedEnv", c02SharedEnvArgs{First: `{"name": "aaa", "services": {"s": {"image": "alpine"}}}`, Second: second + "\n", Env: env})
		}
	}
	n := ctx.Pick(24, 400)
	inputs := ctx.Pick(80, 500)
	for i := 0; i < inputs; i++ {
		size := 1
		if i%8 == 5 {
			size = 2
		}
		in := c02GenInput(ctx.Rng, size)
		base := in.files(nil)
		a := c02LoadArgs{Req: in.req(base), N: n}
		if i%5 != 0 { // the thorough tier spends N=400 on every fifth input only, 40 on the others
			a.N = ctx.Pick(24, 40)
		}
		for k := 0; k < ctx.Pick(3, 6); k++ {
			v := in.files(rand.New(rand.NewSource(ctx.Rng.Int63())))
			for name := range in.Static {
				delete(v, name)
			}
			a.Variants = append(a.Variants, v)
		}
		a.Fresh = i%4 == 1
		for k := ctx.Rng.Intn(3); k > 0 || (a.Fresh && len(a.Prefix) == 0); k-- {
			p := c02GenInput(ctx.Rng, ctx.Rng.Intn(2))
			a.Prefix = append(a.Prefix, p.req(p.files(nil)))
		}
		if size == 2 {
			// … and an earlier, valid load of a file with `version:` at the very same path
			pv := c02GenInput(ctx.Rng, 0)
			pv.Trees["compose.yaml"].(*om).Set("version", "3.8")
			a.Prefix = append(a.Prefix, pv.req(pv.files(nil)))
		}
		for _, s := range in.Shapes {
			ctx.Count("load-shape-" + s)
		}
		ctx.Count(fmt.Sprintf("load-files-%d", len(in.ConfigFiles)+len(in.Trees)-1))
		ctx.Count("load-input")
		ctx.Add("c02.loadN", a)
	}
}
