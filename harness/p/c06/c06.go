package c06

// C06 — include is equivalent to pasting the included, fully resolved model.
//
//	c06.fpath            correspondence: path/filepath Clean/Join/Dir/Rel/IsAbs vs Include.clean/join/dir/rel/isAbs
//	c06.includeConfig    correspondence: loader.loadIncludeConfig vs Include.loadIncludeConfig
//	c06.importResources  correspondence: loader.importResources vs Include.importResources
//	c06.applyInclude     correspondence: loader.ApplyInclude on a temporary directory tree vs Include.applyInclude
//	                     in the executable world of Model/IncludePipe.lean
//	c06.resolveEnv       correspondence: the resolvers of loader/environment.go vs Model/IncludeResolve.lean
//	c06.paste            direct oracle on the real loader (metamorphic pair of real loads, c06lib/paste.go)

import (
	"encoding/json"
	"fmt"
	"math/rand"
	"os"
	"path"
	"path/filepath"
	"strings"
	"time"

	"github.com/compose-spec/compose-go/v2/loader"
	"github.com/compose-spec/compose-go/v2/types"

	"verifharness/c06lib"
	"verifharness/core"
)

type fpathArgs struct {
	A string `json:"a"`
	B string `json:"b"`
}

type includeConfigArgs struct {
	Source any  `json:"source"`
	Absent bool `json:"absent,omitempty"`
}

// resolveArgs: one resolver of loader/environment.go on a model of any shape.
type resolveArgs struct {
	Model any               `json:"model"`
	Env   map[string]string `json:"env"`
	Which string            `json:"which"` // services | secrets | configs | all (ResolveEnvironment) | included (services, then secrets)
}

type importArgs struct {
	Source any `json:"source"`
	Target any `json:"target"`
}

func init() {
	core.Register("c06.fpath", &core.CheckDef{
		Real: func(raw json.RawMessage) any {
			var a fpathArgs
			json.Unmarshal(raw, &a)
			var rel any
			if r, err := filepath.Rel(a.A, a.B); err == nil {
				rel = r
			}
			return map[string]any{"clean": filepath.Clean(a.A), "join": filepath.Join(a.A, a.B), "dir": filepath.Dir(a.A),
				"abs": filepath.IsAbs(a.A), "rel": rel}
		},
		DriverOp: "fpath",
	})
	core.Register("c06.includeConfig", &core.CheckDef{
		Real: func(raw json.RawMessage) any {
			var a includeConfigArgs
			json.Unmarshal(raw, &a)
			var src any
			if !a.Absent {
				src = core.DecodeVal(a.Source)
			}
			cfgs, err := loader.VerifLoadIncludeConfig(src)
			if err != nil {
				return map[string]any{"err": c06lib.ErrClass(err)}
			}
			out := []any{}
			for _, c := range cfgs {
				out = append(out, map[string]any{"path": append([]string{}, c.Path...), "project_directory": c.ProjectDirectory,
					"env_file": append([]string{}, c.EnvFile...)})
			}
			return map[string]any{"ok": out}
		},
		DriverOp: "includeConfig",
		Judge:    judgeModel,
	})
	core.Register("c06.importResources", &core.CheckDef{
		Real: func(raw json.RawMessage) any {
			var a importArgs
			json.Unmarshal(raw, &a)
			src, _ := core.DecodeVal(a.Source).(map[string]any)
			tgt, _ := core.DecodeVal(a.Target).(map[string]any)
			if err := loader.VerifImportResources(src, tgt); err != nil {
				return map[string]any{"err": c06lib.ErrClass(err)}
			}
			return map[string]any{"ok": core.EncodeVal(tgt)}
		},
		DriverOp: "importResources",
		Judge:    judgeModel,
	})
	core.Register("c06.resolveEnv", &core.CheckDef{
		Real: func(raw json.RawMessage) any {
			var a resolveArgs
			if err := json.Unmarshal(raw, &a); err != nil {
				return map[string]any{"bad": err.Error()}
			}
			dict, ok := core.DecodeVal(a.Model).(map[string]any)
			if !ok {
				return map[string]any{"bad": "model"}
			}
			env := types.Mapping{}
			for k, v := range a.Env {
				env[k] = v
			}
			before := fmt.Sprint(env)
			switch a.Which {
			case "services":
				loader.VerifC06ResolveServicesEnvironment(dict, env)
			case "secrets":
				loader.VerifC06ResolveSecretsEnvironment(dict, env)
			case "configs":
				loader.VerifC06ResolveConfigsEnvironment(dict, env)
			case "included": // the else branch of loadYamlModel's last statement (pinned: included_branch_calls_are_source)
				loader.VerifC06ResolveServicesEnvironment(dict, env)
				loader.VerifC06ResolveSecretsEnvironment(dict, env)
			default:
				loader.ResolveEnvironment(dict, env)
			}
			if fmt.Sprint(env) != before {
				return map[string]any{"bad": "the resolver wrote the environment"}
			}
			return map[string]any{"ok": core.EncodeVal(dict)}
		},
		DriverOp: "resolveEnv",
		Judge:    judgeModel,
	})
	core.Register("c06.applyInclude", &core.CheckDef{
		Real: func(raw json.RawMessage) any {
			var a c06lib.ApplyArgs
			if err := json.Unmarshal(raw, &a); err != nil {
				return map[string]any{"bad": err.Error()}
			}
			return withHome(c06lib.RealApply(a))
		},
		DriverOp:   "applyInclude",
		DriverArgs: argsWithHome,
		Judge:      judgeModel,
		Timeout:    60 * time.Second,
	})
	core.Register("c06.applySource", &core.CheckDef{
		Real: func(raw json.RawMessage) any {
			var a c06lib.ApplyArgs
			if err := json.Unmarshal(raw, &a); err != nil {
				return map[string]any{"bad": err.Error()}
			}
			return withHome(c06lib.RealApply(a))
		},
		DriverOp:   "applyInclude",
		DriverArgs: argsWithHome,
		Judge:      judgeSource,
		Timeout:    60 * time.Second,
	})
	core.Register("c06.paste", &core.CheckDef{
		Real: func(raw json.RawMessage) any {
			var a c06lib.PasteArgs
			if err := json.Unmarshal(raw, &a); err != nil {
				return map[string]any{"bad": err.Error()}
			}
			return c06lib.RealPaste(a)
		},
		Judge:   judgePaste,
		Timeout: 60 * time.Second,
	})
	core.Register("c06.envFromFile", &core.CheckDef{
		Real: func(raw json.RawMessage) any {
			var a c06lib.EnvFileArgs
			if err := json.Unmarshal(raw, &a); err != nil {
				return map[string]any{"bad": err.Error()}
			}
			return c06lib.RealEnvFromFile(a)
		},
		DriverOp: "envFromFile",
		Judge:    judgeModel,
		Timeout:  20 * time.Second,
	})
	core.Register("c06.cloneOptions", &core.CheckDef{
		Real: func(raw json.RawMessage) any {
			var a c06lib.CloneArgs
			if err := json.Unmarshal(raw, &a); err != nil {
				return map[string]any{"bad": err.Error()}
			}
			return c06lib.RealClone(a)
		},
		DriverOp: "cloneOptions",
		Timeout:  10 * time.Second,
	})
	core.RegisterProp("C06", runC06)
}

// withHome adds the home directory the real code sees (`~` expansion in paths) to a real outcome …
func withHome(out any) any {
	if m, ok := out.(map[string]any); ok {
		if h, err := os.UserHomeDir(); err == nil && h != "" {
			m["home"] = h
		}
	}
	return out
}

// … and argsWithHome hands it to the model, which takes the home directory as a parameter of the world.
func argsWithHome(args, real json.RawMessage) any {
	var a map[string]json.RawMessage
	if json.Unmarshal(args, &a) != nil {
		return args
	}
	var r struct {
		Home *string `json:"home"`
	}
	if json.Unmarshal(real, &r) == nil && r.Home != nil {
		b, _ := json.Marshal(*r.Home)
		a["home"] = b
	}
	return a
}

// judgeModel: the model and the real code must agree on the outcome (results structurally, errors by class).
// A crash of the real code is a violation of the property whatever the model says, unless the model predicts
// the same panic (then the defect is already part of the model and is reported by the oracle stream).
func judgeModel(args, real, drv json.RawMessage) *core.Verdict {
	var r, d map[string]json.RawMessage
	json.Unmarshal(real, &r)
	json.Unmarshal(drv, &d)
	if _, bad := r["bad"]; bad {
		return core.Disagree("harness: " + string(r["bad"]))
	}
	if e, ok := d["err"]; ok && (string(e) == `"outOfDomain"` || string(e) == `"fuel"`) {
		if v := core.CrashVerdict(real); v != nil {
			return v
		}
		return core.Skip("outside the modelled domain")
	}
	if v := core.CrashVerdict(real); v != nil {
		if _, isPanic := r["panic"]; isPanic && core.CanonEqual(real, drv) {
			return nil
		}
		return v
	}
	switch {
	case r["ok"] != nil && d["ok"] != nil:
		if !core.CanonEqual(r["ok"], d["ok"]) {
			return core.Disagree("results differ")
		}
	case r["err"] != nil && d["err"] != nil:
		if string(r["err"]) != string(d["err"]) {
			return core.Disagree(fmt.Sprintf("error classes differ: real %s (%s), model %s", r["err"], r["text"], d["err"]))
		}
	default:
		return core.Disagree(fmt.Sprintf("outcome classes differ: real %s, model %s", core.Class(real), core.Class(drv)))
	}
	return nil
}

// judgeSource: an included file loaded without validation hands a section of any node kind to importResources.
// Only include.go is judged here: a crash in another stage of the unvalidated pipeline is C01's business.
func judgeSource(args, real, drv json.RawMessage) *core.Verdict {
	var r, d map[string]json.RawMessage
	json.Unmarshal(real, &r)
	json.Unmarshal(drv, &d)
	if p, isPanic := r["panic"]; isPanic {
		if strings.Contains(string(p), "loader.importResource") || strings.Contains(string(p), "loader.ApplyInclude") {
			return core.CrashVerdict(real)
		}
		return core.Skip("crash outside include.go")
	}
	if v := core.CrashVerdict(real); v != nil {
		return v
	}
	modelNotMapping := string(d["err"]) == `"notMapping"`
	realNotMapping := string(r["err"]) == `"notMapping"`
	switch {
	case modelNotMapping && r["err"] == nil:
		return core.Disagree("model: non-mapping source section is an error; real code accepts it")
	case realNotMapping && !modelNotMapping:
		return core.Disagree("real code rejects a source section the model imports")
	case r["ok"] != nil && d["ok"] != nil && !core.CanonEqual(r["ok"], d["ok"]):
		return core.Skip("the unvalidated pipeline reshapes the section")
	}
	return nil
}

func judgePaste(args, real, _ json.RawMessage) *core.Verdict {
	var a c06lib.PasteArgs
	json.Unmarshal(args, &a)
	if v := core.CrashVerdict(real); v != nil {
		v.Key = a.Class + ":" + v.Key
		return v
	}
	var r struct {
		Bad  string `json:"bad"`
		Same bool   `json:"same"`
		Diff string `json:"diff"`
		Path string `json:"diff_path"`
		A    struct {
			Err   *string `json:"err"`
			Class string  `json:"class"`
		} `json:"a"`
		B *struct {
			Err   *string `json:"err"`
			Class string  `json:"class"`
		} `json:"b"`
	}
	if err := json.Unmarshal(real, &r); err != nil || r.Bad != "" {
		return core.Disagree("harness: " + r.Bad)
	}
	switch a.Expect {
	case "error":
		if r.A.Err == nil {
			return core.Fail(a.Class+":accepted", "the load succeeds although the property requires an error ("+a.Class+")")
		}
		return nil
	case "accept":
		if r.A.Err != nil {
			return core.Fail(a.Class+":rejected:"+r.A.Class, "the load fails ("+*r.A.Err+") although the property requires it to be accepted")
		}
		return nil
	}
	switch {
	case r.B == nil:
		return core.Disagree("harness: no pasted load")
	case r.A.Err != nil && r.B.Err != nil:
		return core.Skip("both sides are errors")
	case r.A.Err != nil:
		return core.Fail(a.Class+":include-fails:"+r.A.Class, "loading with include fails ("+*r.A.Err+") but the pasted single file loads")
	case r.B.Err != nil:
		return core.Fail(a.Class+":paste-fails:"+r.B.Class, "loading with include succeeds but the pasted single file / an included project on its own fails ("+*r.B.Err+")")
	case r.Same:
		return nil
	}
	return core.Fail(a.Class+":differs:"+r.Diff, "the project loaded through include differs from the pasted single file at "+r.Path)
}

// ---------------------------------------------------------------- tree generator

type gen struct {
	r      *rand.Rand
	s      *c06lib.Scen
	n      int // file counter
	names  map[string]int
	clean  bool // only constructions for which the property promises paste equivalence
	fresh  bool // never reuse a resource name (override files: a reused name would be merged, not imported)
	shared []string
	tags   map[string]bool
	envRes bool // resources may take their value from the environment (services/secrets/configs `environment`)
}

func (g *gen) tag(t string) { g.tags[t] = true }

func (g *gen) name(kind string) string {
	// mostly fresh names; in the unrestricted mode a reused one now and then (conflict or identical redefinition)
	if !g.clean && !g.fresh && g.names[kind] > 0 && g.r.Intn(7) == 0 {
		g.tag("name-reuse")
		return fmt.Sprintf("%s%d", kind[:3], g.r.Intn(g.names[kind]))
	}
	g.names[kind]++
	return fmt.Sprintf("%s%d", kind[:3], g.names[kind]-1)
}

func (g *gen) resources(doc map[string]any, max int) {
	for _, kind := range c06lib.Kinds5 {
		n := g.r.Intn(max + 1)
		if kind != "services" && g.r.Intn(2) == 0 {
			n = 0
		}
		if kind == "services" && n == 0 && !g.fresh {
			n = 1 // a project without services is an "empty compose file" when loaded on its own
		}
		if n == 0 {
			continue
		}
		sec := map[string]any{}
		for i := 0; i < n; i++ {
			name := g.name(kind)
			def := c06lib.Resource(g.r, kind, name)
			if g.clean {
				def = cleanDef(kind, def)
			}
			if g.envRes {
				def = g.envSourced(kind, def)
			}
			sec[name] = def
		}
		doc[kind] = sec
	}
}

// envSourced gives a definition a source in the environment.  The variables are the ones the generated `.env` /
// `env_file`s define (V, W, X) and one nobody defines: every resolver that runs on an included model — services
// `environment` (list and mapping form, bare names), secrets `environment`, configs `environment` — is fed by the
// included project's own environment, not only the interpolation of `${V}` templates.
func (g *gen) envSourced(kind string, def any) any {
	vars := []string{"V", "W", "X", "NOPE"}
	switch kind {
	case "services":
		m, ok := def.(map[string]any)
		if !ok || g.r.Intn(3) != 0 {
			return def
		}
		if g.r.Intn(2) == 0 || !g.clean { // the mapping form is canonicalised into a list: outside the model's fragment
			l := []any{}
			for _, v := range vars {
				if g.r.Intn(2) == 0 {
					l = append(l, v)
				}
			}
			m["environment"] = append(l, "K="+c06lib.Tmpl(g.r, "k"))
			g.tag("service-environment-list")
		} else {
			e := map[string]any{"K": c06lib.Tmpl(g.r, "k")}
			for _, v := range vars {
				if g.r.Intn(2) == 0 {
					e[v] = nil
				}
			}
			m["environment"] = e
			g.tag("service-environment-map")
		}
		return m
	case "secrets":
		if g.r.Intn(2) == 0 {
			g.tag("secret-environment")
			return map[string]any{"environment": vars[g.r.Intn(len(vars))]}
		}
	case "configs":
		if g.r.Intn(3) == 0 {
			g.tag("config-environment")
			return map[string]any{"environment": vars[g.r.Intn(len(vars))]}
		}
	}
	return def
}

// cleanDef keeps a definition loadable as a whole project (files referenced by a service need not exist).
func cleanDef(kind string, def any) any {
	m, ok := def.(map[string]any)
	if !ok {
		return def
	}
	if kind == "services" {
		delete(m, "label_file")
		if vols, ok := m["volumes"].([]any); ok {
			m["volumes"] = vols[:1] // the named volume would have to be declared
		}
		if ef, ok := m["env_file"].([]any); ok {
			for _, e := range ef {
				e.(map[string]any)["required"] = false
				e.(map[string]any)["path"] = "./maybe.env"
			}
		}
	}
	return m
}

// project generates the compose file `file` (root-relative) of a project whose directory is projDir
// (root-relative, "" = not under the root / unknown) and returns its document and the meaning of its includes.
// wdAbs tells whether ApplyInclude will see an absolute workingDir for this project (only the root project does).
func (g *gen) project(file, projDir string, depth int, chain []string, wdAbs bool) (map[string]any, []c06lib.Entry) {
	doc := map[string]any{}
	g.resources(doc, 2)
	var entries []c06lib.Entry
	var include []any
	nInc := 0
	if depth > 0 {
		nInc = []int{0, 1, 1, 1, 2, 2, 3}[g.r.Intn(7)]
	}
	for i := 0; i < nInc; i++ {
		g.n++
		var childFile string
		where := g.r.Intn(10)
		switch {
		case where < 6:
			childFile = path.Join(projDir, fmt.Sprintf("s%d", g.n), "inc.yaml")
			if g.r.Intn(10) == 0 {
				// a directory whose name a later resolution stage could misread: `~`, a remote-looking or a Windows-looking prefix
				odd := []string{"~", "~u", "github.com", "C:", "git@h"}[g.r.Intn(5)]
				childFile = path.Join(projDir, odd, fmt.Sprintf("s%d", g.n), "inc.yaml")
				g.tag("odd-directory-name")
			}
		case where < 8:
			childFile = path.Join(projDir, fmt.Sprintf("inc%d.yaml", g.n))
		default:
			childFile = path.Join(fmt.Sprintf("top%d", g.n), "compose.yaml")
		}
		special := ""
		if !g.clean {
			switch g.r.Intn(14) {
			case 0:
				special = "cycle"
				childFile = chain[g.r.Intn(len(chain))]
				g.tag("cycle")
			case 1:
				special = "missing"
				g.tag("missing-file")
			case 2:
				special = "dir"
				g.tag("path-is-dir")
			}
		}
		if special == "" && len(g.shared) > 0 && g.r.Intn(6) == 0 {
			// a file already included through another route (diamond)
			childFile = g.shared[g.r.Intn(len(g.shared))]
			special = "shared"
			g.tag("diamond")
		}
		// ---- syntax of the entry
		pathExpr := c06lib.RelTo(projDir, childFile)
		switch g.r.Intn(5) {
		case 0:
			pathExpr = "./" + pathExpr
		case 1:
			pathExpr = c06lib.Root + "/" + childFile
		}
		if special == "dir" {
			pathExpr = c06lib.RelTo(projDir, path.Dir(childFile))
			g.s.AddDir(path.Dir(childFile))
		}
		entry := map[string]any{}
		ent := c06lib.Entry{Paths: []string{childFile}, ProjDir: path.Dir(childFile)}
		long := g.r.Intn(2) == 0
		// project_directory
		if g.r.Intn(4) == 0 {
			long = true
			pd := path.Join(projDir, fmt.Sprintf("pd%d", g.n))
			if g.r.Intn(3) == 0 {
				pd = path.Dir(childFile)
			}
			g.s.AddDir(pd)
			switch {
			case g.r.Intn(3) == 0:
				entry["project_directory"] = c06lib.Root + "/" + pd
				g.tag("project_directory-abs")
			case true: // also inside included files since fix f077fe2
				// relative to the including project's directory
				entry["project_directory"] = c06lib.RelTo(projDir, pd)
				g.tag("project_directory-rel")
				if !wdAbs {
					g.tag("nested-relative-project_directory")
				}
			default:
				entry["project_directory"] = c06lib.Root + "/" + pd
				g.tag("project_directory-abs")
			}
			ent.ProjDir = pd
		}
		// env_file
		switch g.r.Intn(5) {
		case 0:
			long = true
			var efs []any
			for k := 0; k <= g.r.Intn(2); k++ {
				f := path.Join(projDir, fmt.Sprintf("e%d-%d.env", g.n, k))
				g.s.AddEnv(f, c06lib.EnvEntries(g.r, fmt.Sprintf("ef%d%d", g.n, k)))
				ent.EnvFiles = append(ent.EnvFiles, f)
				switch {
				case g.r.Intn(3) == 0:
					efs = append(efs, c06lib.Root+"/"+f)
				case true: // also inside included files since fix f077fe2
					efs = append(efs, c06lib.RelTo(projDir, f))
					if !wdAbs {
						g.tag("nested-relative-env_file")
					}
				default:
					efs = append(efs, c06lib.Root+"/"+f)
				}
			}
			if len(efs) == 1 && g.r.Intn(2) == 0 {
				entry["env_file"] = efs[0]
			} else {
				entry["env_file"] = efs
			}
			g.tag("env_file")
		case 1:
			if !g.clean && g.r.Intn(3) == 0 {
				long = true
				entry["env_file"] = []string{"nope.env", c06lib.Root + "/nope.env", c06lib.RelTo(projDir, ent.ProjDir)}[g.r.Intn(3)]
				g.tag("env_file-bad")
			}
		}
		if g.r.Intn(2) == 0 && ent.ProjDir != "" {
			if _, dup := g.s.Files[path.Join(ent.ProjDir, ".env")]; !dup {
				g.s.AddEnv(path.Join(ent.ProjDir, ".env"), c06lib.EnvEntries(g.r, fmt.Sprintf("dot%d", g.n)))
				g.tag("dotenv")
			}
		}
		// ---- the child project
		switch special {
		case "", "shared":
			if _, exists := g.s.Files[childFile]; !exists {
				cdoc, _ := g.project(childFile, ent.ProjDir, depth-1, append(append([]string{}, chain...), childFile), false)
				g.s.AddYAML(childFile, g.r.Intn(2), cdoc)
				if g.r.Intn(3) == 0 {
					g.shared = append(g.shared, childFile)
				}
			}
			// an override file next to it
			if g.r.Intn(6) == 0 && special == "" {
				long = true
				ov := path.Join(path.Dir(childFile), fmt.Sprintf("override%d.yaml", g.n))
				odoc := map[string]any{}
				if svcs, ok := g.s.Plain[childFile][0]["services"].(map[string]any); ok && len(svcs) > 0 {
					name := c06lib.SortedKeys(svcs)[0]
					odoc["services"] = map[string]any{name: map[string]any{"image": c06lib.Tmpl(g.r, "over")}}
				}
				extra := map[string]any{}
				g.fresh = true
				g.resources(extra, 1)
				g.fresh = false
				for k, v := range extra {
					if _, has := odoc[k]; !has {
						odoc[k] = v
					}
				}
				g.s.AddYAML(ov, g.r.Intn(2), odoc)
				ent.Paths = append(ent.Paths, ov)
				g.tag("override-file")
			}
		}
		if long || len(ent.Paths) > 1 {
			if len(ent.Paths) > 1 {
				var ps []any
				ps = append(ps, pathExpr)
				for _, p := range ent.Paths[1:] {
					ps = append(ps, c06lib.RelTo(projDir, p))
				}
				entry["path"] = ps
			} else if g.r.Intn(2) == 0 {
				entry["path"] = []any{pathExpr}
			} else {
				entry["path"] = pathExpr
			}
			include = append(include, entry)
			g.tag("long-syntax")
		} else {
			include = append(include, pathExpr)
			g.tag("short-syntax")
		}
		entries = append(entries, ent)
	}
	if len(include) > 0 {
		doc["include"] = include
	}
	return doc, entries
}

var c06Envs = []map[string]string{{}, {"V": "pv"}, {"V": "pv", "W": "pw", "X": "px"}, {"W": "", "X": "px"}}

func tagList(t map[string]bool) []string { return c06lib.SortedKeys(t) }

// randomApply builds one ApplyInclude call on a random tree.
func randomApply(ctx *core.Ctx, depth int) c06lib.ApplyArgs {
	// envRes: the sub-load is loadYamlModel's included branch — services and secrets `environment` are resolved by it
	// with the include's environment (model: `resolveModelEnv true`), configs are not
	g := &gen{r: ctx.Rng, s: c06lib.NewScen(), names: map[string]int{}, tags: map[string]bool{}, envRes: true}
	shape := ctx.Rng.Intn(4)
	mainFile, projDir := "compose.yaml", ""
	if shape >= 2 {
		mainFile, projDir = "sub/inc.yaml", "sub"
	}
	chain := []string{mainFile}
	doc, _ := g.project(mainFile, projDir, depth, chain, shape != 3)
	a := c06lib.ApplyArgs{Files: g.s.Files, Dirs: g.s.Dirs, Docs: g.s.Docs, Envs: g.s.Envs, Env: c06Envs[ctx.Rng.Intn(len(c06Envs))],
		Model: core.EncodeVal(doc)}
	switch shape {
	case 0, 1: // the root project
		a.WD, a.LWD, a.Chain = c06lib.Root, c06lib.Root, []string{c06lib.Root + "/compose.yaml"}
		ctx.Count("apply:root-project")
	case 2: // a project in a sub-directory loaded as a root project
		a.WD, a.LWD, a.Chain = c06lib.Root+"/sub", c06lib.Root+"/sub", []string{c06lib.Root + "/sub/inc.yaml"}
		ctx.Count("apply:subdir-project")
	case 3: // the same project reached through an include: relative workingDir, longer chain
		a.WD, a.LWD, a.Chain = "sub", c06lib.Root+"/sub", []string{c06lib.Root + "/compose.yaml", c06lib.Root + "/sub/inc.yaml"}
		ctx.Count("apply:nested-relative-wd")
	}
	for _, t := range tagList(g.tags) {
		ctx.Count("apply-feature:" + t)
	}
	ctx.Count(fmt.Sprintf("apply-files:%d", len(g.s.Docs)))
	return a
}

// ---------------------------------------------------------------- streams

func runC06(ctx *core.Ctx) {
	// development aid: VERIF_C06_ONLY=<stream> runs one stream (never set by ./check)
	switch os.Getenv("VERIF_C06_ONLY") {
	case "options":
		streamPasteOptions(ctx)
		return
	case "missingpd":
		streamPasteMissingProjDir(ctx)
		return
	case "paste":
		streamPaste(ctx)
		return
	case "resolve":
		streamResolveEnv(ctx)
		return
	case "symlinks":
		streamPasteSymlinks(ctx)
		return
	case "envfile":
		streamEnvFromFile(ctx)
		streamCloneOptions(ctx)
		return
	}
	streamFpath(ctx)
	streamIncludeConfig(ctx)
	streamImport(ctx)
	streamApplyExhaustive(ctx)
	ctx.Res.Exhaustive = true
	for i := 0; i < ctx.Pick(2000, 20000); i++ {
		ctx.Add("c06.applyInclude", randomApply(ctx, 1+ctx.Rng.Intn(3)))
	}
	streamApplyDiamonds(ctx)
	streamApplyMalformed(ctx)
	streamApplySourceKinds(ctx)
	streamPaste(ctx)
	streamPasteOptions(ctx)
	streamPasteMissingProjDir(ctx)
	streamPasteSymlinks(ctx)
	streamResolveEnv(ctx)
	streamEnvFromFile(ctx)
	streamCloneOptions(ctx)
}

// streamEnvFromFile: dotenv.GetEnvFromFile vs Include.getEnvFromFile — every list of ≤ 2 (thorough: ≤ 3) names over a pool
// of regular files (plain values, references to the current environment / an earlier file / the same file, defaults),
// a directory, a missing file, a path through a regular file, a relative name, × four current environments.
func streamEnvFromFile(ctx *core.Ctx) {
	s := c06lib.NewScen()
	s.AddEnv("a.env", [][]string{{"V", "a"}, {"W", "aw-${V}"}})
	s.AddEnv("b.env", [][]string{{"W", "b"}, {"X", "${W}-${V:-nov}"}})
	s.AddEnv("sub/.env", [][]string{{"V", "${NOPE:-dflt}"}, {"Y", "y-${X:-nox}-${W-now}"}})
	s.AddEnv("e.env", [][]string{})
	s.AddEnv("bad.env", [][]string{{"V", "${W"}})
	s.AddDir("dir")
	pool := []string{c06lib.Root + "/a.env", c06lib.Root + "/b.env", c06lib.Root + "/sub/.env", c06lib.Root + "/e.env", c06lib.Root + "/bad.env",
		c06lib.Root + "/dir", c06lib.Root + "/missing.env", c06lib.Root + "/a.env/x", "rel.env", c06lib.Root + "/sub/../b.env"}
	kind := map[string]string{c06lib.Root + "/dir": "dir", c06lib.Root + "/missing.env": "missing", c06lib.Root + "/a.env/x": "through-file", "rel.env": "relative",
		c06lib.Root + "/bad.env": "bad-template", c06lib.Root + "/e.env": "empty-file", c06lib.Root + "/sub/../b.env": "unclean-name"}
	curs := []map[string]string{{}, {"V": "pv"}, {"V": "pv", "W": "pw", "X": "px"}, {"W": ""}}
	add := func(names []string, cur map[string]string) {
		ctx.Count(fmt.Sprintf("envFromFile:files=%d", len(names)))
		for _, n := range names {
			k := kind[n]
			if k == "" {
				k = "regular"
			}
			ctx.Count("envFromFile-name:" + k)
		}
		ctx.Add("c06.envFromFile", c06lib.EnvFileArgs{Files: s.Files, Dirs: s.Dirs, Envs: s.Envs, Docs: map[string][]any{}, Cur: cur, Names: append([]string{}, names...)})
	}
	for _, cur := range curs {
		add(nil, cur)
		for _, a := range pool {
			add([]string{a}, cur)
			for _, b := range pool {
				add([]string{a, b}, cur)
				if ctx.Thorough() {
					for _, c := range pool {
						add([]string{a, b, c}, cur)
					}
				}
			}
		}
	}
	for i := 0; i < ctx.Pick(400, 4000); i++ {
		n := 3 + ctx.Rng.Intn(2)
		var names []string
		for j := 0; j < n; j++ {
			// mostly regular files, so that long lists reach the later iterations of the loop
			if ctx.Rng.Intn(5) == 0 {
				names = append(names, pool[ctx.Rng.Intn(len(pool))])
			} else {
				names = append(names, pool[ctx.Rng.Intn(4)])
			}
		}
		add(names, curs[ctx.Rng.Intn(len(curs))])
	}
}

// streamCloneOptions: Options.clone() vs Opts.clone — every single flag, every pair, all / none, random sets
// (thorough: all 4096 flag sets), with and without profiles / project name.
func streamCloneOptions(ctx *core.Ctx) {
	flags := c06lib.OptionFlags
	add := func(mask int, variant int) {
		a := c06lib.CloneArgs{Flags: map[string]bool{}, Profiles: []string{}}
		for i, f := range flags {
			a.Flags[f] = mask&(1<<i) != 0
		}
		if variant&1 != 0 {
			a.Profiles = []string{"dbg", "x"}
		}
		if variant&2 != 0 {
			a.ProjectName = "proj"
		}
		ctx.Count("cloneOptions")
		ctx.Add("c06.cloneOptions", a)
	}
	n := len(flags)
	if ctx.Thorough() {
		for m := 0; m < 1<<n; m++ {
			add(m, m%4)
		}
		return
	}
	add(0, 0)
	add(1<<n-1, 3)
	for i := 0; i < n; i++ {
		add(1<<i, i%4)
		add((1<<n-1)&^(1<<i), (i+1)%4)
		for j := i + 1; j < n; j++ {
			add(1<<i|1<<j, (i+j)%4)
		}
	}
	for i := 0; i < 200; i++ {
		add(ctx.Rng.Intn(1<<n), ctx.Rng.Intn(4))
	}
}

func streamFpath(ctx *core.Ctx) {
	segs := []string{"", "a", "b", ".", "..", "/", "a/", "/a", "../", "./"}
	var rec func(prefix string, n int, emit func(string))
	rec = func(prefix string, n int, emit func(string)) {
		emit(prefix)
		if n == 0 {
			return
		}
		for _, s := range segs {
			if s == "" {
				continue
			}
			sep := "/"
			if prefix == "" || strings.HasSuffix(prefix, "/") || strings.HasPrefix(s, "/") {
				sep = ""
			}
			rec(prefix+sep+s, n-1, emit)
		}
	}
	var all []string
	rec("", ctx.Pick(3, 3), func(s string) { all = append(all, s) })
	step := ctx.Pick(7, 1)
	for i, a := range all {
		for j := (i * 3) % step; j < len(all); j += step {
			ctx.Add("c06.fpath", fpathArgs{A: a, B: all[j]})
			ctx.Count("fpath")
		}
	}
}

func streamIncludeConfig(ctx *core.Ctx) {
	// exhaustive: every kind as the section, as an element, and under each of the three keys
	ctx.Add("c06.includeConfig", includeConfigArgs{Absent: true})
	kv := func(k string) any { return core.KindValue(k, ctx.Rng) }
	for _, k := range core.Kinds {
		ctx.Add("c06.includeConfig", includeConfigArgs{Source: core.EncodeVal(kv(k))})
		ctx.Add("c06.includeConfig", includeConfigArgs{Source: core.EncodeVal([]any{"a.yaml", kv(k)})})
		ctx.Count("includeConfig:kinds")
		for _, key := range []string{"path", "project_directory", "env_file", "unknown"} {
			ctx.Add("c06.includeConfig", includeConfigArgs{Source: core.EncodeVal([]any{map[string]any{key: kv(k)}})})
			for _, k2 := range core.Kinds {
				ctx.Add("c06.includeConfig", includeConfigArgs{Source: core.EncodeVal([]any{map[string]any{key: kv(k), "path": kv(k2)}})})
				ctx.Count("includeConfig:kinds")
			}
		}
	}
	strs := []any{"a.yaml", []any{"a.yaml", "b.yaml"}, []any{}, nil, "", []any{"x", ""}}
	for _, p := range strs {
		for _, d := range []any{nil, "", "dir", "/abs"} {
			for _, e := range strs {
				m := map[string]any{}
				if p != nil {
					m["path"] = p
				}
				if d != nil {
					m["project_directory"] = d
				}
				if e != nil {
					m["env_file"] = e
				}
				ctx.Add("c06.includeConfig", includeConfigArgs{Source: core.EncodeVal([]any{m, "z.yaml"})})
				ctx.Count("includeConfig:valid")
			}
		}
	}
}

func streamImport(ctx *core.Ctx) {
	defs := []any{nil, map[string]any{}, map[string]any{"image": "a"}, map[string]any{"image": "b"}, map[string]any{"image": "a", "labels": map[string]any{"k": "v"}}, "scalar", []any{"x"}}
	// exhaustive small scope: one section, ≤ 2 names on each side, every pair of definitions
	names := []string{"x", "y"}
	var sides []map[string]any
	sides = append(sides, map[string]any{})
	for _, d := range defs {
		sides = append(sides, map[string]any{"x": d})
		for _, e := range defs[:4] {
			sides = append(sides, map[string]any{"x": d, "y": e})
		}
	}
	_ = names
	for _, kind := range []string{"services", "configs"} {
		for _, s := range sides {
			for _, t := range sides {
				ctx.Add("c06.importResources", importArgs{Source: core.EncodeVal(map[string]any{kind: s}), Target: core.EncodeVal(map[string]any{kind: t, "name": "n"})})
				ctx.Count("import:exhaustive")
			}
		}
	}
	// sections of every kind on either side (malformed stream)
	for _, k := range core.Kinds {
		for _, k2 := range core.Kinds {
			for _, kind := range c06lib.Kinds5 {
				ctx.Add("c06.importResources", importArgs{Source: core.EncodeVal(map[string]any{kind: srcSection(core.KindValue(k, ctx.Rng))}),
					Target: core.EncodeVal(map[string]any{kind: core.KindValue(k2, ctx.Rng)})})
				ctx.Count("import:malformed-target")
			}
		}
	}
	// random: several sections, shared names
	for i := 0; i < ctx.Pick(3000, 60000); i++ {
		mk := func() map[string]any {
			m := map[string]any{}
			for _, kind := range c06lib.Kinds5 {
				if ctx.Rng.Intn(2) == 0 {
					continue
				}
				sec := map[string]any{}
				for j := 0; j < ctx.Rng.Intn(4); j++ {
					name := fmt.Sprintf("r%d", ctx.Rng.Intn(4))
					sec[name] = c06lib.Resource(rand.New(rand.NewSource(int64(ctx.Rng.Intn(6)))), kind, name)
				}
				m[kind] = sec
			}
			if ctx.Rng.Intn(4) == 0 {
				m["x-other"] = "kept"
			}
			return m
		}
		ctx.Add("c06.importResources", importArgs{Source: core.EncodeVal(mk()), Target: core.EncodeVal(mk())})
		ctx.Count("import:random")
	}
}

// srcSection: a validated included model has mappings or null here; with SkipValidation any kind can arrive
// (then the import is an error, not a panic — fix 53f12a7), so every kind is sent as it is
func srcSection(v any) any { return v }

// streamApplyExhaustive enumerates the syntax × file-system situations of one include entry on a fixed small tree.
func streamApplyExhaustive(ctx *core.Ctx) {
	paths := []string{"sub/inc.yaml", "./sub/inc.yaml", c06lib.Root + "/sub/inc.yaml", "sub", "missing.yaml", "sub/../sub/inc.yaml", "inc.yaml", "../inc.yaml"}
	pds := []any{nil, ".", "sub", "other", c06lib.Root + "/other", "missing-dir", "..", ""}
	efs := []any{nil, "e1.env", []any{"e1.env", "sub/e2.env"}, "missing.env", "sub", c06lib.Root + "/e1.env", c06lib.Root + "/missing.env", []any{}}
	type call struct {
		wd, lwd string
		chain   []string
	}
	calls := []call{
		{c06lib.Root, c06lib.Root, []string{c06lib.Root + "/compose.yaml"}},
		{"sub", c06lib.Root + "/sub", []string{c06lib.Root + "/compose.yaml", c06lib.Root + "/sub/x.yaml"}},
		{c06lib.Root, c06lib.Root, []string{c06lib.Root + "/compose.yaml", c06lib.Root + "/sub/inc.yaml"}},
		{"", c06lib.Root, []string{}},
	}
	step := ctx.Pick(3, 1)
	n := 0
	for _, p := range paths {
		for _, pd := range pds {
			for _, ef := range efs {
				for dotenv := 0; dotenv < 2; dotenv++ {
					for ci, c := range calls {
						n++
						if n%step != 0 {
							continue
						}
						s := c06lib.NewScen()
						inc := map[string]any{"services": map[string]any{"b": map[string]any{"image": "b-${V}-${W:-dw}", "build": map[string]any{"context": "./ctx"}}},
							"secrets": map[string]any{"s": map[string]any{"file": "s.txt"}}}
						s.AddYAML("sub/inc.yaml", n%2, inc)
						s.AddYAML("inc.yaml", n%2, map[string]any{"services": map[string]any{"c": map[string]any{"image": "c-${V}"}}})
						s.AddEnv("e1.env", [][]string{{"V", "e1"}, {"W", "w-${V}"}})
						s.AddEnv("sub/e2.env", [][]string{{"V", "e2"}, {"X", "x2"}})
						s.AddDir("other")
						if dotenv == 1 {
							s.AddEnv("sub/.env", [][]string{{"V", "subdot"}})
							s.AddEnv("other/.env", [][]string{{"V", "otherdot"}})
							s.AddEnv(".env", [][]string{{"V", "rootdot"}})
						}
						entry := map[string]any{"path": p}
						if pd != nil {
							entry["project_directory"] = pd
						}
						if ef != nil {
							entry["env_file"] = ef
						}
						var e any = entry
						if pd == nil && ef == nil && n%2 == 0 {
							e = p
						}
						model := map[string]any{"include": []any{e}, "services": map[string]any{"a": map[string]any{"image": "a"}}}
						env := map[string]string{}
						if n%5 == 0 {
							env["V"] = "parent"
						}
						ctx.Add("c06.applyInclude", c06lib.ApplyArgs{Files: s.Files, Dirs: s.Dirs, Docs: s.Docs, Envs: s.Envs, WD: c.wd, LWD: c.lwd, Env: env,
							Model: core.EncodeVal(model), Chain: c.chain})
						ctx.Count(fmt.Sprintf("apply:exhaustive-call%d", ci))
					}
				}
			}
		}
	}
}

// streamApplySourceKinds: with SkipValidation an included file can carry a resource section of any node kind
// (exhaustive: 4 sections × 10 kinds × 2 renderings; a non-mapping `services` is already rejected by ApplyExtends);
// importResource must answer with an error, never a panic.
func streamApplySourceKinds(ctx *core.Ctx) {
	for _, kind := range c06lib.Kinds5[1:] {
		for _, k := range core.Kinds {
			for style := 0; style < 2; style++ {
				s := c06lib.NewScen()
				inc := map[string]any{"services": map[string]any{"b": map[string]any{"image": "b"}}}
				inc[kind] = core.KindValue(k, ctx.Rng)
				s.AddYAML("sub/inc.yaml", style, inc)
				model := map[string]any{"include": []any{"sub/inc.yaml"}, "services": map[string]any{"a": map[string]any{"image": "a"}}}
				ctx.Add("c06.applySource", c06lib.ApplyArgs{Files: s.Files, Docs: s.Docs, Envs: s.Envs, WD: c06lib.Root, LWD: c06lib.Root, Env: map[string]string{},
					Model: core.EncodeVal(model), Chain: []string{c06lib.Root + "/compose.yaml"}, SkipValidation: true})
				ctx.Count("apply:source-section-kind=" + k)
			}
		}
	}
}

// streamApplyDiamonds: one file reached through two include routes whose relative paths are spelled differently
// (absolute project_directory on one route; a route through a sibling directory); sameResource must accept them,
// and still reject a shared name whose definitions really differ.
func streamApplyDiamonds(ctx *core.Ctx) {
	shared := map[string]any{"services": map[string]any{"r": map[string]any{"image": "r-${V:-u}", "build": map[string]any{"context": "./ctx"},
		"volumes": []any{map[string]any{"type": "bind", "source": "f.txt", "target": "/t"}}, "label_file": []any{"l.txt"}}},
		"secrets": map[string]any{"s": map[string]any{"file": "./s.txt"}}, "configs": map[string]any{"c": map[string]any{"file": "c.txt"}}}
	for style := 0; style < 2; style++ {
		for variant := 0; variant < 4; variant++ {
			s := c06lib.NewScen()
			s.AddYAML("shared/d.yaml", style, shared)
			s.AddYAML("a/inc.yaml", style, map[string]any{"include": []any{"../shared/d.yaml"}, "services": map[string]any{"sa": map[string]any{"image": "x"}}})
			s.AddYAML("b/inc.yaml", style, map[string]any{"include": []any{"../shared/d.yaml"}, "services": map[string]any{"sb": map[string]any{"image": "y"}}})
			s.AddYAML("c/inc.yaml", style, map[string]any{"include": []any{c06lib.Root + "/a/inc.yaml"}, "services": map[string]any{"sc": map[string]any{"image": "z"}}})
			var inc []any
			env := map[string]string{}
			switch variant {
			case 0: // absolute project_directory on one route
				inc = []any{map[string]any{"path": "a/inc.yaml", "project_directory": c06lib.Root + "/a"}, "b/inc.yaml"}
			case 1: // the second route passes through another directory with an absolute path
				inc = []any{"a/inc.yaml", "c/inc.yaml"}
			case 2: // plain diamond
				inc = []any{"a/inc.yaml", "b/inc.yaml"}
			case 3: // the routes see different environments: the definitions really differ
				s.AddEnv("b/.env", [][]string{{"V", "from-b"}})
				s.AddEnv("shared/.env", [][]string{{"V", "from-shared"}})
				inc = []any{"a/inc.yaml", map[string]any{"path": "../shared/d.yaml", "project_directory": "b"}}
			}
			model := map[string]any{"include": inc, "services": map[string]any{"m": map[string]any{"image": "m"}}}
			ctx.Add("c06.applyInclude", c06lib.ApplyArgs{Files: s.Files, Dirs: s.Dirs, Docs: s.Docs, Envs: s.Envs, WD: c06lib.Root, LWD: c06lib.Root, Env: env,
				Model: core.EncodeVal(model), Chain: []string{c06lib.Root + "/compose.yaml"}})
			ctx.Count(fmt.Sprintf("apply:diamond-variant%d", variant))
		}
	}
}

// streamApplyMalformed: include sections and target sections of every node kind.
func streamApplyMalformed(ctx *core.Ctx) {
	for i := 0; i < ctx.Pick(600, 3000); i++ {
		a := randomApply(ctx, 1)
		model := core.DecodeVal(a.Model).(map[string]any)
		k := core.Kinds[ctx.Rng.Intn(len(core.Kinds))]
		v := core.KindValue(k, ctx.Rng)
		switch ctx.Rng.Intn(4) {
		case 0:
			model["include"] = v
			ctx.Count("apply-malformed:include=" + k)
		case 1:
			inc, _ := model["include"].([]any)
			model["include"] = append(inc, v)
			ctx.Count("apply-malformed:element=" + k)
		case 2:
			key := []string{"path", "project_directory", "env_file"}[ctx.Rng.Intn(3)]
			inc, _ := model["include"].([]any)
			model["include"] = append(inc, map[string]any{"path": "compose-x.yaml", key: v})
			ctx.Count("apply-malformed:" + key + "=" + k)
		case 3:
			kind := c06lib.Kinds5[ctx.Rng.Intn(5)]
			model[kind] = v
			ctx.Count("apply-malformed:target-section=" + k)
		}
		a.Model = core.EncodeVal(model)
		ctx.Add("c06.applyInclude", a)
	}
}

// ---------------------------------------------------------------- the paste oracle stream

func pasteArgs(g *gen, main string, entries []c06lib.Entry, env map[string]string, expect, class string) c06lib.PasteArgs {
	return c06lib.PasteArgs{Files: g.s.Files, Dirs: g.s.Dirs, Main: main, Env: env, Entries: entries, Expect: expect, Class: class}
}

func newGen(ctx *core.Ctx, clean bool) *gen {
	return &gen{r: ctx.Rng, s: c06lib.NewScen(), names: map[string]int{}, tags: map[string]bool{}, clean: clean, envRes: clean}
}

// diffPair returns two definitions of one resource that differ whatever the environment and the directories are.
func diffPair(r *rand.Rand, kind string) (any, any) {
	switch kind {
	case "services":
		a := cleanDef(kind, c06lib.Service(r, "r")).(map[string]any)
		a["image"] = "one"
		return a, map[string]any{"image": "two"}
	case "volumes", "networks":
		if r.Intn(2) == 0 {
			return map[string]any{"name": "one"}, map[string]any{"name": "two"}
		}
		return map[string]any{"labels": map[string]any{"which": c06lib.Tmpl(r, "one")}}, map[string]any{"driver": "local"}
	case "secrets":
		if r.Intn(2) == 0 {
			return map[string]any{"environment": "ONE"}, map[string]any{"environment": "TWO"}
		}
		return map[string]any{"file": "./one"}, map[string]any{"file": "./two"}
	default:
		if r.Intn(2) == 0 {
			return map[string]any{"content": "one"}, map[string]any{"content": "two"}
		}
		return map[string]any{"file": "./one"}, map[string]any{"environment": "TWO"}
	}
}

func svc(image string) map[string]any { return map[string]any{"image": image} }

func streamPaste(ctx *core.Ctx) {
	// 1. partitions of a model into a main file and included files (nesting ≤ 3, sub-directories, project_directory,
	//    env_file, .env, short/long syntax, override files, diamonds)
	for i := 0; i < ctx.Pick(1200, 12000); i++ {
		g := newGen(ctx, true)
		depth := 1 + ctx.Rng.Intn(3)
		main, projDir := "compose.yaml", ""
		if ctx.Rng.Intn(4) == 0 {
			main, projDir = "proj/compose.yaml", "proj"
		}
		doc, entries := g.project(main, projDir, depth, []string{main}, true)
		if len(entries) == 0 {
			continue
		}
		for _, f := range c06lib.SortedKeys(g.s.Files) {
			if strings.HasSuffix(f, "inc.yaml") && ctx.Rng.Intn(3) == 0 {
				g.s.AddEnv(path.Join(path.Dir(f), "maybe.env"), [][]string{{"FROM_ENV_FILE", path.Dir(f)}})
			}
		}
		g.s.AddYAML(main, 0, doc)
		ctx.Count(fmt.Sprintf("paste:partition-depth%d-includes%d", depth, len(entries)))
		for _, t := range tagList(g.tags) {
			ctx.Count("paste-feature:" + t)
		}
		class := "partition"
		if g.tags["diamond"] {
			class = "diamond"
		}
		if g.tags["config-environment"] {
			class = "config-environment" // open finding (findings/C06.txt): an included model leaves its configs unresolved
		}
		ctx.Add("c06.paste", pasteArgs(g, main, entries, c06Envs[ctx.Rng.Intn(len(c06Envs))], "paste", class))
	}

	// 2. environment precedence, one variable at a time: parent × .env × env_file  (exhaustive)
	for mask := 0; mask < 16; mask++ {
		g := newGen(ctx, true)
		env := map[string]string{}
		if mask&1 != 0 {
			env["V"] = "parent"
		}
		ent := c06lib.Entry{Paths: []string{"sub/inc.yaml"}, ProjDir: "sub"}
		entry := map[string]any{"path": "sub/inc.yaml"}
		if mask&2 != 0 {
			g.s.AddEnv("sub/.env", [][]string{{"V", "dotenv"}, {"W", "w-${V}"}})
		}
		if mask&4 != 0 {
			g.s.AddEnv("my.env", [][]string{{"V", "envfile"}, {"W", "w2-${V}"}})
			entry["env_file"] = "my.env"
			ent.EnvFiles = []string{"my.env"}
		}
		if mask&8 != 0 {
			g.s.AddDir("pd")
			g.s.AddEnv("pd/.env", [][]string{{"V", "pd-dotenv"}})
			entry["project_directory"] = "pd"
			ent.ProjDir = "pd"
		}
		g.s.AddYAML("sub/inc.yaml", mask%2, map[string]any{"services": map[string]any{"b": map[string]any{"image": "b-${V:-unset}-${W:-unset}", "build": map[string]any{"context": "./ctx"}}}})
		g.s.AddYAML("compose.yaml", 0, map[string]any{"include": []any{entry}, "services": map[string]any{"a": svc("a-${V:-unset}")}})
		ctx.Count("paste:env-precedence")
		ctx.Add("c06.paste", pasteArgs(g, "compose.yaml", []c06lib.Entry{ent}, env, "paste", "env-precedence"))
	}
	// 2b. the same sixteen environments feeding every resolver that runs on an included model, one resource each:
	//     services `environment` (list / mapping form), secrets `environment`, configs `environment`; the main file
	//     uses the same variables, which the included project's files must not define for it.  Also nested once.
	for mask := 0; mask < 16; mask++ {
		for form := 0; form < 4; form++ {
			for nest := 0; nest < 2; nest++ {
				g := newGen(ctx, true)
				env := map[string]string{}
				if mask&1 != 0 {
					env["V"] = "parent"
				}
				ent := c06lib.Entry{Paths: []string{"sub/inc.yaml"}, ProjDir: "sub"}
				entry := map[string]any{"path": "sub/inc.yaml"}
				if mask&2 != 0 {
					g.s.AddEnv("sub/.env", [][]string{{"V", "dotenv"}, {"W", "w-${V}"}})
				}
				if mask&4 != 0 {
					g.s.AddEnv("my.env", [][]string{{"V", "envfile"}, {"W", "w2-${V}"}})
					entry["env_file"] = "my.env"
					ent.EnvFiles = []string{"my.env"}
				}
				if mask&8 != 0 {
					g.s.AddDir("pd")
					g.s.AddEnv("pd/.env", [][]string{{"V", "pd-dotenv"}})
					entry["project_directory"] = "pd"
					ent.ProjDir = "pd"
				}
				inc := map[string]any{"services": map[string]any{"b": svc("b")}}
				own := map[string]any{"services": map[string]any{"a": svc("a")}}
				class := ""
				switch form {
				case 0:
					inc["services"].(map[string]any)["b"].(map[string]any)["environment"] = []any{"V", "W", "K=k"}
					own["services"].(map[string]any)["a"].(map[string]any)["environment"] = []any{"V", "W"}
					class = "env-service-list"
				case 1:
					inc["services"].(map[string]any)["b"].(map[string]any)["environment"] = map[string]any{"V": nil, "W": nil, "K": "k"}
					own["services"].(map[string]any)["a"].(map[string]any)["environment"] = map[string]any{"W": nil}
					class = "env-service-map"
				case 2:
					inc["secrets"] = map[string]any{"sv": map[string]any{"environment": "V"}, "sw": map[string]any{"environment": "W"}}
					own["secrets"] = map[string]any{"mw": map[string]any{"environment": "W"}}
					class = "env-secret"
				case 3:
					inc["configs"] = map[string]any{"cv": map[string]any{"environment": "V"}, "cw": map[string]any{"environment": "W"}}
					own["configs"] = map[string]any{"mw": map[string]any{"environment": "W"}}
					class = "config-environment"
				}
				if nest == 0 {
					g.s.AddYAML("sub/inc.yaml", mask%2, inc)
					own["include"] = []any{entry}
				} else {
					// the entry sits in an included file: parent -> mid (no environment of its own) -> sub/inc.yaml
					mid := map[string]any{"include": []any{entry}, "services": map[string]any{"mid": svc("mid")}}
					g.s.AddYAML("sub/inc.yaml", mask%2, inc)
					g.s.AddYAML("mid.yaml", 0, mid)
					own["include"] = []any{"mid.yaml"}
					ent = c06lib.Entry{Paths: []string{"mid.yaml"}, ProjDir: ""}
					if form != 3 {
						class += "-nested"
					}
					ctx.Count("paste:env-nested")
				}
				g.s.AddYAML("compose.yaml", 0, own)
				ctx.Count("paste:" + class)
				ctx.Add("c06.paste", pasteArgs(g, "compose.yaml", []c06lib.Entry{ent}, env, "paste", class))
			}
		}
	}

	// 3. conflicting and identical redefinitions
	for i := 0; i < ctx.Pick(60, 300); i++ {
		for _, kind := range c06lib.Kinds5 {
			g := newGen(ctx, true)
			d1, d2 := diffPair(ctx.Rng, kind)
			switch ctx.Rng.Intn(3) {
			case 0: // two included files define the resource differently
				da := map[string]any{"services": map[string]any{"sa": svc("x")}}
				db := map[string]any{"services": map[string]any{"sb": svc("y")}}
				if kind == "services" {
					da["services"].(map[string]any)["r"] = d1
					db["services"].(map[string]any)["r"] = d2
				} else {
					da[kind] = map[string]any{"r": d1}
					db[kind] = map[string]any{"r": d2}
				}
				g.s.AddYAML("a/inc.yaml", i%2, da)
				g.s.AddYAML("b/inc.yaml", i%2, db)
				g.s.AddYAML("compose.yaml", 0, map[string]any{"include": []any{"a/inc.yaml", "b/inc.yaml"}, "services": map[string]any{"m": svc("m")}})
				ctx.Count("paste:conflict-two-includes")
				// the two definitions are resolved in different directories: they differ even when written alike
				ctx.Add("c06.paste", pasteArgs(g, "compose.yaml", nil, map[string]string{"V": "pv"}, "error", "conflict"))
			case 1: // the main file and an included file define it differently (different section shapes included)
				da := map[string]any{kind: map[string]any{"r": d1}}
				if kind != "services" {
					da["services"] = map[string]any{"sa": svc("x")}
				}
				g.s.AddYAML("a/inc.yaml", i%2, da)
				md := d2
				if kind == "services" {
					md = svc("main-differs")
				}
				main := map[string]any{"include": []any{"a/inc.yaml"}, kind: map[string]any{"r": md}}
				if kind != "services" {
					main["services"] = map[string]any{"m": svc("m")}
				}
				if fmt.Sprint(md) == fmt.Sprint(d1) {
					continue
				}
				g.s.AddYAML("compose.yaml", 0, main)
				ctx.Count("paste:conflict-main-vs-include")
				ctx.Add("c06.paste", pasteArgs(g, "compose.yaml", nil, map[string]string{"V": "pv"}, "error", "conflict"))
			case 2: // the same file arrives through two routes, from different directories (diamond)
				dd := map[string]any{"services": map[string]any{"sd": svc("d-${V}")}}
				if kind == "services" {
					dd["services"].(map[string]any)["r"] = d1
				} else {
					dd[kind] = map[string]any{"r": d1}
				}
				g.s.AddYAML("shared/d.yaml", i%2, dd)
				g.s.AddYAML("a/inc.yaml", i%2, map[string]any{"include": []any{"../shared/d.yaml"}, "services": map[string]any{"sa": svc("x")}})
				g.s.AddYAML("b/deep/inc.yaml", i%2, map[string]any{"include": []any{map[string]any{"path": "../../shared/d.yaml"}}, "services": map[string]any{"sb": svc("y")}})
				g.s.AddYAML("compose.yaml", 0, map[string]any{"include": []any{"a/inc.yaml", map[string]any{"path": []any{"b/deep/inc.yaml"}}}, "services": map[string]any{"m": svc("m")}})
				ctx.Count("paste:identical-two-routes")
				ents := []c06lib.Entry{{Paths: []string{"a/inc.yaml"}, ProjDir: "a"}, {Paths: []string{"b/deep/inc.yaml"}, ProjDir: "b/deep"}}
				ctx.Add("c06.paste", pasteArgs(g, "compose.yaml", ents, map[string]string{"V": "pv"}, "accept", "identical"))
				ctx.Add("c06.paste", pasteArgs(g, "compose.yaml", ents, map[string]string{"V": "pv"}, "paste", "identical"))
			}
		}
	}

	// 3b. a resource declared with an empty body (`front:` = null) on one side and defined with attributes on the
	//     other is "defined differently": conflict error, whichever side the empty declaration is on, at depth 1 and
	//     inside an included file; declared empty on both sides it is identical and accepted  (exhaustive; seed C06-4)
	for _, kind := range c06lib.Kinds5[1:] {
		for variant := 0; variant < 2; variant++ {
			for style := 0; style < 2; style++ {
				d1, d2 := diffPair(ctx.Rng, kind)
				def := d1
				if variant == 1 {
					def = d2
				}
				section := func(v any) map[string]any { return map[string]any{"r": v} }
				// (a) the including file declares it empty, the included file defines it
				g := newGen(ctx, true)
				g.s.AddYAML("a/inc.yaml", style, map[string]any{kind: section(def), "services": map[string]any{"sa": svc("x")}})
				g.s.AddYAML("compose.yaml", 0, map[string]any{"include": []any{"a/inc.yaml"}, kind: section(nil), "services": map[string]any{"m": svc("m")}})
				ctx.Count("paste:conflict-empty-own-vs-defined")
				ctx.Add("c06.paste", pasteArgs(g, "compose.yaml", nil, map[string]string{"V": "pv"}, "error", "conflict-empty-own"))
				// (b) symmetric: the included file declares it empty, the including file defines it
				g = newGen(ctx, true)
				g.s.AddYAML("a/inc.yaml", style, map[string]any{kind: section(nil), "services": map[string]any{"sa": svc("x")}})
				g.s.AddYAML("compose.yaml", 0, map[string]any{"include": []any{"a/inc.yaml"}, kind: section(def), "services": map[string]any{"m": svc("m")}})
				ctx.Count("paste:conflict-defined-own-vs-empty")
				ctx.Add("c06.paste", pasteArgs(g, "compose.yaml", nil, map[string]string{"V": "pv"}, "error", "conflict-empty-included"))
				// (c) the empty declaration sits in an intermediate included file, the definition one level deeper
				g = newGen(ctx, true)
				g.s.AddYAML("a/deep/d.yaml", style, map[string]any{kind: section(def), "services": map[string]any{"sd": svc("x")}})
				g.s.AddYAML("a/inc.yaml", style, map[string]any{"include": []any{"deep/d.yaml"}, kind: section(nil), "services": map[string]any{"sa": svc("x")}})
				g.s.AddYAML("compose.yaml", 0, map[string]any{"include": []any{"a/inc.yaml"}, "services": map[string]any{"m": svc("m")}})
				ctx.Count("paste:conflict-empty-own-vs-defined-nested")
				ctx.Add("c06.paste", pasteArgs(g, "compose.yaml", nil, map[string]string{"V": "pv"}, "error", "conflict-empty-own-nested"))
				// (d) two included files, one declares it empty, the other defines it (both orders)
				g = newGen(ctx, true)
				g.s.AddYAML("a/inc.yaml", style, map[string]any{kind: section(nil), "services": map[string]any{"sa": svc("x")}})
				g.s.AddYAML("b/inc.yaml", style, map[string]any{kind: section(def), "services": map[string]any{"sb": svc("y")}})
				order := []any{"a/inc.yaml", "b/inc.yaml"}
				if variant == 1 {
					order = []any{"b/inc.yaml", "a/inc.yaml"}
				}
				g.s.AddYAML("compose.yaml", 0, map[string]any{"include": order, "services": map[string]any{"m": svc("m")}})
				ctx.Count("paste:conflict-empty-vs-defined-two-includes")
				ctx.Add("c06.paste", pasteArgs(g, "compose.yaml", nil, map[string]string{"V": "pv"}, "error", "conflict-empty-two-includes"))
				// (e) control: declared empty on both sides (volumes and networks accept an empty body) — identical, accepted
				if kind == "volumes" || kind == "networks" {
					g = newGen(ctx, true)
					g.s.AddYAML("a/inc.yaml", style, map[string]any{kind: section(nil), "services": map[string]any{"sa": svc("x")}})
					g.s.AddYAML("compose.yaml", 0, map[string]any{"include": []any{"a/inc.yaml"}, kind: section(nil), "services": map[string]any{"m": svc("m")}})
					ctx.Count("paste:identical-empty-both")
					ents := []c06lib.Entry{{Paths: []string{"a/inc.yaml"}, ProjDir: "a"}}
					ctx.Add("c06.paste", pasteArgs(g, "compose.yaml", ents, map[string]string{"V": "pv"}, "accept", "identical-empty"))
					ctx.Add("c06.paste", pasteArgs(g, "compose.yaml", ents, map[string]string{"V": "pv"}, "paste", "identical-empty"))
				}
			}
		}
	}

	// 4. include cycles of length 1..3 (through the first path or through an override path), missing files  (exhaustive)
	for n := 1; n <= 3; n++ {
		for viaOverride := 0; viaOverride < 2; viaOverride++ {
			for layout := 0; layout < 3; layout++ {
				for style := 0; style < 2; style++ {
					g := newGen(ctx, true)
					files := []string{"compose.yaml", "s1/b.yaml", "s1/s2/c.yaml"}[:n]
					if layout == 1 {
						files = []string{"compose.yaml", "b.yaml", "c.yaml"}[:n]
					}
					if layout == 2 {
						files = []string{"p/compose.yaml", "q/b.yaml", "r/c.yaml"}[:n]
					}
					g.s.AddYAML("plain.yaml", 0, map[string]any{"services": map[string]any{"plain": svc("x")}})
					for i, f := range files {
						next := files[(i+1)%n]
						var inc any = c06lib.RelTo(path.Dir(f), next)
						if style == 1 {
							inc = map[string]any{"path": c06lib.Root + "/" + next}
						}
						if viaOverride == 1 && i == n-1 {
							inc = map[string]any{"path": []any{c06lib.RelTo(path.Dir(f), "plain.yaml"), c06lib.RelTo(path.Dir(f), next)}}
						}
						g.s.AddYAML(f, 0, map[string]any{"include": []any{inc}, "services": map[string]any{fmt.Sprintf("s%d", i): svc("x")}})
					}
					ctx.Count(fmt.Sprintf("paste:cycle-%d", n))
					class := fmt.Sprintf("cycle-%d", n)
					if viaOverride == 1 {
						class += "-via-override"
					}
					ctx.Add("c06.paste", pasteArgs(g, files[0], nil, nil, "error", class))
					// the same cycle entered from a file that is not part of it
					g.s.AddYAML("entry/compose.yaml", 0, map[string]any{"include": []any{c06lib.RelTo("entry", files[n-1])}, "services": map[string]any{"e": svc("x")}})
					ctx.Count(fmt.Sprintf("paste:cycle-%d-entered-from-outside", n))
					ctx.Add("c06.paste", pasteArgs(g, "entry/compose.yaml", nil, nil, "error", class+"-lasso"))
				}
			}
		}
	}
	for depth := 1; depth <= 3; depth++ {
		for style := 0; style < 3; style++ {
			g := newGen(ctx, true)
			files := []string{"compose.yaml", "s1/b.yaml", "s1/s2/c.yaml", "s1/s2/s3/missing.yaml"}[:depth+1]
			for i, f := range files[:depth] {
				var inc any = c06lib.RelTo(path.Dir(f), files[i+1])
				if style == 1 {
					inc = map[string]any{"path": inc}
				}
				if style == 2 {
					inc = map[string]any{"path": inc, "project_directory": "."}
				}
				g.s.AddYAML(f, 0, map[string]any{"include": []any{inc}, "services": map[string]any{fmt.Sprintf("s%d", i): svc("x")}})
			}
			ctx.Count("paste:missing-file")
			ctx.Add("c06.paste", pasteArgs(g, "compose.yaml", nil, nil, "error", "missing-file"))
		}
	}

	// 4a. the including file has an empty (null) section of a kind the included file defines  (fixed defect, see findings/C06.txt)
	for _, kind := range c06lib.Kinds5[1:] {
		for style := 0; style < 2; style++ {
			g := newGen(ctx, true)
			g.s.AddYAML("sub/inc.yaml", style, map[string]any{kind: map[string]any{"r": cleanDef(kind, c06lib.Resource(ctx.Rng, kind, "r"))}, "services": map[string]any{"b": svc("b")}})
			g.s.AddYAML("compose.yaml", 0, map[string]any{"include": []any{"sub/inc.yaml"}, kind: nil, "services": map[string]any{"a": svc("a")}})
			ctx.Count("paste:null-section")
			ctx.Add("c06.paste", pasteArgs(g, "compose.yaml", []c06lib.Entry{{Paths: []string{"sub/inc.yaml"}, ProjDir: "sub"}}, map[string]string{"V": "pv"}, "paste", "null-section"))
		}
	}

	// 4b. the same file through two routes, one of which has an absolute project_directory: the definitions are
	//     compared while their paths are only half resolved  (see findings/C06.txt)
	for style := 0; style < 2; style++ {
		g := newGen(ctx, true)
		g.s.AddYAML("shared/d.yaml", style, map[string]any{"services": map[string]any{"r": map[string]any{"image": "r", "build": map[string]any{"context": "./ctx"}}}})
		g.s.AddYAML("a/inc.yaml", style, map[string]any{"include": []any{"../shared/d.yaml"}, "services": map[string]any{"sa": svc("x")}})
		g.s.AddYAML("b/inc.yaml", style, map[string]any{"include": []any{"../shared/d.yaml"}, "services": map[string]any{"sb": svc("y")}})
		g.s.AddYAML("compose.yaml", 0, map[string]any{"include": []any{map[string]any{"path": "a/inc.yaml", "project_directory": c06lib.Root + "/a"}, "b/inc.yaml"}, "services": map[string]any{"m": svc("m")}})
		ents := []c06lib.Entry{{Paths: []string{"a/inc.yaml"}, ProjDir: "a"}, {Paths: []string{"b/inc.yaml"}, ProjDir: "b"}}
		ctx.Count("paste:diamond-abs-project_directory")
		ctx.Add("c06.paste", pasteArgs(g, "compose.yaml", ents, nil, "paste", "diamond"))
	}

	// 5. nested includes whose env_file / project_directory is relative: the including project is itself included,
	//    so ApplyInclude runs with a relative working directory  (see findings/C06.txt)
	for variant := 0; variant < 4; variant++ {
		g := newGen(ctx, true)
		g.s.AddYAML("sub/deep/d.yaml", variant%2, map[string]any{"services": map[string]any{"c": map[string]any{"image": "c-${V:-unset}", "build": map[string]any{"context": "./ctx"}}}})
		entry := map[string]any{"path": "deep/d.yaml"}
		class := ""
		if variant < 2 {
			g.s.AddEnv("sub/my.env", [][]string{{"V", "sub-env-file"}})
			entry["env_file"] = "my.env"
			class = "nested-relative-env_file"
		} else {
			g.s.AddEnv("sub/pd/.env", [][]string{{"V", "pd-dotenv"}})
			entry["project_directory"] = "pd"
			class = "nested-relative-project_directory"
		}
		g.s.AddYAML("sub/inc.yaml", variant%2, map[string]any{"include": []any{entry}, "services": map[string]any{"b": svc("b")}})
		g.s.AddYAML("compose.yaml", 0, map[string]any{"include": []any{"sub/inc.yaml"}, "services": map[string]any{"a": svc("a")}})
		ctx.Count("paste:" + class)
		ctx.Add("c06.paste", pasteArgs(g, "compose.yaml", []c06lib.Entry{{Paths: []string{"sub/inc.yaml"}, ProjDir: "sub"}}, nil, "paste", class))
	}

}

// streamPasteOptions is stream 6 of the paste oracle.
func streamPasteOptions(ctx *core.Ctx) {
	// 6. loader options: the included project is loaded with a *clone* of the caller's options (ResolvePaths,
	//    SkipNormalization, SkipConsistencyCheck forced).  Paste equivalence must hold under every option set: each
	//    option is made observable by an attribute of the included file that the corresponding stage would change.
	//    (exhaustive over the 2^7 flag sets × ±profiles on one probe tree, nested once; + random partitions below)
	for mask := 0; mask < 256; mask++ {
		o := pasteOptsOf(mask)
		for nest := 0; nest < 2; nest++ {
			if nest == 1 && mask%3 != 0 && !ctx.Thorough() {
				continue
			}
			g := newGen(ctx, true)
			probe := map[string]any{
				"services": map[string]any{
					"base": map[string]any{"image": "base-${V:-unset}", "labels": map[string]any{"from": "base"}},
					// interpolation, defaults (build.context, ports), extends, profiles, environment resolution
					"b": map[string]any{"extends": map[string]any{"service": "base"}, "build": map[string]any{"dockerfile": "Dockerfile.b"},
						"ports": []any{"8080:80"}, "environment": []any{"V", "K=${W:-w}"}},
					"dbg": map[string]any{"image": "dbg", "profiles": []any{"dbg"}, "volumes": []any{"./data:/data"}},
				},
				"volumes":  map[string]any{"vol": map[string]any{"labels": map[string]any{"l": "${V:-unset}"}}},
				"networks": map[string]any{"net": nil},
				"secrets":  map[string]any{"sec": map[string]any{"environment": "V"}},
				"configs":  map[string]any{"cfg": map[string]any{"file": "./c.txt"}},
			}
			ents := []c06lib.Entry{{Paths: []string{"sub/inc.yaml"}, ProjDir: "sub"}}
			if nest == 0 {
				g.s.AddYAML("sub/inc.yaml", mask%2, probe)
			} else {
				g.s.AddYAML("sub/deep/d.yaml", mask%2, probe)
				g.s.AddYAML("sub/inc.yaml", 0, map[string]any{"include": []any{"deep/d.yaml"}, "services": map[string]any{"mid": svc("mid-${V:-unset}")}})
			}
			g.s.AddYAML("compose.yaml", 0, map[string]any{"include": []any{"sub/inc.yaml"}, "services": map[string]any{"a": map[string]any{"image": "a-${V:-unset}", "build": map[string]any{"dockerfile": "Dockerfile.a"}}}})
			ctx.Count("paste:options=" + o.Name())
			a := pasteArgs(g, "compose.yaml", ents, map[string]string{"V": "pv"}, "paste", "options")
			a.Opts = o
			ctx.Add("c06.paste", a)
		}
	}
	for i := 0; i < ctx.Pick(300, 4000); i++ {
		g := newGen(ctx, true)
		depth := 1 + ctx.Rng.Intn(3)
		doc, entries := g.project("compose.yaml", "", depth, []string{"compose.yaml"}, true)
		if len(entries) == 0 {
			continue
		}
		g.s.AddYAML("compose.yaml", 0, doc)
		o := pasteOptsOf(ctx.Rng.Intn(256))
		ctx.Count("paste:options-partition")
		ctx.Count("paste-options:" + o.Name())
		class := "options-partition"
		if g.tags["config-environment"] {
			class = "config-environment"
		}
		a := pasteArgs(g, "compose.yaml", entries, c06Envs[ctx.Rng.Intn(len(c06Envs))], "paste", class)
		a.Opts = o
		ctx.Add("c06.paste", a)
	}
}

// streamPasteMissingProjDir: a relative project_directory that is not an existing directory (absent, or a regular
// file).  localResourceLoader.Dir answers the parent of such a path: the included model's paths are resolved against
// the parent, not against the declared project directory  (finding, see findings/C06.txt and Neg/C06.lean).
func streamPasteMissingProjDir(ctx *core.Ctx) {
	for variant := 0; variant < 8; variant++ {
		g := newGen(ctx, true)
		pd := []string{"nodir", "deep/nodir"}[variant/4]
		if variant%2 == 1 {
			g.s.Files[pd] = "a regular file\n"
		}
		inc := map[string]any{"services": map[string]any{"b": map[string]any{"image": "b", "build": map[string]any{"context": "./ctx"}}}}
		g.s.AddYAML("sub/inc.yaml", variant/2%2, inc)
		g.s.AddYAML("compose.yaml", 0, map[string]any{"include": []any{map[string]any{"path": "sub/inc.yaml", "project_directory": pd}}, "services": map[string]any{"a": svc("a")}})
		ctx.Count("paste:missing-project_directory")
		ctx.Add("c06.paste", pasteArgs(g, "compose.yaml", []c06lib.Entry{{Paths: []string{"sub/inc.yaml"}, ProjDir: pd}}, nil, "paste", "missing-project_directory"))
	}
}

// streamResolveEnv: resolveServicesEnvironment / resolveSecretsEnvironment / resolveConfigsEnvironment / ResolveEnvironment
// (hooks loader/verif_c06_resolve.go) vs Model/IncludeResolve.lean, on models of every shape — sections, entries,
// `environment` values and list elements of every node kind, names the environment defines / defines as "" / does not
// define, the empty name, an already present carrier — so that every branch of the model is reached (a validated load
// only reaches the well-formed ones).
func streamResolveEnv(ctx *core.Ctx) {
	envs := []map[string]string{{}, {"V": "pv"}, {"V": "pv", "W": "", "X": "px"}, {"": "empty-name", "V=pv": "odd"}}
	kinds := []any{nil, "s", 1, true, []any{}, map[string]any{}}
	envVals := []any{nil, "", "V", "W", "NOPE", "V=pv", 3, true, []any{"V"}, map[string]any{"V": nil}}
	lists := [][]any{{}, {"V"}, {"V", "NOPE", "K=k", "W"}, {nil, 1, "V", true, []any{"x"}, map[string]any{"a": "b"}, "X"}, {"", "V=pv"}}
	add := func(which string, model map[string]any, env map[string]string, class string) {
		ctx.Count("resolveEnv:" + which)
		ctx.Count("resolveEnv-shape:" + class)
		ctx.Add("c06.resolveEnv", resolveArgs{Model: core.EncodeVal(model), Env: env, Which: which})
	}
	for _, which := range []string{"services", "secrets", "configs", "all", "included"} {
		for _, env := range envs {
			for _, sect := range []string{"services", "secrets", "configs"} {
				for _, k := range kinds { // the section itself of every kind
					add(which, map[string]any{sect: k, "other": "kept"}, env, "section-kind")
				}
				for _, k := range kinds { // an entry of every kind
					add(which, map[string]any{sect: map[string]any{"e": k, "f": map[string]any{"environment": "V"}}}, env, "entry-kind")
				}
				for _, ev := range envVals { // `environment` of every kind / name
					add(which, map[string]any{sect: map[string]any{"e": map[string]any{"environment": ev, "file": "./f"}}}, env, "environment-value")
					add(which, map[string]any{sect: map[string]any{"e": map[string]any{"environment": ev, "x-#value": "old", "content": "old"}}}, env, "carrier-present")
				}
				for _, l := range lists {
					add(which, map[string]any{sect: map[string]any{"e": map[string]any{"environment": l, "image": "i"}}}, env, "environment-list")
				}
			}
			add(which, map[string]any{}, env, "empty-model")
		}
	}
	pick := func(xs []any) any { return xs[ctx.Rng.Intn(len(xs))] }
	for i := 0; i < ctx.Pick(1500, 15000); i++ {
		model := map[string]any{}
		for _, sect := range []string{"services", "secrets", "configs", "volumes"} {
			if ctx.Rng.Intn(4) == 0 {
				continue
			}
			if ctx.Rng.Intn(8) == 0 {
				model[sect] = pick(kinds)
				continue
			}
			m := map[string]any{}
			for j := 0; j < 1+ctx.Rng.Intn(3); j++ {
				var e any
				switch ctx.Rng.Intn(6) {
				case 0:
					e = pick(kinds)
				case 1, 2:
					e = map[string]any{"environment": lists[ctx.Rng.Intn(len(lists))], "image": "i"}
				default:
					e = map[string]any{"environment": pick(envVals)}
					if ctx.Rng.Intn(4) == 0 {
						e.(map[string]any)[[]string{"x-#value", "content", "file"}[ctx.Rng.Intn(3)]] = "old"
					}
				}
				m[fmt.Sprintf("e%d", j)] = e
			}
			model[sect] = m
		}
		add([]string{"services", "secrets", "configs", "all", "included"}[ctx.Rng.Intn(5)], model, envs[ctx.Rng.Intn(len(envs))], "random")
	}
}

// streamPasteSymlinks (stream 8): directories reached through symbolic links.  `os.Stat` follows links: a
// `project_directory` that is a link to a directory *is* the included project directory (its `.env` is read through the
// link, the included model's relative paths are anchored on the link's name, as in the pasted single file); likewise an
// included file reached through a linked directory, and an `env_file` that is a link to a regular file.
func streamPasteSymlinks(ctx *core.Ctx) {
	incDoc := func() map[string]any {
		return map[string]any{
			"services": map[string]any{"b": map[string]any{"image": "b-${V:-unset}", "build": map[string]any{"context": "./ctx"},
				"volumes": []any{map[string]any{"type": "bind", "source": "./data", "target": "/t"}}, "environment": []any{"V"}}},
			"secrets": map[string]any{"cert": map[string]any{"file": "./cert.pem"}, "tok": map[string]any{"environment": "V"}},
			"configs": map[string]any{"cfg": map[string]any{"file": "cfg.txt"}},
		}
	}
	targets := []struct{ link, target, real string }{
		{"current", "releases/v2", "releases/v2"},
		{"current", c06lib.Root + "/releases/v2", "releases/v2"},
		{"links/cur", "../releases/v2", "releases/v2"},
		{"current", "hop", "releases/v2"}, // a link to a link
	}
	for ti, t := range targets {
		for variant := 0; variant < 6; variant++ {
			for dotenv := 0; dotenv < 2; dotenv++ {
				g := newGen(ctx, true)
				links := map[string]string{t.link: t.target}
				if t.target == "hop" {
					links["hop"] = "releases/v2"
				}
				g.s.AddDir(t.real)
				if dotenv == 1 {
					g.s.AddEnv(t.real+"/.env", [][]string{{"V", "from-linked-dir"}})
				}
				entry := map[string]any{}
				var ent c06lib.Entry
				class := ""
				switch variant {
				case 0, 1, 2: // project_directory is the link (relative, ./relative, absolute)
					g.s.AddYAML("shared/inc.yaml", variant%2, incDoc())
					entry["path"] = "shared/inc.yaml"
					entry["project_directory"] = []string{t.link, "./" + t.link, c06lib.Root + "/" + t.link}[variant]
					ent = c06lib.Entry{Paths: []string{"shared/inc.yaml"}, ProjDir: t.link}
					class = "symlink-project_directory"
				case 3: // the included file lives in the linked directory
					g.s.AddYAML(t.real+"/inc.yaml", 0, incDoc())
					entry["path"] = t.link + "/inc.yaml"
					ent = c06lib.Entry{Paths: []string{t.link + "/inc.yaml"}, ProjDir: t.link}
					class = "symlink-file-directory"
				case 4: // a sub-directory of the link as project directory
					g.s.AddDir(t.real + "/deep")
					g.s.AddYAML("shared/inc.yaml", 1, incDoc())
					entry["path"] = "shared/inc.yaml"
					entry["project_directory"] = t.link + "/deep"
					ent = c06lib.Entry{Paths: []string{"shared/inc.yaml"}, ProjDir: t.link + "/deep"}
					if dotenv == 1 {
						g.s.AddEnv(t.real+"/deep/.env", [][]string{{"V", "from-deep"}})
					}
					class = "symlink-project_directory-sub"
				case 5: // env_file is a link to a regular file
					g.s.AddYAML("shared/inc.yaml", 0, incDoc())
					g.s.AddEnv(t.real+"/my.env", [][]string{{"V", "from-linked-file"}})
					links["my.env"] = t.link + "/my.env"
					entry["path"] = "shared/inc.yaml"
					entry["env_file"] = "my.env"
					ent = c06lib.Entry{Paths: []string{"shared/inc.yaml"}, ProjDir: "shared", EnvFiles: []string{"my.env"}}
					class = "symlink-env_file"
				}
				g.s.AddYAML("compose.yaml", 0, map[string]any{"include": []any{entry}, "services": map[string]any{"a": svc("a-${V:-unset}")}})
				ctx.Count("paste:" + class)
				ctx.Count(fmt.Sprintf("paste-symlink-target:%d", ti))
				a := pasteArgs(g, "compose.yaml", []c06lib.Entry{ent}, nil, "paste", class)
				a.Links = links
				ctx.Add("c06.paste", a)
			}
		}
	}
}

// pasteOptsOf decodes a bit mask into an option set of the paste oracle.
func pasteOptsOf(mask int) *c06lib.PasteOpts {
	o := &c06lib.PasteOpts{SkipInterpolation: mask&1 != 0, SkipDefaultValues: mask&2 != 0, SkipExtends: mask&4 != 0, SkipResolveEnvironment: mask&8 != 0,
		SkipNormalization: mask&16 != 0, SkipConsistencyCheck: mask&32 != 0, SkipValidation: mask&64 != 0}
	if mask&128 != 0 {
		o.Profiles = []string{"dbg"}
	}
	return o
}
