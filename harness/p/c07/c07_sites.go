package c07

// C07 — the mapping the *loader* hands to template.Substitute at each of its call sites (round 5).
//
// substLoad (c07.go) observes one position: a label of a service of the only compose file.  A whole load reaches
// template.Substitute from more places, each with its own glue between the project environment and the Mapping:
//
//	main            a label in the compose file                     ConfigDetails.LookupEnv over Environment
//	seq             an element of a sequence nested in a mapping     (same; recursiveInterpolate's other branches)
//	extends         a label of a service taken from another file    loadYamlFile called again with the same options
//	include         a label in an included file, explicit env_file  environment.Clone().Merge(envFromFile), options cloned
//	include-dotenv  … with the default `.env` beside the included file
//	include-raw     … whose env-file values are templates themselves  dotenv.GetEnvFromFile's lookup closure + expandVariables
//	include-nested  an include inside an include, one env file each  Merge applied twice
//	include-extends the included service extends a third file        cloned options handed on to extends
//	include-raw2    … several env files in one entry                 the `envMap` branch of that closure (earlier files)
//	name            the project name (`name:` of the compose file)   second call of interp.Interpolate (loader.projectName)
//	skip            Options.SkipInterpolation                        the text is left alone (`$$` stays `$$`)
//	custom          Options.Interpolate.Substitute replaced          the function is handed the same mapping
//	custom-include  … and is copied by ApplyInclude                  … over the merged environment of the included file
//
// Expected values come from the Lean side (driver op `substSite`): the grammar's `evalOut` in the environment the glue
// *model* builds (Model/TemplateSites.lean: `lookupEnv (includeChain env layers)`), and that site's model of the code.
// Variable states: per variable the project environment ∈ {unset, set empty, set, set to template-like text} ×
// the include's env file ∈ {absent, empty, set, template-like}.

import (
	"context"
	"encoding/json"
	"fmt"
	"os"
	"strings"
	"time"

	"github.com/compose-spec/compose-go/v2/loader"
	"github.com/compose-spec/compose-go/v2/template"
	"github.com/compose-spec/compose-go/v2/types"

	"verifharness/core"
)

type siteArgs struct {
	Ast    []seg             `json:"ast"`
	Env    map[string]string `json:"env"`              // ConfigDetails.Environment
	Layers [][][2]string     `json:"layers,omitempty"` // env files of the enclosing include entries, outermost first
	Site   string            `json:"site"`
	Raw    []rawLine         `json:"raw,omitempty"`  // site include-raw: the lines of the env file, values are templates
	Raw2   [][]rawLine       `json:"raw2,omitempty"` // site include-raw2: several env files in one include entry
	// sites after-include-*: the env files of include entries that are processed *before* the document holding the
	// template is interpolated but do not enclose it.  They are not handed to the Lean side: the model (and the
	// grammar) say that the value does not depend on them (no lookup state is carried from one document to the next).
	Other [][][2]string `json:"other,omitempty"`
	// round 7 (c07_hist.go): the config files are handed over as already parsed dicts (types.ConfigFile.Config), and
	// the SAME dicts are loaded under each environment of Hist before the observed load
	Dict bool                `json:"dict,omitempty"`
	Hist []map[string]string `json:"hist,omitempty"`
}

type rawLine struct {
	K   string `json:"k"`
	Ast []seg  `json:"ast"`
}

const c07Mark = "@@"

// envFileText renders one env file: single-quoted values are taken literally by the dotenv parser.
func envFileText(l [][2]string) (string, bool) {
	var b strings.Builder
	for _, kv := range l {
		if strings.ContainsAny(kv[1], "'\n") {
			return "", false
		}
		b.WriteString(kv[0] + "='" + kv[1] + "'\n")
	}
	return b.String(), true
}

func svcYAML(name, label string, extra string) string {
	q, _ := json.Marshal(label)
	return "services:\n  " + name + ":\n    image: img\n" + extra + "    labels:\n      k: " + string(q) + "\n"
}

// siteFiles builds the directory tree of one case; wantLayers is the number of env files the site uses.
func siteFiles(a siteArgs, t string) (files map[string]string, wantLayers int, skip string) {
	files = map[string]string{}
	layer := func(i int) string {
		if i >= len(a.Layers) {
			return ""
		}
		s, ok := envFileText(a.Layers[i])
		if !ok {
			skip = "value not expressible single-quoted"
		}
		return s
	}
	other := func(i int) string {
		if i >= len(a.Other) {
			return ""
		}
		s, ok := envFileText(a.Other[i])
		if !ok {
			skip = "value not expressible single-quoted"
		}
		return s
	}
	plainSvc := "services:\n  i:\n    image: img\n"
	switch a.Site {
	case "after-include-override":
		// ConfigFiles = [compose.yaml, override.yaml]: the first file's include (own env file) is applied before the
		// second file is interpolated — with the project environment, not the include's
		files["compose.yaml"] = "name: p\ninclude:\n  - path: inc/c.yaml\n    env_file: inc/v.env\n"
		files["inc/c.yaml"] = plainSvc
		files["inc/v.env"] = other(0)
		files["override.yaml"] = svcYAML("s", t, "")
	case "after-include-dotenv-override":
		// the same with the default `.env` beside the included file
		files["compose.yaml"] = "name: p\ninclude:\n  - inc/c.yaml\n"
		files["inc/c.yaml"] = plainSvc
		files["inc/.env"] = other(0)
		files["override.yaml"] = svcYAML("s", t, "")
	case "after-include-multidoc":
		// a later YAML document of the file whose first document has the include
		files["compose.yaml"] = "name: p\ninclude:\n  - path: inc/c.yaml\n    env_file: inc/v.env\n---\n" + svcYAML("s", t, "")
		files["inc/c.yaml"] = plainSvc
		files["inc/v.env"] = other(0)
	case "after-include-extends":
		// the override file's service extends a third file (loadYamlFile called again with cloned options) after the include
		files["compose.yaml"] = "name: p\ninclude:\n  - path: inc/c.yaml\n    env_file: inc/v.env\n"
		files["inc/c.yaml"] = plainSvc
		files["inc/v.env"] = other(0)
		files["override.yaml"] = "services:\n  s:\n    extends:\n      file: base.yaml\n      service: b\n"
		files["base.yaml"] = svcYAML("b", t, "")
	case "after-include-sibling":
		// a second include entry (no env file of its own) after one with an env file
		files["compose.yaml"] = "name: p\ninclude:\n  - path: inc/c.yaml\n    env_file: inc/v.env\n  - path: inc2/c.yaml\n"
		files["inc/c.yaml"] = plainSvc
		files["inc/v.env"] = other(0)
		files["inc2/c.yaml"] = svcYAML("s", t, "")
	case "after-include-nested-files":
		// an include entry with two files: the first one has an include of its own (env file sub/v.env), the second one
		// holds the template and sees the entry's env file only
		wantLayers = 1
		files["compose.yaml"] = "name: p\ninclude:\n  - path: [inc/a.yaml, inc/b.yaml]\n    env_file: inc/v.env\n"
		files["inc/a.yaml"] = "include:\n  - path: sub/c.yaml\n    env_file: sub/v.env\n"
		files["inc/v.env"] = layer(0)
		files["inc/sub/c.yaml"] = plainSvc
		files["inc/sub/v.env"] = other(0)
		files["inc/b.yaml"] = svcYAML("s", t, "")
	case "after-include-nested-multidoc":
		// the same inside one included file with two YAML documents
		wantLayers = 1
		files["compose.yaml"] = "name: p\ninclude:\n  - path: inc/a.yaml\n    env_file: inc/v.env\n"
		files["inc/a.yaml"] = "include:\n  - path: sub/c.yaml\n    env_file: sub/v.env\n---\n" + svcYAML("s", t, "")
		files["inc/v.env"] = layer(0)
		files["inc/sub/c.yaml"] = plainSvc
		files["inc/sub/v.env"] = other(0)
	case "main", "skip":
		files["compose.yaml"] = "name: p\n" + svcYAML("s", t, "")
	case "seq":
		q, _ := json.Marshal(t)
		files["compose.yaml"] = "name: p\nservices:\n  s:\n    image: img\n    x-c07:\n      m:\n        - l: [" + string(q) + "]\n"
	case "extends":
		files["compose.yaml"] = "name: p\nservices:\n  s:\n    extends:\n      file: base.yaml\n      service: b\n"
		files["base.yaml"] = svcYAML("b", t, "")
	case "include":
		wantLayers = 1
		files["compose.yaml"] = "name: p\ninclude:\n  - path: inc/c.yaml\n    env_file: inc/v.env\n"
		files["inc/c.yaml"] = svcYAML("s", t, "")
		files["inc/v.env"] = layer(0)
	case "include-dotenv":
		wantLayers = 1
		files["compose.yaml"] = "name: p\ninclude:\n  - inc/c.yaml\n"
		files["inc/c.yaml"] = svcYAML("s", t, "")
		files["inc/.env"] = layer(0)
	case "include-nested":
		wantLayers = 2
		files["compose.yaml"] = "name: p\ninclude:\n  - path: inc/c.yaml\n    env_file: inc/v.env\n"
		files["inc/c.yaml"] = "include:\n  - path: sub/c.yaml\n    env_file: sub/v.env\n"
		files["inc/v.env"] = layer(0)
		files["inc/sub/c.yaml"] = svcYAML("s", t, "")
		files["inc/sub/v.env"] = layer(1)
	case "include-extends":
		wantLayers = 1
		files["compose.yaml"] = "name: p\ninclude:\n  - path: inc/c.yaml\n    env_file: inc/v.env\n"
		files["inc/c.yaml"] = "services:\n  s:\n    extends:\n      file: base.yaml\n      service: b\n"
		files["inc/base.yaml"] = svcYAML("b", t, "")
		files["inc/v.env"] = layer(0)
	case "include-raw":
		// the env file's values are double-quoted templates: interpolated by dotenv.expandVariables under
		// GetEnvFromFile's lookup closure (project environment first) and the earlier lines of the file
		var b strings.Builder
		for _, l := range a.Raw {
			v := renderSegs(l.Ast)
			if strings.ContainsAny(v, "\"\\\n") {
				skip = "env-file value not expressible double-quoted"
			}
			b.WriteString(l.K + "=\"" + v + "\"\n")
		}
		files["compose.yaml"] = "name: p\ninclude:\n  - path: inc/c.yaml\n    env_file: inc/v.env\n"
		files["inc/c.yaml"] = svcYAML("s", t, "")
		files["inc/v.env"] = b.String()
	case "include-raw2":
		// env_file: [v0.env, v1.env, …] — a later file's values see the earlier files through the `envMap` branch of
		// GetEnvFromFile's lookup closure
		var names []string
		for i, f := range a.Raw2 {
			var b strings.Builder
			for _, l := range f {
				v := renderSegs(l.Ast)
				if strings.ContainsAny(v, "\"\\\n") {
					skip = "env-file value not expressible double-quoted"
				}
				b.WriteString(l.K + "=\"" + v + "\"\n")
			}
			n := fmt.Sprintf("inc/v%d.env", i)
			files[n] = b.String()
			names = append(names, n)
		}
		files["compose.yaml"] = "name: p\ninclude:\n  - path: inc/c.yaml\n    env_file: [" + strings.Join(names, ", ") + "]\n"
		files["inc/c.yaml"] = svcYAML("s", t, "")
	case "name":
		q, _ := json.Marshal(t)
		files["compose.yaml"] = "name: " + string(q) + "\nservices:\n  s:\n    image: img\n"
	case "custom":
		files["compose.yaml"] = "name: p\n" + svcYAML("s", c07Mark+t, "")
	case "custom-include":
		wantLayers = 1
		files["compose.yaml"] = "name: p\ninclude:\n  - path: inc/c.yaml\n    env_file: inc/v.env\n"
		files["inc/c.yaml"] = svcYAML("s", c07Mark+t, "")
		files["inc/v.env"] = layer(0)
	default:
		skip = "unknown site"
	}
	return
}

// c07CustomSubstitute: a caller-supplied Substitute; only strings that start with the marker are touched, so that the
// rest of the document (image names, include paths) loads as usual.
func c07CustomSubstitute(s string, m template.Mapping) (string, error) {
	if !strings.HasPrefix(s, c07Mark) {
		return template.Substitute(s, m)
	}
	r, err := template.Substitute(s[len(c07Mark):], m)
	if err != nil {
		return r, err
	}
	return "[" + r + "]", nil
}

func init() {
	core.Register("substSite", &core.CheckDef{
		Real: func(raw json.RawMessage) any {
			var a siteArgs
			json.Unmarshal(raw, &a)
			t := renderSegs(a.Ast)
			files, _, skip := siteFiles(a, t)
			if skip != "" {
				return map[string]any{"skip": skip}
			}
			cfs := []string{"compose.yaml"}
			if _, two := files["override.yaml"]; two {
				cfs = append(cfs, "override.yaml")
			}
			req := core.LoadReq{Files: files, ConfigFiles: cfs, Env: a.Env, SkipInterpolation: a.Site == "skip"}
			root, err := core.Materialize(files)
			defer os.RemoveAll(root)
			if err != nil {
				return map[string]any{"skip": "materialize: " + err.Error()}
			}
			opts := []func(*loader.Options){func(o *loader.Options) {
				o.SkipInterpolation = a.Site == "skip"
				if strings.HasPrefix(a.Site, "custom") {
					o.Interpolate.Substitute = c07CustomSubstitute
				}
			}}
			details := req.Details(root)
			w := &histWatch{}
			if a.Dict {
				if bad := dictHistory(&details, w, a.Hist, opts); bad != nil {
					return bad
				}
			}
			p, err := loader.LoadWithContext(context.Background(), details, opts...)
			if bad := w.check(fmt.Sprintf("after loader.LoadWithContext with environment %s (preceded by %d loads of the same dicts)", envText(a.Env), len(a.Hist))); bad != "" {
				return histBad("input-mutated", bad)
			}
			if err != nil {
				return map[string]any{"rendered": t, "out": map[string]any{"err": loadErrClass(err.Error())}}
			}
			switch a.Site {
			case "name":
				return map[string]any{"rendered": t, "out": map[string]any{"ok": p.Name}}
			case "seq":
				svc := p.Services["s"]
				var got any = "missing"
				if m, ok := svc.Extensions["x-c07"].(map[string]any); ok {
					if l, ok := m["m"].([]any); ok && len(l) == 1 {
						if mm, ok := l[0].(map[string]any); ok {
							if ll, ok := mm["l"].([]any); ok && len(ll) == 1 {
								got = ll[0]
							}
						}
					}
				}
				return map[string]any{"rendered": t, "out": map[string]any{"ok": got}}
			}
			svc, ok := p.Services["s"]
			if !ok {
				return map[string]any{"rendered": t, "out": map[string]any{"bad": "service missing"}}
			}
			return map[string]any{"rendered": t, "out": map[string]any{"ok": svc.Labels["k"]}}
		},
		DriverOp: "substSite",
		DriverArgs: func(args, _ json.RawMessage) any {
			var a siteArgs
			json.Unmarshal(args, &a)
			_, n, _ := siteFiles(a, "")
			layers := a.Layers
			if len(layers) > n {
				layers = layers[:n]
			}
			if a.Site == "include-raw2" {
				return map[string]any{"ast": a.Ast, "env": a.Env, "raw2": a.Raw2}
			}
			if a.Site == "include-raw" {
				raw := a.Raw
				if raw == nil {
					raw = []rawLine{}
				}
				return map[string]any{"ast": a.Ast, "env": a.Env, "raw": raw}
			}
			if strings.HasPrefix(a.Site, "after-include-") {
				// the Lean side walks the site's documents with the stateful model (Model/TemplateDocs.lean: heap of
				// interp.Options cells); the grammar side never sees `other`
				o := [][2]string{}
				if len(a.Other) > 0 && a.Other[0] != nil {
					o = a.Other[0]
				}
				if layers == nil {
					layers = [][][2]string{}
				}
				return map[string]any{"ast": a.Ast, "env": a.Env, "layers": layers, "after": a.Site, "other": o}
			}
			return map[string]any{"ast": a.Ast, "env": a.Env, "layers": layers}
		},
		Timeout: 20 * time.Second,
		Judge:   siteJudge,
	})
}

// dictHistory replaces the config files of details by pre-parsed dicts (loader.ParseYAML of their content), registers
// them with w and loads them once per environment of hist, checking the dicts after every load (c07_hist.go).
func dictHistory(details *types.ConfigDetails, w *histWatch, hist []map[string]string, opts []func(*loader.Options)) map[string]any {
	for i := range details.ConfigFiles {
		b, err := os.ReadFile(details.ConfigFiles[i].Filename)
		if err != nil {
			return map[string]any{"skip": "dict mode: " + err.Error()}
		}
		if strings.Contains(string(b), "---\n") {
			return map[string]any{"skip": "dict mode needs single-document config files"}
		}
		dict, err := loader.ParseYAML(b)
		if err != nil {
			return map[string]any{"skip": "dict mode: ParseYAML: " + err.Error()}
		}
		details.ConfigFiles[i].Config = dict
		w.add(fmt.Sprintf("ConfigFiles[%d].Config (parsed from %q)", i, string(b)), dict)
	}
	for i, h := range hist {
		d := *details
		d.Environment = map[string]string{}
		for k, v := range h {
			d.Environment[k] = v
		}
		m, _ := loader.LoadModelWithContext(context.Background(), d, opts...)
		when := fmt.Sprintf("after load %d of the history (loader.LoadModelWithContext with environment %s)", i+1, envText(h))
		if bad := w.check(when); bad != "" {
			return histBad("input-mutated", bad)
		}
		scribble(m)
		if bad := w.check(when + " and an edit of every map/sequence of the returned model"); bad != "" {
			return histBad("result-aliases-input", bad)
		}
	}
	return nil
}

func errOrOk(raw json.RawMessage) (cls string, val any) {
	var m map[string]any
	json.Unmarshal(raw, &m)
	if e, isErr := m["err"]; isErr {
		return fmt.Sprint(e), nil
	}
	if p, isPanic := m["panic"]; isPanic {
		return "panic:" + fmt.Sprint(p), nil
	}
	return "", m["ok"]
}

func siteJudge(args, real, drv json.RawMessage) *core.Verdict {
	if v := core.CrashVerdict(real); v != nil {
		return v
	}
	var a siteArgs
	json.Unmarshal(args, &a)
	var r struct {
		Skip     string          `json:"skip"`
		Rendered string          `json:"rendered"`
		Out      json.RawMessage `json:"out"`
		HistBad  string          `json:"hist_bad"`
		HistWhat string          `json:"hist_what"`
	}
	var d struct {
		WF       bool            `json:"wf"`
		WFml     bool            `json:"wf_ml"`
		Rendered string          `json:"rendered"`
		Eval     json.RawMessage `json:"eval"`
		Model    json.RawMessage `json:"model"`
	}
	if json.Unmarshal(real, &r) != nil || json.Unmarshal(drv, &d) != nil || d.Eval == nil || d.Model == nil {
		return core.Disagree("malformed site-oracle exchange")
	}
	if r.Skip != "" {
		return core.Skip(r.Skip)
	}
	if r.HistBad != "" {
		return core.Fail("site-history:"+r.HistBad+":"+a.Site, "site "+a.Site+": "+r.HistWhat)
	}
	if r.Rendered != d.Rendered {
		return core.Disagree("Go render ≠ Lean render")
	}
	gotCls, gotVal := errOrOk(r.Out)
	// expectation of one side (grammar or model of the code), adapted to what the site lets through
	expect := func(raw json.RawMessage) (string, any, bool) {
		cls, val := errOrOk(raw)
		switch a.Site {
		case "skip":
			return "", r.Rendered, true
		case "name":
			if cls == "" {
				n := loader.NormalizeProjectName(fmt.Sprint(val))
				if n == "" {
					return "", nil, false // the loader then derives the name from elsewhere (C17)
				}
				return "", n, true
			}
		case "custom", "custom-include":
			if cls == "" {
				return "", "[" + fmt.Sprint(val) + "]", true
			}
		}
		return cls, val, true
	}
	same := func(cls string, val any) bool {
		if cls != "" || gotCls != "" {
			return cls == gotCls
		}
		return fmt.Sprintf("%T:%v", val, val) == fmt.Sprintf("%T:%v", gotVal, gotVal)
	}
	// 1. the model of the code at this site (all inputs, well-formed or not)
	mc, mv, ok := expect(d.Model)
	if !ok {
		return core.Skip("empty project name")
	}
	modelOK := same(mc, mv)
	// 2. the grammar, for well-formed templates
	if d.WF || d.WFml {
		ec, ev, _ := expect(d.Eval)
		if !same(ec, ev) {
			if !d.WF {
				return core.Fail("grammar:newline-in-argument", fmt.Sprintf("site %s: %q loaded as %s but the grammar says %s", a.Site, r.Rendered, r.Out, d.Eval))
			}
			return core.Fail("site-mapping:"+a.Site+":"+siteStateKey(a), fmt.Sprintf("site %s: %q with environment %v, env files %v%s%s loaded as %s but the grammar (first layer that sets the variable wins) says %s", a.Site, r.Rendered, a.Env, a.Layers, rawText(a), otherText(a), r.Out, d.Eval))
		}
	}
	if !modelOK {
		return core.Disagree(fmt.Sprintf("site %s: siteSubst ≠ loaded value (%s vs %s)", a.Site, d.Model, r.Out))
	}
	return nil
}

func otherText(a siteArgs) string {
	if len(a.Other) == 0 {
		return ""
	}
	return fmt.Sprintf(", env files of include entries processed earlier (must not matter) %v", a.Other)
}

func rawText(a siteArgs) string {
	if len(a.Raw) == 0 && len(a.Raw2) == 0 {
		return ""
	}
	var l []string
	for _, r := range a.Raw {
		l = append(l, r.K+"=\""+renderSegs(r.Ast)+"\"")
	}
	for i, f := range a.Raw2 {
		for _, r := range f {
			l = append(l, fmt.Sprintf("[file %d] ", i)+r.K+"=\""+renderSegs(r.Ast)+"\"")
		}
	}
	return ", env-file lines " + strings.Join(l, " ; ")
}

// siteStateKey names the variable-state classes present (stable key of a finding).
func siteStateKey(a siteArgs) string {
	seen := map[string]bool{}
	for _, v := range a.Env {
		if v == "" {
			seen["env-set-empty"] = true
		} else {
			seen["env-set"] = true
		}
	}
	for _, l := range a.Layers {
		for _, kv := range l {
			if _, shadow := a.Env[kv[0]]; shadow {
				seen["file-shadowed"] = true
			} else if kv[1] == "" {
				seen["file-set-empty"] = true
			} else {
				seen["file-set"] = true
			}
		}
	}
	if len(a.Raw) > 0 || len(a.Raw2) > 0 {
		seen["file-interpolated"] = true
	}
	for _, l := range a.Other {
		if len(l) > 0 {
			seen["earlier-include-sets"] = true
		}
	}
	var ks []string
	for _, k := range []string{"env-set-empty", "env-set", "file-shadowed", "file-set-empty", "file-set", "file-interpolated", "earlier-include-sets"} {
		if seen[k] {
			ks = append(ks, k)
		}
	}
	if len(ks) == 0 {
		return "all-unset"
	}
	return strings.Join(ks, ",")
}

// sites in which an include entry that does not enclose the template's document is applied before that document is
// interpolated (round 6; seed C07-8: lookup state carried from the include into later documents of the parent)
var c07AfterSites = []string{"after-include-override", "after-include-dotenv-override", "after-include-multidoc", "after-include-extends", "after-include-sibling", "after-include-nested-files", "after-include-nested-multidoc"}

// sites run in dict mode with histories (round 7); `skip` is left out: with SkipInterpolation the loader works on the
// caller's dict itself, which is not this property's business
var c07DictSites = []string{"main", "seq", "extends", "include", "include-extends", "name", "custom"}

var c07Sites = []string{"main", "seq", "extends", "include", "include-dotenv", "include-nested", "include-extends", "name", "skip", "custom", "custom-include"}

// runC07Sites: exhaustive variable states × sites on a fixed family of templates, then random ASTs.
func runC07Sites(ctx *core.Ctx, rnd func(depth int, inArg bool) []seg) {
	str := func(s string) *string { return &s }
	tru := true
	ops := []string{":-", "-", ":+", "+", ":?", "?"}
	asts := [][]seg{{{Var: str("A")}}, {{Var: str("A"), Braced: true}, {Esc: &tru}, {Lit: str("x")}}}
	for _, o := range ops {
		asts = append(asts,
			[]seg{{Op: str("A"), O: o, Arg: []seg{{Lit: str("d")}}}},
			[]seg{{Op: str("A"), O: o, Arg: []seg{{Var: str("B"), Braced: true}}}, {Lit: str("-")}, {Var: str("B")}})
	}
	envStates := []*string{nil, str(""), str("v"), str("$A${A:-x}$$")}
	fileStates := []*string{nil, str(""), str("w"), str("${B}$$")}
	layersOf := func(site string) int {
		_, n, _ := siteFiles(siteArgs{Site: site}, "")
		return n
	}
	for _, site := range c07Sites {
		nl := layersOf(site)
		for _, ast := range asts {
			for _, ea := range envStates {
				for _, eb := range []*string{nil, str("b")} {
					// layer states of A: one choice per layer; B is set by the innermost layer in half of the cases
					var rec func(i int, layers [][][2]string)
					rec = func(i int, layers [][][2]string) {
						if i == nl {
							a := siteArgs{Ast: ast, Env: map[string]string{}, Site: site, Layers: layers}
							if ea != nil {
								a.Env["A"] = *ea
							}
							if eb != nil {
								a.Env["B"] = *eb
							}
							ctx.Count("site-exhaustive:" + site)
							ctx.Add("substSite", a)
							return
						}
						for _, fa := range fileStates {
							for _, fb := range []*string{nil, str("fb")} {
								if fb != nil && i != nl-1 {
									continue
								}
								var l [][2]string
								if fa != nil {
									l = append(l, [2]string{"A", *fa})
								}
								if fb != nil {
									l = append(l, [2]string{"B", *fb})
								}
								if l == nil {
									l = [][2]string{}
								}
								rec(i+1, append(append([][][2]string(nil), layers...), l))
							}
						}
					}
					rec(0, nil)
				}
			}
		}
	}
	// dict mode (round 7): the config files as pre-parsed dicts, loaded under other environments first; the observed
	// load must read the templates of the document, not the values of the loads before it
	for _, site := range c07DictSites {
		nl := layersOf(site)
		for _, ast := range asts {
			for _, ea := range envStates {
				for _, eb := range []*string{nil, str("b")} {
					a := siteArgs{Ast: ast, Env: map[string]string{}, Site: site, Dict: true}
					if ea != nil {
						a.Env["A"] = *ea
					}
					if eb != nil {
						a.Env["B"] = *eb
					}
					for l := 0; l < nl; l++ {
						a.Layers = append(a.Layers, [][2]string{})
					}
					for hi, hist := range [][]map[string]string{{a.Env}, {{"A": "h1", "B": "h2"}}, {{}, {"A": "", "B": "$A"}}} {
						b := a
						b.Hist = hist
						ctx.Count(fmt.Sprintf("site-dict-history-%d:%s", hi, site))
						ctx.Add("substSite", b)
					}
				}
			}
		}
	}
	// after-include-*: a document interpolated after an include entry (whose env file sets A and/or B differently from
	// the layers that enclose the document) has been applied.  States of A: enclosing layers (project environment, own
	// env file where the site has one) × the earlier include's env file; the value must not depend on the latter.
	for _, site := range c07AfterSites {
		nl := layersOf(site)
		for _, ast := range asts {
			for _, ea := range envStates {
				for _, eb := range []*string{nil, str("b")} {
					for _, la := range []*string{nil, str(""), str("w")} {
						if la != nil && nl == 0 {
							continue
						}
						for _, oa := range fileStates {
							for _, ob := range []*string{nil, str("ob")} {
								if oa == nil && ob == nil {
									continue
								}
								a := siteArgs{Ast: ast, Env: map[string]string{}, Site: site}
								if ea != nil {
									a.Env["A"] = *ea
								}
								if eb != nil {
									a.Env["B"] = *eb
								}
								if nl > 0 {
									l := [][2]string{}
									if la != nil {
										l = append(l, [2]string{"A", *la})
									}
									a.Layers = [][][2]string{l}
								}
								o := [][2]string{}
								if oa != nil {
									o = append(o, [2]string{"A", *oa})
								}
								if ob != nil {
									o = append(o, [2]string{"B", *ob})
								}
								a.Other = [][][2]string{o}
								ctx.Count("site-exhaustive:" + site)
								ctx.Add("substSite", a)
							}
						}
					}
				}
			}
		}
	}
	for i := 0; i < ctx.Pick(1200, 30000); i++ {
		a := siteArgs{Ast: rnd(3, false), Env: map[string]string{}, Site: c07AfterSites[ctx.Rng.Intn(len(c07AfterSites))]}
		rn := []string{"A", "B", "_x1", "a", "Kf"}
		vs := []string{"", "", "v", "val", "${B:-$$}"}
		for _, nm := range rn {
			if ctx.Rng.Intn(3) == 0 {
				a.Env[nm] = vs[ctx.Rng.Intn(len(vs))]
			}
		}
		mk := func(p int) [][2]string {
			l := [][2]string{}
			for _, nm := range rn {
				if ctx.Rng.Intn(p) == 0 {
					l = append(l, [2]string{nm, vs[ctx.Rng.Intn(len(vs))]})
				}
			}
			return l
		}
		for l := 0; l < layersOf(a.Site); l++ {
			a.Layers = append(a.Layers, mk(3))
		}
		a.Other = [][][2]string{mk(2)}
		ctx.Count("site-random:" + a.Site)
		ctx.Add("substSite", a)
	}
	// include-raw: the env file's own values are templates.  X="<line template over A, B>", optionally after a line
	// that sets A in the file; the included label reads X.
	var lineAsts [][]seg
	lineAsts = append(lineAsts, []seg{{Var: str("A")}}, []seg{{Lit: str("p")}, {Var: str("A"), Braced: true}, {Esc: &tru}})
	for _, o := range ops {
		lineAsts = append(lineAsts,
			[]seg{{Op: str("A"), O: o, Arg: []seg{{Lit: str("d")}}}},
			[]seg{{Op: str("A"), O: o, Arg: []seg{{Var: str("B"), Braced: true}}}})
	}
	labelAsts := [][]seg{{{Var: str("X")}}, {{Op: str("X"), O: "-", Arg: []seg{{Lit: str("u")}}}}, {{Op: str("X"), O: ":+", Arg: []seg{{Var: str("A"), Braced: true}}}, {Lit: str("/")}, {Var: str("B")}}}
	for _, la := range lineAsts {
		for _, lab := range labelAsts {
			for _, ea := range envStates {
				for _, eb := range []*string{nil, str("b")} {
					for _, earlier := range []*string{nil, str(""), str("w")} {
						a := siteArgs{Ast: lab, Env: map[string]string{}, Site: "include-raw"}
						if ea != nil {
							a.Env["A"] = *ea
						}
						if eb != nil {
							a.Env["B"] = *eb
						}
						if earlier != nil {
							a.Raw = append(a.Raw, rawLine{K: "A", Ast: []seg{{Lit: earlier}}})
						}
						a.Raw = append(a.Raw, rawLine{K: "X", Ast: la})
						ctx.Count("site-exhaustive:include-raw")
						ctx.Add("substSite", a)
					}
				}
			}
		}
	}
	for i := 0; i < ctx.Pick(600, 15000); i++ {
		a := siteArgs{Ast: rnd(2, false), Env: map[string]string{}, Site: "include-raw"}
		for _, nm := range []string{"A", "B", "_x1", "a", "Kf"} {
			if ctx.Rng.Intn(2) == 0 {
				a.Env[nm] = []string{"", "", "v", "val", "${B:-$$}"}[ctx.Rng.Intn(5)]
			}
		}
		for n := 1 + ctx.Rng.Intn(3); n > 0; n-- {
			a.Raw = append(a.Raw, rawLine{K: []string{"A", "B", "_x1", "a", "Kf"}[ctx.Rng.Intn(5)], Ast: rnd(2, false)})
		}
		ctx.Count("site-random:include-raw")
		ctx.Add("substSite", a)
	}
	// include-raw2: two env files in one entry; the first sets A (or not), the second computes X from A / B
	for _, la := range lineAsts {
		for _, ea := range []*string{nil, str(""), str("v")} {
			for _, f0 := range []*string{nil, str(""), str("w"), str("$B")} {
				for _, same := range []bool{false, true} {
					a := siteArgs{Ast: labelAsts[0], Env: map[string]string{"B": "b"}, Site: "include-raw2"}
					if ea != nil {
						a.Env["A"] = *ea
					}
					first, second := []rawLine{}, []rawLine{}
					if f0 != nil {
						first = append(first, rawLine{K: "A", Ast: []seg{{Lit: f0}}})
					}
					if same { // an earlier line of the *same* file shadows the earlier file
						second = append(second, rawLine{K: "A", Ast: []seg{{Lit: str("s")}}})
					}
					second = append(second, rawLine{K: "X", Ast: la})
					a.Raw2 = [][]rawLine{first, second}
					ctx.Count("site-exhaustive:include-raw2")
					ctx.Add("substSite", a)
				}
			}
		}
	}
	for i := 0; i < ctx.Pick(400, 10000); i++ {
		a := siteArgs{Ast: rnd(2, false), Env: map[string]string{}, Site: "include-raw2"}
		for _, nm := range []string{"A", "B", "_x1", "a", "Kf"} {
			if ctx.Rng.Intn(3) == 0 {
				a.Env[nm] = []string{"", "", "v", "val", "${B:-$$}"}[ctx.Rng.Intn(5)]
			}
		}
		for f := 2 + ctx.Rng.Intn(2); f > 0; f-- {
			file := []rawLine{}
			for n := ctx.Rng.Intn(3); n > 0; n-- {
				file = append(file, rawLine{K: []string{"A", "B", "_x1", "a", "Kf"}[ctx.Rng.Intn(5)], Ast: rnd(2, false)})
			}
			a.Raw2 = append(a.Raw2, file)
		}
		ctx.Count("site-random:include-raw2")
		ctx.Add("substSite", a)
	}
	// random ASTs (well-formed or not), random states, random site
	rnames := []string{"A", "B", "_x1", "a", "Kf"}
	vals := []string{"", "", "v", "val", "${B:-$$}"}
	for i := 0; i < ctx.Pick(2500, 60000); i++ {
		a := siteArgs{Ast: rnd(3, false), Env: map[string]string{}, Site: c07Sites[ctx.Rng.Intn(len(c07Sites))]}
		for _, nm := range rnames {
			if ctx.Rng.Intn(2) == 0 {
				a.Env[nm] = vals[ctx.Rng.Intn(len(vals))]
			}
		}
		for l := 0; l < layersOf(a.Site); l++ {
			layer := [][2]string{}
			for _, nm := range rnames {
				if ctx.Rng.Intn(3) == 0 {
					layer = append(layer, [2]string{nm, vals[ctx.Rng.Intn(len(vals))]})
				}
			}
			a.Layers = append(a.Layers, layer)
		}
		if ctx.Rng.Intn(4) == 0 && a.Site != "skip" {
			a.Dict = true
			for n := ctx.Rng.Intn(3); n > 0; n-- {
				h := map[string]string{}
				for _, nm := range rnames {
					if ctx.Rng.Intn(2) == 0 {
						h[nm] = []string{"", "h", "hist-" + nm, "$$", "${A}"}[ctx.Rng.Intn(5)]
					}
				}
				a.Hist = append(a.Hist, h)
			}
			ctx.Count(fmt.Sprintf("site-random-dict-history-len-%d", len(a.Hist)))
		}
		ctx.Count("site-random:" + a.Site)
		ctx.Add("substSite", a)
	}
}
