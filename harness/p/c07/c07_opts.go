package c07

// C07 — template.SubstituteWithOptions: correspondence of the parametric model (Model/TemplateOpts.lean)
// with the real function under seven concrete configurations.  The custom functions below are mirrored
// one to one by `optSubs` / `optRepl` / `cfgOf` in lean/ComposeVerif/Ops/C07.lean.

import (
	"encoding/json"
	"fmt"
	"regexp"
	"strings"

	"github.com/compose-spec/compose-go/v2/template"

	"verifharness/core"
)

type optsArgs struct {
	T   string            `json:"t"`
	Env map[string]string `json:"env"`
	Cfg string            `json:"cfg"`
}

// the pattern of template.go built from the same format string with another delimiter
var c07PercentPattern = regexp.MustCompile(fmt.Sprintf(
	"%s(?i:(?P<%s>%s)|(?P<%s>%s)|{(?:(?P<%s>%s)}|(?P<%s>)))",
	"%", "escaped", "%", "named", "[_a-z][_a-z0-9]*", "braced", "[_a-z][_a-z0-9]*(?::?[-+?](.*))?", "invalid"))

// three patterns that are not "the default format with another delimiter" (mirrored by matchStrictG / matchAngleG /
// matchDblG in lean/ComposeVerif/Model/TemplateOpts.lean)
var (
	c07StrictPattern = regexp.MustCompile(`\$(?i:(?P<escaped>\$)|(?P<named>[_a-z][_a-z0-9]*)|{(?:(?P<braced>[_a-z][_a-z0-9]*)}|(?P<invalid>)))`)
	c07AnglePattern  = regexp.MustCompile(`<<(?P<named>[a-z]+)>>|@(?P<escaped>@)`)
	// a match that contains `}` before its end: DefaultReplacementAppliedFunc truncates it at the first balanced
	// `}` and the re-match fails — matchGroups indexes a nil slice (the model's `panic matchGroups`)
	c07DblPattern = regexp.MustCompile(`\$\{(?P<braced>[a-z]+)\}\}|\$(?P<escaped>\$)`)
)

var c07PatternCfgs = []string{"strict", "angle", "dbl"}

func c07OptSubs(s string, m template.Mapping) (string, bool, error) {
	if !strings.Contains(s, ":-") {
		return "", false, nil
	}
	name, arg, _ := strings.Cut(s, ":-")
	if v, ok := m(name); ok {
		return v, true, nil
	}
	if arg == "!" {
		return "", false, &template.MissingRequiredError{Variable: name, Reason: "bang"}
	}
	return "[" + arg + "]", true, nil
}

func c07OptRepl(s string, _ template.Mapping, _ *template.Config) (string, error) {
	if r := []rune(s); len(r) == 2 {
		if r[0] == r[1] {
			return string(r[:1]), nil
		}
		if r[1] == '{' {
			return "", &template.InvalidTemplateError{Template: s}
		}
	}
	return "<" + s + ">", nil
}

var c07Cfgs = []string{"default", "subs", "repl", "percent", "percent+subs", "percent+repl", "subs+repl"}

func c07Options(name string) []template.Option {
	opts := []template.Option{template.WithoutLogging}
	switch {
	case strings.HasPrefix(name, "percent"):
		opts = append(opts, template.WithPattern(c07PercentPattern))
	case name == "strict":
		opts = append(opts, template.WithPattern(c07StrictPattern))
	case name == "angle":
		opts = append(opts, template.WithPattern(c07AnglePattern))
	case name == "dbl":
		opts = append(opts, template.WithPattern(c07DblPattern))
	}
	if name == "subs" || name == "percent+subs" || name == "subs+repl" {
		opts = append(opts, template.WithSubstitutionFunction(c07OptSubs))
	}
	if name == "repl" || name == "percent+repl" || name == "subs+repl" {
		opts = append(opts, template.WithReplacementFunction(c07OptRepl))
	}
	return opts
}

func init() {
	core.Register("substOpts", &core.CheckDef{
		Real: func(raw json.RawMessage) any {
			var a optsArgs
			json.Unmarshal(raw, &a)
			res, err := template.SubstituteWithOptions(a.T, func(k string) (string, bool) { v, ok := a.Env[k]; return v, ok }, c07Options(a.Cfg)...)
			if err != nil {
				return c07ErrClass(err)
			}
			return map[string]any{"ok": res}
		},
		DriverOp: "substOpts",
		Judge: func(args, real, drv json.RawMessage) *core.Verdict {
			var rp struct {
				Panic string `json:"panic"`
			}
			var dp struct {
				Panic string `json:"panic"`
			}
			json.Unmarshal(real, &rp)
			json.Unmarshal(drv, &dp)
			if rp.Panic != "" || dp.Panic != "" {
				// a custom pattern can make the re-match of the truncated text fail: the real function panics in
				// matchGroups and the model says `panic matchGroups`.  That is an agreement of model and code under a
				// caller-supplied pattern, not a violation of C07 (for the default pattern: subst_never_panics).
				var a optsArgs
				json.Unmarshal(args, &a)
				if strings.Contains(rp.Panic, "matchGroups") && dp.Panic == "matchGroups" && a.Cfg != "default" {
					return nil
				}
				if a.Cfg == "default" {
					if v := core.CrashVerdict(real); v != nil {
						return v
					}
				}
				return core.Disagree(fmt.Sprintf("panic outcome differs: real %q, model %q", rp.Panic, dp.Panic))
			}
			if v := core.CrashVerdict(real); v != nil {
				return v
			}
			if !core.CanonEqual(real, drv) {
				return core.Disagree("Template.substWith ≠ template.SubstituteWithOptions")
			}
			return nil
		},
	})
}

func runC07Opts(ctx *core.Ctx, rnd func(depth int, inArg bool) []seg) {
	// exhaustive strings over both delimiters and the characters the custom functions look at
	alpha := []string{"$", "%", "{", "}", ":", "-", "?", "A", "!", " "}
	envs := []map[string]string{{"A": "v"}, {}}
	L := ctx.Pick(4, 5)
	var rec func(prefix string, n int)
	rec = func(prefix string, n int) {
		for _, c := range c07Cfgs {
			for _, env := range envs {
				ctx.Add("substOpts", optsArgs{T: prefix, Env: env, Cfg: c})
			}
		}
		ctx.Count(fmt.Sprintf("opts-exhaustive-len-%d", len(prefix)))
		if n == 0 {
			return
		}
		for _, a := range alpha {
			rec(prefix+a, n-1)
		}
	}
	rec("", L)
	// the three other patterns: exhaustive strings over the characters they look at
	alpha2 := []string{"$", "{", "}", "<", ">", "@", "a", "b", "A", "-"}
	envs2 := []map[string]string{{"a": "v", "ab": "w", "A": "V"}, {}}
	var rec2 func(prefix string, n int)
	rec2 = func(prefix string, n int) {
		for _, c := range c07PatternCfgs {
			for _, env := range envs2 {
				ctx.Add("substOpts", optsArgs{T: prefix, Env: env, Cfg: c})
			}
		}
		ctx.Count(fmt.Sprintf("opts-patterns-exhaustive-len-%d", len(prefix)))
		if n == 0 {
			return
		}
		for _, a := range alpha2 {
			rec2(prefix+a, n-1)
		}
	}
	rec2("", L)
	for i := 0; i < ctx.Pick(4000, 100000); i++ {
		toks := []string{"$", "${", "}", "}}", "<<", ">>", "@", "@@", "$$", "a", "ab", "b", "A", "-", ":-", " ", "\n", "{"}
		var b strings.Builder
		for j := 0; j < 1+ctx.Rng.Intn(12); j++ {
			b.WriteString(toks[ctx.Rng.Intn(len(toks))])
		}
		ctx.Count("opts-patterns-random")
		ctx.Add("substOpts", optsArgs{T: b.String(), Env: envs2[ctx.Rng.Intn(2)], Cfg: c07PatternCfgs[ctx.Rng.Intn(3)]})
	}
	// grammar-shaped text (also with `%` as the delimiter) under every configuration
	for i := 0; i < ctx.Pick(6000, 150000); i++ {
		t := renderSegs(rnd(3, false))
		switch ctx.Rng.Intn(3) {
		case 0:
			t = strings.ReplaceAll(t, "$", "%")
		case 1: // mixed delimiters
			r := []rune(t)
			for j := range r {
				if r[j] == '$' && ctx.Rng.Intn(2) == 0 {
					r[j] = '%'
				}
			}
			t = string(r)
		}
		env := map[string]string{}
		for _, nm := range []string{"A", "B", "_x1", "a", "Kf"} {
			switch ctx.Rng.Intn(4) {
			case 0:
				env[nm] = ""
			case 1:
				env[nm] = "val-" + nm
			case 2:
				env[nm] = "%{" + nm + ":-$$}"
			}
		}
		ctx.Count("opts-rendered-ast-string")
		ctx.Add("substOpts", optsArgs{T: t, Env: env, Cfg: c07Cfgs[ctx.Rng.Intn(len(c07Cfgs))]})
	}
}
