package c07

// C07, round 7 — *histories on one input value*.
//
// The property speaks of "the value of the template under the mapping of this call".  A call that is handed a document
// as an already parsed dict (interpolation.Interpolate's argument; types.ConfigFile.Config of a load) can break that
// without touching template.Substitute: by writing its results back into the caller's dict (the next call on the same
// dict then reads the previous call's *output* as template text: `${A:-d}` keeps the old value, `$$` collapses twice) or
// by handing parts of the caller's dict out inside its result (a later edit of the result rewrites the templates).
//
// Every substInterp case, and every substSite / substDocs case in dict mode, therefore runs a history
//
//	call(dict, h1) ; call(dict, h2) ; … ; call(dict, env)      (the h_i: other environments, or the same one)
//
// on ONE dict and checks, for every call of it,
//
//	input-mutated          the caller's dict is deep-equal to the snapshot taken before the first call
//	result-aliases-input   … and still is after every map and sequence of the *result* has been scribbled over
//	history-dependent      the last call's result equals the result of the same call on a fresh copy of the snapshot
//
// and the last call's observed value is judged by the usual oracles (grammar + model of the code) under `env` alone.

import (
	"encoding/json"
	"fmt"
	"reflect"
)

const c07Scribble = "\x00c07-scribbled"

// deepCopy copies maps and sequences; scalars are shared (immutable).
func deepCopy(v any) any {
	switch v := v.(type) {
	case map[string]any:
		o := make(map[string]any, len(v))
		for k, e := range v {
			o[k] = deepCopy(e)
		}
		return o
	case []any:
		o := make([]any, len(v))
		for i, e := range v {
			o[i] = deepCopy(e)
		}
		return o
	}
	return v
}

// scribble overwrites every map and sequence reachable from v (children first): afterwards nothing of v's structure
// holds its former content.  If v shares a container with another tree, that tree changes too.
func scribble(v any) {
	switch v := v.(type) {
	case map[string]any:
		if v == nil { // a failed call's result
			return
		}
		for k, e := range v {
			scribble(e)
			v[k] = c07Scribble
		}
		v[c07Scribble] = true
	case []any:
		for i, e := range v {
			scribble(e)
			v[i] = c07Scribble
		}
	}
}

func jsonText(v any) string {
	b, err := json.Marshal(v)
	if err != nil {
		return fmt.Sprintf("%#v", v)
	}
	return string(b)
}

// histWatch holds dicts handed to the code under test and their snapshots.
type histWatch struct {
	dicts []map[string]any
	snaps []map[string]any
	names []string
}

func (w *histWatch) add(name string, d map[string]any) {
	w.dicts = append(w.dicts, d)
	w.snaps = append(w.snaps, deepCopy(d).(map[string]any))
	w.names = append(w.names, name)
}

// check reports the first watched dict that is no longer deep-equal to its snapshot.
func (w *histWatch) check(when string) string {
	for i, d := range w.dicts {
		if !reflect.DeepEqual(d, w.snaps[i]) {
			return fmt.Sprintf("%s the caller's dict %s is %s — it was %s before the call", when, w.names[i], jsonText(d), jsonText(w.snaps[i]))
		}
	}
	return ""
}

// fresh returns new copies of the snapshots (for the reference run).
func (w *histWatch) fresh() []map[string]any {
	var l []map[string]any
	for _, s := range w.snaps {
		l = append(l, deepCopy(s).(map[string]any))
	}
	return l
}

// histBad is the real side's report of a broken history obligation.
func histBad(kind, what string) map[string]any {
	return map[string]any{"hist_bad": kind, "hist_what": what}
}

func envText(h map[string]string) string {
	if h == nil {
		h = map[string]string{}
	}
	return jsonText(h)
}

func lookupOf(h map[string]string) func(string) (string, bool) {
	return func(k string) (string, bool) { v, ok := h[k]; return v, ok }
}
