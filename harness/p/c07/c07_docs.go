package c07

// C07, round 6 — random *trees of documents*: the stateful walk of Model/TemplateDocs.lean (a heap of interp.Options
// cells threaded through the documents of a load) against the real loader.
//
// A tree is a list of nodes, each one YAML document of the current file (the first nodes of the project go into
// compose.yaml as `---`-separated documents, the rest — from a random cut on — into override.yaml, the second entry of
// ConfigFiles):
//
//	{"v":true}                 a service whose label k is the template
//	{"ext":true}               a service that extends a base file whose service carries the label (opts.clone())
//	{"incl":[[k,v]…],"docs":…}  an include entry (own directory, env_file with these variables) whose file holds `docs`
//
// Every value is the *same* template; what differs is the environment it must be read in — the project environment
// merged with the env files of the entries that **enclose** it, never those of entries walked before it.  The Lean side
// answers with `Docs.loadValues` (the walk with the heap) and with the grammar per value (`evalDocs`).

import (
	"context"
	"encoding/json"
	"fmt"
	"os"
	"strings"
	"time"

	"github.com/compose-spec/compose-go/v2/loader"

	"verifharness/core"
)

type docNode struct {
	V    bool        `json:"v,omitempty"`
	Ext  bool        `json:"ext,omitempty"`
	Incl [][2]string `json:"incl,omitempty"`
	Docs []docNode   `json:"docs,omitempty"`
	IsIn bool        `json:"is_incl,omitempty"` // an include entry (Docs may be empty)
}

// MarshalJSON: an include entry always carries "docs" (the Lean side recognises it by that field)
func (d docNode) MarshalJSON() ([]byte, error) {
	switch {
	case d.IsIn:
		incl := d.Incl
		if incl == nil {
			incl = [][2]string{}
		}
		docs := d.Docs
		if docs == nil {
			docs = []docNode{}
		}
		return json.Marshal(map[string]any{"incl": incl, "docs": docs})
	case d.Ext:
		return json.Marshal(map[string]any{"ext": true})
	}
	return json.Marshal(map[string]any{"v": true})
}

func (d *docNode) UnmarshalJSON(b []byte) error {
	var m struct {
		V    bool            `json:"v"`
		Ext  bool            `json:"ext"`
		Incl [][2]string     `json:"incl"`
		Docs json.RawMessage `json:"docs"`
	}
	if err := json.Unmarshal(b, &m); err != nil {
		return err
	}
	d.V, d.Ext, d.Incl = m.V, m.Ext, m.Incl
	if m.Docs != nil {
		d.IsIn = true
		return json.Unmarshal(m.Docs, &d.Docs)
	}
	return nil
}

type docsArgs struct {
	Ast  []seg             `json:"ast"`
	Env  map[string]string `json:"env"`
	Tree []docNode         `json:"tree"`
	Cut  int               `json:"cut"` // top-level nodes from this index on go into override.yaml (≥ len: one file)
	// round 7 (c07_hist.go): config files as pre-parsed dicts, loaded under each environment of Hist first
	Dict bool                `json:"dict,omitempty"`
	Hist []map[string]string `json:"hist,omitempty"`
}

// docsFiles lays the tree out; names lists the services that carry a value, in walk order.
func docsFiles(a docsArgs, t string) (files map[string]string, names []string, skip string) {
	files = map[string]string{}
	id := 0
	q, _ := json.Marshal(t)
	label := "    labels:\n      k: " + string(q) + "\n"
	var emit func(dir string, nodes []docNode, head string) string
	emit = func(dir string, nodes []docNode, head string) string {
		var docs []string
		for _, n := range nodes {
			id++
			switch {
			case n.IsIn:
				sub := fmt.Sprintf("i%d", id)
				env, ok := envFileText(n.Incl)
				if !ok {
					skip = "value not expressible single-quoted"
				}
				files[dir+sub+"/v.env"] = env
				files[dir+sub+"/c.yaml"] = emit(dir+sub+"/", n.Docs, "")
				docs = append(docs, "include:\n  - path: "+sub+"/c.yaml\n    env_file: "+sub+"/v.env\n")
			case n.Ext:
				name := fmt.Sprintf("s%d", id)
				base := fmt.Sprintf("base%d.yaml", id)
				files[dir+base] = "services:\n  b:\n    image: img\n" + label
				docs = append(docs, "services:\n  "+name+":\n    extends:\n      file: "+base+"\n      service: b\n")
				names = append(names, name)
			default:
				name := fmt.Sprintf("s%d", id)
				docs = append(docs, "services:\n  "+name+":\n    image: img\n"+label)
				names = append(names, name)
			}
		}
		if len(docs) == 0 {
			id++
			docs = []string{fmt.Sprintf("services:\n  p%d:\n    image: img\n", id)}
		}
		return head + strings.Join(docs, "---\n")
	}
	cut := a.Cut
	if cut > len(a.Tree) {
		cut = len(a.Tree)
	}
	if cut < len(a.Tree) {
		files["compose.yaml"] = emit("", a.Tree[:cut], "name: p\n")
		files["override.yaml"] = emit("", a.Tree[cut:], "")
	} else {
		files["compose.yaml"] = emit("", a.Tree, "name: p\n")
	}
	return
}

func init() {
	core.Register("substDocs", &core.CheckDef{
		Real: func(raw json.RawMessage) any {
			var a docsArgs
			json.Unmarshal(raw, &a)
			t := renderSegs(a.Ast)
			files, names, skip := docsFiles(a, t)
			if skip != "" {
				return map[string]any{"skip": skip}
			}
			cfs := []string{"compose.yaml"}
			if _, two := files["override.yaml"]; two {
				cfs = append(cfs, "override.yaml")
			}
			req := core.LoadReq{Files: files, ConfigFiles: cfs, Env: a.Env}
			root, err := core.Materialize(files)
			defer os.RemoveAll(root)
			if err != nil {
				return map[string]any{"skip": "materialize: " + err.Error()}
			}
			details := req.Details(root)
			w := &histWatch{}
			if a.Dict {
				if bad := dictHistory(&details, w, a.Hist, nil); bad != nil {
					return bad
				}
			}
			p, err := loader.LoadWithContext(context.Background(), details)
			if bad := w.check(fmt.Sprintf("after loader.LoadWithContext with environment %s (preceded by %d loads of the same dicts)", envText(a.Env), len(a.Hist))); bad != "" {
				return histBad("input-mutated", bad)
			}
			if err != nil {
				return map[string]any{"rendered": t, "err": loadErrClass(err.Error())}
			}
			vals := []any{}
			for _, n := range names {
				svc, ok := p.Services[n]
				if !ok {
					return map[string]any{"rendered": t, "bad": "service " + n + " missing"}
				}
				vals = append(vals, svc.Labels["k"])
			}
			return map[string]any{"rendered": t, "vals": vals}
		},
		DriverOp: "substDocs",
		DriverArgs: func(args, _ json.RawMessage) any { // the model knows nothing of histories: they must not matter
			var a docsArgs
			json.Unmarshal(args, &a)
			a.Dict, a.Hist = false, nil
			return a
		},
		Timeout: 20 * time.Second,
		Judge: func(args, real, drv json.RawMessage) *core.Verdict {
			if v := core.CrashVerdict(real); v != nil {
				return v
			}
			var a docsArgs
			json.Unmarshal(args, &a)
			var r struct {
				Skip     string   `json:"skip"`
				Rendered string   `json:"rendered"`
				Err      string   `json:"err"`
				Bad      string   `json:"bad"`
				Vals     []string `json:"vals"`
				HistBad  string   `json:"hist_bad"`
				HistWhat string   `json:"hist_what"`
			}
			var d struct {
				WF       bool              `json:"wf"`
				Rendered string            `json:"rendered"`
				Model    []json.RawMessage `json:"model"`
				Eval     []json.RawMessage `json:"eval"`
			}
			if json.Unmarshal(real, &r) != nil || json.Unmarshal(drv, &d) != nil || d.Model == nil || d.Eval == nil {
				return core.Disagree("malformed docs-oracle exchange")
			}
			if r.Skip != "" {
				return core.Skip(r.Skip)
			}
			if r.HistBad != "" {
				return core.Fail("docs-history:"+r.HistBad, r.HistWhat)
			}
			if r.Bad != "" {
				return core.Disagree(r.Bad)
			}
			if r.Rendered != d.Rendered {
				return core.Disagree("Go render ≠ Lean render")
			}
			// one side's expectation: the values in walk order, or the classes of the errors among them (the load
			// reports one of them — which one depends on the order in which the loader reaches the documents)
			expect := func(l []json.RawMessage) (vals []string, errs map[string]bool) {
				errs = map[string]bool{}
				for _, o := range l {
					cls, v := errOrOk(o)
					if cls != "" {
						errs[cls] = true
					} else {
						vals = append(vals, fmt.Sprint(v))
					}
				}
				return
			}
			same := func(l []json.RawMessage) bool {
				vals, errs := expect(l)
				if len(errs) > 0 || r.Err != "" {
					return errs[r.Err]
				}
				return fmt.Sprint(vals) == fmt.Sprint(r.Vals)
			}
			got := fmt.Sprint(r.Vals)
			if r.Err != "" {
				got = "error " + r.Err
			}
			tree, _ := json.Marshal(a.Tree)
			if d.WF && !same(d.Eval) {
				ev, _ := json.Marshal(d.Eval)
				return core.Fail("docs-mapping:"+docsShape(a), fmt.Sprintf("template %q as the label of every value of the document tree %s (override.yaml from top-level node %d on) with environment %v loaded as %s but the grammar, each value in the environment of its enclosing include entries, says %s", r.Rendered, tree, a.Cut, a.Env, got, ev))
			}
			if !same(d.Model) {
				mo, _ := json.Marshal(d.Model)
				return core.Disagree(fmt.Sprintf("Docs.loadValues ≠ loaded values on tree %s: %s vs %s", tree, mo, got))
			}
			return nil
		},
	})
}

// docsShape: which kinds of node precede a value in the walk (stable key of a finding)
func docsShape(a docsArgs) string {
	seen := map[string]bool{}
	var walk func(nodes []docNode, depth int)
	walk = func(nodes []docNode, depth int) {
		inclBefore := false
		for _, n := range nodes {
			switch {
			case n.IsIn:
				walk(n.Docs, depth+1)
				inclBefore = true
			case inclBefore && depth == 0:
				seen["value-after-include"] = true
			case inclBefore:
				seen["nested-value-after-include"] = true
			case depth > 0:
				seen["value-in-include"] = true
			default:
				seen["value"] = true
			}
		}
	}
	walk(a.Tree, 0)
	var ks []string
	for _, k := range []string{"value", "value-in-include", "value-after-include", "nested-value-after-include"} {
		if seen[k] {
			ks = append(ks, k)
		}
	}
	return strings.Join(ks, ",")
}

func runC07Docs(ctx *core.Ctx, rnd func(depth int, inArg bool) []seg) {
	str := func(s string) *string { return &s }
	rn := []string{"A", "B", "_x1", "a", "Kf"}
	vs := []string{"", "", "v", "val", "${B:-$$}", "w"}
	fixed := [][]seg{
		{{Var: str("A")}, {Lit: str("/")}, {Var: str("B"), Braced: true}},
		{{Op: str("A"), O: ":-", Arg: []seg{{Var: str("B"), Braced: true}}}, {Lit: str("/")}, {Op: str("B"), O: "+", Arg: []seg{{Lit: str("r")}}}},
		{{Op: str("A"), O: "-", Arg: []seg{{Lit: str("d")}}}, {Lit: str("/")}, {Op: str("B"), O: ":+", Arg: []seg{{Var: str("A")}}}},
		{{Op: str("A"), O: "?", Arg: []seg{{Lit: str("e")}}}, {Var: str("B")}},
	}
	mkEnv := func(p int, names []string) [][2]string {
		l := [][2]string{}
		for _, nm := range names {
			if ctx.Rng.Intn(p) == 0 {
				l = append(l, [2]string{nm, vs[ctx.Rng.Intn(len(vs))]})
			}
		}
		return l
	}
	var tree func(depth, max int, names []string) []docNode
	tree = func(depth, max int, names []string) []docNode {
		n := 1 + ctx.Rng.Intn(max)
		var l []docNode
		for i := 0; i < n; i++ {
			switch k := ctx.Rng.Intn(6); {
			case k <= 1 && depth > 0:
				l = append(l, docNode{IsIn: true, Incl: mkEnv(2, names), Docs: tree(depth-1, 3, names)})
				ctx.Count("docs-node:include")
			case k == 2:
				l = append(l, docNode{Ext: true})
				ctx.Count("docs-node:extends")
			default:
				l = append(l, docNode{V: true})
				ctx.Count("docs-node:value")
			}
		}
		return l
	}
	for i := 0; i < ctx.Pick(3000, 80000); i++ {
		a := docsArgs{Env: map[string]string{}}
		names := rn
		if i%2 == 0 {
			a.Ast = fixed[ctx.Rng.Intn(len(fixed))]
			names = []string{"A", "B"}
		} else {
			a.Ast = rnd(2, false)
		}
		for _, nm := range names {
			if ctx.Rng.Intn(3) == 0 {
				a.Env[nm] = vs[ctx.Rng.Intn(len(vs))]
			}
		}
		a.Tree = tree(2, 4, names)
		a.Cut = 1 + ctx.Rng.Intn(len(a.Tree)+1)
		if i%4 == 3 {
			// dict mode needs single-document config files: at most two top-level nodes, one per config file
			if len(a.Tree) > 2 {
				a.Tree = a.Tree[:2]
			}
			a.Cut, a.Dict = 1, true
			for n := ctx.Rng.Intn(3); n > 0; n-- {
				h := map[string]string{}
				for _, nm := range names {
					if ctx.Rng.Intn(2) == 0 {
						h[nm] = []string{"", "h", "hist-" + nm, "$$", "${A}"}[ctx.Rng.Intn(5)]
					}
				}
				a.Hist = append(a.Hist, h)
			}
			ctx.Count(fmt.Sprintf("docs-dict-history-len-%d", len(a.Hist)))
		}
		if a.Cut < len(a.Tree) {
			ctx.Count("docs-layout:two-config-files")
		} else {
			ctx.Count("docs-layout:one-config-file")
		}
		ctx.Count("docs-shape:" + docsShape(a))
		ctx.Add("substDocs", a)
	}
}
