package c07

// C07 — the *mapping construction* around template.Substitute.
//
// template.Substitute is handed a Mapping by its callers; the grammar's variable states
// {set non-empty, set empty, unset, set to text containing `$`} only mean something if the
// caller's mapping keeps them apart.  Two callers build one:
//
//	substDotenv  dotenv.UnmarshalWithLookup / ParseWithLookup → expandVariables: the lookup
//	             function first (a hit counts even when the value is empty), then the variables
//	             of the earlier lines of the same file
//	substInterp  interpolation.Interpolate: Options.LookupValue handed over as is
//
// Both are judged with the grammar oracle of substSpec (Lean `evalOut`), evaluated in the
// *effective* environment (lookup-then-file), with four states per variable on each side.

import (
	"encoding/json"
	"errors"
	"fmt"
	"reflect"
	"strings"

	"github.com/compose-spec/compose-go/v2/dotenv"
	"github.com/compose-spec/compose-go/v2/interpolation"
	"github.com/compose-spec/compose-go/v2/template"

	"verifharness/core"
)

type mappingArgs struct {
	Ast    []seg             `json:"ast"`
	Lookup map[string]string `json:"lookup"`         // what the lookup function reports as set
	File   [][2]string       `json:"file,omitempty"` // earlier lines of the env file (dotenv only), in order
	Via    string            `json:"via,omitempty"`  // dotenv: "unmarshal" | "parse"
	// substInterp: environments under which the SAME dict is interpolated before the observed call (c07_hist.go)
	Hist []map[string]string `json:"hist,omitempty"`
}

const c07OutKey = "ZZ_C07_OUT"

func c07ErrClass(err error) map[string]any {
	var inv *template.InvalidTemplateError
	var req *template.MissingRequiredError
	switch {
	case errors.As(err, &inv):
		return map[string]any{"err": "invalid"}
	case errors.As(err, &req):
		return map[string]any{"err": "required", "var": req.Variable, "msg": req.Reason}
	}
	s := err.Error()
	switch {
	case strings.Contains(s, "invalid interpolation format"):
		return map[string]any{"err": "invalid"}
	case strings.Contains(s, "required variable"):
		return map[string]any{"err": "required"}
	}
	return map[string]any{"err": "other", "text": s}
}

// effective environment the grammar is evaluated in: a lookup hit wins (also when empty), then the file
func (a mappingArgs) effective() map[string]string {
	eff := map[string]string{}
	for _, kv := range a.File {
		eff[kv[0]] = kv[1]
	}
	for k, v := range a.Lookup {
		eff[k] = v
	}
	return eff
}

func (a mappingArgs) lookupFn() func(string) (string, bool) {
	return func(k string) (string, bool) { v, ok := a.Lookup[k]; return v, ok }
}

// mappingJudge compares {"rendered","out"} of the real run with the grammar (driver op substSpec).
func mappingJudge(prefix string, full bool) func(args, real, drv json.RawMessage) *core.Verdict {
	return func(args, real, drv json.RawMessage) *core.Verdict {
		if v := core.CrashVerdict(real); v != nil {
			return v
		}
		var r struct {
			Skip     string          `json:"skip"`
			Rendered string          `json:"rendered"`
			Out      json.RawMessage `json:"out"`
			HistBad  string          `json:"hist_bad"`
			HistWhat string          `json:"hist_what"`
		}
		var d struct {
			WF       bool            `json:"wf"`
			WFml     bool            `json:"wf_ml"`
			Rendered string          `json:"rendered"`
			Eval     json.RawMessage `json:"eval"`
		}
		if json.Unmarshal(real, &r) != nil || json.Unmarshal(drv, &d) != nil || d.Eval == nil {
			return core.Disagree("malformed spec-oracle exchange")
		}
		if r.Skip != "" {
			return core.Skip(r.Skip)
		}
		if r.HistBad != "" { // holds for every input, in the grammar or not (c07_hist.go)
			return core.Fail(prefix+"-history:"+r.HistBad, r.HistWhat)
		}
		if r.Rendered != d.Rendered {
			return core.Disagree("Go render ≠ Lean render")
		}
		if !d.WF && !d.WFml {
			return core.Skip("not well-formed")
		}
		want := d.Eval
		if !full { // the caller wraps the error: only its class is observable
			var ev map[string]any
			json.Unmarshal(d.Eval, &ev)
			w := map[string]any{}
			if e, isErr := ev["err"]; isErr {
				w["err"] = e
			} else {
				w["ok"] = ev["ok"]
			}
			want, _ = json.Marshal(w)
		}
		if !core.CanonEqual(r.Out, want) {
			if !d.WF {
				return core.Fail("grammar:newline-in-argument", fmt.Sprintf("%s %q = %s but the grammar says %s", prefix, r.Rendered, r.Out, want))
			}
			var a mappingArgs
			json.Unmarshal(args, &a)
			return core.Fail(prefix+"-mapping:"+mappingStateKey(a), fmt.Sprintf("%s of %q with lookup %v, earlier lines %v = %s but the grammar (in the lookup-then-file environment) says %s", prefix, r.Rendered, a.Lookup, a.File, r.Out, want))
		}
		return nil
	}
}

// mappingStateKey names the variable-state classes present (stable key of a finding).
func mappingStateKey(a mappingArgs) string {
	seen := map[string]bool{}
	for _, v := range a.Lookup {
		if v == "" {
			seen["lookup-set-empty"] = true
		} else {
			seen["lookup-set"] = true
		}
	}
	for _, kv := range a.File {
		if _, shadow := a.Lookup[kv[0]]; shadow {
			seen["file-shadowed"] = true
		} else if kv[1] == "" {
			seen["file-set-empty"] = true
		} else {
			seen["file-set"] = true
		}
	}
	var ks []string
	for _, k := range []string{"lookup-set-empty", "lookup-set", "file-shadowed", "file-set-empty", "file-set"} {
		if seen[k] {
			ks = append(ks, k)
		}
	}
	if len(ks) == 0 {
		return "all-unset"
	}
	return strings.Join(ks, ",")
}

func init() {
	core.Register("substDotenv", &core.CheckDef{
		Real: func(raw json.RawMessage) any {
			var a mappingArgs
			json.Unmarshal(raw, &a)
			t := renderSegs(a.Ast)
			// the template is the double-quoted value of the last line: no `"` and no `\` so that quoting and
			// expandEscapes are the identity on it; earlier lines are single-quoted (taken literally)
			if strings.ContainsAny(t, "\"\\") {
				return map[string]any{"skip": "template not expressible as a double-quoted env value"}
			}
			var b strings.Builder
			for _, kv := range a.File {
				if strings.ContainsAny(kv[1], "'\n") {
					return map[string]any{"skip": "value not expressible single-quoted"}
				}
				b.WriteString(kv[0] + "='" + kv[1] + "'\n")
			}
			b.WriteString(c07OutKey + "=\"" + t + "\"\n")
			var m map[string]string
			var err error
			if a.Via == "parse" {
				m, err = dotenv.ParseWithLookup(strings.NewReader(b.String()), a.lookupFn())
			} else {
				m, err = dotenv.UnmarshalWithLookup(b.String(), a.lookupFn())
			}
			if err != nil {
				return map[string]any{"rendered": t, "out": c07ErrClass(err)}
			}
			v, ok := m[c07OutKey]
			if !ok {
				return map[string]any{"rendered": t, "out": map[string]any{"bad": "key missing from the result"}}
			}
			return map[string]any{"rendered": t, "out": map[string]any{"ok": v}}
		},
		DriverOp: "substSpec",
		DriverArgs: func(args, _ json.RawMessage) any {
			var a mappingArgs
			json.Unmarshal(args, &a)
			return specArgs{Ast: a.Ast, Env: a.effective()}
		},
		Judge: mappingJudge("dotenv", true),
	})
	core.Register("substInterp", &core.CheckDef{
		Real: func(raw json.RawMessage) any {
			var a mappingArgs
			json.Unmarshal(raw, &a)
			t := renderSegs(a.Ast)
			// templates at the top level, below it (map → sequence, map → map), next to sub-trees without any template
			mkCfg := func() map[string]any {
				return map[string]any{"k": t, "m": map[string]any{"l": []any{t}, "d": map[string]any{"t": t, "esc": "$$X-${Y:-d}"}},
					"n": map[string]any{"plain": "x", "deep": map[string]any{"q": []any{"y", 1, map[string]any{"z": true}}}}, "s": []any{"lit", []any{"p"}}}
			}
			cfg := mkCfg()
			w := &histWatch{}
			w.add("(argument of interpolation.Interpolate)", cfg)
			for i, h := range a.Hist {
				o, _ := interpolation.Interpolate(cfg, interpolation.Options{LookupValue: lookupOf(h)})
				when := fmt.Sprintf("after call %d of the history (interpolation.Interpolate with lookup %s)", i+1, envText(h))
				if bad := w.check(when); bad != "" {
					return histBad("input-mutated", bad)
				}
				scribble(o)
				if bad := w.check(when + " and an edit of every map/sequence of its result"); bad != "" {
					return histBad("result-aliases-input", bad)
				}
			}
			out, err := interpolation.Interpolate(cfg, interpolation.Options{LookupValue: a.lookupFn()})
			when := fmt.Sprintf("after interpolation.Interpolate with lookup %s (preceded by %d calls on the same dict)", envText(a.Lookup), len(a.Hist))
			if bad := w.check(when); bad != "" {
				return histBad("input-mutated", bad)
			}
			ref, referr := interpolation.Interpolate(mkCfg(), interpolation.Options{LookupValue: a.lookupFn()})
			// on an error only its class is compared: which of several failing values is reported (and how much of the
			// partial result exists) depends on Go's map iteration order, not on the history
			if (err == nil) != (referr == nil) || (err != nil && jsonText(c07ErrClass(err)) != jsonText(c07ErrClass(referr))) || (err == nil && !reflect.DeepEqual(out, ref)) {
				return histBad("history-dependent", fmt.Sprintf("interpolation.Interpolate of the dict %s with lookup %s gives %s (error %v) after %d earlier calls on the same dict (lookups %s), but %s (error %v) on a fresh copy",
					jsonText(w.snaps[0]), envText(a.Lookup), jsonText(out), err, len(a.Hist), jsonText(a.Hist), jsonText(ref), referr))
			}
			if err != nil {
				return map[string]any{"rendered": t, "out": c07ErrClass(err)}
			}
			if keep := deepCopy(out); true {
				scribble(out)
				if bad := w.check(when + " and an edit of every map/sequence of its result"); bad != "" {
					return histBad("result-aliases-input", bad)
				}
				out = keep.(map[string]any)
			}
			v, _ := out["k"].(string)
			var v2 any
			if m, ok := out["m"].(map[string]any); ok {
				if l, ok := m["l"].([]any); ok && len(l) == 1 {
					v2 = l[0]
				}
			}
			if v2 != any(v) {
				return map[string]any{"rendered": t, "out": map[string]any{"bad": fmt.Sprintf("top-level value %q but nested value %v", v, v2)}}
			}
			return map[string]any{"rendered": t, "out": map[string]any{"ok": v}}
		},
		DriverOp: "substSpec",
		DriverArgs: func(args, _ json.RawMessage) any {
			var a mappingArgs
			json.Unmarshal(args, &a)
			return specArgs{Ast: a.Ast, Env: a.effective()}
		},
		Judge: mappingJudge("interpolate", true), // MissingRequiredError is wrapped with %w, InvalidTemplateError has no fields
	})
}

// runC07Mapping: exhaustive variable states on a fixed family of one- and two-variable templates, then random ASTs.
func runC07Mapping(ctx *core.Ctx, rnd func(depth int, inArg bool) []seg) {
	str := func(s string) *string { return &s }
	ops := []string{":-", "-", ":+", "+", ":?", "?"}
	var asts [][]seg
	asts = append(asts, []seg{{Var: str("A")}}, []seg{{Var: str("A"), Braced: true}},
		[]seg{{Lit: str("x")}, {Var: str("A"), Braced: true}, {Lit: str(" ")}, {Var: str("B")}})
	for _, o := range ops {
		asts = append(asts,
			[]seg{{Op: str("A"), O: o, Arg: []seg{{Lit: str("d")}}}},
			[]seg{{Op: str("A"), O: o, Arg: []seg{{Var: str("B"), Braced: true}}}},
			[]seg{{Op: str("A"), O: o, Arg: []seg{{Op: str("B"), O: "-", Arg: []seg{{Lit: str("e")}}}}}, {Lit: str("/")}, {Var: str("B"), Braced: true}})
	}
	// per variable: lookup ∈ {unset, set empty, set, set to template-like text} × file ∈ {absent, empty, set}
	lookupStates := []*string{nil, str(""), str("v"), str("$A${A:-x}$$")}
	fileStates := []*string{nil, str(""), str("w")}
	type st struct{ l, f *string }
	var states []st
	for _, l := range lookupStates {
		for _, f := range fileStates {
			states = append(states, st{l, f})
		}
	}
	mk := func(ast []seg, sa, sb st, via string) mappingArgs {
		a := mappingArgs{Ast: ast, Lookup: map[string]string{}, Via: via}
		for _, p := range []struct {
			n string
			s st
		}{{"A", sa}, {"B", sb}} {
			if p.s.l != nil {
				a.Lookup[p.n] = *p.s.l
			}
			if p.s.f != nil {
				a.File = append(a.File, [2]string{p.n, *p.s.f})
			}
		}
		return a
	}
	n := 0
	for _, ast := range asts {
		for _, sa := range states {
			for _, sb := range states {
				via := "unmarshal"
				if n%2 == 1 {
					via = "parse"
				}
				n++
				a := mk(ast, sa, sb, via)
				ctx.Count("mapping-exhaustive-dotenv")
				ctx.Add("substDotenv", a)
				if sa.f == nil && sb.f == nil {
					ctx.Count("mapping-exhaustive-interpolate")
					ctx.Add("substInterp", a)
					// histories on the same dict: the same lookup again, every variable set differently, every variable
					// unset, two earlier calls (round 7)
					for hi, hist := range [][]map[string]string{{a.Lookup}, {{"A": "h1", "B": "h2"}}, {{}}, {{"A": "", "B": "$A"}, {"A": "h1"}}} {
						b := a
						b.Hist = hist
						ctx.Count(fmt.Sprintf("mapping-exhaustive-interpolate-history-%d", hi))
						ctx.Add("substInterp", b)
					}
				}
			}
		}
	}
	// random ASTs with random states
	rnames := []string{"A", "B", "_x1", "a", "Kf"}
	vals := []string{"", "", "v", "val", "${B:-$$}"}
	for i := 0; i < ctx.Pick(6000, 120000); i++ {
		a := mappingArgs{Ast: rnd(3, false), Lookup: map[string]string{}, Via: []string{"unmarshal", "parse"}[ctx.Rng.Intn(2)]}
		for _, nm := range rnames {
			if ctx.Rng.Intn(2) == 0 {
				a.Lookup[nm] = vals[ctx.Rng.Intn(len(vals))]
			}
			if ctx.Rng.Intn(3) == 0 {
				a.File = append(a.File, [2]string{nm, vals[ctx.Rng.Intn(len(vals))]})
			}
		}
		ctx.Count("mapping-random-dotenv")
		ctx.Add("substDotenv", a)
		if i%3 == 0 {
			b := a
			b.File = nil
			for n := ctx.Rng.Intn(3); n > 0; n-- { // 0–2 earlier calls on the same dict, random environments
				h := map[string]string{}
				for _, nm := range rnames {
					if ctx.Rng.Intn(2) == 0 {
						h[nm] = []string{"", "h", "hist-" + nm, "$$", "${A}"}[ctx.Rng.Intn(5)]
					}
				}
				b.Hist = append(b.Hist, h)
			}
			ctx.Count(fmt.Sprintf("mapping-random-interpolate-history-len-%d", len(b.Hist)))
			ctx.Count("mapping-random-interpolate")
			ctx.Add("substInterp", b)
		}
	}
}
