package c07

// C07 — variable substitution follows the Compose interpolation grammar.
//
//	subst      correspondence: template.Substitute vs the Lean model Template.subst
//	substSpec  direct oracle:  template.Substitute on the rendering of a well-formed
//	           AST vs the Lean *specification* (Spec/Template.lean: render/eval)

import (
	"encoding/json"
	"errors"
	"fmt"
	"os"
	"regexp"
	"strings"
	"time"

	"github.com/compose-spec/compose-go/v2/template"

	"verifharness/core"
)

type substArgs struct {
	T   string            `json:"t"`
	Env map[string]string `json:"env"`
}

func realSubst(t string, env map[string]string) any {
	res, err := template.Substitute(t, func(k string) (string, bool) { v, ok := env[k]; return v, ok })
	if err != nil {
		var inv *template.InvalidTemplateError
		var req *template.MissingRequiredError
		switch {
		case errors.As(err, &inv):
			return map[string]any{"err": "invalid"}
		case errors.As(err, &req):
			return map[string]any{"err": "required", "var": req.Variable, "msg": req.Reason}
		default:
			return map[string]any{"err": "other", "text": err.Error()}
		}
	}
	return map[string]any{"ok": res}
}

type seg struct {
	Lit    *string `json:"lit,omitempty"`
	Esc    *bool   `json:"esc,omitempty"`
	Var    *string `json:"var,omitempty"`
	Braced bool    `json:"braced,omitempty"`
	Op     *string `json:"op,omitempty"`
	O      string  `json:"o,omitempty"`
	Arg    []seg   `json:"arg,omitempty"`
}

func renderSegs(l []seg) string {
	var b strings.Builder
	for _, s := range l {
		switch {
		case s.Lit != nil:
			b.WriteString(*s.Lit)
		case s.Esc != nil:
			b.WriteString("$$")
		case s.Var != nil && s.Braced:
			b.WriteString("${" + *s.Var + "}")
		case s.Var != nil:
			b.WriteString("$" + *s.Var)
		case s.Op != nil:
			b.WriteString("${" + *s.Op + s.O + renderSegs(s.Arg) + "}")
		}
	}
	return b.String()
}

type specArgs struct {
	Ast []seg             `json:"ast"`
	Env map[string]string `json:"env"`
}

func init() {
	core.Register("subst", &core.CheckDef{
		Real: func(raw json.RawMessage) any {
			var a substArgs
			json.Unmarshal(raw, &a)
			return realSubst(a.T, a.Env)
		},
		DriverOp: "subst",
		Judge: func(args, real, drv json.RawMessage) *core.Verdict {
			if v := core.CrashVerdict(real); v != nil {
				return v
			}
			if !core.CanonEqual(real, drv) {
				return core.Disagree("Template.subst ≠ template.Substitute")
			}
			return nil
		},
	})
	core.Register("substSpec", &core.CheckDef{
		Real: func(raw json.RawMessage) any {
			var a specArgs
			json.Unmarshal(raw, &a)
			t := renderSegs(a.Ast)
			return map[string]any{"rendered": t, "out": realSubst(t, a.Env)}
		},
		DriverOp: "substSpec",
		Judge: func(args, real, drv json.RawMessage) *core.Verdict {
			if v := core.CrashVerdict(real); v != nil {
				return v
			}
			var r struct {
				Rendered string          `json:"rendered"`
				Out      json.RawMessage `json:"out"`
			}
			var d struct {
				WF       bool            `json:"wf"`
				WFml     bool            `json:"wf_ml"`
				Rendered string          `json:"rendered"`
				Eval     json.RawMessage `json:"eval"`
				ParseOK  *bool           `json:"parse_ok"`
			}
			if json.Unmarshal(real, &r) != nil || json.Unmarshal(drv, &d) != nil || d.Eval == nil {
				return core.Disagree("malformed spec-oracle exchange")
			}
			if r.Rendered != d.Rendered {
				return core.Disagree("Go render ≠ Lean render")
			}
			if d.WF && d.ParseOK != nil && !*d.ParseOK {
				return core.Disagree("parse? is incomplete: the rendering of a WF AST is not accepted with the AST's meaning")
			}
			if !d.WF && !d.WFml {
				return core.Skip("not well-formed")
			}
			if v := core.CrashVerdict(r.Out); v != nil {
				return v
			}
			if !core.CanonEqual(r.Out, d.Eval) {
				if !d.WF {
					// well-formed only in the grammar at full strength: a newline inside an operator argument
					return core.Fail("grammar:newline-in-argument", fmt.Sprintf("Substitute(%q) = %s but the grammar says %s", r.Rendered, r.Out, d.Eval))
				}
				return core.Fail("grammar:"+specShape(args), fmt.Sprintf("Substitute(%q) = %s but the grammar says %s", r.Rendered, r.Out, d.Eval))
			}
			return nil
		},
	})
	// substLoad: the second observation point of the property — "string values in a project loaded from a
	// document using the template".  The rendered template is the value of a label in a one-service
	// compose file; the loaded project's label (or the class of the load error) is compared with the grammar.
	core.Register("substLoad", &core.CheckDef{
		Real: func(raw json.RawMessage) any {
			var a specArgs
			json.Unmarshal(raw, &a)
			t := renderSegs(a.Ast)
			q, _ := json.Marshal(t) // a JSON string is a YAML double-quoted scalar
			req := core.LoadReq{
				Files:       map[string]string{"compose.yaml": "name: p\nservices:\n  s:\n    image: img\n    labels:\n      k: " + string(q) + "\n"},
				ConfigFiles: []string{"compose.yaml"},
				Env:         a.Env,
			}
			p, root, err := req.Load()
			defer os.RemoveAll(root)
			if err != nil {
				return map[string]any{"rendered": t, "out": map[string]any{"err": loadErrClass(err.Error())}}
			}
			svc, ok := p.Services["s"]
			if !ok {
				return map[string]any{"rendered": t, "out": map[string]any{"bad": "service missing"}}
			}
			return map[string]any{"rendered": t, "out": map[string]any{"ok": svc.Labels["k"]}}
		},
		DriverOp: "substSpec",
		Timeout:  20 * time.Second,
		Judge: func(args, real, drv json.RawMessage) *core.Verdict {
			if v := core.CrashVerdict(real); v != nil {
				return v
			}
			var r struct {
				Rendered string          `json:"rendered"`
				Out      json.RawMessage `json:"out"`
			}
			var d struct {
				WF       bool            `json:"wf"`
				WFml     bool            `json:"wf_ml"`
				Rendered string          `json:"rendered"`
				Eval     json.RawMessage `json:"eval"`
			}
			if json.Unmarshal(real, &r) != nil || json.Unmarshal(drv, &d) != nil || d.Eval == nil {
				return core.Disagree("malformed spec-oracle exchange")
			}
			if r.Rendered != d.Rendered {
				return core.Disagree("Go render ≠ Lean render")
			}
			if !d.WF && !d.WFml {
				return core.Skip("not well-formed")
			}
			// the grammar's verdict, with errors reduced to their class
			var ev map[string]any
			json.Unmarshal(d.Eval, &ev)
			want := map[string]any{}
			if e, isErr := ev["err"]; isErr {
				want["err"] = e
			} else {
				want["ok"] = ev["ok"]
			}
			wantRaw, _ := json.Marshal(want)
			if !core.CanonEqual(r.Out, wantRaw) {
				if !d.WF {
					return core.Fail("grammar:newline-in-argument", fmt.Sprintf("label %q loaded as %s but the grammar says %s", r.Rendered, r.Out, wantRaw))
				}
				return core.Fail("load-grammar:"+specShape(args), fmt.Sprintf("label %q loaded as %s but the grammar says %s", r.Rendered, r.Out, wantRaw))
			}
			return nil
		},
	})
	core.RegisterProp("C07", runC07)
}

var (
	reRequired = regexp.MustCompile(`required variable`)
	reInvalid  = regexp.MustCompile(`(?i)invalid (template|interpolation format)`)
)

func loadErrClass(s string) string {
	switch {
	case reRequired.MatchString(s):
		return "required"
	case reInvalid.MatchString(s):
		return "invalid"
	}
	return "other: " + s
}

// specShape classifies a failing AST by the operators it uses (the key of a finding).
func specShape(args json.RawMessage) string {
	var a specArgs
	json.Unmarshal(args, &a)
	seen := map[string]bool{}
	var walk func(l []seg, inArg bool)
	walk = func(l []seg, inArg bool) {
		for _, s := range l {
			switch {
			case s.Lit != nil:
				if inArg && strings.ContainsAny(*s.Lit, "{}") {
					seen["brace-literal-in-argument"] = true
				}
			case s.Esc != nil:
				seen["$$"] = true
			case s.Var != nil && s.Braced:
				seen["${}"] = true
			case s.Var != nil:
				seen["$N"] = true
			case s.Op != nil:
				seen[s.O] = true
				walk(s.Arg, true)
			}
		}
	}
	walk(a.Ast, false)
	if seen["brace-literal-in-argument"] {
		return "brace-literal-in-argument"
	}
	var ks []string
	for _, k := range []string{"$$", "$N", "${}", ":-", "-", ":+", "+", ":?", "?"} {
		if seen[k] {
			ks = append(ks, k)
		}
	}
	return strings.Join(ks, ",")
}

var c07Envs = []map[string]string{
	{"A": "v"},           // set, non-empty
	{"A": ""},            // set, empty
	{},                   // unset
	{"A": "$A${A:-x}$$"}, // set to text that looks like a template: must not be expanded again
}

func runC07(ctx *core.Ctx) {
	// 1. exhaustive small scope: every string over the alphabet up to length L × the four variable states
	alpha := []string{"$", "{", "}", ":", "-", "+", "?", "A", "_", "1", " ", "\n"}
	L := ctx.Pick(5, 6)
	var rec func(prefix string, n int)
	rec = func(prefix string, n int) {
		for _, env := range c07Envs {
			ctx.Add("substStr", substArgs{T: prefix, Env: env}) // model of the code + (when the string is in the grammar) the grammar
		}
		ctx.Count(fmt.Sprintf("exhaustive-len-%d", len(prefix)))
		if n == 0 {
			return
		}
		for _, a := range alpha {
			rec(prefix+a, n-1)
		}
	}
	rec("", L)
	ctx.Res.Exhaustive = true

	// 2. random longer strings over a wider alphabet (case folding runes, CR, digits, nested shapes)
	wide := []string{"$", "$", "{", "}", "}", ":", "-", "+", "?", "A", "B", "a", "_", "1", "9", " ", "\n", "\r", "ſ", "K", "é", "${", "${A", ":-", ":?", "$$", "x", "/", "\t", "世"}
	names := []string{"A", "B", "a", "_x1", "Kf"}
	for i := 0; i < ctx.Pick(60000, 1500000); i++ {
		n := 1 + ctx.Rng.Intn(24)
		var b strings.Builder
		for j := 0; j < n; j++ {
			b.WriteString(wide[ctx.Rng.Intn(len(wide))])
		}
		env := map[string]string{}
		for _, nm := range names {
			switch ctx.Rng.Intn(4) {
			case 0:
				env[nm] = ""
			case 1:
				env[nm] = "val-" + nm
			case 2:
				env[nm] = "${" + nm + ":-$$}"
			}
		}
		ctx.Count("random-string")
		ctx.Add("subst", substArgs{T: b.String(), Env: env})
	}

	// 3. spec oracle on ASTs: exhaustive small ASTs, then random deeper ones
	str := func(s string) *string { return &s }
	tru := true
	ops := []string{":-", "-", ":+", "+", ":?", "?"}
	atoms := func(inArg bool) []seg {
		l := []seg{{Lit: str("x")}, {Lit: str(" ")}, {Esc: &tru}, {Var: str("A")}, {Var: str("A"), Braced: true}, {Var: str("B"), Braced: true}}
		if !inArg {
			l = append(l, seg{Lit: str("}")}, seg{Lit: str("a\nb")}, seg{Lit: str("{")})
		} else {
			l = append(l, seg{Lit: str(":-")}, seg{Lit: str("{}")}, seg{Lit: str("{{x}}")}, seg{Lit: str("a\nb")})
		}
		return l
	}
	var gen func(depth, width int, inArg bool, emit func([]seg))
	gen = func(depth, width int, inArg bool, emit func([]seg)) {
		// all sequences of ≤ width segments, operator arguments recursively of depth-1
		var items []seg
		items = append(items, atoms(inArg)...)
		if depth > 0 {
			gen(depth-1, width-1, true, func(arg []seg) {
				for _, o := range ops {
					for _, n := range []string{"A", "B"} {
						items = append(items, seg{Op: str(n), O: o, Arg: arg})
					}
				}
			})
		}
		var seq func(cur []seg, k int)
		seq = func(cur []seg, k int) {
			emit(append([]seg(nil), cur...))
			if k == 0 {
				return
			}
			for _, it := range items {
				seq(append(cur, it), k-1)
			}
		}
		seq(nil, width)
	}
	specEnvs := []map[string]string{{"A": "v", "B": ""}, {"A": "", "B": "w"}, {"B": "$A"}, {"A": "${B}"}}
	cnt := 0
	limit := ctx.Pick(150000, 4000000)
	gen(ctx.Pick(1, 2), ctx.Pick(2, 2), false, func(ast []seg) {
		if cnt >= limit {
			return
		}
		for _, env := range specEnvs {
			cnt++
			ctx.Count("ast-exhaustive")
			ctx.Add("substSpec", specArgs{Ast: ast, Env: env})
		}
	})
	// greedy tails (round 6; seed C08-8): an operator substitution, then on the same line text that holds an escape
	// `$$` or an unbraced `$NAME` but no further `${`, then a later `}` — the regexp's greedy `.*` runs to that last
	// `}`, the match is cut at the first balanced one and the rest must get a substitution pass of its own.
	// Systematic: operator × argument × tail × (line continues or not) × the four states; all three observation points.
	{
		tailArgs := [][]seg{{{Lit: str("x")}}, {}, {{Var: str("B"), Braced: true}}, {{Lit: str("{}")}}}
		tails := [][]seg{
			{{Lit: str(" ")}, {Esc: &tru}, {Lit: str(" }")}},
			{{Lit: str(" ")}, {Var: str("A")}, {Lit: str(" }")}},
			{{Esc: &tru}, {Lit: str("}")}},
			{{Var: str("B")}, {Lit: str("}")}},
			{{Lit: str("/")}, {Var: str("B")}, {Esc: &tru}, {Lit: str("{}")}},
			{{Lit: str(" ")}, {Esc: &tru}, {Var: str("A")}, {Lit: str(" } ")}, {Esc: &tru}, {Lit: str("}}")}},
			{{Lit: str(" ")}, {Esc: &tru}, {Lit: str(" } ")}, {Var: str("B"), Braced: true}}, // … and one that does hold a `${`
		}
		for _, o := range ops {
			for _, n := range []string{"A", "B"} {
				for _, arg := range tailArgs {
					for _, tl := range tails {
						for _, nl := range []bool{false, true} {
							ast := append([]seg{{Op: str(n), O: o, Arg: arg}}, tl...)
							if nl {
								ast = append(append([]seg{{Lit: str("l0 }\n")}}, ast...), seg{Lit: str("\n} ")}, seg{Esc: &tru})
							}
							for _, env := range specEnvs {
								ctx.Count("greedy-tail")
								ctx.Add("substSpec", specArgs{Ast: ast, Env: env})
								ctx.Add("substStr", substArgs{T: renderSegs(ast), Env: env})
								if !nl {
									ctx.Count("greedy-tail-load")
									ctx.Add("substLoad", specArgs{Ast: ast, Env: env})
								}
							}
						}
					}
				}
			}
		}
	}
	// random deeper ASTs
	var rnd func(depth int, inArg bool) []seg
	lits := []string{"x", " ", "lit", "a-b", ":", "?", "+", "é", "1"}
	topLits := []string{"}", "{", "a\nb", "}}", "{}"}
	argLits := []string{"{}", "{x}", "{{.N}}", "{\"a\":{}}", "a{b}c", "l1\nl2"}
	rnames := []string{"A", "B", "_x1", "a", "Kf"}
	rnd = func(depth int, inArg bool) []seg {
		n := ctx.Rng.Intn(4)
		var l []seg
		for i := 0; i < n; i++ {
			switch k := ctx.Rng.Intn(7); {
			case k == 0:
				l = append(l, seg{Lit: str(lits[ctx.Rng.Intn(len(lits))])})
			case k == 1 && !inArg:
				l = append(l, seg{Lit: str(topLits[ctx.Rng.Intn(len(topLits))])})
			case k == 1 && inArg && ctx.Rng.Intn(2) == 0:
				l = append(l, seg{Lit: str(argLits[ctx.Rng.Intn(len(argLits))])})
			case k == 2:
				l = append(l, seg{Esc: &tru})
			case k == 3:
				l = append(l, seg{Var: str(rnames[ctx.Rng.Intn(len(rnames))]), Braced: ctx.Rng.Intn(2) == 0})
			case depth > 0:
				l = append(l, seg{Op: str(rnames[ctx.Rng.Intn(len(rnames))]), O: ops[ctx.Rng.Intn(len(ops))], Arg: rnd(depth-1, true)})
			default:
				l = append(l, seg{Lit: str("z")})
			}
		}
		return l
	}
	for i := 0; i < ctx.Pick(40000, 800000); i++ {
		env := map[string]string{}
		for _, nm := range rnames {
			switch ctx.Rng.Intn(4) {
			case 0:
				env[nm] = ""
			case 1:
				env[nm] = "val-" + nm
			case 2:
				env[nm] = "${" + nm + ":-$$}"
			}
		}
		ctx.Count("ast-random")
		ast := rnd(3, false)
		ctx.Add("substSpec", specArgs{Ast: ast, Env: env})
		// correspondence on grammar-shaped text: the rendering itself and a one-edit perturbation of it
		// (mostly-valid structured inputs: nested braces, greedy tails, operators inside arguments)
		txt := renderSegs(ast)
		ctx.Count("rendered-ast-string")
		ctx.Add("substStr", substArgs{T: txt, Env: env})
		if r := []rune(txt); len(r) > 0 {
			pos := ctx.Rng.Intn(len(r) + 1)
			var mut []rune
			switch ctx.Rng.Intn(3) {
			case 0: // delete
				if pos == len(r) {
					pos--
				}
				mut = append(append(mut, r[:pos]...), r[pos+1:]...)
			case 1: // insert
				mut = append(append(append(mut, r[:pos]...), []rune(wide[ctx.Rng.Intn(len(wide))])...), r[pos:]...)
			default: // duplicate a slice (creates repeated / unbalanced braces)
				end := pos + ctx.Rng.Intn(len(r)-pos+1)
				mut = append(append(append(mut, r[:end]...), r[pos:end]...), r[end:]...)
			}
			ctx.Count("perturbed-ast-string")
			ctx.Add("substStr", substArgs{T: string(mut), Env: env})
		}
		if i%ctx.Pick(10, 40) == 0 {
			// every n-th random AST is also pushed through the whole loader
			ctx.Count("ast-random-load")
			ctx.Add("substLoad", specArgs{Ast: ast, Env: env})
		}
	}
	// 4. the mapping handed to Substitute by its callers (dotenv, interpolation)
	runC07Mapping(ctx, rnd)
	// 5. SubstituteWithOptions under concrete configurations vs the parametric model
	runC07Opts(ctx, rnd)
	// 6. the mapping the loader hands to Substitute at each of its call sites (include / extends / name / options)
	runC07Sites(ctx, rnd)
	// 7. random trees of documents: the stateful walk (heap of interp.Options cells) vs the loader
	runC07Docs(ctx, rnd)
	ctx.Wait()
	reportStrClasses(ctx)
}
