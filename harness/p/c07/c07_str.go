package c07

// C07 — the grammar as a decidable set of *strings* (round 5).
//
// substStr: template.Substitute on a string vs (a) the Lean model of the code (`Template.subst`, as `subst` does) and
// (b) — whenever the checked parser `parse?` (Model/TemplateParse.lean) accepts the string — the grammar's `evalOut`
// of the parsed AST.  Theorem `subst_parsed` says (a) = (b) for the model; this check says the same for the real code on
// every string of the exhaustive small scope and on every generated rendering / perturbation.  The judge also counts
// how the strings fall: accepted by the grammar (ok / error), outside it (ok / error) — reported in the distribution.

import (
	"encoding/json"
	"fmt"
	"sync/atomic"

	"verifharness/core"
)

var strClass [4]int64 // parsed-ok, parsed-err, outside-ok, outside-err

func init() {
	core.Register("substStr", &core.CheckDef{
		Real: func(raw json.RawMessage) any {
			var a substArgs
			json.Unmarshal(raw, &a)
			return realSubst(a.T, a.Env)
		},
		DriverOp: "substStr",
		Judge: func(args, real, drv json.RawMessage) *core.Verdict {
			if v := core.CrashVerdict(real); v != nil {
				return v
			}
			var d struct {
				Model  json.RawMessage `json:"model"`
				Parsed bool            `json:"parsed"`
				Eval   json.RawMessage `json:"eval"`
			}
			if json.Unmarshal(drv, &d) != nil || d.Model == nil || (d.Parsed && d.Eval == nil) {
				return core.Disagree("malformed substStr exchange")
			}
			cls, _ := errOrOk(real)
			idx := 0
			if !d.Parsed {
				idx = 2
			}
			if cls != "" {
				idx++
			}
			atomic.AddInt64(&strClass[idx], 1)
			if d.Parsed && !core.CanonEqual(real, d.Eval) {
				var a substArgs
				json.Unmarshal(args, &a)
				return core.Fail("grammar-string", fmt.Sprintf("Substitute(%q) with %v = %s but the string is in the grammar and the grammar says %s", a.T, a.Env, real, d.Eval))
			}
			if !core.CanonEqual(real, d.Model) {
				return core.Disagree("Template.subst ≠ template.Substitute")
			}
			return nil
		},
	})
}

// reportStrClasses writes the judged classes into the distribution (call after ctx.Wait()).
func reportStrClasses(ctx *core.Ctx) {
	for i, k := range []string{"string-in-grammar:ok", "string-in-grammar:error", "string-outside-grammar:ok", "string-outside-grammar:error"} {
		if n := atomic.LoadInt64(&strClass[i]); n > 0 {
			ctx.Res.Distribution[k] = int(n)
		}
	}
}
