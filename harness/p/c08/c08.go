package c08

// C08 — interpolation touches only string values and is type-transparent.
//
//	interpolate   correspondence: interpolation.Interpolate (with loader's cast table) vs the Lean model
//	              Interp.interpolate Gen.castTable; the judge ALSO decides the first half of the property
//	              directly on the real outcome (keys / shape / non-string scalars preserved, string leaves
//	              become scalars, an error names the path of a string leaf) — independent of the model.
//	c08casters    correspondence: toInt / toInt64 / toBoolean (cast table) and the decode-time cast of
//	              loader.Transform vs Interp.parseInt / parseBool; direct: the two mechanisms agree.
//	c08meta       direct oracle (c08load.go): metamorphic pairs of whole loads.

import (
	"encoding/json"
	"errors"
	"fmt"
	"math"
	"regexp"
	"sort"
	"strconv"
	"strings"

	"github.com/compose-spec/compose-go/v2/interpolation"
	"github.com/compose-spec/compose-go/v2/loader"
	"github.com/compose-spec/compose-go/v2/template"
	"github.com/compose-spec/compose-go/v2/tree"
	"github.com/compose-spec/compose-go/v2/types"
	"gopkg.in/yaml.v3"

	"verifharness/core"
)

type interpArgs struct {
	Tree any               `json:"tree"`
	Env  map[string]string `json:"env"`
}

const invalidMarker = ".\nYou may need to escape any $ with another $.\n"

// classifyInterpErr maps the error of interpolation.Interpolate to {err: class, path, var}.
func classifyInterpErr(err error) map[string]any {
	text := err.Error()
	var req *template.MissingRequiredError
	const pfx = "error while interpolating "
	if strings.HasPrefix(text, "invalid interpolation format for ") {
		rest := strings.TrimPrefix(text, "invalid interpolation format for ")
		if i := strings.Index(rest, invalidMarker); i >= 0 {
			return map[string]any{"err": "invalid", "path": rest[:i]}
		}
	}
	if strings.HasPrefix(text, pfx) {
		inner := errors.Unwrap(err)
		if inner != nil && strings.HasSuffix(text, ": "+inner.Error()) {
			path := strings.TrimSuffix(strings.TrimPrefix(text, pfx), ": "+inner.Error())
			if errors.As(err, &req) {
				return map[string]any{"err": "required", "path": path, "var": req.Variable}
			}
			if strings.HasPrefix(inner.Error(), "failed to cast to expected type: ") {
				return map[string]any{"err": "cast", "path": path}
			}
		}
	}
	return map[string]any{"err": "other", "text": text}
}

func fmt64(f float64) string { return strconv.FormatFloat(f, 'g', -1, 64) }
func fmt32(f float32) string { return strconv.FormatFloat(float64(f), 'g', -1, 32) }

// rawTables is the opaque part of the model's float casters (Model/InterpFloat.lean `RawFloat`), rendered from the standard
// library on the texts of one case: strconv.ParseFloat on a text and on the text without underscores, and the conversions
// float64(i) / float32(float64(i)) of every integer some reading of the text yields.  Which reading applies is the
// model's business (parseYAMLFloat), not the harness's.
type rawTables struct {
	P64 map[string]string `json:"p64"`
	P32 map[string]string `json:"p32"`
	I64 map[string]string `json:"i64"`
	I32 map[string]string `json:"i32"`
}

func newRawTables() *rawTables {
	return &rawTables{P64: map[string]string{}, P32: map[string]string{}, I64: map[string]string{}, I32: map[string]string{}}
}

func (t *rawTables) addInt(dec string, f float64) {
	t.I64[dec] = fmt64(f)
	t.I32[dec] = fmt32(float32(f))
}

func (t *rawTables) add(s string) {
	plain := strings.ReplaceAll(s, "_", "")
	for _, x := range []string{s, plain} {
		if f, err := strconv.ParseFloat(x, 64); err == nil {
			t.P64[x] = fmt64(f)
		}
		if f, err := strconv.ParseFloat(x, 32); err == nil {
			t.P32[x] = fmt32(float32(f))
		}
	}
	for _, base := range []int{0, 2, 8, 10} {
		if i, err := strconv.ParseInt(plain, base, 64); err == nil {
			t.addInt(strconv.FormatInt(i, 10), float64(i))
		}
	}
	if u, err := strconv.ParseUint(plain, 0, 64); err == nil {
		t.addInt(strconv.FormatUint(u, 10), float64(u))
	}
	// whatever the real integer caster reads (yaml.v3's sign-after-prefix spellings `0b+1`, `0o-7`)
	if c := castByPattern("services.*.cpu_count"); c != nil {
		if v, err := c(s); err == nil {
			if i, ok := v.(int64); ok {
				t.addInt(strconv.FormatInt(i, 10), float64(i))
			}
		}
	}
}

func (t *rawTables) into(out map[string]any) {
	out["p64"], out["p32"], out["i64"], out["i32"] = t.P64, t.P32, t.I64, t.I32
}

// floatTables renders the opaque float part on every substituted string leaf.
func floatTables(v any, lookup template.Mapping, t *rawTables) {
	switch x := v.(type) {
	case string:
		s, err := template.Substitute(x, lookup)
		if err != nil {
			return
		}
		t.add(s)
	case map[string]any:
		for _, e := range x {
			floatTables(e, lookup, t)
		}
	case []any:
		for _, e := range x {
			floatTables(e, lookup, t)
		}
	}
}

var rawTableKeys = []string{"p64", "p32", "i64", "i32"}

func realInterpolate(raw json.RawMessage) any {
	var a struct {
		Tree json.RawMessage   `json:"tree"`
		Env  map[string]string `json:"env"`
	}
	if err := json.Unmarshal(raw, &a); err != nil {
		return map[string]any{"bad": err.Error()}
	}
	t, ok := core.DecodeValRaw(a.Tree).(map[string]any)
	if !ok {
		return map[string]any{"bad": "tree is not a mapping"}
	}
	lookup := func(k string) (string, bool) { v, ok := a.Env[k]; return v, ok }
	in := core.DeepCopyVal(t).(map[string]any)
	res, err := interpolation.Interpolate(in, interpolation.Options{LookupValue: lookup, TypeCastMapping: loader.VerifCastTable()})
	rt := newRawTables()
	floatTables(t, lookup, rt)
	out := map[string]any{"input_unchanged": core.CanonEqual(mustJ(core.EncodeVal(in)), mustJ(core.EncodeVal(t)))}
	rt.into(out)
	if err != nil {
		for k, v := range classifyInterpErr(err) {
			out[k] = v
		}
	} else {
		out["ok"] = core.EncodeVal(res)
	}
	return out
}

func mustJ(v any) json.RawMessage {
	b, err := json.Marshal(v)
	if err != nil {
		panic(err)
	}
	return b
}

// ---- the direct (model-free) decision of "only string values change" on a real outcome

// pathKeyClass abstracts a concrete path to the pattern of the cast table that matches it ("-" if none).
func castPattern(p tree.Path) string {
	var hits []string
	for pat := range loader.VerifCastTable() {
		if p.Matches(pat) {
			hits = append(hits, string(pat))
		}
	}
	sort.Strings(hits)
	if len(hits) == 0 {
		return "-"
	}
	return strings.Join(hits, "|")
}

func nextPath(p tree.Path, top bool, k string) tree.Path {
	if top {
		return tree.NewPath(k)
	}
	return p.Next(k)
}

type shapeCtx struct {
	leafPaths map[string]bool // path.String() of every string leaf of the input
}

// shapeDiff returns "" when out is in, up to string leaves having become scalars.
func (sc *shapeCtx) shapeDiff(in, out any, p tree.Path, top bool) string {
	switch x := in.(type) {
	case string:
		sc.leafPaths[p.String()] = true
		switch out.(type) {
		case string, bool, int, int64, float64, float32:
			return ""
		}
		return fmt.Sprintf("string leaf became %T", out)
	case map[string]any:
		y, ok := out.(map[string]any)
		if !ok {
			return fmt.Sprintf("mapping became %T", out)
		}
		if len(x) != len(y) {
			return "mapping changed its key set"
		}
		ks := make([]string, 0, len(x))
		for k := range x {
			ks = append(ks, k)
		}
		sort.Strings(ks)
		for _, k := range ks {
			e, ok := y[k]
			if !ok {
				return "mapping changed its key set"
			}
			if d := sc.shapeDiff(x[k], e, nextPath(p, top, k), false); d != "" {
				return d
			}
		}
		return ""
	case []any:
		y, ok := out.([]any)
		if !ok {
			return fmt.Sprintf("sequence became %T", out)
		}
		if len(x) != len(y) {
			return "sequence changed its length"
		}
		for i := range x {
			if d := sc.shapeDiff(x[i], y[i], p.Next(tree.PathMatchList), false); d != "" {
				return d
			}
		}
		return ""
	default:
		if !core.CanonEqual(mustJ(core.EncodeVal(in)), mustJ(core.EncodeVal(out))) {
			return fmt.Sprintf("non-string scalar %T changed", in)
		}
		return ""
	}
}

func collectLeafPaths(in any, p tree.Path, top bool, acc map[string]bool) {
	switch x := in.(type) {
	case string:
		acc[p.String()] = true
	case map[string]any:
		for k, e := range x {
			collectLeafPaths(e, nextPath(p, top, k), false, acc)
		}
	case []any:
		for _, e := range x {
			collectLeafPaths(e, p.Next(tree.PathMatchList), false, acc)
		}
	}
}

func judgeInterpolate(args, real, drv json.RawMessage) *core.Verdict {
	if v := core.CrashVerdict(real); v != nil {
		return v
	}
	var r struct {
		InputUnchanged bool   `json:"input_unchanged"`
		Bad            string `json:"bad"`
	}
	if json.Unmarshal(real, &r) != nil || r.Bad != "" {
		return core.Skip("malformed case: " + r.Bad)
	}
	var a struct {
		Tree json.RawMessage `json:"tree"`
	}
	json.Unmarshal(args, &a)
	in := core.DecodeValRaw(a.Tree)
	var ro struct {
		Ok   json.RawMessage `json:"ok"`
		Err  string          `json:"err"`
		Path string          `json:"path"`
		Text string          `json:"text"`
		Var  *string         `json:"var"`
	}
	json.Unmarshal(real, &ro)
	// --- direct oracle on the real outcome
	if !r.InputUnchanged {
		return core.Fail("interpolate:mutates-input", "interpolation.Interpolate changed its argument")
	}
	if ro.Err == "" {
		sc := &shapeCtx{leafPaths: map[string]bool{}}
		if d := sc.shapeDiff(in, core.DecodeValRaw(ro.Ok), tree.NewPath(), true); d != "" {
			return core.Fail("interpolate:shape:"+d, "interpolation changed more than string scalar values: "+d)
		}
	} else {
		if ro.Err == "other" {
			return core.Fail("interpolate:error-without-path", "interpolation error does not name an attribute path: "+ro.Text)
		}
		lp := map[string]bool{}
		collectLeafPaths(in, tree.NewPath(), true, lp)
		if !lp[ro.Path] {
			return core.Fail("interpolate:error-path-not-a-string-leaf", fmt.Sprintf("error names %q which is not the path of a string value", ro.Path))
		}
	}
	// --- correspondence with the model
	var d struct {
		Ok    json.RawMessage   `json:"ok"`
		Errs  []json.RawMessage `json:"errs"`
		Panic string            `json:"panic"`
	}
	if drv == nil || json.Unmarshal(drv, &d) != nil {
		return core.Disagree("no driver answer")
	}
	if ro.Err == "" {
		if d.Ok == nil || !core.CanonEqual(ro.Ok, d.Ok) {
			return core.Disagree("Interp.interpolate ≠ interpolation.Interpolate (value)")
		}
		return nil
	}
	me := map[string]any{"err": ro.Err, "path": ro.Path}
	if ro.Var != nil {
		me["var"] = *ro.Var
	}
	for _, e := range d.Errs {
		if core.CanonEqual(e, mustJ(me)) {
			return nil
		}
	}
	return core.Disagree("Interp.interpolate ≠ interpolation.Interpolate (error not reachable in the model)")
}

// ---- casters

type casterArgs struct {
	S string `json:"s"`
}

func castByPattern(pat string) interpolation.Cast {
	return loader.VerifCastTable()[tree.Path(pat)]
}

func realCasters(raw json.RawMessage) any {
	var a casterArgs
	json.Unmarshal(raw, &a)
	out := map[string]any{}
	// cast-table mechanism
	toInt, toInt64, toBool := castByPattern("services.*.scale"), castByPattern("services.*.cpu_count"), castByPattern("services.*.init")
	toF64, toF32 := castByPattern("services.*.cpu_percent"), castByPattern("services.*.cpus")
	if toInt == nil || toInt64 == nil || toBool == nil || toF64 == nil || toF32 == nil {
		return map[string]any{"bad": "cast table lost one of scale/cpu_count/init/cpu_percent/cpus"}
	}
	tbl := map[string]any{}
	if v, err := toInt(a.S); err == nil {
		tbl["int"] = strconv.Itoa(v.(int))
	} else {
		tbl["int"] = nil
	}
	if v, err := toInt64(a.S); err == nil {
		tbl["int64"] = strconv.FormatInt(v.(int64), 10)
	} else {
		tbl["int64"] = nil
	}
	if v, err := toBool(a.S); err == nil {
		tbl["bool"] = v.(bool)
	} else {
		tbl["bool"] = nil
	}
	if v, err := toF64(a.S); err == nil {
		tbl["f64"] = fmt64(v.(float64))
	} else {
		tbl["f64"] = nil
	}
	if v, err := toF32(a.S); err == nil {
		tbl["f32"] = fmt32(v.(float32))
	} else {
		tbl["f32"] = nil
	}
	// decode-time mechanism (loader.Transform runs the mapstructure hook `cast`)
	dec := map[string]any{}
	var i int
	if err := loader.Transform(a.S, &i); err == nil {
		dec["int"] = strconv.Itoa(i)
	} else {
		dec["int"] = nil
	}
	var i64 int64
	if err := loader.Transform(a.S, &i64); err == nil {
		dec["int64"] = strconv.FormatInt(i64, 10)
	} else {
		dec["int64"] = nil
	}
	var b bool
	if err := loader.Transform(a.S, &b); err == nil {
		dec["bool"] = b
	} else {
		dec["bool"] = nil
	}
	var f64 float64
	if err := loader.Transform(a.S, &f64); err == nil {
		dec["f64"] = fmt64(f64)
	} else {
		dec["f64"] = nil
	}
	var f32 float32
	if err := loader.Transform(a.S, &f32); err == nil {
		dec["f32"] = fmt32(f32)
	} else {
		dec["f32"] = nil
	}
	out["table"] = tbl
	out["decode"] = dec
	// what yaml.v3 makes of the text as a plain literal (tie of Spec.yamlInt): an int, or anything else = null
	out["yamlint"] = nil
	if plainScalarRe.MatchString(a.S) {
		var v any
		if err := yaml.Unmarshal([]byte(a.S), &v); err == nil {
			switch i := v.(type) {
			case int:
				out["yamlint"] = strconv.Itoa(i)
			case int64:
				out["yamlint"] = strconv.FormatInt(i, 10)
			}
		}
	}
	// the opaque part of the model's float casters for this text
	rt := newRawTables()
	rt.add(a.S)
	rt.into(out)
	// the self-decoding numeric types on a string source (Model/InterpCustom.lean)
	var dc types.DeviceCount
	if err := loader.Transform(a.S, &dc); err == nil {
		out["devicecount"] = strconv.FormatInt(int64(dc), 10)
	} else {
		out["devicecount"] = nil
	}
	var ub types.UnitBytes
	if err := loader.Transform(a.S, &ub); err == nil {
		out["bytes"] = []string{"ok", strconv.FormatInt(int64(ub), 10)}
	} else {
		cls := "other"
		switch {
		case strings.Contains(err.Error(), "invalid size"):
			cls = "invalid-size"
		case strings.Contains(err.Error(), "invalid suffix"):
			cls = "invalid-suffix"
		}
		out["bytes"] = []string{"err", cls}
	}
	var nc types.NanoCPUs
	nano := any(nil)
	if err := loader.Transform(a.S, &nc); err == nil {
		nano = fmt32(float32(nc))
	}
	out["nanocpus"] = nano
	return out
}

// texts that are one plain scalar for YAML whatever they contain (no indicator, no space, no document marker)
var plainScalarRe = regexp.MustCompile(`^[-+]?[0-9A-Za-z_][0-9A-Za-z_+.\-]*$`)

func judgeCasters(args, real, drv json.RawMessage) *core.Verdict {
	if v := core.CrashVerdict(real); v != nil {
		return v
	}
	var r struct {
		Table, Decode map[string]any
		Bad           string
		Yamlint       any
		Devicecount   any
		Bytes         []string
		Nanocpus      any
	}
	if json.Unmarshal(real, &r) != nil || r.Bad != "" {
		return core.Disagree("casters: " + r.Bad)
	}
	var a casterArgs
	json.Unmarshal(args, &a)
	// direct: the two mechanisms convert every text identically
	for _, k := range []string{"int", "int64", "bool", "f64", "f32"} {
		if fmt.Sprint(r.Table[k]) != fmt.Sprint(r.Decode[k]) {
			return core.Fail("casters-differ:"+k, fmt.Sprintf("cast table gives %v but the decode-time cast gives %v for %s %q", r.Table[k], r.Decode[k], k, a.S))
		}
	}
	// direct: every text YAML resolves to an integer is cast to that integer
	if r.Yamlint != nil && (fmt.Sprint(r.Table["int64"]) != fmt.Sprint(r.Yamlint) || fmt.Sprint(r.Table["int"]) != fmt.Sprint(r.Yamlint)) {
		return core.Fail("casters:yaml-int-literal-differs", fmt.Sprintf("yaml.v3 reads the literal %q as %v but toInt gives %v and toInt64 %v", a.S, r.Yamlint, r.Table["int"], r.Table["int64"]))
	}
	var d map[string]any
	if drv == nil || json.Unmarshal(drv, &d) != nil {
		return core.Disagree("no driver answer")
	}
	if fmt.Sprint(d["int"]) != fmt.Sprint(r.Table["int"]) || fmt.Sprint(d["int"]) != fmt.Sprint(r.Table["int64"]) {
		return core.Disagree(fmt.Sprintf("Interp.parseInt(%q)=%v but toInt=%v toInt64=%v", a.S, d["int"], r.Table["int"], r.Table["int64"]))
	}
	want := d["yamlint"]
	if !plainScalarRe.MatchString(a.S) {
		want = nil // outside the texts the harness can write as one plain scalar
	}
	if fmt.Sprint(want) != fmt.Sprint(r.Yamlint) {
		return core.Disagree(fmt.Sprintf("Spec.yamlInt(%q)=%v but yaml.v3 gives %v", a.S, d["yamlint"], r.Yamlint))
	}
	for _, k := range []string{"f64", "f32"} {
		if fmt.Sprint(d[k]) != fmt.Sprint(r.Table[k]) {
			return core.Disagree(fmt.Sprintf("Interp.parseYAMLFloat(%q) (%s) = %v but the caster gives %v", a.S, k, d[k], r.Table[k]))
		}
	}
	if fmt.Sprint(d["devicecount"]) != fmt.Sprint(r.Devicecount) {
		return core.Disagree(fmt.Sprintf("Interp.decodeDeviceCount(%q)=%v but DeviceCount.DecodeMapstructure gives %v", a.S, d["devicecount"], r.Devicecount))
	}
	if mb, ok := d["bytes"].([]any); ok && len(mb) == 2 && len(r.Bytes) == 2 && mb[0] != "unmodelled" {
		if fmt.Sprint(mb[0]) != r.Bytes[0] || fmt.Sprint(mb[1]) != r.Bytes[1] {
			return core.Disagree(fmt.Sprintf("Interp.decodeUnitBytes(%q)=%v but UnitBytes.DecodeMapstructure gives %v", a.S, mb, r.Bytes))
		}
	}
	// NanoCPUs(f) narrows the 64-bit reading to float32
	wantNano := any(nil)
	if m, ok := d["nanocpus"].(string); ok {
		if f, err := strconv.ParseFloat(m, 64); err == nil || errors.Is(err, strconv.ErrRange) {
			wantNano = fmt32(float32(f))
		} else {
			wantNano = "?" + m
		}
	}
	if fmt.Sprint(wantNano) != fmt.Sprint(r.Nanocpus) {
		return core.Disagree(fmt.Sprintf("Interp.decodeNanoCPUs(%q)=%v but NanoCPUs.DecodeMapstructure gives %v", a.S, wantNano, r.Nanocpus))
	}
	if fmt.Sprint(d["bool"]) != fmt.Sprint(r.Table["bool"]) {
		return core.Disagree(fmt.Sprintf("Interp.parseBool(%q)=%v but toBoolean=%v", a.S, d["bool"], r.Table["bool"]))
	}
	return nil
}

// ---- generators

// typed texts: valid and invalid spellings for every caster
var c08IntTexts = []string{"0", "1", "-1", "+5", "007", "42", "-0", "+0", "65536", "9223372036854775807", "9223372036854775808",
	"-9223372036854775808", "-9223372036854775809", "99999999999999999999999", "1_000", "0x10", "0o7", "0b1", "1e3", "1.0", " 1", "1 ", "", "+", "-", "+-1", "--1",
	"٣", "１", "1\n", "12a", "a"}
var c08BoolTexts = []string{"true", "True", "TRUE", "tRuE", "false", "False", "FALSE", "y", "Y", "yes", "Yes", "YES", "on", "On", "ON", "oN",
	"n", "N", "no", "No", "NO", "off", "Off", "OFF", "t", "f", "1", "0", "", "truee", " true", "true ", "ｔrue", "ON\n", "yes!", "~", "null", "K", "İ"}
var c08FloatTexts = []string{"0.5", "1", "1e3", ".5", "5.", "-0", "+1.25", "inf", "-Inf", "NaN", "Infinity", "1e400", "1e-400", "0x1p-2", "1_0.5", "1.5.2", "abc", "", "0.1", "16777217", "3.4e39", "1,5"}

func c08AllTexts() []string {
	seen := map[string]bool{}
	var l []string
	for _, g := range [][]string{c08IntTexts, c08BoolTexts, c08FloatTexts} {
		for _, s := range g {
			if !seen[s] {
				seen[s] = true
				l = append(l, s)
			}
		}
	}
	return l
}

// sortedCastPatterns lists the rows of the real cast table.
func sortedCastPatterns() []string {
	var l []string
	for pat := range loader.VerifCastTable() {
		l = append(l, string(pat))
	}
	sort.Strings(l)
	return l
}

// instantiate builds the smallest tree that has `leaf` at a path matching the pattern.
func instantiate(pat string, name string, leaf any) map[string]any {
	parts := strings.Split(pat, ".")
	var build func(i int) any
	build = func(i int) any {
		if i == len(parts) {
			return leaf
		}
		switch parts[i] {
		case "[]":
			return []any{build(i + 1)}
		case "*":
			return map[string]any{name: build(i + 1)}
		default:
			return map[string]any{parts[i]: build(i + 1)}
		}
	}
	if parts[0] == "[]" {
		return map[string]any{"x": build(0)}
	}
	return build(0).(map[string]any)
}

// varForms writes `text` as a template in every way the property quantifies over; each form with its env.
type varForm struct {
	Name string
	Tmpl string
	Env  map[string]string
	// mk builds the form around a variable called vn (nil: the classic forms, whose variable `V` is renamed textually)
	mk func(vn string) (string, map[string]string)
}

// named gives the form with its own variable called vn (documents carry several templated leaves, each with its own variable).
func (f varForm) named(vn string) (string, map[string]string) {
	if f.mk != nil {
		return f.mk(vn)
	}
	env := map[string]string{}
	for k, e := range f.Env {
		if k == "V" {
			env[vn] = e
		} else {
			env[k] = e
		}
	}
	return strings.Replace(strings.Replace(f.Tmpl, "${V}", "${"+vn+"}", 1), "$V", "$"+vn, 1), env
}

func isPlain(s string) bool { return !strings.ContainsAny(s, "${}\n\r") }

func isNameByte(c rune) bool {
	return c == '_' || (c >= '0' && c <= '9') || (c >= 'a' && c <= 'z') || (c >= 'A' && c <= 'Z')
}

func escDollar(s string) string { return strings.ReplaceAll(s, "$", "$$") }

// tailForms (round 6): text = p + a + b written as  esc(p) + <operator expression evaluating to a> + tail(b), where `a` is
// plain and tail(b) writes b with every `$` doubled (`tail-esc:*`) or with one chunk of b supplied through a bare `$W`
// (`tail-bare:*`).  What follows a braced operator expression on the same line up to the last `}` is part of the same greedy
// regexp match (template.DefaultReplacementAppliedFunc: `rest`) and gets a substitution pass of its own: escapes, bare
// variables and closing braces in that tail are the input class the classic forms never produced.
func tailForms(text string, split int) []varForm {
	r := []rune(text)
	i := split % (len(r) + 1)
	run := 0
	for i+run < len(r) && isPlain(string(r[i+run])) {
		run++
	}
	j := i + (split/7)%(run+1)
	p, a, b := string(r[:i]), string(r[i:j]), r[j:]
	type opx struct {
		name, expr string
		env        map[string]string
	}
	ops := []opx{
		{"default", "${UNSET:-" + a + "}", map[string]string{}},
		{"default-empty", "${EMPTY:-" + a + "}", map[string]string{"EMPTY": ""}},
		{"alt", "${SET:+" + a + "}", map[string]string{"SET": "1"}},
		{"default-unset", "${UNSET-" + a + "}", map[string]string{}},
		{"alt-set", "${SET+" + a + "}", map[string]string{"SET": "1"}},
	}
	o := ops[(split/3)%len(ops)]
	var fs []varForm
	fs = append(fs, varForm{Name: "tail-esc:" + o.name, Tmpl: escDollar(p) + o.expr + escDollar(string(b)), Env: o.env,
		mk: func(string) (string, map[string]string) { return escDollar(p) + o.expr + escDollar(string(b)), o.env }})
	if len(b) > 0 {
		// one chunk b[k:l] through a bare variable; the name must end where the chunk ends
		k := (split / 11) % len(b)
		l := k + 1 + (split/13)%(len(b)-k)
		for l < len(b) && isNameByte(b[l]) {
			l++
		}
		b1, w, b2 := string(b[:k]), string(b[k:l]), string(b[l:])
		mk := func(vn string) (string, map[string]string) {
			env := map[string]string{vn: w}
			for k, e := range o.env {
				env[k] = e
			}
			return escDollar(p) + o.expr + escDollar(b1) + "$" + vn + escDollar(b2), env
		}
		t, e := mk("V")
		fs = append(fs, varForm{Name: "tail-bare:" + o.name, Tmpl: t, Env: e, mk: mk})
	}
	return fs
}

func isTailForm(f varForm) bool { return strings.HasPrefix(f.Name, "tail-") }

func varForms(text string, split int) []varForm {
	fs := []varForm{{Name: "var", Tmpl: "${V}", Env: map[string]string{"V": text}}, {Name: "bare", Tmpl: "$V", Env: map[string]string{"V": text}}}
	if !strings.Contains(text, "$") {
		fs = append(fs, varForm{Name: "literal", Tmpl: text, Env: map[string]string{}})
	}
	if isPlain(text) {
		fs = append(fs, varForm{Name: "default", Tmpl: "${UNSET:-" + text + "}", Env: map[string]string{}})
		fs = append(fs, varForm{Name: "default-empty", Tmpl: "${EMPTY:-" + text + "}", Env: map[string]string{"EMPTY": ""}})
		fs = append(fs, varForm{Name: "alt", Tmpl: "${SET:+" + text + "}", Env: map[string]string{"SET": "1"}})
		r := []rune(text)
		if len(r) > 0 {
			i := split % (len(r) + 1)
			j := i + (split/7)%(len(r)-i+1)
			fs = append(fs, varForm{Name: "split", Tmpl: string(r[:i]) + "${V}" + string(r[j:]), Env: map[string]string{"V": string(r[i:j])}})
		}
	}
	return append(fs, tailForms(text, split)...)
}

// c08TailTexts: literal texts whose tail (after a plain stretch) holds `$`, closing braces, both — the texts the tail forms
// are about (a shell one-liner with awk fields, a Go/Jinja-like template, stray braces).
var c08TailTexts = []string{"awk '{print $1}' f", "a $ }", "x $HOME }", "{$}", "1}$}", "cd /app && echo ${PWD} }", "v} $$ }", "}", "a}b", "{a}", "$}", "$x}y", "7 }",
	"run x y}", "{{.Name}} costs $5}", "a}$", "yes}", "k=v; f() { echo $1; }", "é}$世}", "$$}", "a${b}c}"}

// rndTailText: seeded soup over the alphabet that matters to the template regexp.
func rndTailText(rng interface{ Intn(int) int }) string {
	alpha := []string{"a", "1", " ", "$", "{", "}", "}", "$", ":", "-", "_", "x", "?", "+"}
	n := 1 + rng.Intn(9)
	var b strings.Builder
	for i := 0; i < n; i++ {
		b.WriteString(alpha[rng.Intn(len(alpha))])
	}
	return b.String()
}

var c08StringsValid = []string{"", "x", "a b", "nginx:1.2", "$$", "a$$b", "${A}", "$A", "${A:-d}", "${B:-${A}}", "$", "$ x", "${A:-a}b}", "pre${A}post",
	"true", "yes", "5", "0.5", "-3", "line1\nline2${A}", "é世", "a.b", "${E:-}", "${E-z}", "${A:+alt}", "$$${A}", "${U:-u}", "${U-}",
	// round 6: text after an operator expression inside the same greedy match (`rest` of DefaultReplacementAppliedFunc)
	"${U:-x} $$ }", "${U:-x} $A }", "${A:+y}$$}", "${E-z}$A}}", "${U-x}$$1}", "a${E:-d} {$$}", "${A:-x} } $$ ${B:-y}", "${U:-x}$N}$$", "${A:+y} $ }", "${U:-${A}} $$ }"}
var c08StringsBad = []string{"${U:?need}", "${U?}", "${", "${A", "${1}", "${}", "${A!}", "${N}", "${T}"}
var c08Strings = append(append([]string{}, c08StringsValid...), c08StringsBad...)
var c08Envs = []map[string]string{
	{"A": "v", "N": "7", "T": "on", "E": ""},
	{"A": "", "N": "x", "T": "maybe"},
	{},
	{"A": "$A${A:-x}$$", "N": "-9223372036854775809", "T": "FALSE", "E": "e"},
	{"A": "0.25", "N": "+12", "T": "Y", "U": "set"},
}
var c08Keys = []string{"services", "networks", "volumes", "secrets", "configs", "a", "b", "init", "scale", "cpus", "cpu_percent", "cpu_count", "ulimits", "nofile", "hard", "soft", "ports", "target",
	"external", "deploy", "replicas", "healthcheck", "retries", "disable", "volume", "nocopy", "read_only", "mode", "x-ext", "environment", "a.b", "", "*", "[]", "👻", "tty", "image", "command", "labels", "privileged", "internal"}

// floatBranch names the branch of the model `parseYAMLFloat` (Model/InterpFloat.lean) a text takes, from the standard
// library alone: the measured input distribution of the `c08casters` stream over the model's branches.
func floatBranch(s string) string {
	plain := strings.ReplaceAll(s, "_", "")
	if _, err := strconv.ParseInt(plain, 0, 64); err == nil {
		return "int-base0"
	}
	for _, pre := range []string{"0b", "-0b", "0o", "-0o"} {
		if rest, ok := strings.CutPrefix(plain, pre); ok {
			base := map[byte]int{'b': 2, 'o': 8}[pre[len(pre)-1]]
			if _, err := strconv.ParseInt(strings.TrimSuffix(pre, pre[len(pre)-2:])+rest, base, 64); err == nil {
				return "int-sign-after-prefix"
			}
		}
	}
	if _, err := strconv.ParseInt(plain, 10, 64); err == nil {
		return "int-decimal-not-octal"
	}
	if _, err := strconv.ParseUint(plain, 0, 64); err == nil {
		return "uint"
	}
	if _, err := strconv.ParseFloat(plain, 64); err == nil {
		return "float-without-underscores"
	}
	if _, err := strconv.ParseFloat(s, 64); err == nil {
		return "float-raw"
	}
	return "rejected"
}

func addCaster(ctx *core.Ctx, s string) {
	ctx.Count("float-branch:" + floatBranch(s))
	ctx.Add("c08casters", casterArgs{S: s})
}

func runC08(ctx *core.Ctx) {
	pats := sortedCastPatterns()
	texts := c08AllTexts()

	// 0. casters alone: exhaustive over the text list, then seeded random digit/letter soup
	for _, s := range texts {
		ctx.Count("casters-listed")
		addCaster(ctx, s)
	}
	soup := []string{"0", "1", "9", "-", "+", "_", "t", "r", "u", "e", "T", "y", "Y", "o", "n", "N", "f", "F", "a", "l", "s", "S", " ", ".", "e", "x", "K", "ſ"}
	for i := 0; i < ctx.Pick(4000, 200000); i++ {
		n := 1 + ctx.Rng.Intn(5)
		if ctx.Rng.Intn(6) == 0 {
			n = 17 + ctx.Rng.Intn(5)
		}
		var b strings.Builder
		for j := 0; j < n; j++ {
			if n > 10 {
				b.WriteString(soup[ctx.Rng.Intn(5)])
			} else {
				b.WriteString(soup[ctx.Rng.Intn(len(soup))])
			}
		}
		ctx.Count("casters-random")
		addCaster(ctx, b.String())
	}
	// texts for the self-decoding types: sizes with units, `all`, negatives
	for _, o := range []string{"all", "ALL", "All", "alL ", "64m", "1gb", "512k", "1024b", "1kb", "10M", "2g", "1 m", "1mib", "3t", "1p", "-1", "-0", "010", "0x10", "1_024", "10x", "m", "1kk", "1.5g", "9007199254740993"} {
		ctx.Count("casters-custom")
		addCaster(ctx, o)
	}
	// YAML integer spellings (tie of Spec.yamlInt), incl. the int64 boundary
	for _, o := range []string{"0X1f", "0B11", "0O17", "0b+1", "0o-7", "0b-1", "-0b11", "-0o7", "-0b+1", "0_8", "09", "018", "+08", "0x", "0b", "0o", "0x_", "1__0", "_1", "+_1", "-_",
		"0x7fffffffffffffff", "0x8000000000000000", "-0x8000000000000000", "-0x8000000000000001", "0xffffffffffffffff", "0x10000000000000000", "0b2", "0o8", "0xg", "00x1", "0x1p-2", "1e3", "1.0", "+", "-", "---", "-0", "+0", "0b", "0B_1", "0o_7", "-0O17", "+0x10", "0x1_0", "1_000", "2001-12-14", "12:30", "0.", ".5", "1_0.5", "010.5",
		"00", "07", "010", "0440", "0777", "0644", "08", "0", "00000", "0777777777777777777777", "01000000000000000000000", "0777777777777777777778"} {
		ctx.Count("casters-octal")
		addCaster(ctx, o)
	}
	for i := 0; i < ctx.Pick(300, 20000); i++ {
		n := 1 + ctx.Rng.Intn(6)
		if ctx.Rng.Intn(8) == 0 {
			n = 20 + ctx.Rng.Intn(4)
		}
		b := []byte{'0'}
		for j := 0; j < n; j++ {
			b = append(b, byte('0'+ctx.Rng.Intn(8)))
		}
		if ctx.Rng.Intn(3) == 0 {
			// prefixed / signed / underscored variants over a hex alphabet
			alpha := "0123456789abcdefABCDEFxXoObB_+-"
			pre := []string{"0x", "0X", "0o", "0b", "-0x", "-0b", "-0o", "+0", "0", "", "-", "0b-", "0o+"}[ctx.Rng.Intn(13)]
			b = []byte(pre)
			for j := 0; j < n; j++ {
				k := ctx.Rng.Intn(len(alpha))
				if ctx.Rng.Intn(3) != 0 {
					k = ctx.Rng.Intn(10)
				}
				b = append(b, alpha[k])
			}
		}
		ctx.Count("casters-octal")
		addCaster(ctx, string(b))
	}
	// near the int64 boundary
	for _, d := range []int64{-2, -1, 0} {
		for _, base := range []int64{math.MaxInt64, math.MinInt64 + 2} {
			ctx.Count("casters-boundary")
			addCaster(ctx, strconv.FormatInt(base+d, 10))
		}
	}

	// 1. exhaustive small scope: every row of the cast table × every listed text × every variable form,
	//    plus the same leaf one level off the pattern (sibling key / wrong depth): no cast there
	for _, pat := range pats {
		for ti, text := range texts {
			for _, f := range varForms(text, ti) {
				if isTailForm(f) && (ti+len(pat))%6 != 0 {
					continue
				}
				ctx.Count("row×text×" + f.Name)
				ctx.Add("interpolate", interpArgs{Tree: core.EncodeVal(instantiate(pat, "svc", f.Tmpl)), Env: f.Env})
			}
		}
		for _, text := range []string{"7", "yes", "0.5", "${V}"} {
			ctx.Count("row-near-miss")
			ctx.Add("interpolate", interpArgs{Tree: core.EncodeVal(instantiate(pat+".sub", "svc", text)), Env: map[string]string{"V": "1"}})
			ctx.Add("interpolate", interpArgs{Tree: core.EncodeVal(instantiate("x."+pat, "svc", text)), Env: map[string]string{"V": "1"}})
			ctx.Add("interpolate", interpArgs{Tree: core.EncodeVal(instantiate(pat, "s.v.c", text)), Env: map[string]string{"V": "1"}})
			ctx.Add("interpolate", interpArgs{Tree: core.EncodeVal(instantiate(strings.Replace(pat, ".", "👻", 1), "svc", text)), Env: map[string]string{"V": "1"}})
		}
	}
	// every string of the pool × every env at a plain path, a cast path, inside a list, under a dotted top-level key
	for _, s := range c08Strings {
		for _, env := range c08Envs {
			ctx.Count("pool×env")
			ctx.Add("interpolate", interpArgs{Tree: core.EncodeVal(map[string]any{
				"services": map[string]any{"a": map[string]any{"image": s, "scale": s, "init": s, "cpus": s, "command": []any{s, 1, true, nil, 0.5}}},
			}), Env: env})
			ctx.Add("interpolate", interpArgs{Tree: core.EncodeVal(map[string]any{"services.a.init": s, "": map[string]any{"k": s}, "x": []any{[]any{s}}}), Env: env})
		}
	}
	ctx.Res.Exhaustive = true

	// 2. seeded random trees: mostly structured (compose-like keys so that cast rows are hit), plus a malformed stream
	var rnd func(depth int, malformed bool) any
	rnd = func(depth int, malformed bool) any {
		k := ctx.Rng.Intn(10)
		if depth == 0 && k >= 6 {
			k = ctx.Rng.Intn(6)
		}
		switch {
		case k < 4:
			if malformed {
				if ctx.Rng.Intn(3) == 0 {
					return texts[ctx.Rng.Intn(len(texts))]
				}
				return c08Strings[ctx.Rng.Intn(len(c08Strings))]
			}
			return c08StringsValid[ctx.Rng.Intn(len(c08StringsValid))]
		case k == 4:
			return []any{nil, true, false, 0, 7, -1, 0.5, int(1 << 40)}[ctx.Rng.Intn(8)]
		case k == 5:
			if malformed {
				return core.KindValue(core.Kinds[ctx.Rng.Intn(len(core.Kinds))], ctx.Rng)
			}
			return "${V}"
		case k < 8:
			n := ctx.Rng.Intn(3)
			l := make([]any, n)
			for i := range l {
				l[i] = rnd(depth-1, malformed)
			}
			return l
		default:
			n := ctx.Rng.Intn(4)
			m := map[string]any{}
			for i := 0; i < n; i++ {
				m[c08Keys[ctx.Rng.Intn(len(c08Keys))]] = rnd(depth-1, malformed)
			}
			return m
		}
	}
	rndEnv := func() map[string]string {
		env := map[string]string{}
		for _, nm := range []string{"A", "B", "N", "T", "E", "U", "V"} {
			switch ctx.Rng.Intn(5) {
			case 0:
				env[nm] = ""
			case 1:
				env[nm] = texts[ctx.Rng.Intn(len(texts))]
			case 2:
				env[nm] = c08Strings[ctx.Rng.Intn(len(c08Strings))]
			}
		}
		return env
	}
	for i := 0; i < ctx.Pick(15000, 600000); i++ {
		// a compose-like skeleton: some cast rows instantiated with random leaves, merged with random subtrees
		t := map[string]any{}
		malformed := i%5 == 4
		env := rndEnv()
		env["EMPTY"], env["SET"] = "", "1"
		for j := ctx.Rng.Intn(4); j > 0; j-- {
			pat := pats[ctx.Rng.Intn(len(pats))]
			var leaf any
			if malformed && ctx.Rng.Intn(3) == 0 {
				leaf = rnd(2, true)
			} else {
				text := texts[ctx.Rng.Intn(len(texts))]
				if !malformed || ctx.Rng.Intn(2) == 0 {
					text = validTextFor(pat, ctx.Rng.Intn(1000))
				}
				fs := varForms(text, ctx.Rng.Intn(1000))
				f := fs[ctx.Rng.Intn(len(fs))]
				vn := fmt.Sprintf("V%d", j)
				tm, fenv := f.named(vn)
				leaf = tm
				for k, e := range fenv {
					if k != "EMPTY" && k != "SET" {
						env[k] = e
					}
				}
				if isTailForm(f) {
					delete(env, "UNSET")
					ctx.Count("random-tree-leaf:" + f.Name)
				}
			}
			mergeInto(t, instantiate(pat, []string{"a", "b", "s.1"}[ctx.Rng.Intn(3)], leaf))
		}
		for j := ctx.Rng.Intn(3); j > 0; j-- {
			t[c08Keys[ctx.Rng.Intn(len(c08Keys))]] = rnd(3, malformed)
		}
		if malformed {
			ctx.Count("random-tree-malformed")
		} else {
			ctx.Count("random-tree")
		}
		ctx.Add("interpolate", interpArgs{Tree: core.EncodeVal(t), Env: env})
	}

	runC08Docs(ctx)
	runC08Loads(ctx)
}

// validTextFor picks a text the caster of the row accepts.
func validTextFor(pat string, n int) string {
	c := castByPattern(pat)
	var ok []string
	for _, t := range c08AllTexts() {
		if _, err := c(t); err == nil {
			ok = append(ok, t)
		}
	}
	return ok[n%len(ok)]
}

// mergeInto adds src into dst (maps merged recursively, anything else replaced).
func mergeInto(dst, src map[string]any) {
	for k, v := range src {
		if dm, ok := dst[k].(map[string]any); ok {
			if sm, ok := v.(map[string]any); ok {
				mergeInto(dm, sm)
				continue
			}
		}
		dst[k] = v
	}
}

func init() {
	core.Register("interpolate", &core.CheckDef{
		Real:     realInterpolate,
		DriverOp: "interpolate",
		DriverArgs: func(args, real json.RawMessage) any {
			var a map[string]json.RawMessage
			json.Unmarshal(args, &a)
			var r map[string]json.RawMessage
			json.Unmarshal(real, &r)
			out := map[string]any{"tree": a["tree"], "env": a["env"]}
			for _, k := range rawTableKeys {
				out[k] = r[k]
			}
			return out
		},
		Judge: judgeInterpolate,
	})
	core.Register("c08casters", &core.CheckDef{Real: realCasters, DriverOp: "c08casters", Judge: judgeCasters,
		DriverArgs: func(args, real json.RawMessage) any {
			var a map[string]json.RawMessage
			json.Unmarshal(args, &a)
			var r map[string]json.RawMessage
			json.Unmarshal(real, &r)
			out := map[string]any{"s": a["s"]}
			for _, k := range rawTableKeys {
				out[k] = r[k]
			}
			return out
		}})
	core.RegisterProp("C08", runC08)
}
