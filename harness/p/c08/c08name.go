package c08

// The second call site of interpolation.Interpolate in the loader: loader.projectName interpolates the top-level `name`
// of the config files (with the same options, path `name`, no cast row) when the project name is not set imperatively.
// Oracle on whole loads: `name: <template>` with the matching environment ≡ `name: <literal>`, and — `$`-free name —
// interpolation on ≡ off.

import (
	"encoding/json"
	"fmt"

	"verifharness/core"
)

type nameArgs struct {
	Text string            `json:"text"` // the literal project name
	Tmpl string            `json:"tmpl"` // the same name through a variable form
	Form string            `json:"form"`
	Env  map[string]string `json:"env"`
}

func loadNamed(name string, env map[string]string, skip bool) json.RawMessage {
	doc := "name: " + emitYAML(name) + "\nservices:\n  web:\n    image: busybox\n    container_name: " + emitYAML("c-"+name) + "\n"
	out := core.SafeCall(func() any {
		return core.LoadOutcome(core.LoadReq{
			Files:             map[string]string{"compose.yaml": doc},
			ConfigFiles:       []string{"compose.yaml"},
			Env:               env,
			SkipInterpolation: skip,
		})
	})
	return mustJ(out)
}

func realName(raw json.RawMessage) any {
	var a nameArgs
	if err := json.Unmarshal(raw, &a); err != nil {
		return map[string]any{"bad": err.Error()}
	}
	return map[string]any{
		"lit": loadNamed(a.Text, nil, false),
		"var": loadNamed(a.Tmpl, a.Env, false),
		"off": loadNamed(a.Text, nil, true),
	}
}

func judgeName(args, real, _ json.RawMessage) *core.Verdict {
	if v := core.CrashVerdict(real); v != nil {
		return v
	}
	var a nameArgs
	json.Unmarshal(args, &a)
	var r struct{ Lit, Var, Off json.RawMessage }
	if json.Unmarshal(real, &r) != nil || r.Lit == nil {
		return core.Disagree("c08name: malformed real outcome")
	}
	for _, o := range []json.RawMessage{r.Lit, r.Var, r.Off} {
		if v := core.CrashVerdict(o); v != nil {
			return v
		}
	}
	lit, vr, off := parseOutcome(r.Lit), parseOutcome(r.Var), parseOutcome(r.Off)
	where := fmt.Sprintf("project name %q through %s (%q)", a.Text, a.Form, a.Tmpl)
	if lit.isOk() != vr.isOk() {
		return core.Fail("name:var-vs-literal-class", where+": literal and variable differ in success")
	}
	if lit.isOk() && !core.CanonEqual(lit.Ok, vr.Ok) {
		return core.Fail("name:var-vs-literal-value", where+": literal and variable give different projects")
	}
	if off.isOk() && !lit.isOk() {
		return core.Fail("name:onoff-class", where+": the `$`-free name loads with SkipInterpolation but not with interpolation on")
	}
	if off.isOk() && lit.isOk() && !core.CanonEqual(lit.Ok, off.Ok) {
		return core.Fail("name:onoff-value", where+": interpolation on and off give different projects for a `$`-free name")
	}
	return nil
}

func runC08Names(ctx *core.Ctx) {
	for ti, text := range []string{"proj1", "p", "my-app_2", "0start", "a1b2", "UPPER", "with.dot", "-lead", "x y", ""} {
		for _, f := range varForms(text, ti+3) {
			if f.Name == "literal" {
				continue
			}
			ctx.Count("name:" + f.Name)
			ctx.Add("c08name", nameArgs{Text: text, Tmpl: f.Tmpl, Form: f.Name, Env: f.Env})
		}
	}
}

func init() {
	core.Register("c08name", &core.CheckDef{Real: realName, Judge: judgeName})
}
