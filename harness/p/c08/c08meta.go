package c08

// C08 direct oracle, document level: generated compose documents × random choices of scalar leaves written as
// variable forms (c08meta), and `$`-bearing documents with every `$` of a value doubled (c08escape).

import (
	"encoding/json"
	"fmt"
	"math/rand"
	"os"
	"sort"
	"strconv"
	"strings"

	"github.com/compose-spec/compose-go/v2/loader"
	"github.com/compose-spec/compose-go/v2/tree"

	"verifharness/core"
)

// ---------------------------------------------------------------- document generator (mostly valid, `$`-free)

type attrChoice struct {
	key  string
	vals []any
}

func m(kv ...any) map[string]any {
	out := map[string]any{}
	for i := 0; i+1 < len(kv); i += 2 {
		out[kv[i].(string)] = kv[i+1]
	}
	return out
}
func l(v ...any) []any { return v }

var serviceAttrs = []attrChoice{
	{"command", l("echo hello world", l("sh", "-c", "echo hi"))},
	{"entrypoint", l(l("/bin/sh"), "/entry.sh arg")},
	{"environment", l(m("A", "1", "B", "two words", "C", nil, "D", 5, "E", true), l("A=1", "B=x y", "C"))},
	{"labels", l(m("com.example.x", "y", "n", 1), l("a=b"))},
	{"ports", l(l("8080:80", "127.0.0.1:9000:9000/udp"), l(m("target", 80, "published", "8080", "protocol", "tcp")), l(3000))},
	{"volumes", l(l("data:/var/lib", "./src:/app:ro"), l(m("type", "volume", "source", "data", "target", "/d", "read_only", true, "volume", m("nocopy", true))), l(m("type", "tmpfs", "target", "/t", "tmpfs", m("size", "1m", "mode", 448))))},
	{"init", l(true, false, "yes")},
	{"tty", l(true)},
	{"stdin_open", l(false)},
	{"privileged", l(true, "on")},
	{"read_only", l(true)},
	{"cpu_count", l(2)},
	{"cpu_percent", l(50)},
	{"cpus", l(0.5, "1.5", 2)},
	{"cpu_shares", l(512)},
	{"pids_limit", l(100, -1)},
	{"oom_score_adj", l(-500)},
	{"oom_kill_disable", l(true)},
	{"mem_limit", l("64m", 1048576)},
	{"shm_size", l("1gb")},
	{"stop_grace_period", l("1m30s")},
	{"healthcheck", l(m("test", l("CMD", "true"), "interval", "10s", "timeout", "5s", "retries", 3, "start_period", "1s"), m("disable", true))},
	{"deploy", l(m("replicas", 2, "update_config", m("parallelism", 2, "delay", "10s", "max_failure_ratio", 0.5), "restart_policy", m("condition", "on-failure", "max_attempts", 3, "window", "2m"),
		"resources", m("limits", m("cpus", "0.5", "memory", "50M", "pids", 10)), "placement", m("max_replicas_per_node", 1)), m("replicas", 1, "rollback_config", m("parallelism", 1, "max_failure_ratio", 0.25)))},
	{"ulimits", l(m("nofile", m("soft", 1024, "hard", 2048), "nproc", 512))},
	{"networks", l(l("front"), m("front", m("aliases", l("al"))))},
	{"secrets", l(l(m("source", "sec", "target", "/run/s", "mode", 288)), l("sec"))},
	{"configs", l(l(m("source", "cfg", "target", "/c", "mode", 292)))},
	{"extra_hosts", l(l("h:1.2.3.4"), m("h", "1.2.3.4"))},
	{"dns", l("8.8.8.8", l("8.8.8.8", "1.1.1.1"))},
	{"working_dir", l("/app")},
	{"user", l("1000:1000")},
	{"hostname", l("host1")},
	{"logging", l(m("driver", "json-file", "options", m("max-size", "10m", "n", 3)))},
	{"sysctls", l(m("net.core.somaxconn", 1024), l("a=b"))},
	{"x-ext", l(m("k", l(1, "s", true, 0.5, nil), "deep", m("a", m("b", "c"))), "text")},
	{"build", l(m("context", ".", "args", m("A", "1"), "no_cache", true, "shm_size", "128m", "ulimits", m("nofile", 100)), "./dir")},
	{"tmpfs", l("/run", l("/run", "/tmp"))},
	{"cap_add", l(l("NET_ADMIN"))},
	{"expose", l(l("3000", 8000))},
	{"restart", l("always")},
	{"stop_signal", l("SIGTERM")},
	{"blkio_config", l(m("weight", 300))},
	{"annotations", l(m("a", "b"))},
	{"attach", l(false)},
}

func genDoc(r *rand.Rand) map[string]any {
	doc := map[string]any{}
	svcs := map[string]any{}
	n := 1 + r.Intn(2)
	names := []string{"web", "db"}
	if r.Intn(4) == 0 {
		names[0] = "we.b" // a dotted service name: the walk escapes the dot, cast rows must still apply
	}
	for i := 0; i < n; i++ {
		s := map[string]any{"image": []string{"nginx:1.2", "busybox"}[r.Intn(2)]}
		k := 2 + r.Intn(7)
		for j := 0; j < k; j++ {
			a := serviceAttrs[r.Intn(len(serviceAttrs))]
			s[a.key] = core.DeepCopyVal(a.vals[r.Intn(len(a.vals))])
		}
		if _, ok := s["build"]; ok && r.Intn(2) == 0 {
			delete(s, "image")
		}
		if i == 1 && r.Intn(2) == 0 {
			s["depends_on"] = m(names[0], m("condition", "service_started", "restart", true))
		}
		svcs[names[i]] = s
	}
	doc["services"] = svcs
	doc["networks"] = m("front", m("driver", "bridge", "internal", true, "attachable", false, "enable_ipv6", false, "labels", m("l", "v"), "ipam", m("config", l(m("subnet", "10.0.0.0/24")))))
	doc["volumes"] = m("data", m("driver", "local", "external", false))
	doc["secrets"] = m("sec", m("environment", "SEC_ENV"))
	doc["configs"] = m("cfg", m("content", "hello"))
	if r.Intn(3) == 0 {
		doc["x-top"] = []any{"value", m("a", 1)}[r.Intn(2)]
	}
	return doc
}

// ---------------------------------------------------------------- leaves

type leafRef struct {
	Path    tree.Path // concrete tree.Path
	General string    // instance names and list items abstracted
	get     func() any
	set     func(any)
}

var instanceLevels = map[string]bool{"services": true, "networks": true, "volumes": true, "secrets": true, "configs": true}

func walkLeaves(v any, p tree.Path, gen []string, top bool, get func() any, set func(any), acc *[]leafRef) {
	switch x := v.(type) {
	case map[string]any:
		ks := make([]string, 0, len(x))
		for k := range x {
			ks = append(ks, k)
		}
		sort.Strings(ks)
		for _, k := range ks {
			k := k
			g := k
			if len(gen) == 1 && instanceLevels[gen[0]] {
				g = "*"
			}
			walkLeaves(x[k], nextPath(p, top, k), append(append([]string{}, gen...), g), false, func() any { return x[k] }, func(n any) { x[k] = n }, acc)
		}
	case []any:
		for i := range x {
			i := i
			walkLeaves(x[i], p.Next(tree.PathMatchList), append(append([]string{}, gen...), "[]"), false, func() any { return x[i] }, func(n any) { x[i] = n }, acc)
		}
	case nil:
	default:
		*acc = append(*acc, leafRef{Path: p, General: strings.Join(gen, "."), get: get, set: set})
	}
}

func leavesOf(doc map[string]any) []leafRef {
	var acc []leafRef
	walkLeaves(doc, tree.NewPath(), nil, true, nil, nil, &acc)
	return acc
}

func scalarText(v any) string {
	switch x := v.(type) {
	case string:
		return x
	case bool:
		return strconv.FormatBool(x)
	case int:
		return strconv.Itoa(x)
	case float64:
		return strconv.FormatFloat(x, 'g', -1, 64)
	}
	return fmt.Sprint(v)
}

func isCastPath(p tree.Path) bool {
	for pat := range loader.VerifCastTable() {
		if p.Matches(pat) {
			return true
		}
	}
	for _, pat := range pinnedCastRows {
		if p.Matches(tree.Path(pat)) {
			return true
		}
	}
	return false
}

// ---------------------------------------------------------------- c08meta

type replacement struct {
	Leaf int    `json:"leaf"` // index into leavesOf(doc)
	Form string `json:"form"`
	Cut  int    `json:"cut"`
}

type metaArgs struct {
	Doc  any           `json:"doc"` // tagged tree
	Reps []replacement `json:"reps"`
}

func applyRep(doc map[string]any, rep replacement, vn string, env map[string]string, expect map[string]any) string {
	ls := leavesOf(doc)
	if rep.Leaf >= len(ls) {
		return ""
	}
	lf := ls[rep.Leaf]
	orig := lf.get()
	text := scalarText(orig)
	var tmpl string
	switch {
	case rep.Form == "default" && isPlain(text):
		tmpl = "${UNSET_" + vn + ":-" + text + "}"
	case rep.Form == "split" && isPlain(text) && len(text) > 0:
		r := []rune(text)
		i := rep.Cut % (len(r) + 1)
		j := i + (rep.Cut/7)%(len(r)-i+1)
		tmpl = string(r[:i]) + "${" + vn + "}" + string(r[j:])
		env[vn] = string(r[i:j])
	case rep.Form == "tail":
		// round 6: the leaf gets a tail with `$` / closing braces (both documents), then is written as
		// <operator expression> + tail with the `$` of the tail escaped or one chunk supplied through a bare variable
		if _, isStr := orig.(string); isStr {
			full := text + metaTails[rep.Cut%len(metaTails)]
			fs := tailForms(full, rep.Cut/len(metaTails))
			f := fs[(rep.Cut/3)%len(fs)]
			var fenv map[string]string
			tmpl, fenv = f.named(vn)
			for k, e := range fenv {
				env[k] = e
			}
			lf.set(tmpl)
			leavesOf(expect)[rep.Leaf].set(escDollar(full))
			return f.Name + "@" + lf.General
		}
		tmpl = "${" + vn + "}"
		env[vn] = text
	case rep.Form == "bare":
		tmpl = "$" + vn
		env[vn] = text
	default:
		tmpl = "${" + vn + "}"
		env[vn] = text
	}
	lf.set(tmpl)
	// expected document: the literal, written as a string where no cast applies
	els := leavesOf(expect)
	if _, isStr := orig.(string); !isStr && !isCastPath(lf.Path) {
		els[rep.Leaf].set(text)
	}
	return rep.Form + "@" + lf.General
}

// metaTails: what follows the operator expression on the same line (whole-load level)
var metaTails = []string{" $ }", " | awk '{print $1}'", " {x} $HOME}", "}", " $}", "; f() { echo $1; }", " {{.Name}} $5 }", " x y}"}

// tailFriendly: string leaves that stay loadable with arbitrary text
func tailFriendly(general string) bool {
	for _, k := range []string{".command", ".entrypoint", ".environment.", ".labels.", ".annotations.", "x-", ".hostname", ".working_dir", ".content", ".healthcheck.test"} {
		if strings.Contains(general, k) {
			return true
		}
	}
	return false
}

func buildMeta(a metaArgs, only int) (vdoc, edoc string, env map[string]string, labels []string) {
	v, e, env, labels := buildMetaTrees(a, only)
	return emitYAML(v), emitYAML(e), env, labels
}

// buildMetaTrees: the variable-bearing document, the literal document it stands for, the environment.
func buildMetaTrees(a metaArgs, only int) (v, e map[string]any, env map[string]string, labels []string) {
	base := core.DecodeVal(a.Doc).(map[string]any)
	v = core.DeepCopyVal(base).(map[string]any)
	e = core.DeepCopyVal(base).(map[string]any)
	env = map[string]string{}
	for i, rep := range a.Reps {
		if only >= 0 && i != only {
			continue
		}
		labels = append(labels, applyRep(v, rep, fmt.Sprintf("V%d", i), env, e))
	}
	return v, e, env, labels
}

func sameOutcome(a, b json.RawMessage) bool {
	x, y := parseOutcome(a), parseOutcome(b)
	if x.isOk() != y.isOk() {
		return false
	}
	return !x.isOk() || core.CanonEqual(x.Ok, y.Ok)
}

func crashed(raws ...json.RawMessage) json.RawMessage {
	for _, r := range raws {
		if core.CrashVerdict(r) != nil {
			return r
		}
	}
	return nil
}

func realMeta(raw json.RawMessage) any {
	var a metaArgs
	if err := json.Unmarshal(raw, &a); err != nil {
		return map[string]any{"bad": err.Error()}
	}
	vdoc, edoc, env, _ := buildMeta(a, -1)
	V, E := loadDoc(vdoc, env, false), loadDoc(edoc, nil, false)
	out := map[string]any{"got": V, "want": E, "doc": vdoc}
	if !sameOutcome(V, E) {
		// look for a single replacement that already differs (stable key)
		out["culprit"] = "combination"
		for i := range a.Reps {
			vd, ed, env1, labels := buildMeta(a, i)
			if len(labels) == 1 && !sameOutcome(loadDoc(vd, env1, false), loadDoc(ed, nil, false)) {
				out["culprit"] = labels[0]
				break
			}
		}
	}
	return out
}

func judgeMeta(args, real, _ json.RawMessage) *core.Verdict {
	if v := core.CrashVerdict(real); v != nil {
		return v
	}
	var r struct {
		Got, Want json.RawMessage
		Culprit   string
		Kind      string
		Bad       string
		Doc       string
	}
	if json.Unmarshal(real, &r) != nil || r.Bad != "" || r.Got == nil {
		return core.Disagree("c08meta: malformed real outcome " + r.Bad)
	}
	if v := core.CrashVerdict(r.Got); v != nil {
		return v
	}
	if v := core.CrashVerdict(r.Want); v != nil {
		return v
	}
	got, want := parseOutcome(r.Got), parseOutcome(r.Want)
	if os.Getenv("C08_DEBUG") != "" {
		e := ""
		if want.Err != nil {
			e = strings.ReplaceAll(*want.Err, "\n", " | ")
		}
		fmt.Fprintf(os.Stderr, "META\t%s\twant=%v got=%v\t%s\n", r.Kind, want.isOk(), got.isOk(), e)
	}
	kind := r.Kind
	if kind == "" {
		kind = "meta-var"
	}
	if kind == "escape" && !want.isOk() {
		return core.Skip("the original does not load with interpolation off")
	}
	if got.isOk() != want.isOk() {
		e := ""
		if got.Err != nil {
			e = *got.Err
		} else if want.Err != nil {
			e = "expected error: " + *want.Err
		}
		return core.Fail(kind+":"+r.Culprit, fmt.Sprintf("%s: one document loads and the other does not (%s)\n%s", kind, e, r.Doc))
	}
	if got.isOk() && !core.CanonEqual(got.Ok, want.Ok) {
		return core.Fail(kind+":"+r.Culprit, fmt.Sprintf("%s: the two documents load to different models\n%s", kind, r.Doc))
	}
	return nil
}

// ---------------------------------------------------------------- c08escape

type injection struct {
	Leaf int    `json:"leaf"`
	Frag string `json:"frag"`
	Pos  int    `json:"pos"`
}

type escapeArgs struct {
	Doc  any         `json:"doc"`
	Injs []injection `json:"injs"`
	// a secondary file reached through `extends` or `include` ("" = none): SkipInterpolation must hold there too
	Mode    string      `json:"mode,omitempty"`
	Sec     any         `json:"sec,omitempty"`
	SecInjs []injection `json:"sec_injs,omitempty"`
}

// genSecondary: a self-contained one-service document (no references to top-level resources)
func genSecondary(r *rand.Rand) map[string]any {
	s := map[string]any{"image": "busybox"}
	for j := 2 + r.Intn(5); j > 0; j-- {
		a := serviceAttrs[r.Intn(len(serviceAttrs))]
		switch a.key {
		case "networks", "secrets", "configs", "volumes", "depends_on", "build":
			continue
		}
		s[a.key] = core.DeepCopyVal(a.vals[r.Intn(len(a.vals))])
	}
	s["command"] = "echo secondary"
	s["labels"] = m("from", "secondary file")
	return m("services", m("base", s))
}

func inject(d map[string]any, injs []injection, only int) (labels []string) {
	for i, inj := range injs {
		if only >= 0 && i != only {
			continue
		}
		ls := leavesOf(d)
		if inj.Leaf >= len(ls) {
			continue
		}
		lf := ls[inj.Leaf]
		s, ok := lf.get().(string)
		if !ok {
			continue
		}
		r := []rune(s)
		p := inj.Pos % (len(r) + 1)
		lf.set(string(r[:p]) + inj.Frag + string(r[p:]))
		labels = append(labels, lf.General)
	}
	return labels
}

// escapeFiles builds the original and the escaped file sets.
func escapeFiles(a escapeArgs, only int) (orig, esc map[string]string, labels []string) {
	d := core.DeepCopyVal(core.DecodeVal(a.Doc)).(map[string]any)
	labels = inject(d, a.Injs, only)
	orig, esc = map[string]string{}, map[string]string{}
	if a.Mode != "" && a.Sec != nil {
		sec := core.DeepCopyVal(core.DecodeVal(a.Sec)).(map[string]any)
		if only < 0 {
			inject(sec, a.SecInjs, -1)
		}
		switch a.Mode {
		case "extends":
			d["services"].(map[string]any)["ext"] = m("extends", m("file", "sec.yaml", "service", "base"))
		case "include":
			d["include"] = l("sec.yaml")
		}
		orig["sec.yaml"], esc["sec.yaml"] = emitYAML(sec), emitYAML(escapeValues(sec))
	}
	orig["compose.yaml"], esc["compose.yaml"] = emitYAML(d), emitYAML(escapeValues(d))
	return orig, esc, labels
}

var dollarFrags = []string{"$", "$$", "${X}", "$X", "${X:-d}", "a$b", "${", "$ ", "$1", "${X?err}", "$$$", "}${X", "${X:-${Y}}", "$é", "$_a", "${X}}"}

func escapeValues(v any) any {
	switch x := v.(type) {
	case string:
		return strings.ReplaceAll(x, "$", "$$")
	case map[string]any:
		out := map[string]any{}
		for k, e := range x {
			out[k] = escapeValues(e) // keys are not interpolated, so they are not escaped
		}
		return out
	case []any:
		out := make([]any, len(x))
		for i, e := range x {
			out[i] = escapeValues(e)
		}
		return out
	}
	return v
}

func realEscape(raw json.RawMessage) any {
	var a escapeArgs
	if err := json.Unmarshal(raw, &a); err != nil {
		return map[string]any{"bad": err.Error()}
	}
	orig, esc, _ := escapeFiles(a, -1)
	O, X := loadDocs(orig, nil, true), loadDocs(esc, nil, false)
	out := map[string]any{"got": X, "want": O, "doc": esc["compose.yaml"] + esc["sec.yaml"], "kind": "escape", "culprit": "-"}
	if parseOutcome(O).isOk() && !sameOutcome(O, X) {
		out["culprit"] = "combination"
		for i := range a.Injs {
			o1, e1, labels := escapeFiles(a, i)
			O1 := loadDocs(o1, nil, true)
			if len(labels) == 1 && parseOutcome(O1).isOk() && !sameOutcome(O1, loadDocs(e1, nil, false)) {
				out["culprit"] = labels[0]
				break
			}
		}
		if out["culprit"] == "combination" {
			// no injection in the main file needed?
			o0, e0, _ := escapeFiles(escapeArgs{Doc: a.Doc}, -1)
			switch {
			case !sameOutcome(loadDocs(o0, nil, true), loadDocs(e0, nil, false)):
				out["culprit"] = "no-dollar-at-all"
			case a.Mode != "":
				o2, e2, _ := escapeFiles(escapeArgs{Doc: a.Doc, Mode: a.Mode, Sec: a.Sec, SecInjs: a.SecInjs}, -1)
				if !sameOutcome(loadDocs(o2, nil, true), loadDocs(e2, nil, false)) {
					out["culprit"] = "secondary-file:" + a.Mode
				}
			}
		}
	}
	return out
}

func runC08Meta(ctx *core.Ctx) {
	forms := []string{"var", "var", "default", "split", "bare", "tail", "tail"}
	for i := 0; i < ctx.Pick(1200, 40000); i++ {
		doc := genDoc(ctx.Rng)
		ls := leavesOf(doc)
		var reps []replacement
		k := 1 + ctx.Rng.Intn(4)
		if ctx.Rng.Intn(10) == 0 {
			k = len(ls) // every scalar leaf at once
		}
		seen := map[int]bool{}
		for j := 0; j < k; j++ {
			li := ctx.Rng.Intn(len(ls))
			if k == len(ls) {
				li = j
			}
			if seen[li] {
				continue
			}
			seen[li] = true
			f := forms[ctx.Rng.Intn(len(forms))]
			if f == "tail" {
				// prefer a leaf that stays loadable with free text
				var cand []int
				for x, lf := range ls {
					if _, ok := lf.get().(string); ok && tailFriendly(lf.General) && !seen[x] {
						cand = append(cand, x)
					}
				}
				if len(cand) > 0 && k != len(ls) {
					delete(seen, li)
					li = cand[ctx.Rng.Intn(len(cand))]
					seen[li] = true
					ctx.Count("meta-tail:free-text-leaf")
				}
			}
			reps = append(reps, replacement{Leaf: li, Form: f, Cut: ctx.Rng.Intn(1000)})
			ctx.Count("meta-form:" + f)
		}
		ctx.Count("meta-doc")
		ctx.Add("c08meta", metaArgs{Doc: core.EncodeVal(doc), Reps: reps})
	}
	for i := 0; i < ctx.Pick(1200, 40000); i++ {
		doc := genDoc(ctx.Rng)
		ls := leavesOf(doc)
		var injs []injection
		for j := 1 + ctx.Rng.Intn(4); j > 0; j-- {
			li := ctx.Rng.Intn(len(ls))
			if _, ok := ls[li].get().(string); !ok {
				continue
			}
			injs = append(injs, injection{Leaf: li, Frag: dollarFrags[ctx.Rng.Intn(len(dollarFrags))], Pos: ctx.Rng.Intn(100)})
		}
		ea := escapeArgs{Doc: core.EncodeVal(doc), Injs: injs}
		if i%3 != 0 {
			ea.Mode = []string{"extends", "include"}[i%2]
			sec := genSecondary(ctx.Rng)
			sl := leavesOf(sec)
			for j := 1 + ctx.Rng.Intn(3); j > 0; j-- {
				li := ctx.Rng.Intn(len(sl))
				if _, ok := sl[li].get().(string); ok {
					ea.SecInjs = append(ea.SecInjs, injection{Leaf: li, Frag: dollarFrags[ctx.Rng.Intn(len(dollarFrags))], Pos: ctx.Rng.Intn(100)})
				}
			}
			ea.Sec = core.EncodeVal(sec)
			ctx.Count("escape-doc:" + ea.Mode)
		} else {
			ctx.Count("escape-doc")
		}
		ctx.Add("c08escape", ea)
	}
}
