package c08

// Round 6 — the composed pipeline (Props/C08Whole.lean) against loader.LoadModelWithContext.
//
//	c08whole        real code only: the dictionary `LoadModelWithContext` returns for documents whose leaves are supplied
//	                through variable forms (incl. the tail forms) + the matching environment  vs  the dictionary of the
//	                literal documents (every `$` of a literal value written `$$`), same options, interpolation on, one or two
//	                documents.  This is `load_variable_eq_literal` / `load_escaped_eq_literal` sampled on the real loader: a
//	                difference is a failure with the documents as failing input (key `whole:var-vs-literal:*`).
//	pipeline.load   (the integrator's correspondence, model `Pipeline.load` vs the real loader) is additionally fed with
//	                these variable-bearing documents, interpolation on and off: the interpolation stage *inside* the
//	                composed model is driven with C08's template classes and cast rows.

import (
	"context"
	"encoding/json"
	"fmt"
	"os"
	"strings"
	"time"

	"github.com/compose-spec/compose-go/v2/loader"
	"github.com/compose-spec/compose-go/v2/tree"
	"github.com/compose-spec/compose-go/v2/types"

	"verifharness/core"
)

type wholeOpts struct {
	SkipInterpolation bool `json:"skipInterpolation"`
	SkipValidation    bool `json:"skipValidation"`
	SkipDefaultValues bool `json:"skipDefaultValues"`
	ResolvePaths      bool `json:"resolvePaths"`
	SkipNormalization bool `json:"skipNormalization"`
	Extends           bool `json:"extends"`
}

type wholeArgs struct {
	Var    []core.T          `json:"var"` // the variable-bearing documents
	Lit    []core.T          `json:"lit"` // the literal documents (`$` of a literal value escaped)
	Opts   wholeOpts         `json:"opts"`
	Env    map[string]string `json:"env"`
	Labels []string          `json:"labels"`
}

const wholeWd = "/nonexistent-verif/proj"

func loadModelTrees(docs []json.RawMessage, o wholeOpts, envIn map[string]string) any {
	env := map[string]string{}
	for k, v := range envIn {
		env[k] = v
	}
	details := types.ConfigDetails{WorkingDir: wholeWd, Environment: env}
	for i, d := range docs {
		t, ok := core.DecodeValRaw(d).(map[string]any)
		if !ok {
			return map[string]any{"bad": "document is not a mapping"}
		}
		details.ConfigFiles = append(details.ConfigFiles, types.ConfigFile{Filename: fmt.Sprintf("%s/f%d.yaml", wholeWd, i), Config: t})
	}
	return core.SafeCall(func() any {
		dict, err := loader.LoadModelWithContext(context.Background(), details, func(lo *loader.Options) {
			lo.SkipExtends, lo.SkipInclude = !o.Extends, true
			lo.SkipInterpolation = o.SkipInterpolation
			lo.SkipValidation = o.SkipValidation
			lo.SkipDefaultValues = o.SkipDefaultValues
			lo.ResolvePaths = o.ResolvePaths
			lo.SkipNormalization = o.SkipNormalization
			lo.SetProjectName("proj", true)
		})
		if err != nil {
			return map[string]any{"err": err.Error()}
		}
		return map[string]any{"ok": core.EncodeVal(dict)}
	})
}

func realWhole(raw json.RawMessage) any {
	var a struct {
		Var  []json.RawMessage `json:"var"`
		Lit  []json.RawMessage `json:"lit"`
		Opts wholeOpts         `json:"opts"`
		Env  map[string]string `json:"env"`
	}
	if err := json.Unmarshal(raw, &a); err != nil {
		return map[string]any{"bad": err.Error()}
	}
	return map[string]any{"var": mustJ(loadModelTrees(a.Var, a.Opts, a.Env)), "lit": mustJ(loadModelTrees(a.Lit, a.Opts, a.Env))}
}

func judgeWhole(args, real, _ json.RawMessage) *core.Verdict {
	if v := core.CrashVerdict(real); v != nil {
		return v
	}
	var a wholeArgs
	json.Unmarshal(args, &a)
	var r struct {
		Var, Lit json.RawMessage
		Bad      string
	}
	if json.Unmarshal(real, &r) != nil || r.Bad != "" || r.Var == nil || r.Lit == nil {
		return core.Skip("c08whole: malformed case " + r.Bad)
	}
	for _, o := range []json.RawMessage{r.Var, r.Lit} {
		if v := core.CrashVerdict(o); v != nil {
			return v
		}
	}
	v, l := parseOutcome(r.Var), parseOutcome(r.Lit)
	if os.Getenv("C08_DEBUG") != "" {
		fmt.Fprintf(os.Stderr, "WHOLE\tvar=%v lit=%v\n", v.isOk(), l.isOk())
	}
	lab := "combination"
	if len(a.Labels) == 1 {
		lab = a.Labels[0]
	} else if len(a.Labels) > 0 {
		// stable key: the form names only
		fs := map[string]bool{}
		for _, x := range a.Labels {
			fs[strings.SplitN(x, "@", 2)[0]] = true
		}
		if len(fs) == 1 {
			for f := range fs {
				lab = f
			}
		}
	}
	if v.isOk() != l.isOk() {
		e := ""
		if v.Err != nil {
			e = "variable-bearing documents: " + *v.Err
		} else if l.Err != nil {
			e = "literal documents: " + *l.Err
		}
		return core.Fail("whole:var-vs-literal:"+lab, "LoadModelWithContext: the variable-bearing documents and the literal ones differ in success ("+e+")")
	}
	if v.isOk() && !core.CanonEqual(v.Ok, l.Ok) {
		return core.Fail("whole:var-vs-literal:"+lab, "LoadModelWithContext: the variable-bearing documents and the literal ones give different dictionaries")
	}
	return nil
}

func runC08Whole(ctx *core.Ctx) {
	forms := []string{"var", "default", "split", "bare", "tail", "tail"}
	optSets := []wholeOpts{{ResolvePaths: true}, {ResolvePaths: true}, {ResolvePaths: true, SkipValidation: true}, {ResolvePaths: true, SkipDefaultValues: true},
		{SkipNormalization: true}, {ResolvePaths: true, SkipValidation: true, SkipNormalization: true, SkipDefaultValues: true}}
	for i := 0; i < ctx.Pick(400, 20000); i++ {
		nd := 1 + ctx.Rng.Intn(2)
		var vdocs, ldocs []core.T
		env := map[string]string{}
		var labels []string
		for d := 0; d < nd; d++ {
			doc := genDoc(ctx.Rng)
			ls := leavesOf(doc)
			var reps []replacement
			seen := map[int]bool{}
			for j := 1 + ctx.Rng.Intn(4); j > 0; j-- {
				li := ctx.Rng.Intn(len(ls))
				f := forms[ctx.Rng.Intn(len(forms))]
				if f == "tail" {
					var cand []int
					for x, lf := range ls {
						if _, ok := lf.get().(string); ok && tailFriendly(lf.General) {
							cand = append(cand, x)
						}
					}
					if len(cand) > 0 {
						li = cand[ctx.Rng.Intn(len(cand))]
					}
				}
				if seen[li] {
					continue
				}
				seen[li] = true
				reps = append(reps, replacement{Leaf: li, Form: f, Cut: ctx.Rng.Intn(100000)})
				ctx.Count("whole-form:" + f)
			}
			// variables of the d-th document are called V<d>_<i>
			base := core.DecodeVal(core.EncodeVal(doc)).(map[string]any)
			v := core.DeepCopyVal(base).(map[string]any)
			e := core.DeepCopyVal(base).(map[string]any)
			for k, rep := range reps {
				// dictionary level: the theorem relates *string* leaves — a non-string scalar of the generated document is
				// first written as its text in the literal document too (the typed oracle c08meta compares Projects, where
				// the decode-time cast makes the difference disappear; here `cpus: 2` and `cpus: "2"` are different trees)
				orig := leavesOf(e)[rep.Leaf].get()
				labels = append(labels, applyRep(v, rep, fmt.Sprintf("V%d_%d", d, k), env, e))
				if _, isStr := orig.(string); !isStr {
					leavesOf(e)[rep.Leaf].set(scalarText(orig))
				}
			}
			vdocs, ldocs = append(vdocs, core.EncodeVal(v)), append(ldocs, core.EncodeVal(e))
		}
		o := optSets[ctx.Rng.Intn(len(optSets))]
		ctx.Count(fmt.Sprintf("whole-docs=%d", nd))
		ctx.Add("c08whole", wholeArgs{Var: vdocs, Lit: ldocs, Opts: o, Env: env, Labels: labels})
		// the composed model against the real loader on the same variable-bearing documents, interpolation on / off
		if i%2 == 0 {
			po := o
			po.SkipInterpolation = i%8 == 6
			ctx.Count(fmt.Sprintf("whole-pipeline.load:skipInterpolation=%v", po.SkipInterpolation))
			ctx.Add("pipeline.load", map[string]any{"docs": vdocs, "opts": po, "env": env, "name": "proj", "wd": wholeWd, "home": "/nonexistent-verif/home", "mainFile": wholeWd + "/f0.yaml"})
		}
	}
}

// ---------------------------------------------------------------- interpolation on ⇒ off (load_on_ok_imp_off_ok)

type onoffArgs struct {
	Docs []core.T  `json:"docs"`
	Opts wholeOpts `json:"opts"`
	// corpus only: the replay of `Neg/C08Whole.canonical_flag_converse_false` — the converse direction (off loads ⇒ on loads)
	// is expected to FAIL on this input (a short form `Canonical` cannot parse, validation skipped)
	ExpectOffOnly bool `json:"expect_off_only,omitempty"`
}

func onTableRow(p tree.Path) bool {
	for pat := range loader.VerifCastTable() {
		if p.Matches(pat) {
			return true
		}
	}
	return false
}

func realOnOff(raw json.RawMessage) any {
	var a struct {
		Docs []json.RawMessage `json:"docs"`
		Opts wholeOpts         `json:"opts"`
	}
	if err := json.Unmarshal(raw, &a); err != nil {
		return map[string]any{"bad": err.Error()}
	}
	on, off := a.Opts, a.Opts
	on.SkipInterpolation, off.SkipInterpolation = false, true
	return map[string]any{"on": mustJ(loadModelTrees(a.Docs, on, nil)), "off": mustJ(loadModelTrees(a.Docs, off, nil))}
}

func judgeOnOff(args, real, _ json.RawMessage) *core.Verdict {
	if v := core.CrashVerdict(real); v != nil {
		return v
	}
	var r struct {
		On, Off json.RawMessage
		Bad     string
	}
	if json.Unmarshal(real, &r) != nil || r.Bad != "" || r.On == nil || r.Off == nil {
		return core.Skip("c08onoff: malformed case " + r.Bad)
	}
	for _, o := range []json.RawMessage{r.On, r.Off} {
		if v := core.CrashVerdict(o); v != nil {
			return v
		}
	}
	on, off := parseOutcome(r.On), parseOutcome(r.Off)
	if os.Getenv("C08_DEBUG") != "" {
		fmt.Fprintf(os.Stderr, "ONOFF\ton=%v off=%v\n", on.isOk(), off.isOk())
	}
	var a onoffArgs
	json.Unmarshal(args, &a)
	if a.ExpectOffOnly {
		if off.isOk() && !on.isOk() {
			return nil
		}
		return core.Disagree(fmt.Sprintf("the Neg witness canonical_flag_converse_false no longer reproduces on the real loader (on loads: %v, off loads: %v)", on.isOk(), off.isOk()))
	}
	if !on.isOk() {
		// off may load where on fails (Canonical forgives unparsable short forms under SkipInterpolation): not this theorem
		return core.Skip("does not load with interpolation on")
	}
	if !off.isOk() {
		return core.Fail("whole:on-loads-off-fails", "LoadModelWithContext: `$`-free documents with no string on a cast row load with interpolation on and fail with SkipInterpolation: "+*off.Err)
	}
	if !core.CanonEqual(on.Ok, off.Ok) {
		return core.Fail("whole:on-off-differ", "LoadModelWithContext: `$`-free documents with no string on a cast row give different dictionaries with interpolation on and off")
	}
	return nil
}

func runC08OnOff(ctx *core.Ctx) {
	optSets := []wholeOpts{{ResolvePaths: true}, {ResolvePaths: true, SkipValidation: true}, {SkipNormalization: true, SkipDefaultValues: true}}
	for i := 0; i < ctx.Pick(250, 10000); i++ {
		nd := 1 + ctx.Rng.Intn(2)
		var docs []core.T
		for d := 0; d < nd; d++ {
			doc := genDoc(ctx.Rng)
			// the hypothesis of the theorem: no string on a row of the cast table — such leaves are written as what they cast to
			for _, lf := range leavesOf(doc) {
				if s, ok := lf.get().(string); ok && onTableRow(lf.Path) {
					for pat, c := range loader.VerifCastTable() {
						if lf.Path.Matches(pat) {
							if v, err := c(s); err == nil {
								lf.set(normNum(v))
							}
						}
					}
					ctx.Count("onoff:string-on-row-rewritten")
				}
			}
			docs = append(docs, core.EncodeVal(doc))
		}
		ctx.Count(fmt.Sprintf("onoff-docs=%d", nd))
		ctx.Add("c08onoff", onoffArgs{Docs: docs, Opts: optSets[ctx.Rng.Intn(len(optSets))]})
	}
}

// normNum: what a caster returns, as the tree types the harness encodes (int64 → int, float32 → float64)
func normNum(v any) any {
	switch x := v.(type) {
	case int64:
		return int(x)
	case float32:
		return float64(x)
	}
	return v
}

func init() {
	core.Register("c08whole", &core.CheckDef{Real: realWhole, Judge: judgeWhole, Timeout: 20 * time.Second})
	core.Register("c08onoff", &core.CheckDef{Real: realOnOff, Judge: judgeOnOff, Timeout: 20 * time.Second})
}
