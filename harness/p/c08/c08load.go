package c08

// C08 direct oracle on the real loader (metamorphic pairs of whole loads):
//
//	c08typed   every typed attribute path (reflection over types.Project) × valid / invalid texts:
//	           plain literal  vs  quoted literal  vs  quoted literal with SkipInterpolation (decode-time cast only)
//	           vs  the value supplied through a variable (`${V}`, `${UNSET:-t}`, `pre${V}post`)
//	c08meta    generated documents × random choices of scalar leaves replaced by variable forms + matching env
//	c08escape  generated documents with `$` in values: original with SkipInterpolation vs every `$` of a value
//	           written `$$` with interpolation on

import (
	"encoding/json"
	"fmt"
	"os"
	"reflect"
	"regexp"
	"sort"
	"strconv"
	"strings"

	"github.com/compose-spec/compose-go/v2/loader"
	"github.com/compose-spec/compose-go/v2/tree"
	"github.com/compose-spec/compose-go/v2/types"

	"verifharness/core"
)

// ---------------------------------------------------------------- YAML emission (flow style = JSON + raw plain scalars)

type rawYAML string // emitted unquoted

func emitYAML(v any) string {
	var b strings.Builder
	var emit func(v any)
	q := func(s string) {
		var sb strings.Builder
		enc := json.NewEncoder(&sb)
		enc.SetEscapeHTML(false)
		enc.Encode(s)
		b.WriteString(strings.TrimSuffix(sb.String(), "\n"))
	}
	emit = func(v any) {
		switch x := v.(type) {
		case nil:
			b.WriteString("null")
		case rawYAML:
			b.WriteString(string(x))
		case string:
			q(x)
		case bool:
			b.WriteString(strconv.FormatBool(x))
		case int:
			b.WriteString(strconv.Itoa(x))
		case float64:
			s := strconv.FormatFloat(x, 'g', -1, 64)
			if !strings.ContainsAny(s, ".e") {
				s += ".0"
			}
			b.WriteString(s)
		case []any:
			b.WriteString("[")
			for i, e := range x {
				if i > 0 {
					b.WriteString(", ")
				}
				emit(e)
			}
			b.WriteString("]")
		case map[string]any:
			ks := make([]string, 0, len(x))
			for k := range x {
				ks = append(ks, k)
			}
			sort.Strings(ks)
			b.WriteString("{")
			for i, k := range ks {
				if i > 0 {
					b.WriteString(", ")
				}
				q(k)
				b.WriteString(": ")
				emit(x[k])
			}
			b.WriteString("}")
		default:
			panic(fmt.Sprintf("emitYAML: %T", v))
		}
	}
	emit(v)
	b.WriteString("\n")
	return b.String()
}

// plainSafe: the text can be written as an unquoted scalar inside a flow collection and be read back as one scalar.
var plainSafeRe = regexp.MustCompile(`^[A-Za-z0-9+\-.~_][A-Za-z0-9+\-._]*$`)

func plainSafe(s string) bool { return plainSafeRe.MatchString(s) && s != "-" }

func loadDoc(doc string, env map[string]string, skip bool) json.RawMessage {
	return loadDocs(map[string]string{"compose.yaml": doc}, env, skip)
}

// loadDocs loads compose.yaml together with secondary files (reached through extends / include).
func loadDocs(files map[string]string, env map[string]string, skip bool) json.RawMessage {
	fs := map[string]string{"missing.env": "K=v\n"}
	for k, v := range files {
		fs[k] = v
	}
	out := core.SafeCall(func() any {
		return core.LoadOutcome(core.LoadReq{
			Files:             fs,
			ConfigFiles:       []string{"compose.yaml"},
			Env:               env,
			ProjectName:       "p",
			SkipInterpolation: skip,
		})
	})
	return mustJ(out)
}

type outcome struct {
	Ok  json.RawMessage `json:"ok"`
	Err *string         `json:"err"`
}

func parseOutcome(raw json.RawMessage) outcome {
	var o outcome
	json.Unmarshal(raw, &o)
	if o.Ok == nil && o.Err == nil {
		t := "crash: " + string(raw)
		o.Err = &t
	}
	return o
}

func (o outcome) isOk() bool { return o.Ok != nil && o.Err == nil }

// ---------------------------------------------------------------- typed attribute paths

// pinnedCastRows: the rows of the cast table when this check was written.  A typed path listed here is in the
// property's domain ("the loader converts it beforehand") even if the row disappears from the source
// (Props/C08.lean `rows_expected` pins the same list on the Lean side).
var pinnedCastRows = []string{
	"configs.*.external", "networks.*.attachable", "networks.*.enable_ipv6", "networks.*.external", "networks.*.internal",
	"secrets.*.external", "services.*.configs.[].mode", "services.*.cpu_count", "services.*.cpu_percent", "services.*.cpu_period",
	"services.*.cpu_quota", "services.*.cpu_rt_period", "services.*.cpu_rt_runtime", "services.*.cpu_shares", "services.*.cpus",
	"services.*.deploy.placement.max_replicas_per_node", "services.*.deploy.replicas", "services.*.deploy.restart_policy.max_attempts",
	"services.*.deploy.rollback_config.max_failure_ratio", "services.*.deploy.rollback_config.parallelism",
	"services.*.deploy.update_config.max_failure_ratio", "services.*.deploy.update_config.parallelism", "services.*.healthcheck.disable",
	"services.*.healthcheck.retries", "services.*.init", "services.*.oom_kill_disable", "services.*.oom_score_adj", "services.*.pids_limit",
	"services.*.ports.[].target", "services.*.privileged", "services.*.read_only", "services.*.scale", "services.*.secrets.[].mode",
	"services.*.stdin_open", "services.*.tty", "services.*.ulimits.*", "services.*.ulimits.*.hard", "services.*.ulimits.*.soft",
	"services.*.volumes.[].read_only", "services.*.volumes.[].volume.nocopy", "volumes.*.external",
}

// Props/C08.lean `notInSchema` (minus the `single` pseudo fields, which the enumeration here folds into `ulimits.*`)
var notInSchemaPaths = []string{
	"services.*.deploy.resources.limits.devices.[].count",
	"services.*.deploy.resources.limits.generic_resources.[].discrete_resource_spec.value",
	"services.*.deploy.resources.reservations.pids",
}

func isPinned(pat string) bool {
	for _, p := range pinnedCastRows {
		if p == pat {
			return true
		}
	}
	return false
}

// typedLeaves walks types.Project by reflection: yaml path pattern ↦ kind (bool,int,uint,float,duration,bytes).
func typedLeaves() map[string]string {
	out := map[string]string{}
	var walk func(t reflect.Type, path string, depth int)
	walk = func(t reflect.Type, path string, depth int) {
		if depth > 14 {
			return
		}
		switch t {
		case reflect.TypeOf(types.Duration(0)):
			out[path] = "duration"
			return
		case reflect.TypeOf(types.UnitBytes(0)):
			out[path] = "bytes"
			return
		case reflect.TypeOf(types.NanoCPUs(0)):
			out[path] = "nanocpus" // custom decoder (types/cpus.go): texts of kind float
			return
		case reflect.TypeOf(types.DeviceCount(0)):
			out[path] = "devicecount" // custom decoder (types/device.go): texts of kind int
			return
		}
		switch t.Kind() {
		case reflect.Ptr:
			walk(t.Elem(), path, depth)
		case reflect.Bool:
			out[path] = "bool"
		case reflect.Int, reflect.Int8, reflect.Int16, reflect.Int32, reflect.Int64:
			out[path] = "int"
		case reflect.Uint, reflect.Uint8, reflect.Uint16, reflect.Uint32, reflect.Uint64:
			out[path] = "uint"
		case reflect.Float32, reflect.Float64:
			out[path] = "float"
		case reflect.Slice, reflect.Array:
			walk(t.Elem(), path+".[]", depth+1)
		case reflect.Map:
			walk(t.Elem(), path+".*", depth+1)
		case reflect.Struct:
			for i := 0; i < t.NumField(); i++ {
				f := t.Field(i)
				tag, has := f.Tag.Lookup("yaml")
				n := strings.Split(tag, ",")[0]
				if !has || n == "-" || n == "" || strings.Contains(tag, "inline") || !f.IsExported() {
					continue
				}
				p := n
				if path != "" {
					p = path + "." + n
				}
				walk(f.Type, p, depth+1)
			}
		}
	}
	walk(reflect.TypeOf(types.Project{}), "", 0)
	// the scalar form of a ulimit (`ulimits: {nofile: 1024}`) is the yaml path services.*.ulimits.*
	for _, p := range []string{"services.*.ulimits.*", "services.*.build.ulimits.*"} {
		delete(out, p+".single")
		out[p] = "int"
	}
	return out
}

// typedContext returns the document skeleton into which the leaf at `pat` is placed (siblings the schema or the
// consistency check requires), or nil when the generic instantiation is enough.
func typedContext(pat string) map[string]any {
	svc := func(extra map[string]any) docT {
		s := map[string]any{"image": "img"}
		for k, v := range extra {
			s[k] = v
		}
		return docT{"services": map[string]any{"svc": s}}
	}
	has := func(sub string) bool { return strings.Contains(pat, sub) }
	switch {
	case has("services.*.volumes.[].bind"):
		return svc(map[string]any{"volumes": []any{map[string]any{"type": "bind", "source": "/src", "target": "/t"}}})
	case has("services.*.volumes.[].tmpfs"):
		return svc(map[string]any{"volumes": []any{map[string]any{"type": "tmpfs", "target": "/t"}}})
	case has("services.*.volumes.[]"):
		return svc(map[string]any{"volumes": []any{map[string]any{"type": "volume", "source": "vol", "target": "/t"}}, "x-k": 1}).with("volumes", map[string]any{"vol": map[string]any{}})
	case has("services.*.secrets.[]"):
		return svc(map[string]any{"secrets": []any{map[string]any{"source": "sec"}}}).with("secrets", map[string]any{"sec": map[string]any{"environment": "SEC"}})
	case has("services.*.configs.[]"):
		return svc(map[string]any{"configs": []any{map[string]any{"source": "cfg"}}}).with("configs", map[string]any{"cfg": map[string]any{"content": "c"}})
	case has("services.*.build.secrets.[]"):
		return svc(map[string]any{"build": map[string]any{"context": ".", "secrets": []any{map[string]any{"source": "sec"}}}}).with("secrets", map[string]any{"sec": map[string]any{"environment": "SEC"}})
	case has("services.*.build."):
		return svc(map[string]any{"build": map[string]any{"context": "."}})
	case has("services.*.depends_on.*"):
		m := svc(map[string]any{"depends_on": map[string]any{"svc": nil}})
		m["services"].(map[string]any)["svc"].(map[string]any)["depends_on"] = map[string]any{"dep": map[string]any{"condition": "service_started"}}
		m["services"].(map[string]any)["dep"] = map[string]any{"image": "img"}
		return m
	case has("services.*.networks.*"):
		return svc(map[string]any{"networks": map[string]any{"net": map[string]any{}}}).with("networks", map[string]any{"net": map[string]any{}})
	case has("services.*.develop.watch.[]"):
		return svc(map[string]any{"develop": map[string]any{"watch": []any{map[string]any{"path": "./p", "action": "sync+exec", "target": "/t", "exec": map[string]any{"command": "c"}}}}})
	case has("services.*.env_file.[]"):
		return svc(map[string]any{"env_file": []any{map[string]any{"path": "./missing.env"}}})
	case has("services.*.post_start.[]"):
		return svc(map[string]any{"post_start": []any{map[string]any{"command": "c"}}})
	case has("services.*.pre_stop.[]"):
		return svc(map[string]any{"pre_stop": []any{map[string]any{"command": "c"}}})
	case strings.HasPrefix(pat, "services."):
		return svc(nil)
	}
	return nil
}

type docT map[string]any

func (d docT) with(k string, v any) map[string]any { d[k] = v; return d }

// place puts leaf at the pattern inside ctxDoc (merging maps, and merging into the first item of lists).
func place(ctxDoc map[string]any, pat string, leaf any) map[string]any {
	parts := strings.Split(pat, ".")
	names := map[string]string{"services": "svc", "networks": "net", "volumes": "vol", "secrets": "sec", "configs": "cfg", "depends_on": "dep", "ulimits": "nofile"}
	var put func(cur any, i int, prev string) any
	put = func(cur any, i int, prev string) any {
		if i == len(parts) {
			return leaf
		}
		switch parts[i] {
		case "[]":
			l, _ := cur.([]any)
			if len(l) == 0 {
				l = []any{nil}
			}
			l[0] = put(l[0], i+1, prev)
			return l
		default:
			k := parts[i]
			if k == "*" {
				k = names[prev]
				if k == "" {
					k = "key"
				}
			}
			m, _ := cur.(map[string]any)
			if m == nil {
				m = map[string]any{}
			}
			m[k] = put(m[k], i+1, parts[i])
			return m
		}
	}
	if ctxDoc == nil {
		ctxDoc = map[string]any{}
	}
	return put(core.DeepCopyVal(ctxDoc), 0, "").(map[string]any)
}

// extra siblings by last path segment (the schema requires them)
func typedSiblings(pat string, doc map[string]any) {
	at := func(p string) map[string]any {
		cur := any(doc)
		for _, k := range strings.Split(p, ".") {
			switch x := cur.(type) {
			case map[string]any:
				cur = x[k]
			case []any:
				cur = x[0].(map[string]any)[k]
			}
		}
		if l, ok := cur.([]any); ok {
			cur = l[0]
		}
		m, _ := cur.(map[string]any)
		return m
	}
	switch {
	case strings.HasSuffix(pat, "devices.[].count"):
		parent := strings.TrimSuffix(strings.ReplaceAll(strings.ReplaceAll(pat, "services.*", "services.svc"), ".[]", ""), ".count")
		if m := at(parent); m != nil {
			m["capabilities"] = []any{"gpu"}
		}
	case strings.HasSuffix(pat, "generic_resources.[].discrete_resource_spec.value"):
		parent := strings.TrimSuffix(strings.ReplaceAll(strings.ReplaceAll(pat, "services.*", "services.svc"), ".[]", ""), ".value")
		if m := at(parent); m != nil {
			m["kind"] = "k"
		}
	case strings.Contains(pat, "blkio_config.") && strings.Contains(pat, ".[]."):
		parent := strings.ReplaceAll(strings.ReplaceAll(pat, "services.*", "services.svc"), ".[]", "")
		parent = parent[:strings.LastIndex(parent, ".")]
		if m := at(parent); m != nil {
			m["path"] = "/dev/sda"
		}
	case strings.HasSuffix(pat, "ulimits.*.hard"), strings.HasSuffix(pat, "ulimits.*.soft"):
		parent := strings.ReplaceAll(strings.ReplaceAll(pat, "services.*", "services.svc"), "ulimits.*", "ulimits.nofile")
		parent = parent[:strings.LastIndex(parent, ".")]
		if m := at(parent); m != nil {
			other := "soft"
			if strings.HasSuffix(pat, ".soft") {
				other = "hard"
			}
			if _, ok := m[other]; !ok {
				m[other] = 1024
			}
		}
	}
}

type typedText struct {
	Text  string
	Valid bool
}

var typedTexts = map[string][]typedText{
	"bool": {{"true", true}, {"false", true}, {"True", true}, {"FALSE", true}, {"yes", true}, {"Yes", true}, {"NO", true}, {"no", true}, {"on", true}, {"Off", true}, {"y", true}, {"N", true},
		{"maybe", false}, {"1", false}, {"2", false}, {"", false}, {"truee", false}, {"nope", false}, {"t", false}},
	"int": {{"0", true}, {"1", true}, {"7", true}, {"42", true}, {"2147483648", true}, {"4294967296", true}, {"+5", true}, {"-1", true}, {"007", true}, {"0440", true}, {"0o17", true}, {"0x10", true}, {"1_000", true}, {"0b11", true}, {"0b+1", true},
		{"abc", false}, {"1.5", false}, {"", false}, {"99999999999999999999", false}, {"1e3", false}, {"7s", false}, {"- 1", false}},
	"uint": {{"0", true}, {"1", true}, {"7", true}, {"42", true}, {"2147483648", true}, {"4294967296", true}, {"+5", true}, {"007", true}, {"0440", true}, {"0o17", true}, {"0x10", true}, {"1_000", true},
		{"abc", false}, {"1.5", false}, {"", false}, {"99999999999999999999", false}, {"-1", false}, {"1e3", false}},
	"float": {{"0.5", true}, {"1", true}, {"2", true}, {"1.25", true}, {".5", true}, {"1e0", true}, {"+0.75", true}, {"0.1", true}, {"1_0.5", true}, {"0x2", true}, {"010", true}, {"0b+1", true}, {"0o+7", true},
		{"abc", false}, {"1.5.2", false}, {"", false}, {"1,5", false}, {"half", false}},
	"duration": {{"10s", true}, {"1m30s", true}, {"1h", true}, {"500ms", true}, {"1.5s", true}, {"0", true}, {"0s", true}, {"2h45m", true}, {"1000000us", true},
		{"5", false}, {"abc", false}, {"10x", false}, {"", false}, {"1 s", false}, {"s", false}},
	"bytes": {{"64m", true}, {"1gb", true}, {"1024", true}, {"512k", true}, {"0", true}, {"2g", true}, {"1024b", true}, {"1kb", true}, {"10M", true}, {"1.5g", true}, {"010", true}, {"0x10", true}, {"1_024", true}, {"-1", true},
		{"abc", false}, {"10x", false}, {"", false}, {"m", false}, {"1 0", false}},
}

func init() {
	typedTexts["nanocpus"] = typedTexts["float"]
	typedTexts["devicecount"] = typedTexts["int"]
}

type typedArgs struct {
	Pat   string `json:"pat"`
	Kind  string `json:"kind"`
	Text  string `json:"text"`
	Valid bool   `json:"valid"`
	Form  string `json:"form"`          // var | default | split
	Dot   bool   `json:"dot,omitempty"` // the service is called "sv.c": the walk must escape the dot in the path
	// where the attribute lives: "" = the main file; include | include-long | include-nested = a file reached through
	// `include` (short syntax, long syntax, included by an included file); extends = the file named by `extends.file`.
	// Every file of a load is interpolated with the same cast table, so literal ≡ variable must hold there too.
	Where string `json:"where,omitempty"`
}

// typedFiles distributes the document over the files of the load.
func typedFiles(a typedArgs, d map[string]any) map[string]string {
	switch a.Where {
	case "include":
		return map[string]string{"compose.yaml": emitYAML(map[string]any{"include": []any{"inc.yaml"}}), "inc.yaml": emitYAML(d)}
	case "include-long":
		return map[string]string{"compose.yaml": emitYAML(map[string]any{"include": []any{map[string]any{"path": "inc.yaml"}}, "services": map[string]any{"main": map[string]any{"image": "img"}}}), "inc.yaml": emitYAML(d)}
	case "include-nested":
		return map[string]string{
			"compose.yaml": emitYAML(map[string]any{"include": []any{map[string]any{"path": []any{"mid.yaml"}}}}),
			"mid.yaml":     emitYAML(map[string]any{"include": []any{"inc.yaml"}, "services": map[string]any{"mid": map[string]any{"image": "img"}}}),
			"inc.yaml":     emitYAML(d),
		}
	case "extends":
		name := "svc"
		if a.Dot {
			name = dottedService
		}
		main := core.DeepCopyVal(d).(map[string]any)
		if svcs, ok := main["services"].(map[string]any); ok {
			if _, ok := svcs[name]; ok {
				svcs[name] = map[string]any{"extends": map[string]any{"file": "base.yaml", "service": name}}
				return map[string]string{"compose.yaml": emitYAML(main), "base.yaml": emitYAML(d)}
			}
		}
	}
	return map[string]string{"compose.yaml": emitYAML(d)}
}

const dottedService = "sv.c"

func renameService(d map[string]any, from, to string) {
	if svcs, ok := d["services"].(map[string]any); ok {
		if v, ok := svcs[from]; ok {
			delete(svcs, from)
			svcs[to] = v
		}
	}
}

func typedVarLeaf(form, text string) (string, map[string]string) {
	switch form {
	case "default":
		if isPlain(text) {
			return "${UNSET:-" + text + "}", map[string]string{}
		}
	case "split":
		r := []rune(text)
		if isPlain(text) && len(r) >= 1 {
			i := len(r) / 2
			return string(r[:i]) + "${V}" + "", map[string]string{"V": string(r[i:])}
		}
	case "bare":
		return "$V", map[string]string{"V": text}
	}
	return "${V}", map[string]string{"V": text}
}

func realTyped(raw json.RawMessage) any {
	var a typedArgs
	json.Unmarshal(raw, &a)
	mk := func(leaf any) map[string]string {
		d := place(typedContext(a.Pat), a.Pat, leaf)
		typedSiblings(a.Pat, d)
		if a.Dot {
			renameService(d, "svc", dottedService)
		}
		return typedFiles(a, d)
	}
	out := map[string]any{}
	if plainSafe(a.Text) {
		out["A"] = loadDocs(mk(rawYAML(a.Text)), nil, false)
	}
	out["Q"] = loadDocs(mk(a.Text), nil, false)
	out["Qs"] = loadDocs(mk(a.Text), nil, true)
	leaf, env := typedVarLeaf(a.Form, a.Text)
	out["V"] = loadDocs(mk(leaf), env, false)
	fs := mk(leaf)
	out["doc"] = fs["compose.yaml"] + fs["mid.yaml"] + fs["inc.yaml"] + fs["base.yaml"]
	_, inTable := loader.VerifCastTable()[tree.Path(a.Pat)]
	out["in_table"] = inTable
	return out
}

var idxRe = regexp.MustCompile(`\[([^\]]*)\]`)

// namesPath: the error text mentions the attribute (dotted or mapstructure spelling of the concrete path)
func namesPath(errText, pat string, dot bool) bool {
	norm := idxRe.ReplaceAllString(errText, ".$1")
	parts := strings.Split(pat, ".")
	svc := "svc"
	if dot {
		svc = dottedService
	}
	names := map[string]string{"services": svc, "networks": "net", "volumes": "vol", "secrets": "sec", "configs": "cfg", "depends_on": "dep", "ulimits": "nofile"}
	var conc []string
	for i, p := range parts {
		switch p {
		case "*":
			k := names[parts[i-1]]
			if k == "" {
				k = "key"
			}
			conc = append(conc, k)
		case "[]":
			conc = append(conc, "0")
		default:
			conc = append(conc, p)
		}
	}
	dotted := strings.Join(conc, ".")
	alt := strings.ReplaceAll(dotted, ".0", ".[]")
	return strings.Contains(norm, dotted) || strings.Contains(errText, alt) || strings.Contains(norm, alt)
}

func errClass(e string) string {
	switch {
	case strings.Contains(e, "validating "):
		return "schema"
	case strings.Contains(e, "failed to cast"):
		return "cast"
	case strings.Contains(e, "decoding failed"):
		return "decode"
	}
	return "other"
}

func textClass(kind, text string) string {
	switch {
	case text == "":
		return "empty"
	case strings.HasPrefix(text, "0x"), strings.HasPrefix(text, "0o"), strings.HasPrefix(text, "0b"):
		return text[:2]
	case strings.Contains(text, "_"):
		return "underscore"
	case len(text) > 1 && text[0] == '0' && strings.Trim(text, "0123456789") == "":
		return "leading-zero"
	}
	return "plain"
}

func judgeTyped(args, real, _ json.RawMessage) *core.Verdict {
	if v := core.CrashVerdict(real); v != nil {
		return v
	}
	var a typedArgs
	json.Unmarshal(args, &a)
	var r struct {
		A, Q, Qs, V json.RawMessage
		InTable     bool `json:"in_table"`
		Doc         string
	}
	if json.Unmarshal(real, &r) != nil || r.V == nil {
		return core.Disagree("c08typed: malformed real outcome")
	}
	var crash *core.Verdict
	for _, o := range []json.RawMessage{r.V, r.Q, r.A, r.Qs} {
		if o != nil && crash == nil {
			crash = core.CrashVerdict(o)
		}
	}
	if crash != nil && r.Qs != nil && core.CrashVerdict(r.Qs) == nil {
		return crash // a crash with interpolation on
	}
	A, Q, Qs, V := parseOutcome(r.A), parseOutcome(r.Q), parseOutcome(r.Qs), parseOutcome(r.V)
	if os.Getenv("C08_DEBUG") != "" {
		e := ""
		if !V.isOk() {
			e = strings.ReplaceAll(*V.Err, "\n", " | ")
		}
		fmt.Fprintf(os.Stderr, "TYPED\t%s\t%s\t%q\tvalid=%v\tA=%v Q=%v Qs=%v V=%v\t%s\n", a.Pat, a.Kind, a.Text, a.Valid, r.A != nil && A.isOk(), Q.isOk(), Qs.isOk(), V.isOk(), e)
	}
	tc := textClass(a.Kind, a.Text)
	where := fmt.Sprintf("%s (%s) text %q form %s", a.Pat, a.Kind, a.Text, a.Form)
	if a.Where != "" {
		where += " in a file reached through " + a.Where
	}
	// (0) struct fields the Lean side lists as "not an attribute of the schema" (Props/C08.lean `notInSchema`) must indeed be
	//     rejected when written as a literal
	for _, np := range notInSchemaPaths {
		if np == a.Pat && a.Valid && r.A != nil && A.isOk() {
			return core.Fail("typed:not-in-schema-path-accepts-literal:"+a.Pat, where+": the Lean obligation typed_paths_covered exempts this path as absent from the schema, but the literal loads")
		}
	}
	// (1) a variable is the same as the quoted literal, always
	if Q.isOk() != V.isOk() {
		return core.Fail("typed:var-vs-quoted-class:"+a.Pat, where+": quoted literal and variable differ in success")
	}
	if Q.isOk() && !core.CanonEqual(Q.Ok, V.Ok) {
		return core.Fail("typed:var-vs-quoted-value:"+a.Pat, where+": quoted literal and variable give different models")
	}
	// (2) interpolation on vs off on a `$`-free document (the escape clause with nothing to escape): the cast table and
	//     the decode-time cast must agree whenever the document loads with interpolation off
	if Qs.isOk() && !Q.isOk() {
		return core.Fail("onoff:interp-on-rejects:"+errClass(*Q.Err), where+": loads with SkipInterpolation (decode-time cast) but not with interpolation on: "+*Q.Err)
	}
	if Qs.isOk() && Q.isOk() && !core.CanonEqual(Q.Ok, Qs.Ok) {
		return core.Fail("onoff:value-differs:"+a.Pat, where+": interpolation on (cast table) and off (decode-time cast) give different models")
	}
	// the schema admits a string here if the quoted literal gets past schema validation (it may still fail later, in a
	// transformer or in the decoder: then no mechanism converts it, which is what the property forbids)
	converted := isPinned(a.Pat) || r.InTable
	inScope := converted || Qs.isOk() || (r.A != nil && A.isOk() && errClass(*Qs.Err) != "schema")
	if !inScope {
		return core.Skip("schema does not admit a string at " + a.Pat)
	}
	// (3) same typed value as the plain literal
	if a.Valid && r.A != nil && A.isOk() {
		key := "typed:literal-vs-variable:" + a.Kind
		if tc != "plain" {
			key = "typed:yaml-number-syntax:" + tc
			switch a.Kind {
			case "nanocpus", "devicecount", "bytes":
				// converted by the type's own DecodeMapstructure, not by the casters
				key += ":" + a.Kind
			}
		} else if a.Kind == "nanocpus" || a.Kind == "devicecount" || a.Kind == "bytes" {
			// key stays typed:literal-vs-variable:<kind> (the type's own decoder rejects or misreads the text)
		} else if !converted && !Qs.isOk() {
			key = "typed:no-conversion:" + a.Pat
		}
		if !V.isOk() {
			return core.Fail(key, where+": the plain literal loads but the variable is rejected: "+*V.Err)
		}
		if !core.CanonEqual(A.Ok, V.Ok) {
			return core.Fail(key, where+": the plain literal and the variable give different typed values")
		}
	}
	// (3b) a valid spelling (YAML-1.1 booleans, decimal integers, …) must not be rejected by a caster
	if a.Valid && tc == "plain" && !V.isOk() && errClass(*V.Err) == "cast" {
		return core.Fail("typed:valid-text-rejected-by-cast:"+a.Kind, where+": "+*V.Err)
	}
	// (4) a value that cannot be converted is an error naming the attribute path
	if !a.Valid {
		if V.isOk() {
			if r.A != nil && A.isOk() {
				return nil // the literal is accepted as well: not "cannot be converted"
			}
			return core.Fail("typed:invalid-accepted:"+a.Kind+":"+a.Pat, where+": an unconvertible value is accepted")
		}
		if !namesPath(*V.Err, a.Pat, a.Dot) {
			return core.Fail("typed:error-does-not-name-path:"+a.Pat, where+": error does not name the attribute path: "+*V.Err)
		}
	}
	return crash // nil, or the crash of the SkipInterpolation load when nothing else is wrong
}

func runC08Typed(ctx *core.Ctx) {
	leaves := typedLeaves()
	// pinned rows are typed paths too (e.g. uint32 FileMode targets)
	var pats []string
	for p := range leaves {
		pats = append(pats, p)
	}
	sort.Strings(pats)
	forms := []string{"var", "default", "split", "bare"}
	n := 0
	for _, p := range pats {
		kind := leaves[p]
		for ti, tt := range typedTexts[kind] {
			for fi, f := range forms {
				// quick tier: one form per (path, text), rotating; thorough: all forms
				if !ctx.Thorough() && (ti+fi+n)%len(forms) != 0 {
					continue
				}
				ctx.Count("typed:" + kind + ":" + map[bool]string{true: "valid", false: "invalid"}[tt.Valid])
				ctx.Add("c08typed", typedArgs{Pat: p, Kind: kind, Text: tt.Text, Valid: tt.Valid, Form: f})
			}
		}
		n++
	}
	// the same with a dotted service name (the path of the walk escapes the dot; a cast row must still match)
	for i, p := range pats {
		if !strings.HasPrefix(p, "services.") {
			continue
		}
		kind := leaves[p]
		var valid []typedText
		for _, tt := range typedTexts[kind] {
			if tt.Valid && textClass(kind, tt.Text) == "plain" {
				valid = append(valid, tt)
			}
		}
		for k := 0; k < ctx.Pick(1, 4) && k < len(valid); k++ {
			tt := valid[(i+k)%len(valid)]
			ctx.Count("typed-dotted-service:" + kind)
			ctx.Add("c08typed", typedArgs{Pat: p, Kind: kind, Text: tt.Text, Valid: true, Form: forms[(i+k)%len(forms)], Dot: true})
		}
	}
	// the same with the attribute in a secondary file: include (short / long / nested) and extends.file
	for i, p := range pats {
		kind := leaves[p]
		var valid []typedText
		for _, tt := range typedTexts[kind] {
			if tt.Valid && textClass(kind, tt.Text) == "plain" {
				valid = append(valid, tt)
			}
		}
		if len(valid) == 0 {
			continue
		}
		for wi, w := range []string{"include", "include-long", "include-nested", "extends"} {
			if w == "extends" && !strings.HasPrefix(p, "services.") {
				continue
			}
			for k := 0; k < ctx.Pick(1, 3) && k < len(valid); k++ {
				tt := valid[(i+wi+k)%len(valid)]
				ctx.Count("typed-in-" + w + ":" + kind)
				ctx.Add("c08typed", typedArgs{Pat: p, Kind: kind, Text: tt.Text, Valid: true, Form: forms[(i+wi+k)%len(forms)], Where: w})
			}
		}
	}
	ctx.Note("typed attribute paths enumerated by reflection: %d", len(pats))
}

func runC08Loads(ctx *core.Ctx) {
	runC08Names(ctx)
	runC08Typed(ctx)
	runC08Meta(ctx)
	runC08Whole(ctx)
	runC08OnOff(ctx)
}

func init() {
	core.Register("c08typed", &core.CheckDef{Real: realTyped, Judge: judgeTyped})
	core.Register("c08meta", &core.CheckDef{Real: realMeta, Judge: judgeMeta})
	core.Register("c08escape", &core.CheckDef{Real: realEscape, Judge: judgeMeta})
}
