package c08

// Document-level tie of the round-5 theorems (Props/C08Tree.lean):
//
//	escape_toplevel_typed          Interpolate(escapeAll lit, any env)            = castDocument lit
//	variable_document_is_literal   Interpolate(lit with leaves → templates, env) = castDocument lit
//
// The right-hand side is computed by the Lean driver (`c08castdoc`: the literal document with nothing substituted, every
// string leaf on a cast row cast), the left-hand side by the real interpolation.Interpolate on the rewritten document.
// The rewriting (`$`→`$$`, leaf → `${V}` / `$V` / `${UNSET:-t}` / `${EMPTY:-t}` / `${SET:+t}` / `pre${V}post`) is done
// here; the `$`→`$$` rewriting is also compared with the spec's `escapeKVs`.

import (
	"encoding/json"
	"fmt"
	"math/rand"
	"sort"
	"strings"

	"github.com/compose-spec/compose-go/v2/interpolation"
	"github.com/compose-spec/compose-go/v2/loader"

	"verifharness/core"
)

type docArgs struct {
	Mode string            `json:"mode"` // "escape" | "vars"
	Lit  any               `json:"lit"`  // the literal document (wire format)
	Doc  any               `json:"doc"`  // vars: the variable-bearing document (wire format); escape: unused
	Env  map[string]string `json:"env"`
}

func goEscapeAll(v any) any {
	switch x := v.(type) {
	case string:
		return strings.ReplaceAll(x, "$", "$$")
	case map[string]any:
		m := map[string]any{}
		for k, e := range x {
			m[k] = goEscapeAll(e)
		}
		return m
	case []any:
		l := make([]any, len(x))
		for i, e := range x {
			l[i] = goEscapeAll(e)
		}
		return l
	}
	return v
}

// rawLeafTables renders the opaque float part on every string leaf as it is (nothing substituted).
func rawLeafTables(v any, t *rawTables) {
	switch x := v.(type) {
	case string:
		t.add(x)
	case map[string]any:
		for _, e := range x {
			rawLeafTables(e, t)
		}
	case []any:
		for _, e := range x {
			rawLeafTables(e, t)
		}
	}
}

func realCastDoc(raw json.RawMessage) any {
	var a struct {
		Mode string            `json:"mode"`
		Lit  json.RawMessage   `json:"lit"`
		Doc  json.RawMessage   `json:"doc"`
		Env  map[string]string `json:"env"`
	}
	if err := json.Unmarshal(raw, &a); err != nil {
		return map[string]any{"bad": err.Error()}
	}
	lit, ok := core.DecodeValRaw(a.Lit).(map[string]any)
	if !ok {
		return map[string]any{"bad": "lit is not a mapping"}
	}
	var doc map[string]any
	out := map[string]any{}
	if a.Mode == "escape" {
		doc = goEscapeAll(lit).(map[string]any)
		out["escaped"] = core.EncodeVal(doc)
	} else {
		doc, ok = core.DecodeValRaw(a.Doc).(map[string]any)
		if !ok {
			return map[string]any{"bad": "doc is not a mapping"}
		}
	}
	lookup := func(k string) (string, bool) { v, ok := a.Env[k]; return v, ok }
	res, err := interpolation.Interpolate(doc, interpolation.Options{LookupValue: lookup, TypeCastMapping: loader.VerifCastTable()})
	rt := newRawTables()
	rawLeafTables(lit, rt)
	rt.into(out)
	if err != nil {
		for k, v := range classifyInterpErr(err) {
			out[k] = v
		}
	} else {
		out["ok"] = core.EncodeVal(res)
	}
	return out
}

func judgeCastDoc(args, real, drv json.RawMessage) *core.Verdict {
	if v := core.CrashVerdict(real); v != nil {
		return v
	}
	var a struct {
		Mode string `json:"mode"`
	}
	json.Unmarshal(args, &a)
	var ro struct {
		Bad     string          `json:"bad"`
		Ok      json.RawMessage `json:"ok"`
		Err     string          `json:"err"`
		Path    string          `json:"path"`
		Text    string          `json:"text"`
		Escaped json.RawMessage `json:"escaped"`
	}
	if json.Unmarshal(real, &ro) != nil || ro.Bad != "" {
		return core.Skip("malformed case: " + ro.Bad)
	}
	var d struct {
		Ok      json.RawMessage   `json:"ok"`
		Errs    []json.RawMessage `json:"errs"`
		Escaped json.RawMessage   `json:"escaped"`
		Bad     string            `json:"bad"`
	}
	if drv == nil || json.Unmarshal(drv, &d) != nil || d.Bad != "" {
		return core.Disagree("c08castdoc: no driver answer " + d.Bad)
	}
	if a.Mode == "escape" && !core.CanonEqual(ro.Escaped, d.Escaped) {
		return core.Disagree("Spec.escapeKVs ≠ the harness's `$`→`$$` rewriting")
	}
	what := map[string]string{
		"escape": "the document with every `$` written `$$`, interpolated, is not the original document with nothing substituted",
		"vars":   "the document with leaves supplied through variables, interpolated, is not the literal document with nothing substituted",
	}[a.Mode]
	key := "doc:" + a.Mode
	if ro.Err == "" {
		if d.Ok == nil {
			return core.Fail(key+":accepted-where-literal-is-cast-error", what+": the literal document has a cast error, the rewritten one interpolates")
		}
		if !core.CanonEqual(ro.Ok, d.Ok) {
			return core.Fail(key+":value-differs", what+" (value)")
		}
		return nil
	}
	if ro.Err != "cast" {
		return core.Fail(key+":"+ro.Err+"-error", fmt.Sprintf("%s: interpolation reports %s at %q (%s)", what, ro.Err, ro.Path, ro.Text))
	}
	if d.Ok != nil {
		return core.Fail(key+":rejected-where-literal-casts", fmt.Sprintf("%s: cast error at %q, the literal document casts", what, ro.Path))
	}
	me := mustJ(map[string]any{"err": "cast", "path": ro.Path})
	for _, e := range d.Errs {
		if core.CanonEqual(e, me) {
			return nil
		}
	}
	return core.Fail(key+":error-path-differs", fmt.Sprintf("%s: cast error names %q, which is not a failing leaf of the literal document", what, ro.Path))
}

// templated rewrites string leaves of lit into templates that evaluate to them; a leaf containing `$` is always rewritten
// (kept as it is, it would be substituted).  Returns the rewritten tree; env receives the variables.
func templated(rng *rand.Rand, v any, env map[string]string, n *int, count func(string)) any {
	switch x := v.(type) {
	case string:
		if !strings.Contains(x, "$") && rng.Intn(3) == 0 {
			count("leaf-kept")
			return x
		}
		fs := varForms(x, rng.Intn(1000))
		var f varForm
		for {
			f = fs[rng.Intn(len(fs))]
			if f.Name != "literal" {
				break
			}
		}
		*n++
		vn := fmt.Sprintf("V%d", *n)
		tm, fenv := f.named(vn)
		for k, e := range fenv {
			env[k] = e
		}
		count("leaf-" + f.Name)
		return tm
	case map[string]any:
		m := map[string]any{}
		ks := make([]string, 0, len(x))
		for k := range x {
			ks = append(ks, k)
		}
		sort.Strings(ks)
		for _, k := range ks {
			m[k] = templated(rng, x[k], env, n, count)
		}
		return m
	case []any:
		l := make([]any, len(x))
		for i, e := range x {
			l[i] = templated(rng, e, env, n, count)
		}
		return l
	}
	return v
}

func runC08Docs(ctx *core.Ctx) {
	pats := sortedCastPatterns()
	texts := c08AllTexts()
	var rnd func(depth int) any
	rnd = func(depth int) any {
		k := ctx.Rng.Intn(10)
		if depth == 0 && k >= 6 {
			k = ctx.Rng.Intn(6)
		}
		switch {
		case k < 3:
			return c08Strings[ctx.Rng.Intn(len(c08Strings))]
		case k == 3:
			return texts[ctx.Rng.Intn(len(texts))]
		case k == 4:
			return []any{nil, true, false, 0, 7, -1, 0.5, int(1 << 40)}[ctx.Rng.Intn(8)]
		case k == 5:
			switch ctx.Rng.Intn(3) {
			case 0:
				return c08TailTexts[ctx.Rng.Intn(len(c08TailTexts))]
			case 1:
				return rndTailText(ctx.Rng)
			}
			return []string{"$", "$$", "a$b", "${V1}", "$V1", "cost: $5", "${", "}${{", "$$$"}[ctx.Rng.Intn(9)]
		case k < 8:
			l := make([]any, ctx.Rng.Intn(3))
			for i := range l {
				l[i] = rnd(depth - 1)
			}
			return l
		default:
			m := map[string]any{}
			for i := ctx.Rng.Intn(4); i > 0; i-- {
				m[c08Keys[ctx.Rng.Intn(len(c08Keys))]] = rnd(depth - 1)
			}
			return m
		}
	}
	litDoc := func() map[string]any {
		t := map[string]any{}
		for j := ctx.Rng.Intn(4); j > 0; j-- {
			pat := pats[ctx.Rng.Intn(len(pats))]
			text := texts[ctx.Rng.Intn(len(texts))]
			if ctx.Rng.Intn(4) != 0 {
				text = validTextFor(pat, ctx.Rng.Intn(1000))
			}
			if ctx.Rng.Intn(12) == 0 {
				text += []string{"}", " $ }", "$}", " }"}[ctx.Rng.Intn(4)]
				ctx.Count("doc:row-text-with-tail")
			}
			mergeInto(t, instantiate(pat, []string{"a", "b", "s.1"}[ctx.Rng.Intn(3)], text))
		}
		for j := ctx.Rng.Intn(3); j > 0; j-- {
			t[c08Keys[ctx.Rng.Intn(len(c08Keys))]] = rnd(3)
		}
		return t
	}
	rndEnv := func() map[string]string {
		env := map[string]string{}
		for _, nm := range []string{"A", "B", "N", "T", "E", "U", "V", "V1"} {
			switch ctx.Rng.Intn(4) {
			case 0:
				env[nm] = ""
			case 1:
				env[nm] = texts[ctx.Rng.Intn(len(texts))]
			}
		}
		return env
	}
	// exhaustive small scope: every row × every listed text, escaped; and every row × text × form as a document
	for _, pat := range pats {
		for ti, text := range texts {
			lit := instantiate(pat, []string{"svc", "s.v"}[ti%2], text)
			ctx.Count("doc-escape:row×text")
			ctx.Add("c08castdoc", docArgs{Mode: "escape", Lit: core.EncodeVal(lit), Env: map[string]string{"V": "1", "A": "x"}})
		}
	}
	// round 6, exhaustive: every tail text × cuts × every tail form, at a plain path, inside a list, at a cast row
	for _, text := range c08TailTexts {
		n := len([]rune(text))
		for cut := 0; cut < ctx.Pick(24, 400); cut++ {
			split := cut%(n+1) + 7*(n+1)*(cut%5) + 3*7*(n+1)*(cut/3) + 11*cut
			for _, f := range tailForms(text, split) {
				tm, env := f.named("W1")
				mk := func(leaf string) map[string]any {
					return map[string]any{"services": map[string]any{"a": map[string]any{"command": leaf, "entrypoint": []any{leaf, "x"}, "init": leaf},
						"s.1": map[string]any{"labels": map[string]any{"k": leaf}}}}
				}
				ctx.Count("doc-vars:tail-text×" + f.Name)
				ctx.Add("c08castdoc", docArgs{Mode: "vars", Lit: core.EncodeVal(mk(text)), Doc: core.EncodeVal(mk(tm)), Env: env})
			}
		}
	}
	for i := 0; i < ctx.Pick(2500, 100000); i++ {
		lit := litDoc()
		ctx.Count("doc-escape:random")
		ctx.Add("c08castdoc", docArgs{Mode: "escape", Lit: core.EncodeVal(lit), Env: rndEnv()})
	}
	for i := 0; i < ctx.Pick(2500, 100000); i++ {
		lit := litDoc()
		env := map[string]string{}
		n := 0
		doc := templated(ctx.Rng, lit, env, &n, func(k string) { ctx.Count("doc-vars:" + k) })
		ctx.Count("doc-vars:random")
		ctx.Add("c08castdoc", docArgs{Mode: "vars", Lit: core.EncodeVal(lit), Doc: core.EncodeVal(doc), Env: env})
	}
}

func init() {
	core.Register("c08castdoc", &core.CheckDef{
		Real:     realCastDoc,
		DriverOp: "c08castdoc",
		DriverArgs: func(args, real json.RawMessage) any {
			var a map[string]json.RawMessage
			json.Unmarshal(args, &a)
			var r map[string]json.RawMessage
			json.Unmarshal(real, &r)
			out := map[string]any{"tree": a["lit"]}
			for _, k := range rawTableKeys {
				out[k] = r[k]
			}
			return out
		},
		Judge: judgeCastDoc,
	})
}
