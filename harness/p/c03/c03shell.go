package c03

// Round 6: the string spelling of ShellCommand (go-shellwords) — grammar AST, spec oracle `c03.shellSpec`, generators.
//
//	c03.shellSpec   real types.ShellCommand.DecodeMapstructure(render ast) vs Spec.ShSpec.long (Lean), and vs the model's shellParse

import (
	"encoding/json"
	"fmt"
	"sort"
	"strings"
	"time"
	"unicode"

	"verifharness/core"

	"github.com/compose-spec/compose-go/v2/types"
)

type shSegA struct {
	K string `json:"k"` // plain | sq | dq | esc
	S string `json:"s"`
}
type shWordA struct {
	Sep  string   `json:"sep"`
	Segs []shSegA `json:"segs"`
}
type shA struct {
	Words []shWordA `json:"words"`
	Trail string    `json:"trail"`
}

func (s shSegA) render() string {
	switch s.K {
	case "sq":
		return "'" + s.S + "'"
	case "dq":
		return `"` + s.S + `"`
	case "esc":
		return `\` + s.S
	}
	return s.S
}
func (a shA) render() string {
	var b strings.Builder
	for _, w := range a.Words {
		b.WriteString(w.Sep)
		for _, s := range w.Segs {
			b.WriteString(s.render())
		}
	}
	return b.String() + a.Trail
}
// value of a segment: inside double quotes `\c` stands for c
func (s shSegA) value() string {
	if s.K != "dq" {
		return s.S
	}
	rs := []rune(s.S)
	out := []rune{}
	for i := 0; i < len(rs); i++ {
		if rs[i] == '\\' && i+1 < len(rs) {
			i++
		}
		out = append(out, rs[i])
	}
	return string(out)
}

func (a shA) long() []string {
	out := []string{}
	for _, w := range a.Words {
		v := ""
		for _, s := range w.Segs {
			v += s.value()
		}
		out = append(out, v)
	}
	return out
}

// shape: the segment kinds of the line and the classes of characters inside the words (the key of a failure)
func (a shA) shape() string {
	kinds := map[string]bool{}
	for _, w := range a.Words {
		for _, s := range w.Segs {
			kinds[s.K] = true
			if s.K == "dq" && strings.Contains(s.S, `\`) {
				kinds["dq-escape"] = true
			}
			for _, r := range s.S {
				switch {
				case r == ' ' || r == '\t' || r == '\r' || r == '\n':
					kinds["blank-inside"] = true
				case unicode.IsSpace(r):
					kinds["unicode-space"] = true
				case r > 127:
					kinds["non-ascii"] = true
				}
			}
		}
	}
	l := []string{}
	for k := range kinds {
		l = append(l, k)
	}
	sort.Strings(l)
	if len(a.Words) == 0 {
		return "empty"
	}
	return strings.Join(l, "+")
}

// characters a plain segment is drawn from: letters, punctuation without a meaning to the parser, and the white space
// of Unicode that is NOT one of the parser's four blanks (it belongs to the word)
var shPlainRunes = []rune("abz09-=/.:,_#~*{}[]!?%+@^é世\u00a0\u3000\u2003\f\v\u0085$")

// the subset that survives a trip through a YAML document unchanged and is not touched by interpolation
var shPlainRunesDoc = []rune("abz09-=/.:,_~*{}[]!?%+@^é世\u00a0\u3000\u2003\f\v")

var shQuotedExtra = []rune(" \t\n;&|<>()`")

func rndShAST(ctx *core.Ctx, forDoc bool) shA {
	r := ctx.Rng
	plain := shPlainRunes
	if forDoc {
		plain = shPlainRunesDoc
	}
	str := func(min, max int, extra []rune) string {
		n := min + r.Intn(max-min+1)
		rs := make([]rune, 0, n)
		for i := 0; i < n; i++ {
			if len(extra) > 0 && r.Intn(3) == 0 {
				rs = append(rs, extra[r.Intn(len(extra))])
			} else {
				rs = append(rs, plain[r.Intn(len(plain))])
			}
		}
		return string(rs)
	}
	blanks := func(min int) string {
		n := min
		if r.Intn(4) == 0 {
			n += r.Intn(3)
		}
		b := ""
		for i := 0; i < n; i++ {
			b += []string{" ", " ", " ", "\t", "\n", "\r"}[r.Intn(6)]
		}
		return b
	}
	a := shA{Words: []shWordA{}}
	nw := r.Intn(5)
	for i := 0; i < nw; i++ {
		w := shWordA{Sep: blanks(1)}
		if i == 0 {
			w.Sep = blanks(0)
		}
		ns := 1
		if r.Intn(3) == 0 {
			ns += r.Intn(3)
		}
		for j := 0; j < ns; j++ {
			switch r.Intn(8) {
			case 0:
				w.Segs = append(w.Segs, shSegA{"sq", str(0, 4, append([]rune(`"\`), shQuotedExtra...))})
			case 1:
				body := str(0, 4, append([]rune(`'`), shQuotedExtra...))
				if r.Intn(3) == 0 { // escapes inside the double quotes: \" \\ \x
					esc := []string{`\"`, `\\`, `\a`, `\'`, `\ `}[r.Intn(5)]
					cut := r.Intn(len([]rune(body)) + 1)
					body = string([]rune(body)[:cut]) + esc + string([]rune(body)[cut:])
				}
				w.Segs = append(w.Segs, shSegA{"dq", body})
			case 2:
				esc := append(append([]rune(`\"' `), shQuotedExtra...), plain...)
				w.Segs = append(w.Segs, shSegA{"esc", string(esc[r.Intn(len(esc))])})
			default:
				w.Segs = append(w.Segs, shSegA{"plain", str(1, 5, nil)})
			}
		}
		a.Words = append(a.Words, w)
	}
	if r.Intn(4) == 0 {
		a.Trail = blanks(1)
	}
	return a
}

func init() {
	core.Register("c03.shellSpec", &core.CheckDef{
		Real: func(raw json.RawMessage) any {
			var a struct{ Ast shA }
			json.Unmarshal(raw, &a)
			s := a.Ast.render()
			out := map[string]any{"rendered": s, "long": a.Ast.long()}
			var x types.ShellCommand
			if err := x.DecodeMapstructure(s); err != nil {
				out["err"] = "decode"
				return out
			}
			var y types.ShellCommand
			l := []any{}
			for _, w := range a.Ast.long() {
				l = append(l, w)
			}
			if err := y.DecodeMapstructure(l); err != nil {
				out["err"] = "decode-list"
				return out
			}
			out["ok"] = []string(x)
			out["list"] = []string(y)
			return out
		},
		DriverOp: "c03.shellSpec",
		Timeout:  10 * time.Second,
		Judge: func(args, real, drv json.RawMessage) *core.Verdict {
			if v := crashVerdict(real); v != nil {
				return v
			}
			var a struct{ Ast shA }
			json.Unmarshal(args, &a)
			var r struct {
				Rendered string
				Long     []string
				Ok, List []string
				Err      string
			}
			var d struct {
				WF       bool     `json:"wf"`
				Rendered string   `json:"rendered"`
				Long     []string `json:"long"`
				Model    []string `json:"model"`
			}
			if json.Unmarshal(real, &r) != nil || json.Unmarshal(drv, &d) != nil {
				return core.Disagree("malformed spec exchange")
			}
			if r.Rendered != d.Rendered {
				return core.Disagree("Go render ≠ Lean render (shell words)")
			}
			if !jsonEq(r.Long, d.Long) {
				return core.Disagree("Go long ≠ Lean long (shell words)")
			}
			if !d.WF {
				return core.Skip("not well-formed")
			}
			if r.Err != "" || !jsonEq(r.Ok, r.List) || !jsonEq(r.Ok, d.Long) {
				return core.Fail("shell-short-ne-long:"+a.Ast.shape(), fmt.Sprintf("command string %q decodes to %q %s; its list form %q decodes to %q", r.Rendered, r.Ok, r.Err, d.Long, r.List))
			}
			if d.Model == nil || !jsonEq(d.Model, r.Ok) {
				return core.Disagree(fmt.Sprintf("shellParse(%q) = %q, shellwords.Parse gives %q", r.Rendered, d.Model, r.Ok))
			}
			return nil
		},
	})
}

// shellStreams: (a) every string over a small alphabet that has all the parser's special characters, one ordinary letter,
// a digit and three white-space characters outside the parser's own table, through ShellCommand.DecodeMapstructure vs
// the model (`c03.decode`); (b) grammar-directed lines vs their list form (`c03.shellSpec`); (c) one-character mutations of (b).
func shellStreams(ctx *core.Ctx) {
	alpha := []string{"a", "1", " ", "\t", "\u00a0", "\u3000", "\f", `"`, "'", `\`, "$", "(", ")", "`", ";", ">", "\n"}
	allStrings(alpha, ctx.Pick(3, 4), func(s string) {
		ctx.Count(fmt.Sprintf("shell-exhaustive-len-%d", len([]rune(s))))
		ctx.Add("c03.decode", map[string]any{"type": "ShellCommand", "v": core.EncodeVal(s)})
	})
	for i := 0; i < ctx.Pick(4000, 80000); i++ {
		a := rndShAST(ctx, false)
		ctx.Count("shellspec:" + a.shape())
		ctx.Add("c03.shellSpec", map[string]any{"ast": a})
		if i%2 == 0 {
			rs := []rune(a.render())
			if len(rs) > 0 {
				j := ctx.Rng.Intn(len(rs))
				ins := []rune(alpha[ctx.Rng.Intn(len(alpha))])
				switch ctx.Rng.Intn(3) {
				case 0:
					rs = append(rs[:j:j], rs[j+1:]...)
				case 1:
					rs = append(rs[:j:j], append(ins, rs[j:]...)...)
				default:
					rs[j] = ins[0]
				}
			}
			ctx.Count("shell-random-mutated")
			ctx.Add("c03.decode", map[string]any{"type": "ShellCommand", "v": core.EncodeVal(string(rs))})
		}
	}
}
