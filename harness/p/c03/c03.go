package c03

// C03 — short and long syntaxes of an attribute denote the same model.
//
// correspondence (real code vs Lean model):
//   c03.parseVolume  format.ParseVolume            vs Short.parseVolume
//   c03.parsePort    types.ParsePortConfig         vs Short.parsePort
//   c03.canonical    transform.Canonical           vs Short.canonical
//   c03.decode       (*types.X).DecodeMapstructure vs Short.decodeX
//   c03.twoDocs      Canonical ∘ override.Merge ∘ Canonical at services.s.<attr>  vs Short.twoDocsAt
//   c03.pathClean    path.Clean                    vs Short.pathClean
//   c03.validIP      net.ParseIP != nil            vs Short.validIP
// direct oracles (the property decided on the real code):
//   c03.portSpec / c03.volSpec / c03.devSpec   real parser on render(ast) vs the Lean specification long(ast)
//   c03.shortLong    metamorphic: load(short document) vs load(long document), typed projects compared
//   c03.nearmiss     a document with a near-miss short string must be rejected
//   c03.idem         Canonical(Canonical(t)) = Canonical(t) on the real code

import (
	"encoding/json"
	"fmt"
	"net"
	"path"
	"reflect"
	"regexp"
	"sort"
	"strconv"
	"strings"
	"time"

	"github.com/compose-spec/compose-go/v2/format"
	"github.com/compose-spec/compose-go/v2/override"
	"github.com/compose-spec/compose-go/v2/transform"
	"github.com/compose-spec/compose-go/v2/tree"
	"github.com/compose-spec/compose-go/v2/types"

	"verifharness/core"
)

// ---------------------------------------------------------------- real runners

func volOut(v types.ServiceVolumeConfig) map[string]any {
	m := map[string]any{"type": v.Type, "source": v.Source, "target": v.Target, "read_only": v.ReadOnly, "bind": nil, "volume": nil}
	if v.Bind != nil {
		m["bind"] = map[string]any{"selinux": v.Bind.SELinux, "propagation": v.Bind.Propagation, "create_host_path": v.Bind.CreateHostPath}
	}
	if v.Volume != nil {
		m["volume"] = map[string]any{"nocopy": v.Volume.NoCopy}
	}
	return m
}

func realParseVolume(s string) any {
	v, err := format.ParseVolume(s)
	if err != nil {
		return map[string]any{"err": "parse"}
	}
	return map[string]any{"ok": volOut(v)}
}

func portOut(p types.ServicePortConfig) map[string]any {
	return map[string]any{"host_ip": p.HostIP, "target": p.Target, "published": p.Published, "protocol": p.Protocol}
}

func realParsePort(s string) any {
	l, err := types.ParsePortConfig(s)
	if err != nil {
		return map[string]any{"err": "parse"}
	}
	out := []any{}
	for _, p := range l {
		if p.Mode != "ingress" || p.Name != "" || p.AppProtocol != "" {
			return map[string]any{"bad": fmt.Sprintf("unexpected field in %+v", p)}
		}
		out = append(out, portOut(p))
	}
	return map[string]any{"ok": out}
}

var (
	reType     = regexp.MustCompile(`invalid type|unsupported type|unsupported value|invalid ssh key type`)
	reConflict = regexp.MustCompile(`conflict`)
)

func errClass(err error) string {
	s := err.Error()
	switch {
	case reType.MatchString(s):
		return "type"
	case reConflict.MatchString(s):
		return "conflict"
	}
	return "parse"
}

type canonArgs struct {
	Tree json.RawMessage `json:"tree"`
	Ign  bool            `json:"ign"`
}

func realCanonical(raw json.RawMessage) any {
	var a canonArgs
	json.Unmarshal(raw, &a)
	t, ok := core.DecodeValRaw(a.Tree).(map[string]any)
	if !ok {
		return map[string]any{"bad": "not a map"}
	}
	r, err := transform.Canonical(t, a.Ign)
	if err != nil {
		return map[string]any{"err": errClass(err)}
	}
	out := map[string]any{"ok": core.EncodeVal(r)}
	// the input was decoded from JSON, so it is a tree on the heap: any node reachable by two paths of the result was
	// shared by Canonical itself (a later in-place stage — override.Merge of the next file — would edit both positions)
	if al := aliasScan(r); al != nil {
		out["aliased"] = al
	}
	return out
}

// aliasScan walks a YAML tree on the real heap and reports the first mutable node (non-empty map, non-empty slice
// backing array) that is reachable by two different paths: {"first": path, "second": path, "pattern": generalised path}.
func aliasScan(v any) map[string]any {
	seen := map[uintptr][]string{}
	var found map[string]any
	var walk func(v any, p []string)
	walk = func(v any, p []string) {
		if found != nil {
			return
		}
		var ptr uintptr
		switch x := v.(type) {
		case map[string]any:
			if len(x) > 0 {
				ptr = reflect.ValueOf(x).Pointer()
			}
		case []any:
			if len(x) > 0 {
				ptr = reflect.ValueOf(x).Pointer()
			}
		default:
			return
		}
		if ptr != 0 {
			if q, ok := seen[ptr]; ok {
				found = map[string]any{"first": strings.Join(q, "."), "second": strings.Join(p, "."), "pattern": aliasPattern(p)}
				return
			}
			seen[ptr] = append([]string(nil), p...)
		}
		switch x := v.(type) {
		case map[string]any:
			ks := make([]string, 0, len(x))
			for k := range x {
				ks = append(ks, k)
			}
			sort.Strings(ks)
			for _, k := range ks {
				walk(x[k], append(p, k))
			}
		case []any:
			for i, e := range x {
				walk(e, append(p, strconv.Itoa(i)))
			}
		}
	}
	walk(v, nil)
	return found
}

// aliasPattern: the path with user-chosen names (second segment, and everything below the attribute) replaced by "*"
func aliasPattern(p []string) string {
	q := append([]string(nil), p...)
	for i := range q {
		if i == 1 || i >= 3 {
			q[i] = "*"
		}
	}
	return strings.Join(q, ".")
}

type decodeArgs struct {
	Type string          `json:"type"`
	V    json.RawMessage `json:"v"`
}

var decodeTypes = []string{"Mapping", "MappingWithEquals", "Labels", "HostsList", "StringList", "StringOrNumberList", "HealthCheckTest", "Options", "DeviceCount", "UlimitsConfig", "ShellCommand", "SSHConfig"}

func strPtrMap(m map[string]*string) any {
	out := map[string]any{}
	for k, v := range m {
		if v == nil {
			out[k] = nil
		} else {
			out[k] = *v
		}
	}
	return out
}

func strMap(m map[string]string) any {
	out := map[string]any{}
	for k, v := range m {
		out[k] = v
	}
	return out
}

func strList(l []string) any {
	out := make([]any, len(l))
	for i, s := range l {
		out[i] = s
	}
	return out
}

func realDecode(raw json.RawMessage) any {
	var a decodeArgs
	json.Unmarshal(raw, &a)
	v := core.DecodeValRaw(a.V)
	var res any
	var err error
	switch a.Type {
	case "Mapping":
		var x types.Mapping
		err = x.DecodeMapstructure(v)
		res = strMap(x)
	case "MappingWithEquals":
		var x types.MappingWithEquals
		err = x.DecodeMapstructure(v)
		res = strPtrMap(x)
	case "Labels":
		var x types.Labels
		err = x.DecodeMapstructure(v)
		res = strMap(x)
	case "Options":
		var x types.Options
		err = x.DecodeMapstructure(v)
		res = strMap(x)
	case "HostsList":
		var x types.HostsList
		err = x.DecodeMapstructure(v)
		m := map[string]any{}
		for k, l := range x {
			m[k] = strList(l)
		}
		res = m
	case "StringList":
		var x types.StringList
		err = x.DecodeMapstructure(v)
		res = strList(x)
	case "StringOrNumberList":
		var x types.StringOrNumberList
		err = x.DecodeMapstructure(v)
		res = strList(x)
	case "HealthCheckTest":
		var x types.HealthCheckTest
		err = x.DecodeMapstructure(v)
		res = strList(x)
	case "ShellCommand":
		var x types.ShellCommand
		err = x.DecodeMapstructure(v)
		if x != nil {
			res = strList(x)
		}
	case "SSHConfig":
		var x types.SSHConfig
		err = x.DecodeMapstructure(v)
		l := []any{}
		for _, k := range x {
			l = append(l, map[string]any{"id": k.ID, "path": k.Path})
		}
		res = l
	case "DeviceCount":
		var x types.DeviceCount
		err = x.DecodeMapstructure(v)
		res = int64(x)
	case "UlimitsConfig":
		var x types.UlimitsConfig
		err = x.DecodeMapstructure(v)
		res = map[string]any{"single": x.Single, "soft": x.Soft, "hard": x.Hard}
	default:
		return map[string]any{"bad": "type"}
	}
	if err != nil {
		return map[string]any{"err": "decode"}
	}
	return map[string]any{"ok": core.EncodeVal(res)}
}

// crashVerdict: a process death is reported; a missed watchdog is skipped (it is machine load or a C01 matter, never a C03 verdict).
func crashVerdict(real json.RawMessage) *core.Verdict {
	if core.Class(real) == "hang" {
		return core.Skip("no answer within the watchdog")
	}
	return core.CrashVerdict(real)
}

// classJudge compares outcomes; for a panic only the site is compared (the message is not modelled).
func classJudge(what string) func(args, real, drv json.RawMessage) *core.Verdict {
	return func(args, real, drv json.RawMessage) *core.Verdict {
		cr, cd := core.Class(real), core.Class(drv)
		if cr == "fatal" || cr == "hang" {
			return crashVerdict(real)
		}
		if cr == "panic" {
			var r, d struct {
				Panic string `json:"panic"`
			}
			json.Unmarshal(real, &r)
			json.Unmarshal(drv, &d)
			if cd == "panic" && (d.Panic == r.Panic || d.Panic == "decode") {
				return nil
			}
			return core.Disagree(what + ": real panics at " + r.Panic + ", model says " + string(drv))
		}
		if !core.CanonEqual(real, drv) {
			return core.Disagree(what)
		}
		return nil
	}
}

// canonicalJudge: successful results are compared exactly; a failure of the real code must be a member of the model's
// set of failures reachable under some map iteration order (collect mode, DESIGN §2.6).
func canonicalJudge(args, real, drv json.RawMessage) *core.Verdict {
	cr := core.Class(real)
	if cr == "fatal" || cr == "hang" {
		return crashVerdict(real)
	}
	var d struct {
		Ok    json.RawMessage
		Fails []string
	}
	json.Unmarshal(drv, &d)
	if cr == "ok" {
		var ro struct {
			Ok      json.RawMessage
			Aliased *struct{ First, Second, Pattern string }
		}
		json.Unmarshal(real, &ro)
		if ro.Aliased != nil {
			// the model is a value model: it cannot disagree about sharing. Decided on the real heap: the canonical tree
			// must be a tree, otherwise the short form is not the long form's model once a later stage edits one entry in place
			return core.Fail("canonical-aliased-nodes:"+ro.Aliased.Pattern, fmt.Sprintf("transform.Canonical returns one mutable node at two positions: %s and %s", ro.Aliased.First, ro.Aliased.Second))
		}
		okOnly, _ := json.Marshal(map[string]any{"ok": ro.Ok})
		if d.Fails != nil || !core.CanonEqual(okOnly, drv) {
			return core.Disagree("Short.canonical ≠ transform.Canonical")
		}
		return nil
	}
	var r struct{ Err, Panic string }
	json.Unmarshal(real, &r)
	want := "err:" + r.Err
	if cr == "panic" {
		want = "panic:" + r.Panic
	}
	for _, f := range d.Fails {
		if f == want {
			return nil
		}
	}
	return core.Disagree(fmt.Sprintf("transform.Canonical fails with %s; the model allows %v", want, d.Fails))
}

// ---------------------------------------------------------------- grammar ASTs (ported render/long; cross-checked against Lean on every case)

type numA struct {
	Z int `json:"z"`
	V int `json:"v"`
}
type rangeA struct {
	Lo numA  `json:"lo"`
	Hi *numA `json:"hi"`
}
type ipA struct {
	Bracket bool   `json:"bracket"`
	Addr    string `json:"addr"`
}
type portA struct {
	IP    *ipA    `json:"ip"`
	Host  *rangeA `json:"host"`
	Cont  rangeA  `json:"cont"`
	Proto *string `json:"proto"`
}

func (n numA) render() string { return strings.Repeat("0", n.Z) + strconv.Itoa(n.V) }
func (r rangeA) render() string {
	if r.Hi == nil {
		return r.Lo.render()
	}
	return r.Lo.render() + "-" + r.Hi.render()
}
func (r rangeA) last() int {
	if r.Hi == nil {
		return r.Lo.V
	}
	return r.Hi.V
}
func (r rangeA) size() int {
	if r.last() < r.Lo.V {
		return 1 // natural-number subtraction, as in the Lean spec
	}
	return r.last() - r.Lo.V + 1
}
func (i ipA) render() string {
	if i.Bracket {
		return "[" + i.Addr + "]"
	}
	return i.Addr
}
func (a portA) render() string {
	c := a.Cont.render()
	if a.Proto != nil {
		c += "/" + *a.Proto
	}
	switch {
	case a.IP == nil && a.Host == nil:
		return c
	case a.IP == nil:
		return a.Host.render() + ":" + c
	case a.Host == nil:
		return a.IP.render() + "::" + c
	}
	return a.IP.render() + ":" + a.Host.render() + ":" + c
}
func (a portA) long() []map[string]any {
	proto := "tcp"
	if a.Proto != nil && *a.Proto != "" {
		proto = strings.ToLower(*a.Proto)
	}
	ip := ""
	if a.IP != nil {
		ip = a.IP.Addr
	}
	var out []map[string]any
	for i := 0; i < a.Cont.size(); i++ {
		pub := ""
		if a.Host != nil {
			if a.Cont.size() == 1 && a.Host.size() != 1 {
				pub = strconv.Itoa(a.Host.Lo.V) + "-" + strconv.Itoa(a.Host.last())
			} else {
				pub = strconv.Itoa(a.Host.Lo.V + i)
			}
		}
		out = append(out, map[string]any{"host_ip": ip, "target": a.Cont.Lo.V + i, "published": pub, "protocol": proto})
	}
	return out
}
func (a portA) shape() string {
	s := "ip=none"
	if a.IP != nil {
		s = "ip=v4"
		if strings.Contains(a.IP.Addr, ":") {
			s = "ip=v6"
		}
	}
	rs := func(r *rangeA) string {
		switch {
		case r == nil:
			return "none"
		case r.Hi == nil:
			return "single"
		}
		return "range"
	}
	p := "none"
	if a.Proto != nil {
		p = strings.ToLower(*a.Proto)
	}
	return fmt.Sprintf("%s,host=%s,cont=%s,proto=%s", s, rs(a.Host), rs(&a.Cont), p)
}

type segA struct {
	Plain *string `json:"plain,omitempty"`
	Drive string  `json:"drive,omitempty"`
	Rest  string  `json:"rest,omitempty"`
}

func (s segA) render() string {
	if s.Plain != nil {
		return *s.Plain
	}
	return s.Drive + ":" + s.Rest
}

type volA struct {
	Source *segA    `json:"source"`
	Target segA     `json:"target"`
	Flags  []string `json:"flags"` // ro rw nocopy z Z prop:N other:<text>
}

var propNames = []string{"rprivate", "private", "rshared", "shared", "rslave", "slave"}

func flagRender(f string) string {
	switch {
	case strings.HasPrefix(f, "prop:"):
		n, _ := strconv.Atoi(f[5:])
		return propNames[n]
	case strings.HasPrefix(f, "other:"):
		return f[6:]
	}
	return f
}
func (a volA) render() string {
	if a.Source == nil {
		return a.Target.render()
	}
	s := a.Source.render() + ":" + a.Target.render()
	if len(a.Flags) > 0 {
		var fs []string
		for _, f := range a.Flags {
			fs = append(fs, flagRender(f))
		}
		s += ":" + strings.Join(fs, ",")
	}
	return s
}
func (a volA) isPath() bool {
	if a.Source == nil {
		return false
	}
	if a.Source.Plain == nil {
		return true
	}
	s := *a.Source.Plain
	return strings.HasPrefix(s, ".") || strings.HasPrefix(s, "/") || strings.HasPrefix(s, "~") || strings.HasPrefix(s, `\\`)
}

// long form as a YAML tree (target cleaned, as the transformer does); cross-checked against Lean's long/clean_target
func (a volA) long() map[string]any {
	m := map[string]any{"target": cleanT(a.Target.render())}
	if a.Source != nil {
		m["source"] = a.Source.render()
	}
	var bind, vol map[string]any
	for _, f := range a.Flags {
		switch {
		case f == "ro":
			m["read_only"] = true
		case f == "rw":
			delete(m, "read_only")
		case f == "nocopy":
			vol = map[string]any{"nocopy": true}
		case f == "z" || f == "Z":
			if bind == nil {
				bind = map[string]any{}
			}
			bind["selinux"] = f
		case strings.HasPrefix(f, "prop:"):
			if bind == nil {
				bind = map[string]any{}
			}
			bind["propagation"] = flagRender(f)
		}
	}
	switch {
	case a.Source == nil && len(a.Target.render()) <= 2:
		m["type"] = "volume"
	case a.isPath():
		m["type"] = "bind"
		if bind == nil {
			bind = map[string]any{}
		}
		bind["create_host_path"] = true
	default:
		m["type"] = "volume"
		if vol == nil {
			vol = map[string]any{}
		}
	}
	if bind != nil {
		m["bind"] = bind
	}
	if vol != nil {
		m["volume"] = vol
	}
	return m
}

func cleanT(t string) string {
	if t == "" {
		return ""
	}
	return path.Clean(t)
}

// the Lean-side Vol JSON → the same YAML tree shape as volA.long (omitempty)
func volJSONToTree(raw json.RawMessage, cleanTarget string) map[string]any {
	var v struct {
		Type, Source, Target string
		ReadOnly             bool `json:"read_only"`
		Bind                 *struct {
			Selinux, Propagation string
			CreateHostPath       bool `json:"create_host_path"`
		}
		Volume *struct{ Nocopy bool }
	}
	json.Unmarshal(raw, &v)
	m := map[string]any{}
	put := func(m map[string]any, k, s string) {
		if s != "" {
			m[k] = s
		}
	}
	put(m, "type", v.Type)
	put(m, "source", v.Source)
	put(m, "target", cleanTarget)
	if v.ReadOnly {
		m["read_only"] = true
	}
	if v.Bind != nil {
		b := map[string]any{}
		put(b, "selinux", v.Bind.Selinux)
		put(b, "propagation", v.Bind.Propagation)
		if v.Bind.CreateHostPath {
			b["create_host_path"] = true
		}
		m["bind"] = b
	}
	if v.Volume != nil {
		vv := map[string]any{}
		if v.Volume.Nocopy {
			vv["nocopy"] = true
		}
		m["volume"] = vv
	}
	return m
}

type devA struct {
	Src  string  `json:"src"`
	Dst  *string `json:"dst"`
	Perm *string `json:"perm"`
}

func (a devA) render() string {
	switch {
	case a.Dst == nil:
		return a.Src
	case a.Perm == nil:
		return a.Src + ":" + *a.Dst
	}
	return a.Src + ":" + *a.Dst + ":" + *a.Perm
}
func (a devA) long() map[string]any {
	dst, perm := a.Src, "rwm"
	if a.Dst != nil && *a.Dst != "" {
		dst = *a.Dst
	}
	if a.Dst != nil && a.Perm != nil {
		perm = *a.Perm
	}
	return map[string]any{"source": a.Src, "target": dst, "permissions": perm}
}

func jsonEq(a, b any) bool {
	x, _ := json.Marshal(a)
	y, _ := json.Marshal(b)
	return core.CanonEqual(x, y)
}

func sortPorts(l []map[string]any) {
	sort.SliceStable(l, func(i, j int) bool {
		a, _ := json.Marshal(l[i]["target"])
		b, _ := json.Marshal(l[j]["target"])
		x, _ := strconv.Atoi(string(a))
		y, _ := strconv.Atoi(string(b))
		return x < y
	})
}

type specOut struct {
	WF          bool            `json:"wf"`
	Rendered    string          `json:"rendered"`
	Long        json.RawMessage `json:"long"`
	CleanTarget string          `json:"clean_target"`
	IsPath      bool            `json:"is_path"`
}

// ---------------------------------------------------------------- typed-project canonicaliser for the metamorphic oracle

func canonTyped(v reflect.Value) any {
	switch v.Kind() {
	case reflect.Invalid:
		return nil
	case reflect.Ptr, reflect.Interface:
		if v.IsNil() {
			return nil
		}
		return canonTyped(v.Elem())
	case reflect.Struct:
		m := map[string]any{}
		t := v.Type()
		for i := 0; i < v.NumField(); i++ {
			if t.Field(i).IsExported() {
				m[t.Field(i).Name] = canonTyped(v.Field(i))
			}
		}
		return m
	case reflect.Map:
		if v.IsNil() {
			return nil
		}
		m := map[string]any{}
		for _, k := range v.MapKeys() {
			m[fmt.Sprint(k.Interface())] = canonTyped(v.MapIndex(k))
		}
		return map[string]any{"#map": m}
	case reflect.Slice:
		if v.IsNil() {
			return nil
		}
		l := make([]any, v.Len())
		for i := range l {
			l[i] = canonTyped(v.Index(i))
		}
		switch v.Type().Elem().Name() {
		case "ServicePortConfig", "SSHKey": // order fixed by a sort over string keys / by Go map order: not part of the property
			sort.SliceStable(l, func(i, j int) bool {
				a, _ := json.Marshal(l[i])
				b, _ := json.Marshal(l[j])
				return string(a) < string(b)
			})
		}
		return l
	case reflect.String:
		return v.String()
	case reflect.Bool:
		return v.Bool()
	case reflect.Int, reflect.Int8, reflect.Int16, reflect.Int32, reflect.Int64:
		return strconv.FormatInt(v.Int(), 10)
	case reflect.Uint, reflect.Uint8, reflect.Uint16, reflect.Uint32, reflect.Uint64:
		return strconv.FormatUint(v.Uint(), 10)
	case reflect.Float32, reflect.Float64:
		return strconv.FormatFloat(v.Float(), 'g', -1, 64)
	}
	return fmt.Sprintf("<<%s>>", v.Kind())
}

func projCanon(p *types.Project) any {
	return map[string]any{
		"services": canonTyped(reflect.ValueOf(p.Services)),
		"networks": canonTyped(reflect.ValueOf(p.Networks)),
		"volumes":  canonTyped(reflect.ValueOf(p.Volumes)),
		"secrets":  canonTyped(reflect.ValueOf(p.Secrets)),
		"configs":  canonTyped(reflect.ValueOf(p.Configs)),
	}
}

type pairArgs struct {
	Attr  string            `json:"attr"`
	Short any               `json:"short"`
	Long  any               `json:"long,omitempty"`
	Files map[string]string `json:"files,omitempty"`
	Class string            `json:"class,omitempty"`
	// Other: a second document merged with the short (resp. long) one; Mode says how:
	//   "file-after"  config files [short, other]      "doc-after"  one file, two YAML documents short --- other
	//   "file-before" config files [other, short]      "doc-before" one file, other --- short
	//   "extends"     one document: the short/long attribute in service xbase, `other`'s service s extends xbase
	Other any    `json:"other,omitempty"`
	Mode  string `json:"mode,omitempty"`
}

func loadDoc(root string, names ...string) any {
	req := core.LoadReq{ConfigFiles: names, ProjectName: "p", SkipConsistencyCheck: true}
	p, err := req.LoadIn(root)
	if err != nil {
		return map[string]any{"err": core.ScrubErr(err, root)}
	}
	return map[string]any{"ok": projCanon(p)}
}

func realPair(raw json.RawMessage) any {
	var a pairArgs
	json.Unmarshal(raw, &a)
	files := map[string]string{}
	for k, v := range a.Files {
		files[k] = v
	}
	sb, _ := json.Marshal(a.Short)
	files["short.yaml"] = string(sb)
	if a.Long != nil {
		lb, _ := json.Marshal(a.Long)
		files["long.yaml"] = string(lb)
	}
	namesOf := func(n string) []string { return []string{n} }
	if a.Other != nil {
		ob, _ := json.Marshal(a.Other)
		switch a.Mode {
		case "extends":
			// one document: the short (long) attribute sits in service xbase, service s extends xbase and carries the
			// refinement (override.ExtendService on the raw values, before any Canonical)
			for _, n := range []string{"short.yaml", "long.yaml"} {
				c, ok := files[n]
				if !ok {
					continue
				}
				var d map[string]any
				var o map[string]any
				json.Unmarshal([]byte(c), &d)
				json.Unmarshal(ob, &o)
				svcs, _ := d["services"].(map[string]any)
				osvcs, _ := o["services"].(map[string]any)
				ns, _ := osvcs["s"].(map[string]any)
				if svcs == nil || ns == nil {
					return map[string]any{"bad": "extends mode needs services.s in both documents"}
				}
				svcs["xbase"] = svcs["s"]
				ns["extends"] = map[string]any{"service": "xbase"}
				svcs["s"] = ns
				b, _ := json.Marshal(d)
				files[n] = string(b)
			}
		case "file-after":
			files["other.yaml"] = string(ob)
			namesOf = func(n string) []string { return []string{n, "other.yaml"} }
		case "file-before":
			files["other.yaml"] = string(ob)
			namesOf = func(n string) []string { return []string{"other.yaml", n} }
		case "doc-after":
			for _, n := range []string{"short.yaml", "long.yaml"} {
				if c, ok := files[n]; ok {
					files[n] = c + "\n---\n" + string(ob) + "\n"
				}
			}
		case "doc-before":
			for _, n := range []string{"short.yaml", "long.yaml"} {
				if c, ok := files[n]; ok {
					files[n] = string(ob) + "\n---\n" + c + "\n"
				}
			}
		default:
			return map[string]any{"bad": "mode " + a.Mode}
		}
	}
	root, err := core.Materialize(files)
	defer removeAll(root)
	if err != nil {
		return map[string]any{"bad": err.Error()}
	}
	out := map[string]any{"short": loadDoc(root, namesOf("short.yaml")...)}
	if a.Long != nil {
		out["long"] = loadDoc(root, namesOf("long.yaml")...)
	}
	return out
}

func init() {
	core.Register("c03.parseVolume", &core.CheckDef{
		Real: func(raw json.RawMessage) any {
			var a struct{ S string }
			json.Unmarshal(raw, &a)
			return realParseVolume(a.S)
		},
		DriverOp: "c03.parseVolume", Judge: classJudge("Short.parseVolume ≠ format.ParseVolume"),
	})
	core.Register("c03.parsePort", &core.CheckDef{
		Real: func(raw json.RawMessage) any {
			var a struct{ S string }
			json.Unmarshal(raw, &a)
			return realParsePort(a.S)
		},
		DriverOp: "c03.parsePort", Judge: classJudge("Short.parsePort ≠ types.ParsePortConfig"),
	})
	core.Register("c03.pathClean", &core.CheckDef{
		Real: func(raw json.RawMessage) any {
			var a struct{ S string }
			json.Unmarshal(raw, &a)
			return map[string]any{"ok": path.Clean(a.S)}
		},
		DriverOp: "c03.pathClean", Judge: classJudge("Short.pathClean ≠ path.Clean"),
	})
	core.Register("c03.validIP", &core.CheckDef{
		Real: func(raw json.RawMessage) any {
			var a struct{ S string }
			json.Unmarshal(raw, &a)
			return map[string]any{"ok": net.ParseIP(a.S) != nil}
		},
		DriverOp: "c03.validIP", Judge: classJudge("Short.validIP ≠ net.ParseIP"),
	})
	core.Register("c03.pathNext", &core.CheckDef{
		Real: func(raw json.RawMessage) any {
			var a struct {
				P    []string
				Part string
			}
			json.Unmarshal(raw, &a)
			p := tree.NewPath(a.P...)
			return map[string]any{"parts": p.Next(a.Part).Parts()}
		},
		DriverOp: "c03.pathNext",
		Judge: func(args, real, drv json.RawMessage) *core.Verdict {
			if v := crashVerdict(real); v != nil {
				return v
			}
			var r struct{ Parts []string }
			var d struct{ Next, NextK []string }
			json.Unmarshal(real, &r)
			json.Unmarshal(drv, &d)
			if !jsonEq(r.Parts, d.Next) {
				return core.Disagree(fmt.Sprintf("TPath.next ≠ tree.Path.Next: %v vs %v", d.Next, r.Parts))
			}
			if !jsonEq(r.Parts, d.NextK) {
				return core.Disagree(fmt.Sprintf("TPath.nextK ≠ tree.Path.Next: %v vs %v", d.NextK, r.Parts))
			}
			return nil
		},
	})
	core.Register("c03.canonical", &core.CheckDef{
		Real: realCanonical, DriverOp: "c03.canonical", Judge: canonicalJudge,
	})
	core.Register("c03.decode", &core.CheckDef{
		Real: realDecode, DriverOp: "c03.decode", Judge: classJudge("Short.decode ≠ DecodeMapstructure"),
	})
	core.Register("c03.idem", &core.CheckDef{
		Real: func(raw json.RawMessage) any {
			var a canonArgs
			json.Unmarshal(raw, &a)
			t := core.DecodeValRaw(a.Tree).(map[string]any)
			r1, err := transform.Canonical(t, a.Ign)
			if err != nil {
				return map[string]any{"err": errClass(err)}
			}
			once := core.EncodeVal(core.DeepCopyVal(r1))
			r2, err := transform.Canonical(r1, a.Ign)
			if err != nil {
				return map[string]any{"once": once, "twice_err": err.Error()}
			}
			return map[string]any{"once": once, "twice": core.EncodeVal(r2)}
		},
		DriverOp: "c03.canonical2",
		Judge: func(args, real, drv json.RawMessage) *core.Verdict {
			if c := core.Class(real); c == "panic" || c == "fatal" || c == "hang" || c == "err" {
				return core.Skip("first pass not ok")
			}
			var r struct {
				Once, Twice json.RawMessage
				TwiceErr    string `json:"twice_err"`
			}
			json.Unmarshal(real, &r)
			if r.TwiceErr != "" || !core.CanonEqual(r.Once, r.Twice) {
				return core.Fail("canonical-not-idempotent", fmt.Sprintf("Canonical(Canonical(t)) ≠ Canonical(t): once=%s twice=%s err=%s", r.Once, r.Twice, r.TwiceErr))
			}
			var d struct{ Ok json.RawMessage }
			json.Unmarshal(drv, &d)
			if !core.CanonEqual(d.Ok, r.Twice) {
				return core.Disagree("model canonical∘canonical ≠ real")
			}
			return nil
		},
	})

	core.Register("c03.portSpec", &core.CheckDef{
		Real: func(raw json.RawMessage) any {
			var a struct{ Ast portA }
			json.Unmarshal(raw, &a)
			return map[string]any{"rendered": a.Ast.render(), "long": a.Ast.long(), "out": realParsePort(a.Ast.render())}
		},
		DriverOp: "c03.portSpec",
		Judge: func(args, real, drv json.RawMessage) *core.Verdict {
			if v := crashVerdict(real); v != nil {
				return v
			}
			var a struct{ Ast portA }
			json.Unmarshal(args, &a)
			var r struct {
				Rendered string
				Long     []map[string]any
				Out      struct {
					Ok  []map[string]any
					Err string
				}
			}
			var d specOut
			if json.Unmarshal(real, &r) != nil || json.Unmarshal(drv, &d) != nil {
				return core.Disagree("malformed spec exchange")
			}
			if r.Rendered != d.Rendered {
				return core.Disagree("Go render ≠ Lean render (port)")
			}
			if !d.WF {
				if r.Out.Err == "" && a.Ast.nearMiss() {
					return core.Fail("port-nearmiss-accepted:"+a.Ast.shape(), fmt.Sprintf("ParsePortConfig(%q) accepted", r.Rendered))
				}
				return core.Skip("not well-formed")
			}
			var dl []map[string]any
			json.Unmarshal(d.Long, &dl)
			if !jsonEq(r.Long, dl) {
				return core.Disagree("Go long ≠ Lean long (port)")
			}
			if r.Out.Err != "" {
				return core.Fail("port-short-rejected:"+a.Ast.shape(), fmt.Sprintf("ParsePortConfig(%q) is an error; the grammar gives %s", r.Rendered, d.Long))
			}
			got := r.Out.Ok
			sortPorts(got)
			if !jsonEq(got, dl) {
				return core.Fail("port-short-ne-long:"+a.Ast.shape(), fmt.Sprintf("ParsePortConfig(%q) = %v; the grammar gives %s", r.Rendered, got, d.Long))
			}
			return nil
		},
	})
	core.Register("c03.volSpec", &core.CheckDef{
		Real: func(raw json.RawMessage) any {
			var a struct{ Ast volA }
			json.Unmarshal(raw, &a)
			s := a.Ast.render()
			// through the transformer, so that path.Clean and the encoding are covered too
			t := map[string]any{"services": map[string]any{"s": map[string]any{"volumes": []any{s}}}}
			r, err := transform.Canonical(t, false)
			var tr any
			if err != nil {
				tr = map[string]any{"err": errClass(err)}
			} else {
				tr = map[string]any{"ok": r["services"].(map[string]any)["s"].(map[string]any)["volumes"].([]any)[0]}
			}
			return map[string]any{"rendered": s, "long": a.Ast.long(), "out": realParseVolume(s), "transformed": tr}
		},
		DriverOp: "c03.volSpec",
		Judge: func(args, real, drv json.RawMessage) *core.Verdict {
			if v := crashVerdict(real); v != nil {
				return v
			}
			var a struct{ Ast volA }
			json.Unmarshal(args, &a)
			var r struct {
				Rendered string
				Long     map[string]any
				Out      struct {
					Ok  json.RawMessage
					Err string
				}
				Transformed struct {
					Ok  map[string]any
					Err string
				}
			}
			var d specOut
			if json.Unmarshal(real, &r) != nil || json.Unmarshal(drv, &d) != nil {
				return core.Disagree("malformed spec exchange")
			}
			if r.Rendered != d.Rendered {
				return core.Disagree("Go render ≠ Lean render (volume)")
			}
			if !d.WF {
				return core.Skip("not well-formed")
			}
			shape := a.Ast.shape()
			leanLong := volJSONToTree(d.Long, d.CleanTarget)
			if !jsonEq(r.Long, leanLong) {
				return core.Disagree(fmt.Sprintf("Go long ≠ Lean long (volume): %v vs %v", r.Long, leanLong))
			}
			if r.Out.Err != "" || r.Transformed.Err != "" {
				return core.Fail("volume-short-rejected:"+shape, fmt.Sprintf("ParseVolume(%q) is an error; the grammar gives %s", r.Rendered, d.Long))
			}
			if !core.CanonEqual(r.Out.Ok, d.Long) {
				return core.Fail("volume-short-ne-long:"+shape, fmt.Sprintf("ParseVolume(%q) = %s; the grammar gives %s", r.Rendered, r.Out.Ok, d.Long))
			}
			if !jsonEq(r.Transformed.Ok, leanLong) {
				return core.Fail("volume-short-ne-long:"+shape, fmt.Sprintf("transformVolumeMount(%q) = %v; the grammar gives %v", r.Rendered, r.Transformed.Ok, leanLong))
			}
			isBind := r.Transformed.Ok["type"] == "bind"
			if isBind != d.IsPath {
				return core.Fail("volume-bind-iff:"+shape, fmt.Sprintf("%q: bind=%v but source-is-path=%v", r.Rendered, isBind, d.IsPath))
			}
			return nil
		},
	})
	core.Register("c03.devSpec", &core.CheckDef{
		Real: func(raw json.RawMessage) any {
			var a struct{ Ast devA }
			json.Unmarshal(raw, &a)
			s := a.Ast.render()
			t := map[string]any{"services": map[string]any{"s": map[string]any{"devices": []any{s}}}}
			r, err := transform.Canonical(t, false)
			if err != nil {
				return map[string]any{"rendered": s, "long": a.Ast.long(), "err": errClass(err)}
			}
			return map[string]any{"rendered": s, "long": a.Ast.long(), "ok": r["services"].(map[string]any)["s"].(map[string]any)["devices"].([]any)[0]}
		},
		DriverOp: "c03.devSpec",
		Judge: func(args, real, drv json.RawMessage) *core.Verdict {
			if v := crashVerdict(real); v != nil {
				return v
			}
			var r struct {
				Rendered string
				Long, Ok map[string]any
				Err      string
			}
			var d specOut
			if json.Unmarshal(real, &r) != nil || json.Unmarshal(drv, &d) != nil {
				return core.Disagree("malformed spec exchange")
			}
			if r.Rendered != d.Rendered {
				return core.Disagree("Go render ≠ Lean render (device)")
			}
			if !d.WF {
				return core.Skip("not well-formed")
			}
			var dl map[string]any
			json.Unmarshal(d.Long, &dl)
			if !jsonEq(r.Long, dl) {
				return core.Disagree("Go long ≠ Lean long (device)")
			}
			if r.Err != "" || !jsonEq(r.Ok, dl) {
				return core.Fail("device-short-ne-long", fmt.Sprintf("transformDeviceMapping(%q) = %v %s; the grammar gives %v", r.Rendered, r.Ok, r.Err, dl))
			}
			return nil
		},
	})

	core.Register("c03.shortLong", &core.CheckDef{
		Real: realPair, Timeout: 180 * time.Second,
		Judge: func(args, real, drv json.RawMessage) *core.Verdict {
			if core.Class(real) == "hang" {
				return core.Skip("no answer within the watchdog (machine load); termination is property C01") // never a C03 verdict
			}
			if v := crashVerdict(real); v != nil {
				return v
			}
			var a pairArgs
			json.Unmarshal(args, &a)
			var r struct {
				Short, Long struct {
					Ok  json.RawMessage
					Err string
				}
			}
			json.Unmarshal(real, &r)
			switch {
			case r.Short.Err != "" && r.Short.Err == r.Long.Err:
				return nil // rejected alike (e.g. container port 0: "missing a target port")
			case r.Short.Err != "" && r.Long.Err != "":
				return core.Disagree(fmt.Sprintf("generator: both documents rejected (%s): %s / %s", a.Attr, r.Short.Err, r.Long.Err))
			case r.Short.Err != "" && a.Other != nil:
				return core.Fail("short-rejected-merged:"+a.Attr, fmt.Sprintf("%s: short form rejected (%s) while the long form loads", a.Mode, r.Short.Err))
			case r.Long.Err != "" && a.Other != nil:
				return core.Fail("long-rejected-merged:"+a.Attr, fmt.Sprintf("%s: long form rejected (%s) while the short form loads", a.Mode, r.Long.Err))
			case r.Short.Err != "":
				return core.Fail("short-rejected:"+a.Attr, fmt.Sprintf("short form rejected (%s) while the long form loads", r.Short.Err))
			case r.Long.Err != "":
				return core.Fail("long-rejected:"+a.Attr, fmt.Sprintf("long form rejected (%s) while the short form loads", r.Long.Err))
			}
			if !core.CanonEqual(r.Short.Ok, r.Long.Ok) {
				if strings.HasPrefix(a.Attr, "x-key:") {
					return core.Fail("mapping-key-x-prefix-taken-as-extension", fmt.Sprintf("%s: a key starting with x- is kept by the KEY=VALUE list form but moved to #extensions by the mapping form", a.Attr))
				}
				if a.Other != nil && strings.HasSuffix(a.Attr, "extra_hosts") && core.CanonEqual(sortHostAddrs(r.Short.Ok), sortHostAddrs(r.Long.Ok)) {
					// round 7 finding: the two projects differ only in the ORDER of the addresses of one host
					return core.Fail("merged-mapping-host-addresses-reordered", fmt.Sprintf("%s (%s): override.convertIntoSequence sorts the `host=ip` lines of the mapping form, so a host with several addresses gets them in string order once a second document is merged, while the list form keeps the written order: short=%s long=%s", a.Attr, a.Mode, hostsOf(r.Short.Ok), hostsOf(r.Long.Ok)))
				}
				if a.Other != nil {
					return core.Fail("short-ne-long-merged:"+a.Attr+":"+a.Mode, fmt.Sprintf("typed projects differ once a second document is merged (%s): short=%s long=%s", a.Mode, r.Short.Ok, r.Long.Ok))
				}
				return core.Fail("short-ne-long:"+a.Attr, fmt.Sprintf("typed projects differ: short=%s long=%s", r.Short.Ok, r.Long.Ok))
			}
			return nil
		},
	})
	core.Register("c03.nearmiss", &core.CheckDef{
		Real: realPair, Timeout: 180 * time.Second,
		Judge: func(args, real, drv json.RawMessage) *core.Verdict {
			if core.Class(real) == "hang" {
				return core.Skip("no answer within the watchdog (machine load); termination is property C01") // never a C03 verdict
			}
			if v := crashVerdict(real); v != nil {
				return v
			}
			var a pairArgs
			json.Unmarshal(args, &a)
			var r struct {
				Short struct {
					Ok  json.RawMessage
					Err string
				}
			}
			json.Unmarshal(real, &r)
			if r.Short.Err == "" {
				return core.Fail("nearmiss-accepted:"+a.Attr+":"+a.Class, fmt.Sprintf("a short form outside the grammar was loaded: %s", r.Short.Ok))
			}
			return nil
		},
	})
	core.Register("c03.twoDocs", &core.CheckDef{
		Real: func(raw json.RawMessage) any {
			var a struct {
				Attr       string
				Doc1, Doc2 json.RawMessage
			}
			json.Unmarshal(raw, &a)
			wrap := func(v any) map[string]any {
				return map[string]any{"services": map[string]any{"s": map[string]any{a.Attr: v}}}
			}
			c1, err := transform.Canonical(wrap(core.DecodeValRaw(a.Doc1)), false)
			if err != nil {
				return map[string]any{"err": "err", "stage": "canonical1"}
			}
			m, err := override.Merge(c1, wrap(core.DecodeValRaw(a.Doc2)))
			if err != nil {
				return map[string]any{"err": "err", "stage": "merge"}
			}
			r, err := transform.Canonical(m, false)
			if err != nil {
				return map[string]any{"err": "err", "stage": "canonical2"}
			}
			out := map[string]any{"ok": core.EncodeVal(r["services"].(map[string]any)["s"].(map[string]any)[a.Attr])}
			if al := aliasScan(r); al != nil {
				out["aliased"] = al
			}
			return out
		},
		DriverOp: "c03.twoDocs",
		Judge: func(args, real, drv json.RawMessage) *core.Verdict {
			if c := core.Class(real); c == "panic" || c == "fatal" || c == "hang" {
				return crashVerdict(real)
			}
			var ro struct {
				Ok      json.RawMessage
				Err     string
				Aliased *struct{ First, Second, Pattern string }
			}
			json.Unmarshal(real, &ro)
			if ro.Aliased != nil {
				return core.Fail("canonical-aliased-nodes:"+ro.Aliased.Pattern, fmt.Sprintf("after Canonical∘Merge∘Canonical one mutable node sits at two positions: %s and %s", ro.Aliased.First, ro.Aliased.Second))
			}
			var cmp []byte
			if ro.Err != "" {
				cmp, _ = json.Marshal(map[string]any{"err": "err"})
			} else {
				cmp, _ = json.Marshal(map[string]any{"ok": ro.Ok})
			}
			// the driver answers twice: the attribute-level model (twoDocsAt) and, under "whole", the whole-tree model
			// (loadDocsC: canonical, Merge.merge from the root, canonical) with the attribute extracted
			var dm map[string]json.RawMessage
			if json.Unmarshal(drv, &dm) != nil {
				return core.Disagree("malformed driver answer")
			}
			whole := dm["whole"]
			delete(dm, "whole")
			attrOnly, _ := json.Marshal(dm)
			if !core.CanonEqual(cmp, attrOnly) {
				return core.Disagree("Short.twoDocsAt ≠ Canonical∘Merge∘Canonical")
			}
			if whole == nil || !core.CanonEqual(cmp, whole) {
				return core.Disagree("Short.loadDocsC ≠ Canonical∘Merge∘Canonical")
			}
			return nil
		},
	})
	core.RegisterProp("C03", runC03)
}

func (a volA) shape() string {
	src := "none"
	if a.Source != nil {
		switch {
		case a.Source.Plain == nil:
			src = "drive"
		case a.isPath():
			src = "path:" + (*a.Source.Plain)[:1]
		default:
			src = "name"
		}
	}
	fl := map[string]bool{}
	for _, f := range a.Flags {
		if i := strings.Index(f, ":"); i >= 0 {
			f = f[:i]
		}
		fl[f] = true
	}
	var ks []string
	for k := range fl {
		ks = append(ks, k)
	}
	sort.Strings(ks)
	return "src=" + src + ",flags=" + strings.Join(ks, "+")
}

// nearMiss: an AST outside the grammar for one of the enumerated reasons (so that acceptance is a violation)
func (a portA) nearMiss() bool {
	bad := func(r *rangeA) bool { return r != nil && (r.last() < r.Lo.V || r.last() > 65535 || r.Lo.V > 65535) }
	if bad(a.Host) || bad(&a.Cont) {
		return true
	}
	if a.Host != nil && a.Host.size() != a.Cont.size() && a.Cont.size() != 1 {
		return true
	}
	if a.Proto != nil && *a.Proto != "" {
		switch strings.ToLower(*a.Proto) {
		case "tcp", "udp", "sctp":
		default:
			return !strings.ContainsAny(*a.Proto, ":/")
		}
	}
	return false
}

// walkHosts calls f on every address list found under a key "ExtraHosts" (services.*.extra_hosts and
// services.*.build.extra_hosts in the canonicalised typed project)
func walkHosts(v any, f func(host string, l []any)) {
	switch t := v.(type) {
	case map[string]any:
		for k, x := range t {
			if k == "ExtraHosts" {
				if m, ok := x.(map[string]any); ok {
					if mm, ok := m["#map"].(map[string]any); ok {
						for h, l := range mm {
							if ll, ok := l.([]any); ok {
								f(h, ll)
							}
						}
					}
				}
				continue
			}
			walkHosts(x, f)
		}
	case []any:
		for _, x := range t {
			walkHosts(x, f)
		}
	}
}

// sortHostAddrs: the canonicalised project with the addresses of every host sorted (used only to CLASSIFY a difference
// that is already a failure: same addresses per host, another order)
func sortHostAddrs(raw json.RawMessage) json.RawMessage {
	var v any
	if json.Unmarshal(raw, &v) != nil {
		return raw
	}
	walkHosts(v, func(_ string, l []any) {
		sort.Slice(l, func(i, j int) bool { return fmt.Sprint(l[i]) < fmt.Sprint(l[j]) })
	})
	b, err := json.Marshal(v)
	if err != nil {
		return raw
	}
	return b
}

func hostsOf(raw json.RawMessage) string {
	var v any
	if json.Unmarshal(raw, &v) != nil {
		return "?"
	}
	var out []string
	walkHosts(v, func(h string, l []any) { out = append(out, fmt.Sprintf("%s:%v", h, l)) })
	sort.Strings(out)
	return strings.Join(out, " ")
}
