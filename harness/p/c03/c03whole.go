package c03

// Round 6: the short/long document pairs through the COMPOSED pipeline model (Model/Pipeline.lean, stream `pipeline.load` of
// harness/p/pipeline): each spelling is loaded by loader.LoadModelWithContext as an already-parsed document and compared
// with Pipeline.load — the function Props/C03Whole.lean speaks about — so the tie of that model to the code is measured
// on exactly the documents of the property (distribution `whole:<attr>:<spelling>:<opts>`).

import (
	"strings"

	"verifharness/core"
)

func wholeStream(ctx *core.Ctx) {
	n := 0
	g := pairGen{ctx: ctx}
	g.sink = func(attr string, short, long map[string]any) {
		// attributes whose documents need the file system (env_file, extends to another file) are outside the composed model's scope
		if strings.HasPrefix(attr, "string-vs-list:env_file") || attr == "env_file" || attr == "extends" {
			return
		}
		skip := ctx.Rng.Intn(2) == 0
		opts := map[string]any{"skipInterpolation": skip, "skipValidation": ctx.Rng.Intn(3) == 0, "skipDefaultValues": ctx.Rng.Intn(4) == 0,
			"resolvePaths": ctx.Rng.Intn(2) == 0, "skipNormalization": ctx.Rng.Intn(3) == 0, "extends": false}
		for i, d := range []map[string]any{short, long} {
			sp := []string{"short", "long"}[i]
			ctx.Count("whole:" + attr + ":" + sp)
			ctx.Add("pipeline.load", map[string]any{"docs": []core.T{core.EncodeVal(core.DeepCopyVal(d))}, "opts": opts, "env": map[string]string{},
				"name": "p", "wd": "/nonexistent-verif/proj", "home": "/nonexistent-verif/home", "mainFile": "/nonexistent-verif/proj/f0.yaml"})
		}
		n++
	}
	for i := 0; i < ctx.Pick(400, 6000); i++ {
		g.one(i)
	}
}

func init() {
	core.RegisterProp("C03W", wholeStream)
	core.RegisterPropExtra("C03", wholeStream)
}
