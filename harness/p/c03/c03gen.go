package c03

// C03 generators: exhaustive small scope first, then seeded random; a mostly-valid stream plus a malformed stream.

import (
	"fmt"
	"os"
	"sort"
	"strconv"
	"strings"
	"unicode"

	"verifharness/core"
)

func removeAll(p string) {
	if p != "" {
		os.RemoveAll(p)
	}
}

type sArg struct {
	S string `json:"s"`
}

func allStrings(alpha []string, maxLen int, f func(string)) {
	var rec func(prefix string, n int)
	rec = func(prefix string, n int) {
		f(prefix)
		if n == 0 {
			return
		}
		for _, a := range alpha {
			rec(prefix+a, n-1)
		}
	}
	rec("", maxLen)
}

func sp(s string) *string { return &s }

// ---------------------------------------------------------------- port ASTs

var ipForms = []*ipA{nil, {false, "127.0.0.1"}, {true, "::1"}, {true, "10.0.0.1"}, {false, "0.0.0.0"}, {true, "fe80::1:2"}, {true, "::ffff:1.2.3.4"}}
var badIPForms = []*ipA{{false, "::1"}, {false, "1.2.3"}, {false, "256.1.1.1"}, {true, "1.2.3.4.5"}, {false, "01.2.3.4"}, {true, ":::1"}, {true, "1::2::3"}, {false, "host"}, {true, "fe80::1%eth0"}, {false, "[1.2.3.4"}, {true, "12345::"}}
var protoForms = []*string{nil, sp("tcp"), sp("udp"), sp("sctp"), sp("TCP"), sp("")}
var portVals = []int{1, 80, 65535, 65536}

func rangesOf(maxLen int, withZeros bool) []*rangeA {
	var out []*rangeA
	for _, lo := range portVals {
		out = append(out, &rangeA{Lo: numA{0, lo}})
		for d := 0; d < maxLen; d++ {
			out = append(out, &rangeA{Lo: numA{0, lo}, Hi: &numA{0, lo + d}})
		}
		if lo > 1 {
			out = append(out, &rangeA{Lo: numA{0, lo}, Hi: &numA{0, lo - 1}}) // reversed
		}
	}
	if withZeros {
		out = append(out, &rangeA{Lo: numA{2, 80}}, &rangeA{Lo: numA{1, 0}}, &rangeA{Lo: numA{0, 0}}, &rangeA{Lo: numA{1, 8}, Hi: &numA{2, 9}})
	}
	return out
}

func rndPortAST(ctx *core.Ctx) portA {
	r := ctx.Rng
	num := func() numA {
		z := 0
		if r.Intn(8) == 0 {
			z = 1 + r.Intn(3)
		}
		switch r.Intn(10) {
		case 0:
			return numA{z, 65530 + r.Intn(10)}
		case 1:
			return numA{z, r.Intn(12)}
		}
		return numA{z, r.Intn(65536)}
	}
	rng := func(n int) *rangeA {
		lo := num()
		switch {
		case n == 0:
			return &rangeA{Lo: lo}
		case n > 0:
			return &rangeA{Lo: lo, Hi: &numA{0, lo.V + n - 1}}
		}
		return &rangeA{Lo: lo, Hi: &numA{0, lo.V + r.Intn(30)}}
	}
	a := portA{}
	span := []int{0, 0, 1, 2, 3, 5, 12, 25}[r.Intn(8)]
	a.Cont = *rng(span)
	switch r.Intn(5) {
	case 0:
	case 1:
		a.Host = rng(0)
	case 2, 3:
		a.Host = rng(span)
	case 4:
		a.Host = rng(-1)
	}
	if r.Intn(3) == 0 {
		if r.Intn(6) == 0 {
			a.IP = badIPForms[r.Intn(len(badIPForms))]
		} else {
			a.IP = ipForms[r.Intn(len(ipForms))]
		}
	}
	a.Proto = protoForms[r.Intn(len(protoForms))]
	if r.Intn(25) == 0 {
		a.Proto = sp([]string{"http", "tc", "tcp/x", "Udp", "SCTP", "tcpp", "t:cp"}[r.Intn(7)])
	}
	return a
}

// ---------------------------------------------------------------- volume ASTs

func plain(s string) *segA { return &segA{Plain: &s} }

var volSources = []*segA{nil, plain("vol"), plain("v"), plain("./rel"), plain("/abs/p"), plain("~/h"), plain(`\\.\pipe\x`), {Drive: "c", Rest: `\data`}, {Drive: "D", Rest: "/x"}, plain(".."), plain("my.vol-1"), plain("é"), {Drive: "é", Rest: `\x`}, plain("1"), plain("ab")}
var volTargets = []segA{*plain("/t"), *plain("/a/../b/"), *plain("t"), *plain("/"), {Drive: "c", Rest: `\t`}, *plain("/data/./x//y"), *plain("ab"), *plain("1"), {Drive: "z", Rest: ""}, *plain("../x"), *plain("/世")}
var volFlagSets = [][]string{nil, {"ro"}, {"rw"}, {"ro", "rw"}, {"rw", "ro"}, {"z"}, {"Z", "z"}, {"nocopy"}, {"prop:0"}, {"prop:3", "prop:5"}, {"ro", "z", "nocopy", "prop:2"}, {"other:cached"}, {"other:", "ro"}, {"ro", "other:RO", "other:"}, {"other:delegated", "Z", "prop:1", "rw"}}

func rndVolAST(ctx *core.Ctx) volA {
	r := ctx.Rng
	a := volA{Source: volSources[r.Intn(len(volSources))], Target: volTargets[r.Intn(len(volTargets))]}
	if a.Source != nil {
		n := r.Intn(5)
		all := []string{"ro", "rw", "nocopy", "z", "Z", "prop:0", "prop:1", "prop:2", "prop:3", "prop:4", "prop:5", "other:cached", "other:", "other:Ro", "other:x y"}
		for i := 0; i < n; i++ {
			a.Flags = append(a.Flags, all[r.Intn(len(all))])
		}
	}
	return a
}

// ---------------------------------------------------------------- trees for transform.Canonical

type treeGen struct {
	ctx *core.Ctx
}

func (g treeGen) pick(l ...any) any { return l[g.ctx.Rng.Intn(len(l))] }
func (g treeGen) coin(n int) bool   { return g.ctx.Rng.Intn(n) == 0 }

func (g treeGen) portEntry() any {
	switch g.ctx.Rng.Intn(6) {
	case 0:
		return g.pick(80, 8080, 0, 65535)
	case 1:
		return map[string]any{"target": 80, "published": "8080"}
	case 2:
		return g.pick("80", "8080:80", "127.0.0.1:8080:80/udp", "9-10", "8000-8001:9-10", "[::1]:1-3:5", "1:2:3:4", "80/tcp/x", "x")
	}
	return rndPortAST(g.ctx).render()
}

func (g treeGen) service() map[string]any {
	s := map[string]any{"image": "i"}
	r := g.ctx.Rng
	if g.coin(2) {
		n := r.Intn(4)
		l := []any{}
		for i := 0; i < n; i++ {
			l = append(l, g.portEntry())
		}
		s["ports"] = l
	}
	if g.coin(2) {
		n := r.Intn(3)
		l := []any{}
		for i := 0; i < n; i++ {
			if g.coin(4) {
				l = append(l, map[string]any{"type": "bind", "source": "/x", "target": "/y"})
			} else if g.coin(6) {
				l = append(l, g.pick("a::b", "a:b:c:d", "", ":", "a:b:ro:rw"))
			} else {
				l = append(l, rndVolAST(g.ctx).render())
			}
		}
		s["volumes"] = l
	}
	if g.coin(3) {
		s["devices"] = []any{g.pick("/dev/a", "/dev/a:/dev/b", "/dev/a:/dev/b:r", "a:b:c:d", "a::r", "", map[string]any{"source": "/dev/x", "target": "/dev/y", "permissions": "rw"})}
	}
	for _, k := range []string{"secrets", "configs"} {
		if g.coin(4) {
			s[k] = []any{g.pick("sec", map[string]any{"source": "sec", "target": "/t"}), "other"}
		}
	}
	if g.coin(3) {
		s["build"] = g.pick("./ctx", ".", map[string]any{"context": "."},
			map[string]any{"context": ".", "ssh": g.pick([]any{"default"}, []any{"default", "k=/p"}, []any{"k=v=w"}, map[string]any{"default": nil}, []any{"nodefault"}),
				"secrets": []any{"s1", map[string]any{"source": "s2"}}, "additional_contexts": g.pick([]any{"a=b", "c=d=e"}, map[string]any{"a": "b"}, []any{"noequals"}),
				"ulimits": map[string]any{"nofile": g.pick(5, map[string]any{"soft": 1, "hard": 2})}, "args": []any{"A=1", "B"}})
	}
	if g.coin(3) {
		s["env_file"] = g.pick("a.env", []any{"a.env", "b.env"}, []any{map[string]any{"path": "a.env"}, "b.env", map[string]any{"path": "c.env", "required": false}}, []any{})
	}
	if g.coin(3) {
		s["depends_on"] = g.pick([]any{"b", "c"}, []any{}, []any{"b", "b"}, map[string]any{"b": map[string]any{"condition": "service_healthy"}, "c": map[string]any{"required": false}}, map[string]any{"b": map[string]any{}})
	}
	if g.coin(3) {
		s["networks"] = g.pick([]any{"n1", "n2"}, []any{}, map[string]any{"n1": nil, "n2": map[string]any{"aliases": []any{"x"}}}, []any{"n1", "n1"})
	}
	if g.coin(4) {
		s["extends"] = g.pick("base", map[string]any{"service": "base"}, map[string]any{"service": "base", "file": "f.yaml"})
	}
	if g.coin(4) {
		s["ulimits"] = map[string]any{"nofile": g.pick(1024, map[string]any{"soft": 1, "hard": 2}), "nproc": 3}
	}
	if g.coin(4) {
		s["dns"] = g.pick("8.8.8.8", []any{"8.8.8.8", "1.1.1.1"}, []any{})
	}
	if g.coin(5) {
		s["environment"] = g.pick([]any{"A=1", "B"}, map[string]any{"A": "1", "B": nil, "C": 2})
		s["healthcheck"] = map[string]any{"test": g.pick("curl x", []any{"CMD", "x"})}
	}
	return s
}

func (g treeGen) resource() any {
	switch g.ctx.Rng.Intn(7) {
	case 0:
		return nil
	case 1:
		return map[string]any{"external": true}
	case 2:
		return map[string]any{"external": map[string]any{"name": "ext"}}
	case 3:
		return map[string]any{"external": map[string]any{"name": "ext"}, "name": g.pick("ext", "other")}
	case 4:
		return map[string]any{"external": map[string]any{}, "name": "n"}
	case 5:
		return map[string]any{"external": g.pick(false, "true", nil), "driver": "d"}
	}
	return map[string]any{"driver": "local", "labels": []any{"a=b"}}
}

func (g treeGen) tree() map[string]any {
	t := map[string]any{}
	svcs := map[string]any{}
	for _, n := range []string{"a", "b", "web.1"}[:1+g.ctx.Rng.Intn(3)] {
		svcs[n] = g.service()
	}
	t["services"] = svcs
	for _, k := range []string{"volumes", "networks", "secrets", "configs"} {
		if g.coin(3) {
			t[k] = map[string]any{"r1": g.resource(), "r.2": g.resource()}
		}
	}
	if g.coin(6) {
		t["include"] = []any{g.pick("inc.yaml", map[string]any{"path": "inc.yaml"}, map[string]any{"path": []any{"a", "b"}})}
	}
	if g.coin(8) {
		t["x-ext"] = map[string]any{"services": map[string]any{"a": map[string]any{"ports": []any{"80"}}}}
	}
	return t
}

// attrDoc: one spelling of depends_on / networks / build, with its kind (for the distribution)
func (g treeGen) attrDoc(attr string) (string, any) {
	r := g.ctx.Rng
	names := []string{"b", "c", "base", "x-y", "n.1"}
	r.Shuffle(len(names), func(i, j int) { names[i], names[j] = names[j], names[i] })
	names = names[:1+r.Intn(3)]
	list := func() []any {
		l := []any{}
		for _, n := range names {
			l = append(l, n)
		}
		return l
	}
	switch r.Intn(8) {
	case 0:
		return "null", nil
	case 1:
		return "malformed", g.pick(1, true, "str", 1.5, []any{"b", 1}, []any{nil}, map[string]any{"b": 1}, []any{[]any{"b"}})
	}
	switch attr {
	case "depends_on":
		switch r.Intn(4) {
		case 0:
			return "short", list()
		case 1:
			return "short-dup", append(list(), names[0])
		case 2:
			m := map[string]any{}
			for _, n := range names {
				m[n] = map[string]any{"condition": "service_started", "required": true}
			}
			return "long", m
		}
		m := map[string]any{}
		for _, n := range names {
			m[n] = g.pick(map[string]any{"condition": "service_healthy"}, map[string]any{"required": false}, map[string]any{}, map[string]any{"condition": "service_healthy", "restart": true, "required": true})
		}
		return "long-partial", m
	case "networks":
		switch r.Intn(4) {
		case 0:
			return "short", list()
		case 1:
			return "short-dup", append(list(), names[0])
		case 2:
			m := map[string]any{}
			for _, n := range names {
				m[n] = nil
			}
			return "long", m
		}
		m := map[string]any{}
		for _, n := range names {
			m[n] = g.pick(nil, map[string]any{"aliases": []any{"a1"}}, map[string]any{"priority": 3}, map[string]any{})
		}
		return "long-partial", m
	}
	switch r.Intn(3) {
	case 0:
		return "short", g.pick(".", "./ctx", "")
	case 1:
		return "long", map[string]any{"context": g.pick(".", "./ctx")}
	}
	return "long-more", g.pick(map[string]any{"dockerfile": "D"}, map[string]any{"context": ".", "args": g.pick([]any{"A=1"}, map[string]any{"A": "2", "B": nil})},
		map[string]any{"context": "x", "ssh": g.pick([]any{"default"}, map[string]any{"k": "/p"})}, map[string]any{"secrets": []any{"s1"}, "labels": []any{"l=1"}}, map[string]any{})
}

// paths of all nodes of a tree (for the malformed stream: one node is replaced by a value of a random kind)
func nodePaths(v any, cur []any, out *[][]any) {
	*out = append(*out, append([]any(nil), cur...))
	switch x := v.(type) {
	case map[string]any:
		ks := make([]string, 0, len(x))
		for k := range x {
			ks = append(ks, k)
		}
		sort.Strings(ks)
		for _, k := range ks {
			nodePaths(x[k], append(cur, k), out)
		}
	case []any:
		for i, e := range x {
			nodePaths(e, append(cur, i), out)
		}
	}
}

func setAt(v any, p []any, nv any) any {
	if len(p) == 0 {
		return nv
	}
	switch x := v.(type) {
	case map[string]any:
		x[p[0].(string)] = setAt(x[p[0].(string)], p[1:], nv)
		return x
	case []any:
		x[p[0].(int)] = setAt(x[p[0].(int)], p[1:], nv)
		return x
	}
	return v
}

// ---------------------------------------------------------------- decoder inputs

func (g treeGen) scalar() any {
	return g.pick("v", "", "a b", "x=y", 1, 0, -3, true, false, nil, 1.5, "é", "[::1]", "1.2.3.4,5.6.7.8", "[ab]", "[]")
}

// hostsInput: a list-syntax or mapping-syntax extra_hosts value over IPv6-ish addresses, bare / bracketed / half-bracketed
func (g treeGen) hostsInput() any {
	r := g.ctx.Rng
	hosts := []string{"h1", "h2.example", "h-3", "h1"}
	addr := func() string {
		ip := g.pick("::1", "fe80::1", "2001:db8::2", "1.2.3.4", "::ffff:10.1.2.3", "a", "").(string)
		switch r.Intn(8) {
		case 0, 1, 2:
			g.ctx.Count("decode-hosts:bracketed")
			return "[" + ip + "]" // "[]" and "[a]" sit on both sides of the len > 2 bound
		case 3:
			return "[" + ip
		case 4:
			return ip + "]"
		}
		return ip
	}
	n := 1 + r.Intn(3)
	if r.Intn(2) == 0 {
		g.ctx.Count("decode-hosts:list")
		l := []any{}
		for ; n > 0; n-- {
			as := []string{addr()}
			for r.Intn(3) == 0 {
				as = append(as, addr())
			}
			l = append(l, hosts[r.Intn(len(hosts))]+g.pick("=", "=", ":").(string)+strings.Join(as, ","))
		}
		return l
	}
	g.ctx.Count("decode-hosts:mapping")
	m := map[string]any{}
	for ; n > 0; n-- {
		if r.Intn(2) == 0 {
			m[hosts[r.Intn(len(hosts))]] = addr()
		} else {
			g.ctx.Count("decode-hosts:mapping-list-valued")
			as := []any{addr()}
			for r.Intn(2) == 0 {
				as = append(as, addr())
			}
			m[hosts[r.Intn(len(hosts))]] = as
		}
	}
	return m
}

func (g treeGen) decodeInput(typ string) any {
	r := g.ctx.Rng
	keys := []string{"A", "b", "k.1", "host", "x-y", "K", ""}
	switch typ {
	case "ShellCommand":
		switch v := g.decodeInput("StringList").(type) {
		case string:
			return []any{v}
		default:
			return v
		}
	case "StringList", "StringOrNumberList", "HealthCheckTest":
		switch r.Intn(4) {
		case 0:
			return g.pick("one", "", "a b c")
		case 1:
			return []any{"a", "b c", ""}
		case 2:
			l := []any{}
			for i := r.Intn(4); i > 0; i-- {
				l = append(l, g.scalar())
			}
			return l
		}
		return core.KindValue(core.Kinds[r.Intn(len(core.Kinds))], r)
	case "DeviceCount":
		return g.pick("all", "ALL", "All", "3", "-1", "+7", "", "x", "1e3", " 1", 0, 5, -1, true, nil, 1.5, []any{}, "9223372036854775807", "9223372036854775808", "-9223372036854775808", "-9223372036854775809", "0x10", "1_0")
	case "UlimitsConfig":
		return g.pick(5, 0, -1, map[string]any{"soft": 1, "hard": 2}, map[string]any{"soft": 1}, map[string]any{}, map[string]any{"soft": "1"}, map[string]any{"hard": nil}, "5", nil, []any{1}, map[string]any{"soft": 3, "hard": 3, "x": 1})
	}
	// round 7: extra_hosts spellings with IPv6 / bracketed addresses (the `len(ip) > 2 && ip[0] == '[' && ip[len-1] == ']'`
	// rule of cleanup() on both decode paths, several addresses per host, both separators, list-valued mapping entries)
	if typ == "HostsList" && r.Intn(3) == 0 {
		return g.hostsInput()
	}
	// mapping types
	switch r.Intn(7) {
	case 0, 1: // list form, mostly valid
		l := []any{}
		for i := r.Intn(5); i > 0; i-- {
			k := keys[r.Intn(len(keys))]
			switch r.Intn(5) {
			case 0:
				l = append(l, k)
			case 1:
				l = append(l, k+"=")
			case 2:
				l = append(l, k+"=v=w")
			case 3:
				l = append(l, k+":"+g.pick("1.2.3.4", "::1", "[::1]", "a,b").(string))
			default:
				l = append(l, k+"="+g.pick("v", "1.2.3.4", "[::1]", "a,b", "x y").(string))
			}
		}
		return l
	case 2, 3: // map form
		m := map[string]any{}
		for i := r.Intn(5); i > 0; i-- {
			m[keys[r.Intn(len(keys))]] = g.scalar()
		}
		return m
	case 4: // list with non-string scalars
		l := []any{}
		for i := r.Intn(4); i > 0; i-- {
			l = append(l, g.scalar())
		}
		return l
	case 5: // map with composite values (HostsList accepts lists)
		m := map[string]any{}
		for i := 1 + r.Intn(3); i > 0; i-- {
			m[keys[r.Intn(len(keys)-1)]] = g.pick([]any{"1.2.3.4", "[::1]"}, []any{}, []any{1, nil}, map[string]any{"a": 1}, "x")
		}
		return m
	}
	return core.KindValue(core.Kinds[r.Intn(len(core.Kinds))], r)
}

// ---------------------------------------------------------------- short/long document pairs

type pairGen struct {
	ctx   *core.Ctx
	xkeys bool // use mapping keys that start with "x-" (recorded finding: taken as extensions in the mapping form)
	sink  func(attr string, short, long map[string]any) // round 6: when set, pairs go here instead of c03.shortLong
}

func doc(svc map[string]any, top map[string]any) map[string]any {
	svc["image"] = "i"
	d := map[string]any{"services": map[string]any{"s": svc, "b": map[string]any{"image": "i"}, "c": map[string]any{"image": "i"}, "base": map[string]any{"image": "base"}}}
	for k, v := range top {
		d[k] = v
	}
	return d
}

var envFiles = map[string]string{"a.env": "A=1\n", "b.env": "B=2\n", "sub/c.env": "C=3\n"}

// kvPair renders one key/value list both ways. vals: nil = key without value.
type kv struct {
	k string
	v any // string | int | bool | float64 | nil
}

func kvListForm(l []kv) []any {
	out := []any{}
	for _, e := range l {
		if e.v == nil {
			out = append(out, e.k)
		} else {
			out = append(out, e.k+"="+fmt.Sprint(e.v))
		}
	}
	return out
}
func kvMapForm(l []kv) map[string]any {
	m := map[string]any{}
	for _, e := range l {
		m[e.k] = e.v
	}
	return m
}

func (g pairGen) kvs(allowNull bool) []kv {
	r := g.ctx.Rng
	keys := []string{"A", "B_1", "c.d", "X-y", "K", "é"}
	if g.xkeys {
		keys = []string{"A", "x-y", "x-", "K", "x-a.b", "é"}
	}
	r.Shuffle(len(keys), func(i, j int) { keys[i], keys[j] = keys[j], keys[i] })
	var l []kv
	for _, k := range keys[:1+r.Intn(4)] {
		var v any
		switch r.Intn(8) {
		case 0:
			v = ""
		case 1:
			v = r.Intn(100)
		case 2:
			v = r.Intn(2) == 0
		case 3:
			if allowNull {
				v = nil
			} else {
				v = "n"
			}
		case 4:
			v = "a=b=c"
		case 5:
			v = "with space"
		case 6:
			v = 1.5
		default:
			v = "val"
		}
		l = append(l, kv{k, v})
	}
	return l
}

// count: a distribution counter of the generator (not counted when the pairs are diverted to a sink)
func (g pairGen) count(k string) {
	if g.sink == nil && !g.xkeys {
		g.ctx.Count(k)
	}
}

func (g pairGen) emit(attr string, short, long map[string]any) {
	if g.sink != nil {
		g.sink(attr, short, long)
		return
	}
	if g.xkeys {
		if !strings.HasPrefix(attr, "kv:") {
			return
		}
		attr = "x-key:" + attr[3:]
	}
	g.ctx.Count("pair:" + attr)
	g.ctx.Add("c03.shortLong", pairArgs{Attr: attr, Short: short, Long: long, Files: envFiles})
	// the same pair with a second document that refines / extends the attribute in place (override.Merge works on the
	// canonical tree of the first document): short ≡ long must survive the merge, in either order, as a second file or
	// as a second YAML document of the same file
	if !g.xkeys && g.ctx.Rng.Intn(2) == 0 {
		if other := g.otherDoc(attr, long); other != nil {
			mode := []string{"file-after", "doc-after", "file-after", "doc-after", "file-before", "doc-before", "extends"}[g.ctx.Rng.Intn(7)]
			if mode == "extends" && (attr == "extends" || strings.HasSuffix(attr, "s.labels")) {
				mode = "file-after"
			}
			g.ctx.Count("pair-merged:" + mode + ":" + attr)
			g.ctx.Add("c03.shortLong", pairArgs{Attr: attr, Short: short, Long: long, Files: envFiles, Other: other, Mode: mode})
		}
	}
}

func sortedKeys(m map[string]any) []string {
	ks := make([]string, 0, len(m))
	for k := range m {
		ks = append(ks, k)
	}
	sort.Strings(ks)
	return ks
}

// otherDoc: a second document touching the attribute of the pair: one entry refined in long syntax, one entry added in
// short or long syntax. nil = no second document for this attribute.
func (g pairGen) otherDoc(attr string, long map[string]any) map[string]any {
	r := g.ctx.Rng
	svc, _ := long["services"].(map[string]any)["s"].(map[string]any)
	osvc := map[string]any{}
	top := map[string]any{}
	under := func(path string, v any) { // "build.args" → {build: {args: v}}
		parts := strings.Split(path, ".")
		m := osvc
		for _, k := range parts[:len(parts)-1] {
			n := map[string]any{}
			m[k] = n
			m = n
		}
		m[parts[len(parts)-1]] = v
	}
	at := func(path string) any {
		var v any = svc
		for _, k := range strings.Split(path, ".") {
			m, ok := v.(map[string]any)
			if !ok {
				return nil
			}
			v = m[k]
		}
		return v
	}
	switch {
	case attr == "depends_on":
		names := sortedKeys(svc["depends_on"].(map[string]any))
		n := names[r.Intn(len(names))]
		switch r.Intn(4) {
		case 0:
			osvc["depends_on"] = map[string]any{n: map[string]any{"condition": "service_healthy", "restart": true}}
		case 1:
			osvc["depends_on"] = map[string]any{n: map[string]any{"condition": "service_completed_successfully", "required": false}}
		case 2:
			osvc["depends_on"] = []any{"base"}
		case 3:
			osvc["depends_on"] = map[string]any{n: map[string]any{"condition": "service_started", "restart": true}, "base": map[string]any{"condition": "service_healthy"}}
		}
	case attr == "networks":
		names := sortedKeys(svc["networks"].(map[string]any))
		n := names[r.Intn(len(names))]
		switch r.Intn(3) {
		case 0:
			osvc["networks"] = map[string]any{n: map[string]any{"aliases": []any{"al"}}}
		case 1:
			osvc["networks"] = map[string]any{n: map[string]any{"priority": 5}}
		case 2:
			osvc["networks"] = []any{n}
		}
		tn := map[string]any{}
		for _, k := range names {
			tn[k] = nil
		}
		top["networks"] = tn
	case strings.HasPrefix(attr, "kv:") && !strings.HasSuffix(attr, "s.labels") || attr == "kv:build.labels" || attr == "kv:deploy.labels":
		path := attr[3:]
		m, ok := at(path).(map[string]any)
		if !ok || len(m) == 0 {
			return nil
		}
		ks := sortedKeys(m)
		k := ks[r.Intn(len(ks))]
		var nv any = "ov"
		switch path {
		case "extra_hosts", "build.extra_hosts":
			nv = []any{"9.9.9.9", "[fe80::9]", "::9"}[r.Intn(3)]
		case "build.ssh":
			nv = "/other"
		}
		if r.Intn(2) == 0 {
			under(path, map[string]any{k: nv})
		} else {
			under(path, []any{k + "=" + fmt.Sprint(nv)})
		}
		if strings.HasPrefix(path, "build.") {
			osvc["build"].(map[string]any)["context"] = "."
		}
	case attr == "build":
		osvc["build"] = []any{map[string]any{"dockerfile": "D.x"}, map[string]any{"args": map[string]any{"A": "1"}}, map[string]any{"target": "t"}}[r.Intn(3)]
	case attr == "volumes":
		l := svc["volumes"].([]any)
		t, _ := l[r.Intn(len(l))].(map[string]any)["target"].(string)
		if t == "" {
			return nil
		}
		osvc["volumes"] = []any{map[string]any{"type": "volume", "source": "ov", "target": t, "read_only": true}}
	case attr == "ports" || attr == "ports-int":
		osvc["ports"] = []any{[]any{"9999:9999", map[string]any{"target": 9999, "published": "9999"}, 9999}[r.Intn(3)]}
	case attr == "secrets" || attr == "configs":
		osvc[attr] = []any{[]any{map[string]any{"source": "sec1", "target": "/t"}, "sec3"}[r.Intn(2)]}
	case attr == "devices":
		osvc["devices"] = []any{[]any{"/dev/z", map[string]any{"source": "/dev/z", "target": "/dev/z", "permissions": "r"}}[r.Intn(2)]}
	case attr == "env_file":
		osvc["env_file"] = []any{"b.env", []any{"b.env"}, []any{map[string]any{"path": "b.env", "required": false}}}[r.Intn(3)]
	case strings.HasPrefix(attr, "string-vs-list:"):
		k := attr[len("string-vs-list:"):]
		v := map[string]string{"dns": "1.1.1.1", "dns_search": "other.example", "tmpfs": "/tmp", "env_file": "b.env"}[k]
		if r.Intn(2) == 0 {
			osvc[k] = v
		} else {
			osvc[k] = []any{v}
		}
	case attr == "healthcheck.test":
		osvc["healthcheck"] = map[string]any{"interval": "5s"}
	case attr == "extends":
		osvc["labels"] = map[string]any{"a": "b"}
	default:
		return nil
	}
	osvc2 := map[string]any{"s": osvc}
	d := map[string]any{"services": osvc2}
	for k, v := range top {
		d[k] = v
	}
	return d
}

func svcWith(k string, v any) map[string]any { return map[string]any{k: v} }

func (g pairGen) one(i int) {
	r := g.ctx.Rng
	switch i % 24 {
	case 0: // ports
		var shorts, longs []any
		for n := 1 + r.Intn(2); n > 0; n-- {
			a := rndPortAST(g.ctx)
			for a.nearMiss() || !a.looksWF() {
				a = rndPortAST(g.ctx)
			}
			shorts = append(shorts, a.render())
			for _, e := range a.long() {
				m := map[string]any{"target": e["target"], "protocol": e["protocol"], "mode": "ingress"}
				if e["target"] == 0 {
					delete(m, "target")
				}
				if e["published"] != "" {
					m["published"] = e["published"]
				}
				if e["host_ip"] != "" {
					m["host_ip"] = e["host_ip"]
				}
				longs = append(longs, m)
			}
		}
		g.emit("ports", doc(svcWith("ports", shorts), nil), doc(svcWith("ports", longs), nil))
	case 1: // integer port
		p := []int{80, 1, 65535, 8080}[r.Intn(4)]
		g.emit("ports-int", doc(svcWith("ports", []any{p}), nil), doc(svcWith("ports", []any{map[string]any{"target": p, "protocol": "tcp", "mode": "ingress"}}), nil))
	case 2, 3: // volumes
		var shorts, longs []any
		for n := 1 + r.Intn(2); n > 0; n-- {
			a := rndVolAST(g.ctx)
			for !a.looksWF() {
				a = rndVolAST(g.ctx)
			}
			shorts = append(shorts, a.render())
			longs = append(longs, a.long())
		}
		g.emit("volumes", doc(svcWith("volumes", shorts), nil), doc(svcWith("volumes", longs), nil))
	case 4:
		k := []string{"secrets", "configs"}[r.Intn(2)]
		g.emit(k, doc(svcWith(k, []any{"sec1", "sec.2"}), nil), doc(svcWith(k, []any{map[string]any{"source": "sec1"}, map[string]any{"source": "sec.2"}}), nil))
	case 5:
		g.emit("build.secrets", doc(svcWith("build", map[string]any{"context": ".", "secrets": []any{"s1"}}), nil), doc(svcWith("build", map[string]any{"context": ".", "secrets": []any{map[string]any{"source": "s1"}}}), nil))
	case 6: // devices
		a := devA{Src: []string{"/dev/a", "/dev/ttyUSB0", "vendor.com/class=dev"}[r.Intn(3)]}
		if r.Intn(3) > 0 {
			a.Dst = sp([]string{"/dev/b", "", "/dev/x y"}[r.Intn(3)])
			if r.Intn(2) == 0 {
				a.Perm = sp([]string{"r", "rw", "rwm", "m"}[r.Intn(4)])
			}
		}
		g.emit("devices", doc(svcWith("devices", []any{a.render()}), nil), doc(svcWith("devices", []any{a.long()}), nil))
	case 7:
		c := []string{".", "./ctx", "sub/dir", "https://github.com/x/y.git"}[r.Intn(4)]
		g.emit("build", doc(svcWith("build", c), nil), doc(svcWith("build", map[string]any{"context": c}), nil))
	case 8: // env_file
		fs := [][]string{{"a.env"}, {"a.env", "b.env"}, {"sub/c.env", "a.env"}}[r.Intn(3)]
		var l, ll []any
		for _, f := range fs {
			l = append(l, f)
			ll = append(ll, map[string]any{"path": f, "required": true})
		}
		var short any = l
		if len(fs) == 1 && r.Intn(2) == 0 {
			short = fs[0]
		}
		g.emit("env_file", doc(svcWith("env_file", short), nil), doc(svcWith("env_file", ll), nil))
	case 9:
		ds := [][]string{{"b"}, {"b", "c"}, {"c", "b"}}[r.Intn(3)]
		var l []any
		m := map[string]any{}
		for _, d := range ds {
			l = append(l, d)
			m[d] = map[string]any{"condition": "service_started", "required": true}
		}
		g.emit("depends_on", doc(svcWith("depends_on", l), nil), doc(svcWith("depends_on", m), nil))
	case 10:
		ns := [][]string{{"n1"}, {"n1", "n2"}, {"default"}}[r.Intn(3)]
		var l []any
		m := map[string]any{}
		top := map[string]any{}
		for _, n := range ns {
			l = append(l, n)
			m[n] = nil
			top[n] = nil
		}
		g.emit("networks", doc(svcWith("networks", l), map[string]any{"networks": top}), doc(svcWith("networks", m), map[string]any{"networks": top}))
	case 11:
		g.emit("extends", doc(svcWith("extends", "base"), nil), doc(svcWith("extends", map[string]any{"service": "base"}), nil))
	case 12:
		c := []string{"curl -f http://localhost", "true", "a 'b c' \"d\""}[r.Intn(3)]
		g.emit("healthcheck.test", doc(svcWith("healthcheck", map[string]any{"test": c}), nil), doc(svcWith("healthcheck", map[string]any{"test": []any{"CMD-SHELL", c}}), nil))
	case 13: // external
		k := []string{"volumes", "networks", "secrets", "configs"}[r.Intn(4)]
		g.emit("external:"+k, doc(map[string]any{}, map[string]any{k: map[string]any{"r": map[string]any{"external": map[string]any{"name": "real"}}}}),
			doc(map[string]any{}, map[string]any{k: map[string]any{"r": map[string]any{"external": true, "name": "real"}}}))
	case 14: // string vs singleton list
		k := []string{"dns", "dns_search", "tmpfs", "env_file"}[r.Intn(4)]
		v := map[string]string{"dns": "8.8.8.8", "dns_search": "example.com", "tmpfs": "/run", "env_file": "a.env"}[k]
		g.emit("string-vs-list:"+k, doc(svcWith(k, v), nil), doc(svcWith(k, []any{v}), nil))
	case 15: // command / entrypoint: shell words
		k := []string{"command", "entrypoint"}[r.Intn(2)]
		// a grammar-directed line (plain runs incl. Unicode white space outside the parser's blanks, quotes, escapes) vs its words
		a := rndShAST(g.ctx, true)
		if len(a.Words) == 0 {
			a.Words = []shWordA{{Segs: []shSegA{{"plain", "x"}}}}
		}
		l := []any{}
		for _, w := range a.long() {
			l = append(l, w)
		}
		g.ctx.Count("pair-shell-shape:" + a.shape())
		g.emit("shell:"+k, doc(svcWith(k, a.render()), nil), doc(svcWith(k, l), nil))
	case 16: // KEY[=VALUE] list vs mapping (pointer-valued)
		k := []string{"environment", "build.args"}[r.Intn(2)]
		l := g.kvs(true)
		if k == "build.args" {
			g.emit("kv:"+k, doc(svcWith("build", map[string]any{"context": ".", "args": kvListForm(l)}), nil), doc(svcWith("build", map[string]any{"context": ".", "args": kvMapForm(l)}), nil))
		} else {
			g.emit("kv:"+k, doc(svcWith(k, kvListForm(l)), nil), doc(svcWith(k, kvMapForm(l)), nil))
		}
	case 17: // labels-like (string-valued)
		k := []string{"labels", "annotations", "sysctls"}[r.Intn(3)]
		l := g.kvs(false)
		if k == "sysctls" { // schema: string | number values only
			for i := range l {
				if _, ok := l[i].v.(bool); ok {
					l[i].v = 1
				}
				if _, ok := l[i].v.(float64); ok {
					l[i].v = 2
				}
			}
		}
		g.emit("kv:"+k, doc(svcWith(k, kvListForm(l)), nil), doc(svcWith(k, kvMapForm(l)), nil))
	case 18: // labels on build / deploy / resources
		l := g.kvs(false)
		switch r.Intn(3) {
		case 0:
			g.emit("kv:build.labels", doc(svcWith("build", map[string]any{"context": ".", "labels": kvListForm(l)}), nil), doc(svcWith("build", map[string]any{"context": ".", "labels": kvMapForm(l)}), nil))
		case 1:
			g.emit("kv:deploy.labels", doc(svcWith("deploy", map[string]any{"labels": kvListForm(l)}), nil), doc(svcWith("deploy", map[string]any{"labels": kvMapForm(l)}), nil))
		case 2:
			k := []string{"volumes", "networks"}[r.Intn(2)]
			g.emit("kv:"+k+".labels", doc(map[string]any{}, map[string]any{k: map[string]any{"r": map[string]any{"labels": kvListForm(l)}}}), doc(map[string]any{}, map[string]any{k: map[string]any{"r": map[string]any{"labels": kvMapForm(l)}}}))
		}
	case 19: // extra_hosts / build.extra_hosts
		// round 7: one to three addresses per host, IPv4 or IPv6, each written bare or in brackets — independently in
		// the list spelling and in the mapping spelling ("[::1]" and "::1" denote the same address: cleanup() strips
		// the brackets on both decode paths); several addresses as `h=a,b`, as repeated `h=a`, `h=b` entries, or as a
		// list-valued mapping entry; the legacy `host:ip` separator with IPv6 addresses too (only the first colon cuts)
		hosts := []string{"h1", "h2.example", "h-3"}
		ips := []string{"1.2.3.4", "::1", "fe80::1", "10.0.0.1", "2001:db8::2", "::ffff:10.1.2.3"}
		br := func(ip string) string {
			if r.Intn(3) == 0 {
				g.count("hosts:bracketed")
				return "[" + ip + "]"
			}
			return ip
		}
		var l []any
		m := map[string]any{}
		for _, h := range hosts[:1+r.Intn(3)] {
			n := 1
			if r.Intn(3) == 0 {
				n = 2 + r.Intn(2)
				g.count("hosts:multi-address")
			}
			sep := "="
			if r.Intn(3) == 0 {
				sep = ":"
			}
			var ls []string
			var ms []any
			for _, j := range r.Perm(len(ips))[:n] { // distinct addresses: a repeated address is a duplicate item once the mapping is rendered as a list
				ip := ips[j]
				if strings.Contains(ip, ":") {
					g.count("hosts:ipv6")
				}
				ls = append(ls, br(ip))
				ms = append(ms, br(ip))
			}
			if len(ls) > 1 && r.Intn(2) == 0 {
				for _, a := range ls { // repeated entries of one host accumulate
					l = append(l, h+sep+a)
				}
			} else {
				l = append(l, h+sep+strings.Join(ls, ","))
			}
			if len(ms) == 1 && r.Intn(2) == 0 {
				m[h] = ms[0]
			} else {
				g.count("hosts:list-valued-entry")
				m[h] = ms
			}
		}
		if r.Intn(3) == 0 {
			g.emit("kv:build.extra_hosts", doc(svcWith("build", map[string]any{"context": ".", "extra_hosts": l}), nil), doc(svcWith("build", map[string]any{"context": ".", "extra_hosts": m}), nil))
		} else {
			g.emit("kv:extra_hosts", doc(svcWith("extra_hosts", l), nil), doc(svcWith("extra_hosts", m), nil))
		}
	case 20: // build.additional_contexts / build.ssh
		if r.Intn(2) == 0 {
			g.emit("kv:build.additional_contexts", doc(svcWith("build", map[string]any{"context": ".", "additional_contexts": []any{"a=./x", "b=docker-image://i=j"}}), nil),
				doc(svcWith("build", map[string]any{"context": ".", "additional_contexts": map[string]any{"a": "./x", "b": "docker-image://i=j"}}), nil))
		} else {
			l := [][]any{{"default"}, {"k=/p"}, {"default", "k=/p=q"}}[r.Intn(3)]
			m := map[string]any{}
			for _, e := range l {
				id, p, ok := strings.Cut(e.(string), "=")
				if ok {
					m[id] = p
				} else {
					m[id] = nil
				}
			}
			g.emit("kv:build.ssh", doc(svcWith("build", map[string]any{"context": ".", "ssh": l}), nil), doc(svcWith("build", map[string]any{"context": ".", "ssh": m}), nil))
		}
	case 21: // byte sizes: unit string vs integer bytes (go-units; outside the proof)
		k := []string{"mem_limit", "shm_size", "mem_reservation"}[r.Intn(3)]
		p := [][2]any{{"1k", 1024}, {"2m", 2097152}, {"1g", 1073741824}, {"512b", 512}, {"3kb", 3072}, {"1M", 1048576}, {"100", 100}}[r.Intn(7)]
		g.emit("bytes:"+k, doc(svcWith(k, p[0]), nil), doc(svcWith(k, p[1]), nil))
	case 22: // durations: two spellings of the same duration (time.ParseDuration; outside the proof)
		p := [][2]string{{"90s", "1m30s"}, {"1h", "60m"}, {"1500ms", "1.5s"}, {"2m", "120s"}, {"0s", "0ms"}}[r.Intn(5)]
		g.emit("duration", doc(svcWith("healthcheck", map[string]any{"test": []any{"CMD", "x"}, "interval": p[0]}), nil), doc(svcWith("healthcheck", map[string]any{"test": []any{"CMD", "x"}, "interval": p[1]}), nil))
	case 23: // expose: numbers vs strings
		g.emit("expose", doc(svcWith("expose", []any{80, 8080}), nil), doc(svcWith("expose", []any{"80", "8080"}), nil))
	}
}

// looksWF: Go-side copy of VolSpec.wf for the shapes the generator produces (a single letter before a colon is a drive)
func (a volA) looksWF() bool {
	single := func(s *segA) bool {
		if s == nil || s.Plain == nil {
			return false
		}
		rs := []rune(*s.Plain)
		return len(rs) == 1 && unicode.IsLetter(rs[0])
	}
	if single(a.Source) || single(&a.Target) {
		return false
	}
	if a.Source == nil && len(a.Flags) > 0 {
		return false
	}
	if len(a.Flags) > 0 {
		var fs []string
		for _, f := range a.Flags {
			fs = append(fs, flagRender(f))
		}
		if strings.Join(fs, ",") == "" {
			return false
		}
	}
	return true
}

// looksWF: the Go-side approximation of PortSpec.wf used only to steer the pair generator (Lean decides wf in c03.portSpec)
func (a portA) looksWF() bool {
	if a.IP != nil {
		for _, b := range badIPForms {
			if a.IP == b {
				return false
			}
		}
	}
	if a.Proto != nil && strings.ContainsAny(*a.Proto, ":/") {
		return false
	}
	return true
}

// ---------------------------------------------------------------- near-miss documents

func (g pairGen) nearMisses() {
	bad := map[string][][2]string{
		"ports": {{"unequal-ranges", "8000-8002:80-81"}, {"reversed", "90-80"}, {"too-big", "65536"}, {"too-big-host", "65536:80"}, {"empty-container", "80:"}, {"empty", ""},
			{"bad-proto", "80/http"}, {"bad-ip", "1.2.3:80:80"}, {"unbracketed-v6", "::1:80:80"}, {"letters", "http"}, {"negative", "-1"}, {"empty-host-range", "80-:80"}, {"plus", "+80"},
			{"space", " 80"}, {"triple-range", "80-81-82"}, {"proto-tail", "80/tcp/x"}, {"hex", "0x50"}, {"underscore", "8_0"}},
		"volumes": {{"empty-section", "vol::/b"}, {"too-many-colons", "vol:/b:ro:rw"}, {"empty", ""}, {"trailing-colon", "vol:/b:"}, {"leading-colon", ":/b"}, {"letter-section", "vol:/b:z:ro"}},
		"devices": {{"four-parts", "a:b:c:d"}},
	}
	for attr, l := range bad {
		for _, e := range l {
			g.ctx.Count("nearmiss:" + attr)
			g.ctx.Add("c03.nearmiss", pairArgs{Attr: attr, Class: e[0], Short: doc(svcWith(attr, []any{e[1]}), nil)})
		}
	}
	g.ctx.Count("nearmiss:build.ssh")
	g.ctx.Add("c03.nearmiss", pairArgs{Attr: "build.ssh", Class: "no-equals", Short: doc(svcWith("build", map[string]any{"context": ".", "ssh": []any{"mykey"}}), nil)})
	g.ctx.Count("nearmiss:build.additional_contexts")
	g.ctx.Add("c03.nearmiss", pairArgs{Attr: "build.additional_contexts", Class: "no-equals", Short: doc(svcWith("build", map[string]any{"context": ".", "additional_contexts": []any{"noequals"}}), nil)})
	g.ctx.Count("nearmiss:extra_hosts")
	g.ctx.Add("c03.nearmiss", pairArgs{Attr: "extra_hosts", Class: "no-ip", Short: doc(svcWith("extra_hosts", []any{"hostonly"}), nil)})
}

// ---------------------------------------------------------------- the property run

func runC03(ctx *core.Ctx) {
	g := treeGen{ctx}

	// 1. exhaustive small scope: strings for the two parsers, path.Clean, ParseIP
	volAlpha := []string{"a", ":", "/", ".", "c", "\\", "~", "1", ",", "é", "\x00", "ro"}
	allStrings(volAlpha, ctx.Pick(4, 5), func(s string) {
		ctx.Count(fmt.Sprintf("volume-exhaustive-len-%d", len([]rune(s))))
		ctx.Add("c03.parseVolume", sArg{s})
	})
	portAlpha := []string{"1", "0", "7", ":", "-", "/", "t", "[", "]", ".", "udp"}
	allStrings(portAlpha, ctx.Pick(4, 5), func(s string) {
		ctx.Count("port-exhaustive")
		ctx.Add("c03.parsePort", sArg{s})
	})
	allStrings([]string{"a", ".", "/", "b"}, ctx.Pick(6, 9), func(s string) {
		ctx.Count("pathclean-exhaustive")
		ctx.Add("c03.pathClean", sArg{s})
	})
	allStrings([]string{"1", "25", "0", ".", ":", "f", "%", "::", "1.2.3.4"}, ctx.Pick(4, 6), func(s string) {
		ctx.Count("ip-exhaustive")
		ctx.Add("c03.validIP", sArg{s})
	})
	for _, s := range []string{"1:2:3:4:5:6:7:8", "1:2:3:4:5:6:7::", "::2:3:4:5:6:7:8", "1:2:3:4:5:6:7:8:9", "1:2:3:4:5:6:1.2.3.4", "1:2:3:4:5:1.2.3.4", "::1.2.3.4", "1::1.2.3.4", "1:2:3:4:5:6:7:1.2.3.4", "::ffff:1.2.3.04", "fffff::", "FFFF::abcd", "g::", "1:2:3:4:5:6:7", "::", ":", "1::2::3", "1:::2", "::1%eth0", "%", "1.2.3.4%x", "255.255.255.255", "256.0.0.0", "1.2.3", "1.2.3.4.5", "1..2.3", ".1.2.3", "1.2.3.", "00.0.0.0", "0.0.0.0", "1.2.3.4:", "1:2:3:4:5:6:7::8", "1:2:3:4:5:6::7", "a:b:c:d:e:f:0:1", "12345::1", "::12345"} {
		ctx.Count("ip-curated")
		ctx.Add("c03.validIP", sArg{s})
	}

	// tree.Path.Next vs TPath.next vs the kernel-reducible TPath.nextK: every string over a small alphabet at the root and below it
	allStrings([]string{"a", ".", "👻", "é", "[]", "x-"}, ctx.Pick(4, 6), func(s string) {
		ctx.Count("pathnext-exhaustive")
		ctx.Add("c03.pathNext", map[string]any{"p": []string{}, "part": s})
		ctx.Add("c03.pathNext", map[string]any{"p": []string{"services", "a"}, "part": s})
	})

	// 2. spec oracles, exhaustive over the bounded ASTs of DESIGN §6 C03
	nPortAst := 0
	for _, ip := range append(append([]*ipA{}, ipForms...), badIPForms[:ctx.Pick(3, len(badIPForms))]...) {
		for _, host := range append([]*rangeA{nil}, rangesOf(3, true)...) {
			for _, cont := range rangesOf(3, ip == nil) {
				for _, proto := range append(append([]*string{}, protoForms...), sp("http")) {
					if !ctx.Thorough() && (ip != nil || host != nil) && (nPortAst+len(ipForms))%4 != 0 && proto != nil && *proto != "udp" {
						continue // quick tier: thin out the full product
					}
					nPortAst++
					ctx.Count("portspec-exhaustive")
					ctx.Add("c03.portSpec", map[string]any{"ast": portA{IP: ip, Host: host, Cont: *cont, Proto: proto}})
				}
			}
		}
	}
	for _, src := range volSources {
		for _, tgt := range volTargets {
			for _, fl := range volFlagSets {
				if src == nil && fl != nil {
					continue
				}
				ctx.Count("volspec-exhaustive")
				ctx.Add("c03.volSpec", map[string]any{"ast": volA{Source: src, Target: tgt, Flags: fl}})
			}
		}
	}
	for _, src := range []string{"/dev/a", "", "a b", "é"} {
		for _, dst := range []*string{nil, sp("/dev/b"), sp(""), sp("x:y")} {
			for _, perm := range []*string{nil, sp("r"), sp("rwm"), sp("")} {
				ctx.Count("devspec-exhaustive")
				ctx.Add("c03.devSpec", map[string]any{"ast": devA{Src: src, Dst: dst, Perm: perm}})
			}
		}
	}
	ctx.Res.Exhaustive = true

	// 3. seeded random: grammar-directed strings (+ one-character mutations = near misses) for both parsers
	mut := func(s string, alpha []string) string {
		rs := []rune(s)
		switch ctx.Rng.Intn(4) {
		case 0:
			if len(rs) > 0 {
				i := ctx.Rng.Intn(len(rs))
				rs = append(rs[:i:i], rs[i+1:]...)
			}
		case 1:
			i := ctx.Rng.Intn(len(rs) + 1)
			ins := []rune(alpha[ctx.Rng.Intn(len(alpha))])
			rs = append(rs[:i:i], append(ins, rs[i:]...)...)
		case 2:
			if len(rs) > 1 {
				i, j := ctx.Rng.Intn(len(rs)), ctx.Rng.Intn(len(rs))
				rs[i], rs[j] = rs[j], rs[i]
			}
		}
		return string(rs)
	}
	for i := 0; i < ctx.Pick(8000, 150000); i++ {
		a := rndPortAST(ctx)
		ctx.Count("portspec-random")
		ctx.Add("c03.portSpec", map[string]any{"ast": a})
		ctx.Count("port-random-mutated")
		ctx.Add("c03.parsePort", sArg{mut(a.render(), portAlpha)})
		v := rndVolAST(ctx)
		ctx.Count("volspec-random")
		ctx.Add("c03.volSpec", map[string]any{"ast": v})
		ctx.Count("volume-random-mutated")
		ctx.Add("c03.parseVolume", sArg{mut(v.render(), volAlpha)})
	}
	for i := 0; i < ctx.Pick(5000, 100000); i++ {
		base := []string{"1:2:3:4:5:6:7:8", "fe80::1", "::ffff:1.2.3.4", "192.168.0.1", "::", "1::", "2001:db8::68", "1:2:3:4:5:6:1.2.3.4"}[ctx.Rng.Intn(8)]
		ctx.Count("ip-random-mutated")
		ctx.Add("c03.validIP", sArg{mut(mut(base, []string{"1", ":", ".", "f", "0", "%", "::"}), []string{"1", ":", ".", "f", "0"})})
	}

	// 4. transform.Canonical on trees: mostly valid, then a malformed stream (one node replaced by a value of a random kind)
	for i := 0; i < ctx.Pick(4000, 80000); i++ {
		t := g.tree()
		ign := ctx.Rng.Intn(4) == 0
		ctx.Count("canonical-valid")
		ctx.Add("c03.canonical", map[string]any{"tree": core.EncodeVal(t), "ign": ign})
		if i%3 == 0 {
			ctx.Count("idem")
			ctx.Add("c03.idem", map[string]any{"tree": core.EncodeVal(t), "ign": ign})
		}
		if i%2 == 0 {
			var ps [][]any
			nodePaths(t, nil, &ps)
			p := ps[1+ctx.Rng.Intn(len(ps)-1)]
			kind := core.Kinds[ctx.Rng.Intn(len(core.Kinds))]
			m := setAt(core.DeepCopyVal(t), p, core.KindValue(kind, ctx.Rng))
			ctx.Count("canonical-malformed:" + kind)
			ctx.Add("c03.canonical", map[string]any{"tree": core.EncodeVal(m), "ign": ign})
		}
	}

	// 4b. the two-document pipeline at depends_on / networks / build: every pair of spellings (short, long, partial long,
	// null, malformed) for the first and for the second document
	for i := 0; i < ctx.Pick(1500, 30000); i++ {
		attr := []string{"depends_on", "networks", "build"}[i%3]
		k1, v1 := g.attrDoc(attr)
		k2, v2 := g.attrDoc(attr)
		ctx.Count("twodocs:" + attr + ":" + k1 + "+" + k2)
		ctx.Add("c03.twoDocs", map[string]any{"attr": attr, "doc1": core.EncodeVal(v1), "doc2": core.EncodeVal(v2)})
	}

	// 5. decoders
	for i := 0; i < ctx.Pick(10000, 300000); i++ {
		typ := decodeTypes[i%len(decodeTypes)]
		ctx.Count("decode:" + typ)
		ctx.Add("c03.decode", map[string]any{"type": typ, "v": core.EncodeVal(g.decodeInput(typ))})
	}

	// 5b. shell words (round 6)
	shellStreams(ctx)

	// 6. metamorphic oracle on whole loads: short document vs long document; near-miss documents
	pg := pairGen{ctx: ctx}
	pg.nearMisses()
	for i := 0; i < ctx.Pick(1200, 15000); i++ {
		pg.one(i)
	}
	xg := pairGen{ctx: ctx, xkeys: true}
	for i := 0; i < ctx.Pick(60, 600); i++ {
		xg.one(16 + i%3)
	}
	_ = strconv.Itoa
}
