package c04

// C04 — multiple files and documents merge by the Compose override rules.
//
// Correspondence (real compose-go vs the Lean models, through the driver):
//
//	c04.pathNext    tree.Path.Next / Parts / Matches        vs Merge.next / TPath.pmatch
//	c04.mergeSeq    fold of override.Merge (or ExtendService) [+ EnforceUnicity]   vs Merge.merge / Unicity.enforceTop
//	c04.unicity     override.EnforceUnicity                  vs Unicity.enforceTop
//	c04.parseVolume format.ParseVolume(spec).Target          vs Unicity.parseVolumeTarget
//	c04.reset       yaml decode through loader.ResetProcessor vs Reset.readDoc
//	c04.docs        per-document step reset → merge → unicity vs Reset.docStep
//
// Direct oracle (c04_oracle.go): c04.split — load(base + overrides) vs load(target document).

import (
	"bytes"
	"encoding/json"
	"fmt"
	"reflect"
	"regexp"
	"sort"
	"strconv"
	"strings"

	"github.com/compose-spec/compose-go/v2/format"
	"github.com/compose-spec/compose-go/v2/loader"
	"github.com/compose-spec/compose-go/v2/override"
	"github.com/compose-spec/compose-go/v2/tree"

	"verifharness/core"
)

// ---------------------------------------------------------------- error classes

var c04ErrClasses = []struct {
	re  *regexp.Regexp
	cls string
}{
	{regexp.MustCompile(`^cannot override `), "cannotOverride"},
	{regexp.MustCompile(`unexpected type `), "unexpectedType"},
	{regexp.MustCompile(`is missing a mount target`), "missingTarget"},
	{regexp.MustCompile(`is missing a target port`), "missingTargetPort"},
	{regexp.MustCompile(`environment path attribute .* is missing`), "missingPath"},
	{regexp.MustCompile(`unsupported expose value`), "unsupportedValue"},
	{regexp.MustCompile(`invalid empty volume spec|^invalid spec: `), "invalidVolume"},
}

var c04InitRe = regexp.MustCompile(`\.init\.\d+`)

func c04ErrClass(err error) string {
	s := err.Error()
	for _, c := range c04ErrClasses {
		if c.re.MatchString(s) {
			return c.cls
		}
	}
	return "other:" + s
}

// ---------------------------------------------------------------- judge shared by the tree ops

type c04Drv struct {
	Ok     json.RawMessage   `json:"ok"`
	Err    *string           `json:"err"`
	Panic  *string           `json:"panic"`
	Alts   []json.RawMessage `json:"alts"`
	Hazard bool              `json:"hazard"`
	Loose  bool              `json:"loose"`
}

// c04Judge: the model's success must be matched exactly; on a failing input the real failure must be one the
// model reaches under some iteration order of the maps.  Panics are C01's findings, not C04's: never Fail here.
func c04Judge(what string) func(args, real, drv json.RawMessage) *core.Verdict {
	return func(args, real, drv json.RawMessage) *core.Verdict {
		var d c04Drv
		if json.Unmarshal(drv, &d) != nil {
			return core.Disagree(what + ": unreadable driver answer")
		}
		cls := core.Class(real)
		if cls == "fatal" || cls == "hang" {
			return core.Disagree(what + ": real code died / hangs")
		}
		var sh struct {
			Shared string `json:"shared"`
		}
		if json.Unmarshal(real, &sh) == nil && sh.Shared != "" {
			first := strings.SplitN(sh.Shared, " = ", 2)[0]
			return core.Fail("aliasing:"+c04KeyOfPath(first), "the merged model is not a tree: "+sh.Shared+
				" are one and the same Go value, so a later file that changes one of them changes the other, which it never mentions")
		}
		if d.Ok != nil {
			if d.Hazard {
				if cls != "ok" {
					return core.Disagree(what + ": model ok, real fails (ipam aliasing-sensitive case)")
				}
				return nil
			}
			var r struct {
				Ok json.RawMessage `json:"ok"`
			}
			json.Unmarshal(real, &r)
			if r.Ok == nil || !core.CanonEqual(r.Ok, d.Ok) {
				return core.Disagree(what + ": model and implementation differ")
			}
			return nil
		}
		if cls != "err" && cls != "panic" {
			return core.Disagree(what + ": model fails, real succeeds")
		}
		if d.Loose {
			return nil
		}
		own, _ := json.Marshal(failOnly(drv))
		if core.CanonEqual(failOnly(real), own) {
			return nil
		}
		for _, a := range d.Alts {
			if core.CanonEqual(failOnly(real), a) {
				return nil
			}
		}
		return core.Disagree(what + ": real failure is not among the failures the model can reach")
	}
}

// failOnly keeps only the err / panic field of an outcome.
func failOnly(raw json.RawMessage) json.RawMessage {
	var m map[string]json.RawMessage
	if json.Unmarshal(raw, &m) != nil {
		return raw
	}
	out := map[string]json.RawMessage{}
	for _, k := range []string{"err", "panic"} {
		if v, ok := m[k]; ok {
			if k == "panic" {
				// closures created in init() are named pkg.init.N.f.funcM by the compiler
				v = json.RawMessage(c04InitRe.ReplaceAll(v, nil))
			}
			out[k] = v
		}
	}
	b, _ := json.Marshal(out)
	return b
}

// ---------------------------------------------------------------- real runners

type mergeSeqArgs struct {
	Base    json.RawMessage   `json:"base"`
	Overs   []json.RawMessage `json:"overs"`
	Unicity bool              `json:"unicity"`
	Extend  bool              `json:"extend"`
}

func asMap(v any) (map[string]any, bool) {
	m, ok := v.(map[string]any)
	return m, ok
}

func realMergeSeq(raw json.RawMessage) any {
	var a mergeSeqArgs
	if err := json.Unmarshal(raw, &a); err != nil {
		return map[string]any{"bad": err.Error()}
	}
	acc, ok := asMap(core.DecodeValRaw(a.Base))
	if !ok {
		return map[string]any{"err": "top-level"}
	}
	for _, o := range a.Overs {
		ov, ok := asMap(core.DecodeValRaw(o))
		if !ok {
			return map[string]any{"err": "top-level"}
		}
		var err error
		if a.Extend {
			acc, err = override.ExtendService(acc, ov)
		} else {
			acc, err = override.Merge(acc, ov)
		}
		if err != nil {
			return map[string]any{"err": c04ErrClass(err)}
		}
		if a.Unicity {
			acc, err = override.EnforceUnicity(acc)
			if err != nil {
				return map[string]any{"err": c04ErrClass(err)}
			}
		}
		if sh := c04Shared(acc); sh != "" {
			return map[string]any{"ok": core.EncodeVal(acc), "shared": sh}
		}
	}
	return map[string]any{"ok": core.EncodeVal(acc)}
}

// c04Shared checks that a merged model is a TREE: no two positions hold the same Go map (or the same non-empty slice).
// The Lean model has value semantics, so an aliasing slip in a merger (one default mapping stored under several keys,
// a pool appended twice, …) is invisible to it until a later in-place merge changes both positions at once; this
// observation catches every such slip at the merge that introduces it.  Returns "" or "posA = posB".
func c04Shared(v any) string {
	seen := map[uintptr]string{}
	var walk func(v any, path string) string
	walk = func(v any, path string) string {
		switch x := v.(type) {
		case map[string]any:
			if x != nil {
				p := reflect.ValueOf(x).Pointer()
				if q, dup := seen[p]; dup {
					return q + " = " + path
				}
				seen[p] = path
			}
			ks := make([]string, 0, len(x))
			for k := range x {
				ks = append(ks, k)
			}
			sort.Strings(ks)
			for _, k := range ks {
				if r := walk(x[k], path+"."+k); r != "" {
					return r
				}
			}
		case []any:
			if len(x) > 0 {
				p := reflect.ValueOf(x).Pointer()
				if q, dup := seen[p]; dup {
					return q + " = " + path
				}
				seen[p] = path
			}
			for i, e := range x {
				if r := walk(e, path+"."+strconv.Itoa(i)); r != "" {
					return r
				}
			}
		}
		return ""
	}
	return walk(v, "")
}

// ---- YAML documents with !reset / !override tags

// yDoc is the harness-side node: exactly one of Scalar / Seq / Map is meaningful.
type yDoc struct {
	Tag    string
	Kind   string // "scalar", "seq", "map"
	Scalar any
	Seq    []*yDoc
	Keys   []string
	Vals   []*yDoc
}

func (d *yDoc) wire() any {
	m := map[string]any{}
	if d.Tag != "" {
		m["t"] = d.Tag
	}
	switch d.Kind {
	case "scalar":
		m["v"] = core.EncodeVal(d.Scalar)
	case "seq":
		l := make([]any, len(d.Seq))
		for i, x := range d.Seq {
			l[i] = x.wire()
		}
		m["l"] = l
	case "map":
		l := make([]any, len(d.Keys))
		for i, k := range d.Keys {
			l[i] = []any{k, d.Vals[i].wire()}
		}
		m["m"] = l
	}
	return m
}

func yDocFromWire(raw json.RawMessage) *yDoc {
	var m map[string]json.RawMessage
	if json.Unmarshal(raw, &m) != nil {
		return &yDoc{Kind: "scalar"}
	}
	d := &yDoc{}
	if t, ok := m["t"]; ok {
		json.Unmarshal(t, &d.Tag)
	}
	if l, ok := m["l"]; ok {
		d.Kind = "seq"
		var items []json.RawMessage
		json.Unmarshal(l, &items)
		for _, it := range items {
			d.Seq = append(d.Seq, yDocFromWire(it))
		}
		return d
	}
	if mm, ok := m["m"]; ok {
		d.Kind = "map"
		var items [][]json.RawMessage
		json.Unmarshal(mm, &items)
		for _, it := range items {
			if len(it) != 2 {
				continue
			}
			var k string
			json.Unmarshal(it[0], &k)
			d.Keys = append(d.Keys, k)
			d.Vals = append(d.Vals, yDocFromWire(it[1]))
		}
		return d
	}
	d.Kind = "scalar"
	if v, ok := m["v"]; ok {
		d.Scalar = core.DecodeValRaw(v)
	}
	return d
}

func yamlQuote(s string) string {
	var b bytes.Buffer
	enc := json.NewEncoder(&b)
	enc.SetEscapeHTML(false)
	enc.Encode(s)
	return strings.TrimRight(b.String(), "\n")
}

// yaml renders the node in flow style (tags in front of the node they belong to).
func (d *yDoc) yaml() string {
	tag := ""
	if d.Tag != "" {
		tag = "!" + d.Tag + " "
	}
	switch d.Kind {
	case "seq":
		parts := make([]string, len(d.Seq))
		for i, x := range d.Seq {
			parts[i] = x.yaml()
		}
		return tag + "[" + strings.Join(parts, ", ") + "]"
	case "map":
		parts := make([]string, len(d.Keys))
		for i, k := range d.Keys {
			parts[i] = yamlQuote(k) + ": " + d.Vals[i].yaml()
		}
		return tag + "{" + strings.Join(parts, ", ") + "}"
	}
	return tag + yamlScalar(d.Scalar)
}

func yamlScalar(v any) string {
	switch x := v.(type) {
	case nil:
		return "null"
	case bool:
		return strconv.FormatBool(x)
	case int:
		return strconv.Itoa(x)
	case float64:
		s := strconv.FormatFloat(x, 'g', -1, 64)
		if !strings.ContainsAny(s, ".e") {
			s += ".0"
		}
		return s
	case string:
		return yamlQuote(x)
	}
	return yamlQuote(fmt.Sprint(v))
}

// plain tree → untagged yDoc (map keys sorted)
func yDocOf(v any) *yDoc {
	switch x := v.(type) {
	case *yDoc:
		return x
	case []any:
		d := &yDoc{Kind: "seq"}
		for _, e := range x {
			d.Seq = append(d.Seq, yDocOf(e))
		}
		return d
	case map[string]any:
		d := &yDoc{Kind: "map"}
		ks := make([]string, 0, len(x))
		for k := range x {
			ks = append(ks, k)
		}
		sort.Strings(ks)
		for _, k := range ks {
			d.Keys = append(d.Keys, k)
			d.Vals = append(d.Vals, yDocOf(x[k]))
		}
		return d
	}
	return &yDoc{Kind: "scalar", Scalar: v}
}

func tagged(tag string, v any) *yDoc {
	d := *yDocOf(v)
	d.Tag = tag
	return &d
}

type resetArgs struct {
	Doc json.RawMessage `json:"doc"`
}

type docsArgs struct {
	Base json.RawMessage   `json:"base"`
	Docs []json.RawMessage `json:"docs"`
}

func realDocs(raw json.RawMessage) any {
	var a docsArgs
	if err := json.Unmarshal(raw, &a); err != nil {
		return map[string]any{"bad": err.Error()}
	}
	acc, ok := asMap(core.DecodeValRaw(a.Base))
	if !ok {
		return map[string]any{"err": "top-level"}
	}
	for _, dr := range a.Docs {
		text := yDocFromWire(dr).yaml()
		v, paths, err := loader.VerifResetDecode([]byte(text))
		if err != nil {
			return map[string]any{"bad": "yaml: " + err.Error()}
		}
		cfg, ok := asMap(v)
		if !ok {
			return map[string]any{"err": "top-level"}
		}
		if err := loader.VerifResetApply(paths, acc); err != nil {
			return map[string]any{"err": "apply:" + err.Error()}
		}
		acc, err = override.Merge(acc, cfg)
		if err != nil {
			return map[string]any{"err": c04ErrClass(err)}
		}
		acc, err = override.EnforceUnicity(acc)
		if err != nil {
			return map[string]any{"err": c04ErrClass(err)}
		}
		if sh := c04Shared(acc); sh != "" {
			return map[string]any{"ok": core.EncodeVal(acc), "shared": sh}
		}
	}
	return map[string]any{"ok": core.EncodeVal(acc)}
}

func init() {
	core.Register("c04.pathNext", &core.CheckDef{
		Real: func(raw json.RawMessage) any {
			var a struct {
				Keys    []string `json:"keys"`
				Pattern string   `json:"pattern"`
			}
			json.Unmarshal(raw, &a)
			p := tree.NewPath()
			for _, k := range a.Keys {
				p = p.Next(k)
			}
			return map[string]any{"parts": p.Parts(), "matches": p.Matches(tree.Path(a.Pattern))}
		},
		DriverOp: "c04.pathNext",
	})
	core.Register("c04.mergeSeq", &core.CheckDef{Real: realMergeSeq, DriverOp: "c04.mergeSeq", Judge: c04Judge("merge")})
	core.Register("c04.unicity", &core.CheckDef{
		Real: func(raw json.RawMessage) any {
			var a struct {
				V json.RawMessage `json:"v"`
			}
			json.Unmarshal(raw, &a)
			m, ok := asMap(core.DecodeValRaw(a.V))
			if !ok {
				return map[string]any{"err": "top-level"}
			}
			u, err := override.EnforceUnicity(m)
			if err != nil {
				return map[string]any{"err": c04ErrClass(err)}
			}
			return map[string]any{"ok": core.EncodeVal(u)}
		},
		DriverOp: "c04.unicity", Judge: c04Judge("unicity"),
	})
	core.Register("c04.parseVolume", &core.CheckDef{
		Real: func(raw json.RawMessage) any {
			var a struct {
				Spec string `json:"spec"`
			}
			json.Unmarshal(raw, &a)
			v, err := format.ParseVolume(a.Spec)
			if err != nil {
				return map[string]any{"err": c04ErrClass(err)}
			}
			return map[string]any{"ok": v.Target}
		},
		DriverOp: "c04.parseVolume",
	})
	core.Register("c04.reset", &core.CheckDef{
		Real: func(raw json.RawMessage) any {
			var a resetArgs
			json.Unmarshal(raw, &a)
			text := yDocFromWire(a.Doc).yaml()
			v, paths, err := loader.VerifResetDecode([]byte(text))
			if err != nil {
				return map[string]any{"bad": "yaml: " + err.Error(), "text": text}
			}
			if paths == nil {
				paths = []string{}
			}
			return map[string]any{"value": core.EncodeVal(v), "paths": paths}
		},
		DriverOp: "c04.reset",
	})
	core.Register("c04.docs", &core.CheckDef{Real: realDocs, DriverOp: "c04.docs", Judge: c04Judge("docs")})
	core.RegisterProp("C04", runC04)
}
