package c04

// c04.apply — ResetProcessor.Apply (applyNullOverrides) against the model `Reset.applyNull`, on recorded-path lists the
// decode path never produces: wildcard parts, sequence positions `[i]` (the `continue ITER` branch: a recorded path
// `p.3` never matches `p.[3]`, so decode-produced paths never reach it), paths that stop above / run below the tree,
// duplicates, any order, keys with dots (escaped by Path.Next below the root, split at the root).
//
// The judge also decides, on the real code, the two laws proved about the model in Props/C04Whole.lean:
//   * Apply is idempotent                                   (applyNull_idem)
//   * Apply depends only on the SET of recorded paths       (applyNull_perm, applyNull_dup)
// — a failure of either is a property failure with the tree and the paths as failing input.

import (
	"encoding/json"
	"fmt"
	"math/rand"
	"strings"

	"github.com/compose-spec/compose-go/v2/loader"
	"github.com/compose-spec/compose-go/v2/tree"

	"verifharness/core"
)

type c04ApplyArgs struct {
	Tree  json.RawMessage `json:"tree"`
	Paths [][]string      `json:"paths"` // each recorded path as its dot-separated parts
	Perm  []int           `json:"perm"`  // a re-ordering of the paths, with repetitions
}

func c04PathStrs(ps [][]string) []string {
	out := make([]string, len(ps))
	for i, p := range ps {
		out[i] = strings.Join(p, ".")
	}
	return out
}

// every position of a tree as applyNullOverrides names it
func c04Positions(v any, p tree.Path, out *[]string) {
	switch x := v.(type) {
	case map[string]any:
		for k, e := range x {
			n := p.Next(k)
			*out = append(*out, string(n))
			c04Positions(e, n, out)
		}
	case []any:
		for i, e := range x {
			n := p.Next(fmt.Sprintf("[%d]", i))
			*out = append(*out, string(n))
			c04Positions(e, n, out)
		}
	}
}

func init() {
	core.Register("c04.apply", &core.CheckDef{
		Real: func(raw json.RawMessage) any {
			var a c04ApplyArgs
			if err := json.Unmarshal(raw, &a); err != nil {
				return map[string]any{"bad": err.Error()}
			}
			paths := c04PathStrs(a.Paths)
			t1 := core.DecodeValRaw(a.Tree)
			if err := loader.VerifResetApply(paths, t1); err != nil {
				return map[string]any{"err": err.Error()}
			}
			once, _ := json.Marshal(core.EncodeVal(t1))
			if err := loader.VerifResetApply(paths, t1); err != nil {
				return map[string]any{"err": err.Error()}
			}
			twice, _ := json.Marshal(core.EncodeVal(t1))
			var permuted []string
			for _, i := range a.Perm {
				if i >= 0 && i < len(paths) {
					permuted = append(permuted, paths[i])
				}
			}
			t2 := core.DecodeValRaw(a.Tree)
			if err := loader.VerifResetApply(permuted, t2); err != nil {
				return map[string]any{"err": err.Error()}
			}
			other, _ := json.Marshal(core.EncodeVal(t2))
			return map[string]any{"ok": json.RawMessage(once), "idem": string(once) == string(twice), "perm": string(once) == string(other)}
		},
		DriverOp: "c04.apply",
		Judge: func(args, real, drv json.RawMessage) *core.Verdict {
			if v := core.CrashVerdict(real); v != nil {
				return v
			}
			var r struct {
				Ok   json.RawMessage `json:"ok"`
				Idem bool            `json:"idem"`
				Perm bool            `json:"perm"`
			}
			var d struct {
				Ok json.RawMessage `json:"ok"`
			}
			if json.Unmarshal(real, &r) != nil || r.Ok == nil || json.Unmarshal(drv, &d) != nil || d.Ok == nil {
				return core.Disagree("apply: unreadable outcome")
			}
			if !r.Idem {
				return core.Fail("apply-not-idempotent", "ResetProcessor.Apply run twice with the same recorded paths changes the model again")
			}
			if !r.Perm {
				return core.Fail("apply-order-dependent", "ResetProcessor.Apply gives another model when the same recorded paths are listed in another order / repeated")
			}
			if !core.CanonEqual(r.Ok, d.Ok) {
				return core.Disagree("apply: model and implementation differ")
			}
			return nil
		},
	})
}

func runC04Apply(ctx *core.Ctx, g *c04g) {
	r := ctx.Rng
	for i := 0; i < ctx.Pick(3000, 60000); i++ {
		var t map[string]any
		if i%3 == 0 {
			m, ok := g.tree(4).(map[string]any)
			if !ok {
				continue
			}
			t = m
		} else {
			t = g.document()
		}
		var pos []string
		c04Positions(t, tree.NewPath(), &pos)
		if len(pos) == 0 {
			continue
		}
		// positions in a fixed order (map iteration is random): the case must replay identically
		sortStrings(pos)
		n := r.Intn(5)
		var paths [][]string
		for j := 0; j < n; j++ {
			parts := strings.Split(pos[r.Intn(len(pos))], ".")
			switch r.Intn(8) {
			case 0: // a wildcard
				parts[r.Intn(len(parts))] = "*"
				ctx.Count("apply:wildcard")
			case 1: // stops above
				if len(parts) > 1 {
					parts = parts[:len(parts)-1]
				}
			case 2: // runs below the tree
				parts = append(parts, g.str("A", "0", "[0]", "*"))
			case 3: // the decode spelling of a sequence position: `3` instead of `[3]`
				for k := range parts {
					if strings.HasPrefix(parts[k], "[") {
						parts[k] = strings.Trim(parts[k], "[]")
						ctx.Count("apply:decode-spelled-index")
					}
				}
			}
			for _, s := range parts {
				if strings.HasPrefix(s, "[") {
					ctx.Count("apply:sequence-position")
					break
				}
			}
			for _, s := range parts {
				if strings.Contains(s, "👻") {
					ctx.Count("apply:escaped-dot")
					break
				}
			}
			paths = append(paths, parts)
		}
		perm := rand.New(rand.NewSource(r.Int63())).Perm(len(paths))
		if len(paths) > 0 && r.Intn(2) == 0 {
			perm = append(perm, perm[r.Intn(len(perm))]) // a path recorded twice
		}
		if paths == nil {
			paths = [][]string{}
			ctx.Count("apply:no-paths")
		}
		ctx.Count("apply")
		ctx.Add("c04.apply", map[string]any{"tree": c04Wire(t), "paths": paths, "perm": perm})
	}
}

