package c04

// Generators for the C04 correspondence streams.

import (
	"fmt"
	"math/rand"

	"verifharness/core"
)

type c04g struct {
	r *rand.Rand
}

func (g *c04g) pick(l ...any) any        { return l[g.r.Intn(len(l))] }
func (g *c04g) str(l ...string) string   { return l[g.r.Intn(len(l))] }
func (g *c04g) chance(num, den int) bool { return g.r.Intn(den) < num }

var c04Keys = []string{"A", "B", "C", "D", "x-k", "a.b", "FOO"}
var c04Vals = []any{"1", "v", "", "a=b", "x y", 1, 0, true, 1.5, nil}

// KEY=VALUE style attribute in list or mapping spelling
func (g *c04g) kv() any {
	n := g.r.Intn(4)
	if g.chance(1, 2) {
		l := []any{}
		for i := 0; i < n; i++ {
			k := g.str(c04Keys...)
			switch g.r.Intn(4) {
			case 0:
				l = append(l, k)
			default:
				l = append(l, fmt.Sprintf("%s=%v", k, g.pick("1", "v", "", "a=b", "x y")))
			}
		}
		return l
	}
	m := map[string]any{}
	for i := 0; i < n; i++ {
		v := g.pick(c04Vals...)
		if g.chance(1, 12) {
			v = []any{"p", 2}
		}
		m[g.str(c04Keys...)] = v
	}
	return m
}

func (g *c04g) strList(pool ...string) any {
	n := g.r.Intn(4)
	l := []any{}
	for i := 0; i < n; i++ {
		l = append(l, g.str(pool...))
	}
	if n == 1 && g.chance(1, 3) {
		return l[0]
	}
	return l
}

func (g *c04g) port() any {
	switch g.r.Intn(5) {
	case 0:
		return g.pick(80, 443, 8080)
	case 1:
		return g.str("80", "8080:80", "127.0.0.1:8080:80", "8080:80/udp", "9000-9002:80", "443")
	default:
		m := map[string]any{"target": g.pick(80, 443, "80")}
		if g.chance(2, 3) {
			m["published"] = g.pick("8080", 8080, "9000-9002", nil)
		}
		if g.chance(1, 3) {
			m["protocol"] = g.str("tcp", "udp")
		}
		if g.chance(1, 4) {
			m["host_ip"] = g.str("127.0.0.1", "0.0.0.0")
		}
		if g.chance(1, 4) {
			m["mode"] = g.str("host", "ingress")
		}
		if g.chance(1, 10) {
			delete(m, "target")
		}
		return m
	}
}

var c04VolSpecs = []string{"/data", "vol:/data", "./src:/data", "./src:/data:ro", "vol:/data:rw,nocopy", "c:\\x:/data", "/a:/b:ro:z", "a", "ab", ":", "a::b", "", "é:/t", "~/x:/y:z", "v:/data:ro"}

func (g *c04g) volume() any {
	if g.chance(1, 2) {
		return g.str(c04VolSpecs...)
	}
	m := map[string]any{"type": g.str("volume", "bind", "tmpfs"), "target": g.pick("/data", "/b", "/y", 3)}
	if g.chance(2, 3) {
		m["source"] = g.str("vol", "./src", "/a")
	}
	if g.chance(1, 3) {
		m["read_only"] = g.chance(1, 2)
	}
	if g.chance(1, 10) {
		delete(m, "target")
	}
	return m
}

func (g *c04g) mount() any {
	if g.chance(1, 2) {
		return g.str("s1", "s2", "cfg")
	}
	m := map[string]any{"source": g.pick("s1", "s2", "cfg", 1)}
	if g.chance(1, 2) {
		m["target"] = g.pick("/run/secrets/s1", "/s2", "s1", "/cfg", nil, 4)
	}
	if g.chance(1, 3) {
		m["mode"] = g.pick(0o440, "0440")
	}
	if g.chance(1, 8) {
		delete(m, "source")
	}
	return m
}

func (g *c04g) device() any {
	if g.chance(2, 3) {
		return g.str("/dev/a", "/dev/a:/dev/b", "/dev/a:/dev/b:rw", "/dev/c:/dev/b", "x")
	}
	m := map[string]any{"source": "/dev/a", "target": g.pick("/dev/b", "/dev/a", 1)}
	if g.chance(1, 8) {
		delete(m, "target")
	}
	return m
}

func (g *c04g) envFile() any {
	switch g.r.Intn(3) {
	case 0:
		return g.str("a.env", "b.env")
	case 1:
		return g.list(func() any { return g.str("a.env", "b.env", "c.env") })
	}
	return g.list(func() any {
		if g.chance(1, 2) {
			return g.str("a.env", "b.env")
		}
		m := map[string]any{"path": g.pick("a.env", "b.env", "c.env", 1), "required": g.chance(1, 2)}
		if g.chance(1, 8) {
			delete(m, "path")
		}
		return m
	})
}

func (g *c04g) list(f func() any) []any {
	n := g.r.Intn(4)
	l := []any{}
	for i := 0; i < n; i++ {
		l = append(l, f())
	}
	return l
}

func (g *c04g) dependsOn() any {
	names := []string{"db", "cache", "mq"}
	if g.chance(1, 2) {
		return g.list(func() any { return g.str(names...) })
	}
	m := map[string]any{}
	for i := g.r.Intn(3); i > 0; i-- {
		e := map[string]any{"condition": g.str("service_started", "service_healthy")}
		if g.chance(1, 2) {
			e["required"] = g.chance(1, 2)
		}
		if g.chance(1, 3) {
			e["restart"] = true
		}
		m[g.str(names...)] = e
	}
	return m
}

func (g *c04g) svcNetworks() any {
	names := []string{"front", "back", "default"}
	if g.chance(1, 2) {
		return g.list(func() any { return g.str(names...) })
	}
	m := map[string]any{}
	for i := g.r.Intn(3); i > 0; i-- {
		var e any
		if g.chance(2, 3) {
			em := map[string]any{}
			if g.chance(1, 2) {
				em["aliases"] = g.list(func() any { return g.str("a1", "a2", "a3") })
			}
			if g.chance(1, 3) {
				em["ipv4_address"] = g.str("10.0.0.2", "10.0.0.3")
			}
			if g.chance(1, 3) {
				em["link_local_ips"] = g.list(func() any { return g.str("169.254.0.1", "169.254.0.2") })
			}
			if g.chance(1, 3) {
				em["priority"] = g.r.Intn(3)
			}
			e = em
		}
		m[g.str(names...)] = e
	}
	return m
}

func (g *c04g) build() any {
	if g.chance(1, 3) {
		return g.str(".", "./dir", "ctx")
	}
	m := map[string]any{}
	if g.chance(2, 3) {
		m["context"] = g.str(".", "./dir")
	}
	if g.chance(1, 2) {
		m["dockerfile"] = g.str("Dockerfile", "D2")
	}
	if g.chance(1, 2) {
		m["args"] = g.kv()
	}
	if g.chance(1, 3) {
		m["labels"] = g.kv()
	}
	if g.chance(1, 3) {
		m["additional_contexts"] = g.kv()
	}
	if g.chance(1, 3) {
		m["extra_hosts"] = g.extraHosts()
	}
	if g.chance(1, 3) {
		m["tags"] = g.strList("t:1", "t:2", "u=1")
	}
	if g.chance(1, 4) {
		m["platforms"] = g.strList("linux/amd64", "linux/arm64")
	}
	if g.chance(1, 4) {
		m["target"] = g.str("prod", "dev")
	}
	return m
}

func (g *c04g) extraHosts() any {
	if g.chance(1, 2) {
		return g.list(func() any { return g.str("h1=10.0.0.1", "h1:10.0.0.1", "h2=10.0.0.2", "h1=10.0.0.9") })
	}
	m := map[string]any{}
	for i := g.r.Intn(3); i > 0; i-- {
		var v any = g.str("10.0.0.1", "10.0.0.2", "10.0.0.9")
		if g.chance(1, 4) {
			v = []any{"10.0.0.1", "::1"}
		}
		m[g.str("h1", "h2", "h3")] = v
	}
	return m
}

func (g *c04g) logging() any {
	m := map[string]any{}
	if g.chance(2, 3) {
		m["driver"] = g.pick("json-file", "syslog", "none")
	}
	if g.chance(2, 3) {
		o := map[string]any{}
		for i := g.r.Intn(3); i > 0; i-- {
			o[g.str("max-size", "max-file", "tag")] = g.pick("10m", "3", 3)
		}
		m["options"] = o
	}
	return m
}

func (g *c04g) ulimits() any {
	m := map[string]any{}
	for i := g.r.Intn(3); i > 0; i-- {
		if g.chance(1, 2) {
			m[g.str("nofile", "nproc")] = g.pick(1024, 65535, "100")
		} else {
			e := map[string]any{"soft": g.pick(1024, 2048), "hard": g.pick(4096, 8192)}
			if g.chance(1, 6) {
				e["x"] = []any{1}
			}
			if g.chance(1, 6) {
				e["n"] = map[string]any{"l": []any{"q"}, "s": 1}
			}
			m[g.str("nofile", "nproc")] = e
		}
	}
	return m
}

func (g *c04g) healthcheck() any {
	m := map[string]any{}
	if g.chance(2, 3) {
		m["test"] = g.pick("curl -f http://x", []any{"CMD", "true"}, []any{"NONE"}, []any{"CMD-SHELL", "a", "b"})
	}
	if g.chance(1, 2) {
		m["interval"] = g.str("10s", "1m")
	}
	if g.chance(1, 2) {
		m["retries"] = g.pick(3, 5)
	}
	if g.chance(1, 4) {
		m["disable"] = g.chance(1, 2)
	}
	return m
}

func (g *c04g) deploy() any {
	m := map[string]any{}
	if g.chance(1, 2) {
		m["replicas"] = g.pick(1, 2, 3)
	}
	if g.chance(1, 2) {
		m["labels"] = g.kv()
	}
	if g.chance(1, 2) {
		m["resources"] = map[string]any{"limits": map[string]any{"cpus": g.pick("0.5", "1", 0.25), "memory": g.str("50M", "1G")}}
	}
	if g.chance(1, 3) {
		m["placement"] = map[string]any{"constraints": g.list(func() any { return g.str("node.role==manager", "a==b") })}
	}
	return m
}

var c04SvcAttrs = []string{"environment", "labels", "annotations", "sysctls", "tmpfs", "dns", "dns_opt", "dns_search", "cap_add", "cap_drop",
	"links", "profiles", "expose", "env_file", "label_file", "extra_hosts", "command", "entrypoint", "healthcheck", "logging", "build",
	"depends_on", "networks", "ports", "volumes", "secrets", "configs", "devices", "ulimits", "deploy", "image", "mem_limit", "privileged",
	"cpus", "security_opt", "x-ext", "external_links", "group_add"}

func (g *c04g) svcAttr(name string) any {
	switch name {
	case "environment", "labels", "annotations", "sysctls":
		return g.kv()
	case "tmpfs":
		return g.pick(g.strList("/run", "/tmp", "/run:size=1m"), "/run")
	case "dns":
		return g.strList("8.8.8.8", "1.1.1.1", "9.9.9.9")
	case "dns_opt", "dns_search":
		return g.strList("use-vc", "no-tld-query", "a.example")
	case "cap_add", "cap_drop":
		return g.strList("ALL", "NET_ADMIN", "SYS_ADMIN")
	case "links", "external_links":
		return g.strList("db", "db:database", "cache")
	case "profiles":
		return g.strList("dev", "test", "prod")
	case "expose":
		return g.list(func() any { return g.pick("80", 80, "443", "8000-8010", 8080) })
	case "env_file", "label_file":
		return g.envFile()
	case "extra_hosts":
		return g.extraHosts()
	case "command", "entrypoint":
		return g.pick("echo hi", []any{"echo", "hi"}, []any{}, nil, "")
	case "healthcheck":
		return g.healthcheck()
	case "logging":
		return g.logging()
	case "build":
		return g.build()
	case "depends_on":
		return g.dependsOn()
	case "networks":
		return g.svcNetworks()
	case "ports":
		return g.list(g.port)
	case "volumes":
		return g.list(g.volume)
	case "secrets", "configs":
		return g.list(g.mount)
	case "devices":
		return g.list(g.device)
	case "ulimits":
		return g.ulimits()
	case "deploy":
		return g.deploy()
	case "image":
		return g.str("nginx", "redis:7", "busybox")
	case "mem_limit":
		return g.pick("1g", "512m", 1024)
	case "privileged":
		return g.chance(1, 2)
	case "cpus":
		return g.pick(0.5, 1.5, "2")
	case "security_opt", "group_add":
		return g.strList("label:disable", "seccomp:unconfined", "a")
	case "x-ext":
		return g.pick(map[string]any{"a": 1, "l": []any{1}}, []any{"p"}, "s", map[string]any{"b": map[string]any{"c": 2}})
	}
	return nil
}

func (g *c04g) service() map[string]any {
	s := map[string]any{}
	n := 1 + g.r.Intn(6)
	for i := 0; i < n; i++ {
		a := c04SvcAttrs[g.r.Intn(len(c04SvcAttrs))]
		s[a] = g.svcAttr(a)
	}
	return s
}

func (g *c04g) ipamPool() any {
	m := map[string]any{}
	if g.chance(5, 6) {
		m["subnet"] = g.pick("10.0.0.0/24", "10.0.1.0/24", "10.0.2.0/24", nil)
	}
	if g.chance(1, 2) {
		m["gateway"] = g.str("10.0.0.1", "10.0.1.1")
	}
	if g.chance(1, 3) {
		m["ip_range"] = g.str("10.0.0.0/25", "10.0.1.0/25")
	}
	if g.chance(1, 5) {
		m["aux_addresses"] = map[string]any{g.str("h1", "h2"): g.str("10.0.0.5", "10.0.0.6")}
	}
	return m
}

func (g *c04g) network() any {
	if g.chance(1, 8) {
		return nil
	}
	m := map[string]any{}
	if g.chance(1, 2) {
		m["driver"] = g.str("bridge", "overlay")
	}
	if g.chance(1, 2) {
		m["labels"] = g.kv()
	}
	if g.chance(2, 3) {
		ip := map[string]any{}
		if g.chance(1, 3) {
			ip["driver"] = "default"
		}
		if g.chance(4, 5) {
			ip["config"] = g.list(g.ipamPool)
		}
		if g.chance(1, 3) {
			ip["options"] = map[string]any{g.str("o1", "o2"): g.str("a", "b")}
		}
		m["ipam"] = ip
	}
	if g.chance(1, 4) {
		m["driver_opts"] = map[string]any{g.str("o1", "o2"): g.pick("a", 1)}
	}
	return m
}

func (g *c04g) volumeDef() any {
	if g.chance(1, 4) {
		return nil
	}
	m := map[string]any{}
	if g.chance(1, 2) {
		m["labels"] = g.kv()
	}
	if g.chance(1, 2) {
		m["driver"] = g.str("local", "nfs")
	}
	if g.chance(1, 3) {
		m["driver_opts"] = map[string]any{g.str("o1", "o2"): g.pick("a", 1)}
	}
	return m
}

// document: a mostly-valid compose model in raw (pre-canonical) form
func (g *c04g) document() map[string]any {
	d := map[string]any{}
	if g.chance(9, 10) {
		svcs := map[string]any{}
		for i := 1 + g.r.Intn(2); i > 0; i-- {
			svcs[g.str("web", "db", "a.b")] = g.service()
		}
		d["services"] = svcs
	}
	if g.chance(1, 2) {
		nets := map[string]any{}
		for i := 1 + g.r.Intn(2); i > 0; i-- {
			nets[g.str("front", "back")] = g.network()
		}
		d["networks"] = nets
	}
	if g.chance(1, 3) {
		vols := map[string]any{}
		for i := 1 + g.r.Intn(2); i > 0; i-- {
			vols[g.str("vol", "data")] = g.volumeDef()
		}
		d["volumes"] = vols
	}
	if g.chance(1, 5) {
		d["secrets"] = map[string]any{g.str("s1", "s2"): map[string]any{g.str("file", "environment"): g.str("./s.txt", "S")}}
	}
	if g.chance(1, 5) {
		d["configs"] = map[string]any{g.str("cfg", "c2"): map[string]any{g.str("file", "content"): g.str("./c.txt", "C")}}
	}
	if g.chance(1, 6) {
		d["x-top"] = g.pick(map[string]any{"a": 1}, []any{1}, "s")
	}
	if g.chance(1, 8) {
		d["name"] = g.str("p1", "p2")
	}
	return d
}

// malformed: replace the value at one random position of the tree by a value of a random node kind
func (g *c04g) mutateKind(v any, depth int) any {
	switch x := v.(type) {
	case map[string]any:
		if len(x) > 0 && (depth < 1 || g.chance(3, 4)) {
			ks := sortedKeys(x)
			k := ks[g.r.Intn(len(ks))]
			x[k] = g.mutateKind(x[k], depth+1)
			return x
		}
	case []any:
		if len(x) > 0 && g.chance(1, 2) {
			i := g.r.Intn(len(x))
			x[i] = g.mutateKind(x[i], depth+1)
			return x
		}
	}
	return core.KindValue(core.Kinds[g.r.Intn(len(core.Kinds))], g.r)
}

func sortedKeys(m map[string]any) []string {
	ks := make([]string, 0, len(m))
	for k := range m {
		ks = append(ks, k)
	}
	sortStrings(ks)
	return ks
}

func sortStrings(s []string) {
	for i := 1; i < len(s); i++ {
		for j := i; j > 0 && s[j] < s[j-1]; j-- {
			s[j], s[j-1] = s[j-1], s[j]
		}
	}
}

// random untyped tree over a small key alphabet that hits the rule tables
var c04TreeKeys = []string{"services", "networks", "volumes", "a", "labels", "environment", "command", "build", "args", "logging", "driver",
	"depends_on", "ulimits", "nofile", "ipam", "config", "subnet", "ports", "target", "x-a", "dns", "extra_hosts", "secrets", "source", "options", "aliases"}

func (g *c04g) tree(depth int) any {
	if depth <= 0 || g.chance(1, 4) {
		return core.KindValue(core.Kinds[g.r.Intn(len(core.Kinds))], g.r)
	}
	if g.chance(1, 5) {
		return g.list(func() any { return g.tree(depth - 1) })
	}
	m := map[string]any{}
	for i := g.r.Intn(4); i > 0; i-- {
		m[g.str(c04TreeKeys...)] = g.tree(depth - 1)
	}
	return m
}
